//! Shared by C07/C09/C11 (and included by other harness binaries with
//! `#[path = "../tree.rs"] mod tree;`).
//!
//! * `ser_types` / `ser_kind`: serialise a `wac_types::Types` collection and an `ItemKind`
//!   through the *public API* (arena iterators, `Display` of ids = index) into the text form
//!   documented at the top of `lean/WacModel/Tree.lean`.
//! * `D`: a small structural type-description DSL (mirror of the Lean `Tree`, plus `Alias`);
//!   `Builder` turns descriptions into entries of a `Types` collection.
//! * `types_from_wit`: WIT text -> component bytes (`wit_component`) -> `Package::from_bytes`.
//! * `oracle_subtype`: encodes two descriptions with `wasm-encoder` *directly* (not via wac) as
//!   two exports of one imported instance type, validates with `wasmparser` and asks
//!   `ComponentEntityType::is_subtype_of`.
#![allow(dead_code)]

use std::collections::HashMap;
use std::fmt::Write as _;
use wac_types::{
    CoreExtern, CoreFuncType, CoreRefType, CoreType, DefinedType, Enum, Flags, FuncType, HeapType, Interface, ItemKind,
    ModuleType, Package, PrimitiveType, Record, Resource, ResourceAlias, ResourceId, Type, Types, UsedType, ValueType,
    Variant, World,
};

// ------------------------------------------------------------------------------------------
// text form

/// `$`-prefixed string atom
pub fn satom(s: &str) -> String {
    let mut out = String::with_capacity(s.len() + 1);
    out.push('$');
    for c in s.chars() {
        let ok = c.is_ascii_alphanumeric() || "-_.:/@[]#+=<>!*~^&|?;".contains(c);
        // `;` terminates a %HEX; escape only after a `%`, which is itself always escaped
        if ok {
            out.push(c);
        } else {
            write!(out, "%{:x};", c as u32).unwrap();
        }
    }
    out
}

fn b(x: bool) -> &'static str {
    if x {
        "1"
    } else {
        "0"
    }
}

fn oatom(s: Option<&str>) -> String {
    match s {
        None => "_".into(),
        Some(s) => satom(s),
    }
}

pub fn prim_name(p: PrimitiveType) -> &'static str {
    p.desc()
}

pub fn ser_vt(v: ValueType) -> String {
    match v {
        ValueType::Primitive(p) => prim_name(p).to_string(),
        ValueType::Borrow(r) => format!("(bor,{r})"),
        ValueType::Own(r) => format!("(own,{r})"),
        ValueType::Defined(d) => format!("(def,{d})"),
    }
}

fn ser_ovt(v: &Option<ValueType>) -> String {
    match v {
        None => "_".into(),
        Some(v) => ser_vt(*v),
    }
}

pub fn ser_defined(d: &DefinedType) -> String {
    match d {
        DefinedType::Tuple(ts) => {
            let mut s = "(tuple".to_string();
            for t in ts {
                s.push(',');
                s.push_str(&ser_vt(*t));
            }
            s.push(')');
            s
        }
        DefinedType::List(t) => format!("(list,{})", ser_vt(*t)),
        DefinedType::FixedSizeList(t, n) => format!("(flist,{},{})", ser_vt(*t), n),
        DefinedType::Option(t) => format!("(option,{})", ser_vt(*t)),
        DefinedType::Result { ok, err } => format!("(result,{},{})", ser_ovt(ok), ser_ovt(err)),
        DefinedType::Variant(v) => {
            let mut s = "(variant".to_string();
            for (n, t) in &v.cases {
                write!(s, ",({},{})", satom(n), ser_ovt(t)).unwrap();
            }
            s.push(')');
            s
        }
        DefinedType::Record(r) => {
            let mut s = "(record".to_string();
            for (n, t) in &r.fields {
                write!(s, ",({},{})", satom(n), ser_vt(*t)).unwrap();
            }
            s.push(')');
            s
        }
        DefinedType::Flags(f) => {
            let mut s = "(flags".to_string();
            for n in &f.0 {
                write!(s, ",{}", satom(n)).unwrap();
            }
            s.push(')');
            s
        }
        DefinedType::Enum(f) => {
            let mut s = "(enum".to_string();
            for n in &f.0 {
                write!(s, ",{}", satom(n)).unwrap();
            }
            s.push(')');
            s
        }
        DefinedType::Alias(t) => format!("(alias,{})", ser_vt(*t)),
        DefinedType::Stream(t) => format!("(stream,{})", ser_ovt(t)),
        DefinedType::Future(t) => format!("(future,{})", ser_ovt(t)),
    }
}

pub fn ser_ty(t: Type) -> String {
    match t {
        Type::Resource(r) => format!("(res,{r})"),
        Type::Func(f) => format!("(func,{f})"),
        Type::Value(v) => format!("(val,{})", ser_vt(v)),
        Type::Interface(i) => format!("(iface,{i})"),
        Type::World(w) => format!("(world,{w})"),
        Type::Module(m) => format!("(mod,{m})"),
    }
}

pub fn ser_kind(k: ItemKind) -> String {
    match k {
        ItemKind::Type(t) => format!("(type,{})", ser_ty(t)),
        ItemKind::Func(f) => format!("(func,{f})"),
        ItemKind::Instance(i) => format!("(inst,{i})"),
        ItemKind::Component(w) => format!("(comp,{w})"),
        ItemKind::Module(m) => format!("(mod,{m})"),
        ItemKind::Value(v) => format!("(val,{})", ser_vt(v)),
    }
}

fn ser_items<'a>(it: impl Iterator<Item = (&'a String, &'a ItemKind)>) -> String {
    let mut s = "(".to_string();
    let mut first = true;
    for (n, k) in it {
        if !first {
            s.push(',');
        }
        first = false;
        write!(s, "({},{})", satom(n), ser_kind(*k)).unwrap();
    }
    s.push(')');
    s
}

fn ser_uses<'a>(it: impl Iterator<Item = (&'a String, &'a UsedType)>) -> String {
    let mut s = "(".to_string();
    let mut first = true;
    for (n, u) in it {
        if !first {
            s.push(',');
        }
        first = false;
        write!(s, "({},{},{})", satom(n), u.interface, oatom(u.name.as_deref())).unwrap();
    }
    s.push(')');
    s
}

pub fn heap_name(h: HeapType) -> String {
    match h {
        HeapType::Concrete(n) => format!("(concrete,{n})"),
        HeapType::Func => "func".into(),
        HeapType::Extern => "extern".into(),
        HeapType::Any => "any".into(),
        HeapType::None => "none".into(),
        HeapType::NoExtern => "noextern".into(),
        HeapType::NoFunc => "nofunc".into(),
        HeapType::Eq => "eq".into(),
        HeapType::Struct => "struct".into(),
        HeapType::Array => "array".into(),
        HeapType::I31 => "i31".into(),
        HeapType::Exn => "exn".into(),
        HeapType::NoExn => "noexn".into(),
        HeapType::Cont => "cont".into(),
        HeapType::NoCont => "nocont".into(),
    }
}

fn ser_ref(r: CoreRefType) -> String {
    format!("(ref,{},{})", b(r.nullable), heap_name(r.heap_type))
}

fn ser_core_type(t: CoreType) -> String {
    match t {
        CoreType::I32 => "i32".into(),
        CoreType::I64 => "i64".into(),
        CoreType::F32 => "f32".into(),
        CoreType::F64 => "f64".into(),
        CoreType::V128 => "v128".into(),
        CoreType::Ref(r) => ser_ref(r),
    }
}

fn ser_core_func(f: &CoreFuncType) -> String {
    let ps: Vec<String> = f.params.iter().map(|t| ser_core_type(*t)).collect();
    let rs: Vec<String> = f.results.iter().map(|t| ser_core_type(*t)).collect();
    format!("(({}),({}))", ps.join(","), rs.join(","))
}

fn onum<T: std::fmt::Display>(o: &Option<T>) -> String {
    match o {
        None => "_".into(),
        Some(n) => n.to_string(),
    }
}

pub fn ser_extern(e: &CoreExtern) -> String {
    match e {
        CoreExtern::Func(f) => format!("(func,{})", ser_core_func(f)),
        CoreExtern::Tag(f) => format!("(tag,{})", ser_core_func(f)),
        CoreExtern::Table { element_type, initial, maximum, table64, shared } => {
            format!("(table,{},{},{},{},{})", ser_ref(*element_type), initial, onum(maximum), b(*table64), b(*shared))
        }
        CoreExtern::Memory { memory64, shared, initial, maximum, page_size_log2 } => {
            format!("(memory,{},{},{},{},{})", b(*memory64), b(*shared), initial, onum(maximum), onum(page_size_log2))
        }
        CoreExtern::Global { val_type, mutable, shared } => {
            format!("(global,{},{},{})", ser_core_type(*val_type), b(*mutable), b(*shared))
        }
    }
}

pub fn ser_module(m: &ModuleType) -> String {
    let is: Vec<String> =
        m.imports.iter().map(|((a, n), e)| format!("({},{},{})", satom(a), satom(n), ser_extern(e))).collect();
    let es: Vec<String> = m.exports.iter().map(|(n, e)| format!("({},{})", satom(n), ser_extern(e))).collect();
    format!("(module,({}),({}))", is.join(","), es.join(","))
}

/// The whole collection.  `uid` identifies the collection within one protocol line (two ids
/// are `==` in Rust iff they come from the same collection and have the same index).
pub fn ser_types(types: &Types, uid: u64) -> String {
    let mut s = format!("(T,{uid},(D");
    for d in types.defined_types() {
        s.push(',');
        s.push_str(&ser_defined(d));
    }
    s.push_str("),(R");
    for r in types.resources() {
        match &r.alias {
            None => write!(s, ",(res,{})", satom(&r.name)).unwrap(),
            Some(a) => write!(s, ",(res,{},{},{})", satom(&r.name), onum(&a.owner), a.source).unwrap(),
        }
    }
    s.push_str("),(F");
    for f in types.func_types() {
        let ps: Vec<String> = f.params.iter().map(|(n, t)| format!("({},{})", satom(n), ser_vt(*t))).collect();
        write!(s, ",(func,{},({}),{})", b(f.is_async), ps.join(","), ser_ovt(&f.result)).unwrap();
    }
    s.push_str("),(I");
    for i in types.interfaces() {
        write!(s, ",(iface,{},{},{})", oatom(i.id.as_deref()), ser_uses(i.uses.iter()), ser_items(i.exports.iter()))
            .unwrap();
    }
    s.push_str("),(W");
    for w in types.worlds() {
        write!(
            s,
            ",(world,{},{},{},{})",
            oatom(w.id.as_deref()),
            ser_uses(w.uses.iter()),
            ser_items(w.imports.iter()),
            ser_items(w.exports.iter())
        )
        .unwrap();
    }
    s.push_str("),(M");
    for m in types.modules() {
        s.push(',');
        s.push_str(&ser_module(m));
    }
    s.push_str("))");
    s
}

// ------------------------------------------------------------------------------------------
// WIT -> Types

/// Encode a WIT package text with `wit_component` and decode it with `Package::from_bytes`
/// into `types`.  The package's world (`types[pkg.ty()]`) exports every interface / world of
/// the WIT package (see `Package::definitions`).
pub fn types_from_wit(name: &str, wit: &str, types: &mut Types) -> anyhow::Result<Package> {
    let mut resolve = wit_parser::Resolve::new();
    let pkg = resolve.push_str(format!("{name}.wit"), wit)?;
    let bytes = wit_component::encode(&resolve, pkg)?;
    Package::from_bytes(name, None, bytes, types)
}

/// Several WIT packages (dependencies first); returns the bytes of the last one.
pub fn wit_bytes(wits: &[(&str, &str)]) -> anyhow::Result<Vec<u8>> {
    let mut resolve = wit_parser::Resolve::new();
    let mut last = None;
    for (name, wit) in wits {
        last = Some(resolve.push_str(format!("{name}.wit"), wit)?);
    }
    Ok(wit_component::encode(&resolve, last.unwrap())?)
}

// ------------------------------------------------------------------------------------------
// description DSL

#[derive(Clone, Debug, PartialEq, Eq, Hash)]
pub enum D {
    Prim(PrimitiveType),
    /// resources are referred to by a name of the universe (`Builder::resource`)
    Own(String),
    Borrow(String),
    Resource(String),
    Tuple(Vec<D>),
    List(Box<D>),
    FList(Box<D>, u32),
    Option(Box<D>),
    Result(Option<Box<D>>, Option<Box<D>>),
    Variant(Vec<(String, Option<D>)>),
    Record(Vec<(String, D)>),
    Flags(Vec<String>),
    Enum(Vec<String>),
    Stream(Option<Box<D>>),
    Future(Option<Box<D>>),
    /// `DefinedType::Alias` of the inner value type (disappears in the tree)
    Alias(Box<D>),
    Func { is_async: bool, params: Vec<(String, D)>, result: Option<Box<D>> },
    Instance(Vec<(String, D)>),
    Component(Vec<(String, D)>, Vec<(String, D)>),
    Module(MDesc),
    /// `ItemKind::Value`
    Value(Box<D>),
    /// `ItemKind::Type` of a value type / func / instance / component / module / resource
    Type(Box<D>),
}

/// module type description (CoreExtern is not Hash/Eq, keep the text form as identity)
#[derive(Clone, Debug)]
pub struct MDesc(pub ModuleType);
impl PartialEq for MDesc {
    fn eq(&self, o: &Self) -> bool {
        ser_module(&self.0) == ser_module(&o.0)
    }
}
impl Eq for MDesc {}
impl std::hash::Hash for MDesc {
    fn hash<H: std::hash::Hasher>(&self, h: &mut H) {
        ser_module(&self.0).hash(h)
    }
}

impl D {
    pub fn is_value_type(&self) -> bool {
        !matches!(
            self,
            D::Func { .. } | D::Instance(_) | D::Component(..) | D::Module(_) | D::Value(_) | D::Type(_) | D::Resource(_)
        )
    }
    pub fn is_item(&self) -> bool {
        matches!(self, D::Func { .. } | D::Instance(_) | D::Component(..) | D::Module(_) | D::Value(_) | D::Type(_))
    }
    /// the description without `Alias` nodes
    pub fn strip(&self) -> D {
        let bx = |d: &D| Box::new(d.strip());
        let ob = |d: &Option<Box<D>>| d.as_ref().map(|d| Box::new(d.strip()));
        let items = |v: &Vec<(String, D)>| v.iter().map(|(n, d)| (n.clone(), d.strip())).collect::<Vec<_>>();
        match self {
            D::Alias(d) => d.strip(),
            D::Tuple(v) => D::Tuple(v.iter().map(|d| d.strip()).collect()),
            D::List(d) => D::List(bx(d)),
            D::FList(d, n) => D::FList(bx(d), *n),
            D::Option(d) => D::Option(bx(d)),
            D::Result(a, b) => D::Result(ob(a), ob(b)),
            D::Variant(cs) => D::Variant(cs.iter().map(|(n, d)| (n.clone(), d.as_ref().map(|d| d.strip()))).collect()),
            D::Record(fs) => D::Record(items(fs)),
            D::Stream(d) => D::Stream(ob(d)),
            D::Future(d) => D::Future(ob(d)),
            D::Func { is_async, params, result } => {
                D::Func { is_async: *is_async, params: items(params), result: ob(result) }
            }
            D::Instance(es) => D::Instance(items(es)),
            D::Component(is, es) => D::Component(items(is), items(es)),
            D::Value(d) => D::Value(bx(d)),
            D::Type(d) => D::Type(bx(d)),
            d => d.clone(),
        }
    }
    pub fn has_resource(&self) -> bool {
        let any = |v: &Vec<(String, D)>| v.iter().any(|(_, d)| d.has_resource());
        let ob = |d: &Option<Box<D>>| d.as_ref().map(|d| d.has_resource()).unwrap_or(false);
        match self {
            D::Own(_) | D::Borrow(_) | D::Resource(_) => true,
            D::Tuple(v) => v.iter().any(|d| d.has_resource()),
            D::List(d) | D::FList(d, _) | D::Option(d) | D::Alias(d) | D::Value(d) | D::Type(d) => d.has_resource(),
            D::Result(a, b) => ob(a) || ob(b),
            D::Variant(cs) => cs.iter().any(|(_, d)| d.as_ref().map(|d| d.has_resource()).unwrap_or(false)),
            D::Record(fs) => any(fs),
            D::Stream(d) | D::Future(d) => ob(d),
            D::Func { params, result, .. } => any(params) || ob(result),
            D::Instance(es) => any(es),
            D::Component(is, es) => any(is) || any(es),
            _ => false,
        }
    }
    /// canonical text of the stripped description (identity of structural types)
    pub fn canon(&self) -> String {
        format!("{:?}", self.strip())
    }
    pub fn depth(&self) -> usize {
        let mx = |v: &Vec<(String, D)>| v.iter().map(|(_, d)| d.depth()).max().unwrap_or(0);
        let ob = |d: &Option<Box<D>>| d.as_ref().map(|d| d.depth()).unwrap_or(0);
        1 + match self {
            D::Tuple(v) => v.iter().map(|d| d.depth()).max().unwrap_or(0),
            D::List(d) | D::FList(d, _) | D::Option(d) | D::Alias(d) | D::Value(d) | D::Type(d) => d.depth(),
            D::Result(a, b) => ob(a).max(ob(b)),
            D::Variant(cs) => cs.iter().map(|(_, d)| d.as_ref().map(|d| d.depth()).unwrap_or(0)).max().unwrap_or(0),
            D::Record(fs) => mx(fs),
            D::Stream(d) | D::Future(d) => ob(d),
            D::Func { params, result, .. } => mx(params).max(ob(result)),
            D::Instance(es) => mx(es),
            D::Component(is, es) => mx(is).max(mx(es)),
            _ => 0,
        }
    }
}

pub fn prim(p: PrimitiveType) -> D {
    D::Prim(p)
}
pub fn named(v: &[(&str, D)]) -> Vec<(String, D)> {
    v.iter().map(|(n, d)| (n.to_string(), d.clone())).collect()
}
pub fn func(is_async: bool, params: &[(&str, D)], result: Option<D>) -> D {
    D::Func { is_async, params: named(params), result: result.map(Box::new) }
}

/// Builds descriptions into a `Types` collection.  With `share` on, structurally identical
/// sub-descriptions are built once (so the checker's `a == b` id shortcuts are exercised).
pub struct Builder<'a> {
    pub types: &'a mut Types,
    pub share: bool,
    memo_vt: HashMap<D, ValueType>,
    memo_kind: HashMap<D, ItemKind>,
    resources: HashMap<String, ResourceId>,
}

impl<'a> Builder<'a> {
    pub fn new(types: &'a mut Types, share: bool) -> Self {
        Builder { types, share, memo_vt: HashMap::new(), memo_kind: HashMap::new(), resources: HashMap::new() }
    }

    /// the resource named `name` in this builder's universe (created on first use);
    /// `name` of the form `x=y` is an alias (no owner) of resource `y` whose own name is `x`
    pub fn resource(&mut self, name: &str) -> ResourceId {
        if let Some(r) = self.resources.get(name) {
            return *r;
        }
        let id = if let Some((own, src)) = name.split_once('=') {
            let source = self.resource(src);
            self.types.add_resource(Resource { name: own.to_string(), alias: Some(ResourceAlias { owner: None, source }) })
        } else {
            self.types.add_resource(Resource { name: name.to_string(), alias: None })
        };
        self.resources.insert(name.to_string(), id);
        id
    }

    pub fn vt(&mut self, d: &D) -> ValueType {
        if let D::Prim(p) = d {
            return ValueType::Primitive(*p);
        }
        if self.share {
            if let Some(v) = self.memo_vt.get(d) {
                return *v;
            }
        }
        let ob = |s: &mut Self, d: &Option<Box<D>>| d.as_ref().map(|d| s.vt(d));
        let v = match d {
            D::Prim(p) => ValueType::Primitive(*p),
            D::Own(r) => ValueType::Own(self.resource(r)),
            D::Borrow(r) => ValueType::Borrow(self.resource(r)),
            D::Tuple(ts) => {
                let ts = ts.iter().map(|t| self.vt(t)).collect();
                ValueType::Defined(self.types.add_defined_type(DefinedType::Tuple(ts)))
            }
            D::List(t) => {
                let t = self.vt(t);
                ValueType::Defined(self.types.add_defined_type(DefinedType::List(t)))
            }
            D::FList(t, n) => {
                let t = self.vt(t);
                ValueType::Defined(self.types.add_defined_type(DefinedType::FixedSizeList(t, *n)))
            }
            D::Option(t) => {
                let t = self.vt(t);
                ValueType::Defined(self.types.add_defined_type(DefinedType::Option(t)))
            }
            D::Result(ok, err) => {
                let ok = ob(self, ok);
                let err = ob(self, err);
                ValueType::Defined(self.types.add_defined_type(DefinedType::Result { ok, err }))
            }
            D::Variant(cs) => {
                let cases = cs.iter().map(|(n, t)| (n.clone(), t.as_ref().map(|t| self.vt(t)))).collect();
                ValueType::Defined(self.types.add_defined_type(DefinedType::Variant(Variant { cases })))
            }
            D::Record(fs) => {
                let fields = fs.iter().map(|(n, t)| (n.clone(), self.vt(t))).collect();
                ValueType::Defined(self.types.add_defined_type(DefinedType::Record(Record { fields })))
            }
            D::Flags(ns) => {
                ValueType::Defined(self.types.add_defined_type(DefinedType::Flags(Flags(ns.iter().cloned().collect()))))
            }
            D::Enum(ns) => {
                ValueType::Defined(self.types.add_defined_type(DefinedType::Enum(Enum(ns.iter().cloned().collect()))))
            }
            D::Stream(t) => {
                let t = ob(self, t);
                ValueType::Defined(self.types.add_defined_type(DefinedType::Stream(t)))
            }
            D::Future(t) => {
                let t = ob(self, t);
                ValueType::Defined(self.types.add_defined_type(DefinedType::Future(t)))
            }
            D::Alias(t) => {
                let t = self.vt(t);
                ValueType::Defined(self.types.add_defined_type(DefinedType::Alias(t)))
            }
            other => panic!("not a value type: {other:?}"),
        };
        if self.share {
            self.memo_vt.insert(d.clone(), v);
        }
        v
    }

    fn items(&mut self, es: &[(String, D)]) -> indexmap::IndexMap<String, ItemKind> {
        es.iter().map(|(n, d)| (n.clone(), self.kind(d))).collect()
    }

    fn ty(&mut self, d: &D) -> Type {
        match d {
            D::Resource(r) => Type::Resource(self.resource(r)),
            D::Func { is_async, params, result } => {
                let params = params.iter().map(|(n, t)| (n.clone(), self.vt(t))).collect();
                let result = result.as_ref().map(|t| self.vt(t));
                Type::Func(self.types.add_func_type(FuncType { params, result, is_async: *is_async }))
            }
            D::Instance(es) => {
                let exports = self.items(es);
                Type::Interface(self.types.add_interface(Interface { id: None, uses: Default::default(), exports }))
            }
            D::Component(is, es) => {
                let imports = self.items(is);
                let exports = self.items(es);
                Type::World(self.types.add_world(World { id: None, uses: Default::default(), imports, exports }))
            }
            D::Module(m) => Type::Module(self.types.add_module_type(m.0.clone())),
            d if d.is_value_type() => Type::Value(self.vt(d)),
            other => panic!("not a type: {other:?}"),
        }
    }

    /// an item kind (`Func`, `Instance`, `Component`, `Module`, `Value(_)`, `Type(_)`)
    pub fn kind(&mut self, d: &D) -> ItemKind {
        if self.share {
            if let Some(k) = self.memo_kind.get(d) {
                return *k;
            }
        }
        let k = match d {
            D::Value(v) => ItemKind::Value(self.vt(v)),
            D::Type(t) => ItemKind::Type(self.ty(t)),
            D::Func { .. } | D::Instance(_) | D::Component(..) | D::Module(_) => match self.ty(d) {
                Type::Func(f) => ItemKind::Func(f),
                Type::Interface(i) => ItemKind::Instance(i),
                Type::World(w) => ItemKind::Component(w),
                Type::Module(m) => ItemKind::Module(m),
                _ => unreachable!(),
            },
            other => panic!("not an item kind: {other:?}"),
        };
        if self.share {
            self.memo_kind.insert(d.clone(), k);
        }
        k
    }
}

// ------------------------------------------------------------------------------------------
// independent oracle: wasm-encoder + wasmparser

use wasm_encoder as we;

fn fnv(s: &str) -> u64 {
    let mut h: u64 = 0xcbf29ce484222325;
    for b in s.bytes() {
        h ^= b as u64;
        h = h.wrapping_mul(0x100000001b3);
    }
    h
}

fn we_prim(p: PrimitiveType) -> we::PrimitiveValType {
    use we::PrimitiveValType as P;
    match p {
        PrimitiveType::U8 => P::U8,
        PrimitiveType::S8 => P::S8,
        PrimitiveType::U16 => P::U16,
        PrimitiveType::S16 => P::S16,
        PrimitiveType::U32 => P::U32,
        PrimitiveType::S32 => P::S32,
        PrimitiveType::U64 => P::U64,
        PrimitiveType::S64 => P::S64,
        PrimitiveType::F32 => P::F32,
        PrimitiveType::F64 => P::F64,
        PrimitiveType::Char => P::Char,
        PrimitiveType::Bool => P::Bool,
        PrimitiveType::String => P::String,
        PrimitiveType::ErrorContext => P::ErrorContext,
    }
}

fn we_heap(h: HeapType) -> we::HeapType {
    use we::AbstractHeapType as A;
    let ty = match h {
        HeapType::Concrete(i) => return we::HeapType::Concrete(i),
        HeapType::Func => A::Func,
        HeapType::Extern => A::Extern,
        HeapType::Any => A::Any,
        HeapType::None => A::None,
        HeapType::NoExtern => A::NoExtern,
        HeapType::NoFunc => A::NoFunc,
        HeapType::Eq => A::Eq,
        HeapType::Struct => A::Struct,
        HeapType::Array => A::Array,
        HeapType::I31 => A::I31,
        HeapType::Exn => A::Exn,
        HeapType::NoExn => A::NoExn,
        HeapType::Cont => A::Cont,
        HeapType::NoCont => A::NoCont,
    };
    we::HeapType::Abstract { shared: false, ty }
}

fn we_ref(r: CoreRefType) -> we::RefType {
    we::RefType { nullable: r.nullable, heap_type: we_heap(r.heap_type) }
}

fn we_val(t: CoreType) -> we::ValType {
    match t {
        CoreType::I32 => we::ValType::I32,
        CoreType::I64 => we::ValType::I64,
        CoreType::F32 => we::ValType::F32,
        CoreType::F64 => we::ValType::F64,
        CoreType::V128 => we::ValType::V128,
        CoreType::Ref(r) => we::ValType::Ref(we_ref(r)),
    }
}

fn we_module(m: &ModuleType) -> we::ModuleType {
    let mut out = we::ModuleType::new();
    let func = |out: &mut we::ModuleType, f: &CoreFuncType| -> u32 {
        let idx = out.type_count();
        out.ty().function(f.params.iter().map(|t| we_val(*t)), f.results.iter().map(|t| we_val(*t)));
        idx
    };
    let ent = |out: &mut we::ModuleType, e: &CoreExtern| -> we::EntityType {
        match e {
            CoreExtern::Func(f) => we::EntityType::Function(func(out, f)),
            CoreExtern::Tag(f) => {
                we::EntityType::Tag(we::TagType { kind: we::TagKind::Exception, func_type_idx: func(out, f) })
            }
            CoreExtern::Table { element_type, initial, maximum, table64, shared } => we::EntityType::Table(we::TableType {
                element_type: we_ref(*element_type),
                table64: *table64,
                minimum: *initial,
                maximum: *maximum,
                shared: *shared,
            }),
            CoreExtern::Memory { memory64, shared, initial, maximum, page_size_log2 } => {
                we::EntityType::Memory(we::MemoryType {
                    minimum: *initial,
                    maximum: *maximum,
                    memory64: *memory64,
                    shared: *shared,
                    page_size_log2: *page_size_log2,
                })
            }
            CoreExtern::Global { val_type, mutable, shared } => {
                we::EntityType::Global(we::GlobalType { val_type: we_val(*val_type), mutable: *mutable, shared: *shared })
            }
        }
    };
    for ((a, n), e) in &m.imports {
        let t = ent(&mut out, e);
        out.import(a, n, t);
    }
    for (n, e) in &m.exports {
        let t = ent(&mut out, e);
        out.export(n, t);
    }
    out
}

#[derive(Clone, Copy, PartialEq, Eq)]
enum Side {
    Import,
    Export,
}

/// a type-declaration scope: an instance type or a component type
enum Sc {
    Inst(we::InstanceType),
    Comp(we::ComponentType),
}

struct Scope {
    sc: Sc,
    named_import: HashMap<String, u32>,
    named_export: HashMap<String, u32>,
    structural: HashMap<String, u32>,
}

impl Scope {
    fn inst() -> Scope {
        Scope {
            sc: Sc::Inst(we::InstanceType::new()),
            named_import: HashMap::new(),
            named_export: HashMap::new(),
            structural: HashMap::new(),
        }
    }
    fn comp() -> Scope {
        Scope {
            sc: Sc::Comp(we::ComponentType::new()),
            named_import: HashMap::new(),
            named_export: HashMap::new(),
            structural: HashMap::new(),
        }
    }
    fn type_count(&self) -> u32 {
        match &self.sc {
            Sc::Inst(i) => i.type_count(),
            Sc::Comp(c) => c.type_count(),
        }
    }
    fn ty(&mut self) -> (u32, we::ComponentTypeEncoder<'_>) {
        let n = self.type_count();
        match &mut self.sc {
            Sc::Inst(i) => (n, i.ty()),
            Sc::Comp(c) => (n, c.ty()),
        }
    }
    fn core_type(&mut self) -> (u32, we::ComponentCoreTypeEncoder<'_>) {
        match &mut self.sc {
            Sc::Inst(i) => (i.core_type_count(), i.core_type()),
            Sc::Comp(c) => (c.core_type_count(), c.core_type()),
        }
    }
    fn export(&mut self, name: &str, r: we::ComponentTypeRef) {
        match &mut self.sc {
            Sc::Inst(i) => {
                i.export(name, r);
            }
            Sc::Comp(c) => {
                c.export(name, r);
            }
        }
    }
    fn import(&mut self, name: &str, r: we::ComponentTypeRef) {
        match &mut self.sc {
            Sc::Inst(_) => panic!("instance types have no imports"),
            Sc::Comp(c) => {
                c.import(name, r);
            }
        }
    }

    /// give the nominal type at `idx` a name so that it may be used by imports/exports
    fn name_type(&mut self, canon: &str, idx: u32, side: Side) -> u32 {
        let name = format!("t{:016x}", fnv(canon));
        match (side, matches!(self.sc, Sc::Inst(_))) {
            (Side::Import, false) => {
                let n = self.type_count();
                self.import(&name, we::ComponentTypeRef::Type(we::TypeBounds::Eq(idx)));
                self.named_import.insert(canon.to_string(), n);
                n
            }
            _ => {
                let n = self.type_count();
                self.export(&name, we::ComponentTypeRef::Type(we::TypeBounds::Eq(idx)));
                self.named_export.insert(canon.to_string(), n);
                n
            }
        }
    }

    fn val(&mut self, d: &D, side: Side) -> Result<we::ComponentValType, String> {
        let ov = |s: &mut Self, d: &Option<Box<D>>| -> Result<Option<we::ComponentValType>, String> {
            match d {
                None => Ok(None),
                Some(d) => Ok(Some(s.val(d, side)?)),
            }
        };
        let d = match d {
            D::Alias(inner) => return self.val(inner, side),
            D::Prim(p) => return Ok(we::ComponentValType::Primitive(we_prim(*p))),
            D::Own(_) | D::Borrow(_) => return Err("resource".into()),
            d => d,
        };
        let canon = d.canon();
        let nominal = matches!(d, D::Record(_) | D::Variant(_) | D::Flags(_) | D::Enum(_));
        if nominal {
            let is_inst = matches!(self.sc, Sc::Inst(_));
            if side == Side::Import && !is_inst {
                if let Some(i) = self.named_import.get(&canon) {
                    return Ok(we::ComponentValType::Type(*i));
                }
            } else {
                if let Some(i) = self.named_export.get(&canon) {
                    return Ok(we::ComponentValType::Type(*i));
                }
                if let Some(i) = self.named_import.get(&canon).copied() {
                    // imported earlier: re-export it under the same name and use that
                    let n = self.name_type(&canon, i, Side::Export);
                    return Ok(we::ComponentValType::Type(n));
                }
            }
        } else if let Some(i) = self.structural.get(&format!("{}{}", if side == Side::Import { "i" } else { "e" }, canon)) {
            return Ok(we::ComponentValType::Type(*i));
        }
        // children first (they define their own types in this scope)
        enum Pre {
            One(we::ComponentValType),
            Many(Vec<we::ComponentValType>),
            Named(Vec<(String, we::ComponentValType)>),
            NamedOpt(Vec<(String, Option<we::ComponentValType>)>),
            Two(Option<we::ComponentValType>, Option<we::ComponentValType>),
            Opt(Option<we::ComponentValType>),
            Nothing,
        }
        let pre = match d {
            D::Tuple(ts) => Pre::Many(ts.iter().map(|t| self.val(t, side)).collect::<Result<_, _>>()?),
            D::List(t) | D::FList(t, _) | D::Option(t) => Pre::One(self.val(t, side)?),
            D::Result(a, b) => {
                let a = ov(self, a)?;
                let b = ov(self, b)?;
                Pre::Two(a, b)
            }
            D::Variant(cs) => Pre::NamedOpt(
                cs.iter()
                    .map(|(n, t)| {
                        Ok((
                            n.clone(),
                            match t {
                                None => None,
                                Some(t) => Some(self.val(t, side)?),
                            },
                        ))
                    })
                    .collect::<Result<_, String>>()?,
            ),
            D::Record(fs) => {
                Pre::Named(fs.iter().map(|(n, t)| Ok((n.clone(), self.val(t, side)?))).collect::<Result<_, String>>()?)
            }
            D::Stream(t) | D::Future(t) => Pre::Opt(ov(self, t)?),
            D::Flags(_) | D::Enum(_) => Pre::Nothing,
            other => return Err(format!("not a value type: {other:?}")),
        };
        let (idx, enc) = self.ty();
        let enc = enc.defined_type();
        match (d, pre) {
            (D::Tuple(_), Pre::Many(ts)) => enc.tuple(ts),
            (D::List(_), Pre::One(t)) => enc.list(t),
            (D::FList(_, n), Pre::One(t)) => enc.fixed_length_list(t, *n),
            (D::Option(_), Pre::One(t)) => enc.option(t),
            (D::Result(..), Pre::Two(a, b)) => enc.result(a, b),
            (D::Variant(_), Pre::NamedOpt(cs)) => enc.variant(cs.iter().map(|(n, t)| (n.as_str(), *t))),
            (D::Record(_), Pre::Named(fs)) => enc.record(fs.iter().map(|(n, t)| (n.as_str(), *t))),
            (D::Flags(ns), _) => enc.flags(ns.iter().map(|s| s.as_str())),
            (D::Enum(ns), _) => enc.enum_type(ns.iter().map(|s| s.as_str())),
            (D::Stream(_), Pre::Opt(t)) => enc.stream(t),
            (D::Future(_), Pre::Opt(t)) => enc.future(t),
            _ => unreachable!(),
        }
        let idx = if nominal {
            self.name_type(&canon, idx, side)
        } else {
            self.structural.insert(format!("{}{}", if side == Side::Import { "i" } else { "e" }, canon), idx);
            idx
        };
        Ok(we::ComponentValType::Type(idx))
    }

    fn func_type(&mut self, d: &D, side: Side) -> Result<u32, String> {
        let D::Func { is_async, params, result } = d else { return Err("not a func".into()) };
        let ps: Vec<(String, we::ComponentValType)> =
            params.iter().map(|(n, t)| Ok((n.clone(), self.val(t, side)?))).collect::<Result<_, String>>()?;
        let r = match result {
            None => None,
            Some(t) => Some(self.val(t, side)?),
        };
        let (idx, enc) = self.ty();
        let mut f = enc.function();
        f.async_(*is_async);
        f.params(ps.iter().map(|(n, t)| (n.as_str(), *t)));
        f.result(r);
        Ok(idx)
    }

    fn instance_type(&mut self, es: &[(String, D)]) -> Result<u32, String> {
        let mut inner = Scope::inst();
        for (n, d) in es {
            let r = inner.item(d, Side::Export)?;
            inner.export(n, r);
        }
        let Sc::Inst(it) = inner.sc else { unreachable!() };
        let (idx, enc) = self.ty();
        enc.instance(&it);
        Ok(idx)
    }

    fn component_type(&mut self, is: &[(String, D)], es: &[(String, D)]) -> Result<u32, String> {
        let mut inner = Scope::comp();
        for (n, d) in is {
            let r = inner.item(d, Side::Import)?;
            inner.import(n, r);
        }
        for (n, d) in es {
            let r = inner.item(d, Side::Export)?;
            inner.export(n, r);
        }
        let Sc::Comp(ct) = inner.sc else { unreachable!() };
        let (idx, enc) = self.ty();
        enc.component(&ct);
        Ok(idx)
    }

    /// the type reference for an item kind description, defining what it needs in this scope
    fn item(&mut self, d: &D, side: Side) -> Result<we::ComponentTypeRef, String> {
        use we::ComponentTypeRef as R;
        Ok(match d {
            D::Func { .. } => R::Func(self.func_type(d, side)?),
            D::Instance(es) => R::Instance(self.instance_type(es)?),
            D::Component(is, es) => R::Component(self.component_type(is, es)?),
            D::Module(m) => {
                let (idx, enc) = self.core_type();
                enc.module(&we_module(&m.0));
                R::Module(idx)
            }
            D::Value(v) => R::Value(self.val(v, side)?),
            D::Type(t) => match &**t {
                D::Resource(_) => return Err("resource".into()),
                D::Func { .. } => R::Type(we::TypeBounds::Eq(self.func_type(t, side)?)),
                D::Instance(es) => R::Type(we::TypeBounds::Eq(self.instance_type(es)?)),
                D::Component(is, es) => R::Type(we::TypeBounds::Eq(self.component_type(is, es)?)),
                D::Module(_) => return Err("module type items are core types (not expressible as a type export)".into()),
                v => match self.val(v, side)? {
                    we::ComponentValType::Type(i) => R::Type(we::TypeBounds::Eq(i)),
                    we::ComponentValType::Primitive(p) => {
                        let (idx, enc) = self.ty();
                        enc.defined_type().primitive(p);
                        R::Type(we::TypeBounds::Eq(idx))
                    }
                },
            },
            other => return Err(format!("not an item kind: {other:?}")),
        })
    }
}

/// Bytes of `(component (import "x" (instance (export "a" <a>) (export "b" <b>))))`.
pub fn oracle_encode(a: &D, b: &D) -> Result<Vec<u8>, String> {
    let mut sc = Scope::inst();
    let ra = sc.item(a, Side::Export)?;
    sc.export("a", ra);
    let rb = sc.item(b, Side::Export)?;
    sc.export("b", rb);
    let Sc::Inst(it) = sc.sc else { unreachable!() };
    let mut cb = we::ComponentBuilder::default();
    let idx = cb.type_instance(None, &it);
    cb.import("x", we::ComponentTypeRef::Instance(idx));
    Ok(cb.finish())
}

/// `Ok(Some(verdict))`: wasmparser's `a <: b`; `Ok(None)`: not expressible (resources, module
/// type items); `Err`: the encoding was rejected by the validator (a harness bug or an invalid type).
pub fn oracle_subtype(a: &D, b: &D) -> Result<Option<bool>, String> {
    let bytes = match oracle_encode(a, b) {
        Ok(b) => b,
        Err(e) if e == "resource" || e.starts_with("module type items") => return Ok(None),
        Err(e) => return Err(e),
    };
    let mut v = wasmparser::Validator::new_with_features(wasmparser::WasmFeatures::all());
    let types = match v.validate_all(&bytes) {
        Ok(t) => t,
        // wac cannot represent shared element types, so a shared table has no valid encoding
        Err(e) if e.to_string().contains("shared tables must have a shared element type") => return Ok(None),
        Err(e) => return Err(format!("oracle encoding invalid: {e}")),
    };
    let tr = types.as_ref();
    let Some(wasmparser::component_types::ComponentEntityType::Instance(x)) = tr.component_entity_type_of_import("x")
    else {
        return Err("import x is not an instance".into());
    };
    let inst = &tr[x];
    let ea = inst.exports.get("a").ok_or("no export a")?;
    let eb = inst.exports.get("b").ok_or("no export b")?;
    Ok(Some(wasmparser::component_types::ComponentEntityType::is_subtype_of(ea, tr, eb, tr)))
}

// ------------------------------------------------------------------------------------------
// Types -> description (inverse of `Builder`; aliases are kept as `D::Alias`)

pub fn vt_to_d(types: &Types, v: ValueType) -> Option<D> {
    let ob = |v: &Option<ValueType>| -> Option<Option<Box<D>>> {
        match v {
            None => Some(None),
            Some(v) => Some(Some(Box::new(vt_to_d(types, *v)?))),
        }
    };
    Some(match v {
        ValueType::Primitive(p) => D::Prim(p),
        ValueType::Own(r) => D::Own(types[types.resolve_resource(r)].name.clone()),
        ValueType::Borrow(r) => D::Borrow(types[types.resolve_resource(r)].name.clone()),
        ValueType::Defined(d) => match &types[d] {
            DefinedType::Tuple(ts) => D::Tuple(ts.iter().map(|t| vt_to_d(types, *t)).collect::<Option<_>>()?),
            DefinedType::List(t) => D::List(Box::new(vt_to_d(types, *t)?)),
            DefinedType::FixedSizeList(t, n) => D::FList(Box::new(vt_to_d(types, *t)?), *n),
            DefinedType::Option(t) => D::Option(Box::new(vt_to_d(types, *t)?)),
            DefinedType::Result { ok, err } => D::Result(ob(ok)?, ob(err)?),
            DefinedType::Variant(v) => D::Variant(
                v.cases
                    .iter()
                    .map(|(n, t)| {
                        Some((
                            n.clone(),
                            match t {
                                None => None,
                                Some(t) => Some(vt_to_d(types, *t)?),
                            },
                        ))
                    })
                    .collect::<Option<_>>()?,
            ),
            DefinedType::Record(r) => {
                D::Record(r.fields.iter().map(|(n, t)| Some((n.clone(), vt_to_d(types, *t)?))).collect::<Option<_>>()?)
            }
            DefinedType::Flags(f) => D::Flags(f.0.iter().cloned().collect()),
            DefinedType::Enum(f) => D::Enum(f.0.iter().cloned().collect()),
            DefinedType::Alias(t) => D::Alias(Box::new(vt_to_d(types, *t)?)),
            DefinedType::Stream(t) => D::Stream(ob(t)?),
            DefinedType::Future(t) => D::Future(ob(t)?),
        },
    })
}

fn items_to_d<'a>(types: &Types, it: impl Iterator<Item = (&'a String, &'a ItemKind)>) -> Option<Vec<(String, D)>> {
    it.map(|(n, k)| Some((n.clone(), kind_to_d(types, *k)?))).collect()
}

fn ty_to_d(types: &Types, t: Type) -> Option<D> {
    Some(match t {
        Type::Resource(r) => D::Resource(types[types.resolve_resource(r)].name.clone()),
        Type::Func(f) => {
            let ft = &types[f];
            D::Func {
                is_async: ft.is_async,
                params: ft.params.iter().map(|(n, t)| Some((n.clone(), vt_to_d(types, *t)?))).collect::<Option<_>>()?,
                result: match ft.result {
                    None => None,
                    Some(t) => Some(Box::new(vt_to_d(types, t)?)),
                },
            }
        }
        Type::Value(v) => vt_to_d(types, v)?,
        Type::Interface(i) => D::Instance(items_to_d(types, types[i].exports.iter())?),
        Type::World(w) => {
            D::Component(items_to_d(types, types[w].imports.iter())?, items_to_d(types, types[w].exports.iter())?)
        }
        Type::Module(m) => D::Module(MDesc(types[m].clone())),
    })
}

/// the structural description of an item kind of a collection
pub fn kind_to_d(types: &Types, k: ItemKind) -> Option<D> {
    Some(match k {
        ItemKind::Type(t) => D::Type(Box::new(ty_to_d(types, t)?)),
        ItemKind::Value(v) => D::Value(Box::new(vt_to_d(types, v)?)),
        ItemKind::Func(f) => ty_to_d(types, Type::Func(f))?,
        ItemKind::Instance(i) => ty_to_d(types, Type::Interface(i))?,
        ItemKind::Component(w) => ty_to_d(types, Type::World(w))?,
        ItemKind::Module(m) => ty_to_d(types, Type::Module(m))?,
    })
}
