import Lean
/-
  Axiom audit.  `lake env lean --run Audit.lean <Module>...` prints, for every theorem declared
  in each given module (auxiliary/internal names excluded), one line
      THEOREM <name> AXIOMS <a1> <a2> ...
  The runner requires every axiom to be one of propext / Classical.choice / Quot.sound.
-/
open Lean

def isAux (n : Name) : Bool :=
  n.isInternal || n.components.any fun c =>
    let s := c.toString
    s.startsWith "_" || s.startsWith "match_" || s.startsWith "proof_" || s.startsWith "eq_" || s == "sizeOf_spec"
      || s.startsWith "injEq" || s.startsWith "inj" && s.length == 3 || s == "noConfusion"

def main (args : List String) : IO UInt32 := do
  initSearchPath (← findSysroot)
  let mut rc : UInt32 := 0
  for a in args do
    let mod := a.toName
    let env ← importModules #[{ module := mod }] {} (trustLevel := 1024) (loadExts := false)
    let some idx := env.getModuleIdx? mod
      | IO.eprintln s!"module {mod} not found"; return 2
    let mut names : Array Name := #[]
    for (n, ci) in env.constants.map₁.toList do
      if env.getModuleIdxFor? n == some idx then
        if let .thmInfo _ := ci then
          if !isAux n then names := names.push n
    let sorted := names.qsort (fun a b => a.toString < b.toString)
    for n in sorted do
      let act : CoreM (Array Name) := collectAxioms n
      let (axs, _) ← act.toIO { fileName := "<audit>", fileMap := default } { env := env }
      let axs := axs.qsort (fun a b => a.toString < b.toString)
      IO.println s!"THEOREM {n} AXIOMS {" ".intercalate (axs.toList.map toString)}"
  return rc
