import WacModel.GraphVal
/-
  The encoder's output as a *skeleton*: the list of top-level items in emission order, with one
  counter per index space exactly as `wasm_encoder::ComponentBuilder` keeps them (`import`,
  `alias`, `instantiate`, `component_raw`, `ty` and also `export` allocate the next index of
  their sort).  Byte-level encoding is not modelled.

  Type-level content is abstract in this model: a type definition is the opaque item `typeDef`
  (it allocates one type index whose provenance is `opaque`), and the model is compared with
  the real output *modulo type indices, through provenance* — `wiring` below rebuilds, for
  every index of every index space, the term that says where the item came from, and only
  those terms are compared (never raw type indices).

  `wiring : Skeleton → Wiring` is the Lean section reader; the harness has an independent
  reader over `wasmparser::Parser` payloads that produces the same structure from the real bytes.
-/
namespace Wac

inductive Item where
  | import (name : Str) (kind : Kind)
  /-- an opaque definition in the type index space (type section entry, or an alias the type
      encoder emitted for its own use) -/
  | typeDef
  /-- `component_raw(bytes)`; the payload is the byte class of the package -/
  | component (bytesId : Nat)
  | instantiate (comp : Nat) (args : List (Str × Kind × Nat))
  | aliasExport (inst : Nat) (kind : Kind) (name : Str)
  | export (name : Str) (kind : Kind) (idx : Nat)
  /-- the `component-name` custom section: `(kind, index, name)` -/
  | names (entries : List (Kind × Nat × Str))
deriving DecidableEq, Repr, Inhabited

abbrev Skeleton := List Item

/-- the index space an item allocates in -/
def Item.alloc : Item → Option Kind
  | .import _ k => some k
  | .typeDef => some .type
  | .component _ => some .component
  | .instantiate _ _ => some .instance
  | .aliasExport _ k _ => some k
  | .export _ k _ => some k
  | .names _ => none

/-- provenance of an index -/
inductive Term where
  /-- the import item of that name -/
  | imp (name : Str)
  /-- the `k`-th `instantiate` item -/
  | inst (k : Nat)
  /-- the `k`-th embedded component -/
  | comp (k : Nat)
  /-- alias of export `name` of the instance with provenance `t` -/
  | aliasOf (t : Term) (name : Str)
  /-- the index allocated by `export name … idx` where `idx` has provenance `t` -/
  | exported (name : Str) (t : Term)
  /-- an opaque type definition -/
  | opaque
  /-- index out of range -/
  | bad
deriving DecidableEq, Repr, Inhabited

def Term.isImp : Term → Bool
  | .imp _ => true
  | _ => false

/-- the item an index stands for, looking through re-exports: exporting an item gives a new
    index for the same item; an exported opaque type is identified by its first export name -/
def Term.base : Term → Term
  | .exported n t =>
    match t.base with
    | .opaque => .exported n .opaque
    | b => b
  | .aliasOf t n => .aliasOf t.base n
  | t => t

structure InstW where
  comp : Term
  args : List (Str × Kind × Term)
deriving DecidableEq, Repr, Inhabited

/-- what the property talks about -/
structure Wiring where
  /-- every top-level import `(name, kind)` in order (C03) -/
  imports : List (Str × Kind) := []
  /-- byte classes of the embedded components, in order -/
  comps   : List Nat := []
  /-- the instantiate items in order -/
  insts   : List InstW := []
  /-- `(instance, kind, export name)` of every alias item in order, except type aliases read
      directly from an imported instance (those may be the type encoder's own) -/
  aliases : List (Term × Kind × Str) := []
  /-- `(name, kind, provenance of the exported index)` in order -/
  exports : List (Str × Kind × Term) := []
  /-- `(kind, provenance, name)` of the name section -/
  names   : List (Kind × Term × Str) := []
deriving DecidableEq, Repr, Inhabited

/-- state of the section reader: provenance table per index space + what was read so far -/
structure WState where
  prov : Kind → List Term := fun _ => []
  w    : Wiring := {}

def WState.look (s : WState) (k : Kind) (i : Nat) : Term := (s.prov k).getD i .bad

def WState.push (s : WState) (k : Kind) (t : Term) : WState :=
  { s with prov := fun k' => if k' = k then s.prov k' ++ [t] else s.prov k' }

def wstep (s : WState) : Item → WState
  | .import n k =>
    let s' := s.push k (.imp n)
    { s' with w := { s'.w with imports := s'.w.imports ++ [(n, k)] } }
  | .typeDef => s.push .type .opaque
  | .component b =>
    let s' := s.push .component (.comp s.w.comps.length)
    { s' with w := { s'.w with comps := s'.w.comps ++ [b] } }
  | .instantiate c args =>
    let iw : InstW := { comp := s.look .component c, args := args.map fun (n, k, i) => (n, k, s.look k i) }
    let s' := s.push .instance (.inst s.w.insts.length)
    { s' with w := { s'.w with insts := s'.w.insts ++ [iw] } }
  | .aliasExport i k n =>
    let t := s.look .instance i
    let s' := s.push k (.aliasOf t n)
    if k = .type ∧ t.isImp then s'
    else { s' with w := { s'.w with aliases := s'.w.aliases ++ [(t, k, n)] } }
  | .export n k i =>
    let t := s.look k i
    let s' := s.push k (.exported n t)
    { s' with w := { s'.w with exports := s'.w.exports ++ [(n, k, t)] } }
  | .names es =>
    { s with w := { s.w with names := s.w.names ++ es.map fun (k, i, nm) => (k, s.look k i, nm) } }

def wiringSt (sk : Skeleton) : WState := sk.foldl wstep {}

/-- the Lean section reader -/
def wiring (sk : Skeleton) : Wiring := (wiringSt sk).w

end Wac
