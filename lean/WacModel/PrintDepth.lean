import WacModel.Lexer
import WacModel.PrintTokens
/-
  The nesting limit of the lexer (`MAX_NESTING_DEPTH`, `Lexer::next` counts `(`, `<`, `{` and turns
  an opening bracket beyond the limit into `Err(NestingTooDeep)`) on token lists without offsets:
    * `viewToks d toks`  what `PState.next` will return, item by item, for the remaining tokens
                         `toks` when the counter stands at `d`;
    * `runDepth d ts`    the counter after the tokens `ts`, `none` if the limit is exceeded;
    * `Document.depthOk` the printed tokens of a document stay within the limit.
  Core Lean only.
-/
namespace Wac.PrintTok
open Wac Wac.Ast Wac.Lex

/-- the items `Lexer::next` returns for the remaining tokens, without byte offsets -/
def viewToks : Nat → List LTok → List PTok
  | _, [] => []
  | d, t :: r =>
    match t.res with
    | .ok k =>
      if isOpenBracket k then
        (if tooDeep (d + 1) then { t.erase with res := .error .NestingTooDeep } else t.erase) ::
          viewToks (d + 1) r
      else if isCloseBracket k then t.erase :: viewToks (d - 1) r
      else t.erase :: viewToks d r
    | .error _ => t.erase :: viewToks d r

/-- the bracket counter of the lexer after the tokens `ts`, started at `d`; `none`: an opening
bracket exceeds the limit -/
def runDepth : Nat → List PTok → Option Nat
  | d, [] => some d
  | d, t :: r =>
    match t.res with
    | .ok k =>
      if isOpenBracket k then (if tooDeep (d + 1) then none else runDepth (d + 1) r)
      else if isCloseBracket k then runDepth (d - 1) r
      else runDepth d r
    | .error _ => runDepth d r

/-- the tokens stay within the nesting limit -/
def depthOk (ts : List PTok) : Bool := (runDepth 0 ts).isSome

end Wac.PrintTok

/-- the printed form of the document stays within the nesting limit of the lexer -/
def Wac.Ast.Document.depthOk (d : Wac.Ast.Document) : Bool :=
  Wac.PrintTok.depthOk (Wac.PrintTok.printTokens d)
