import WacModel.Semver
/-
  Shared type model (C07 C09 C11; used by C01 C05 C08).  Core Lean only (no Mathlib).

  (a) `Types`: an arena model with the shape of `wac_types::Types` (component.rs, core.rs):
      six arenas (`defined`, `resources`, `funcs`, `interfaces`, `worlds`, `modules`), ids are
      indices into them.  `uid` stands for the arena id of `id_arena` (two ids are `==` in Rust
      iff arena id and index agree; all six arenas of one `Types` share one `uid` here).
  (b) `Tree` / `Forest`: the structural component-model type tree (no ids, no aliases).
  (c) `unfoldKind : Types → Nat → ItemKind → Option Tree` (fuelled; `none` = dangling id or
      fuel exhausted, i.e. a cycle).  `Types.fuel` is enough for every acyclic collection.
      NOTE: "ids refer to smaller indices" is *not* an invariant of the Rust code
      (`TypeAggregator::merge_interface` inserts a newer id into an older interface), hence fuel.
  (d) parser of the protocol text form (written by `harness/src/tree.rs`).

  ## Text form

  One S-expression; atoms are separated by `,` or blanks, `(` `)` nest.  A string atom is
  written `$` followed by its characters, where every character other than
  `A-Z a-z 0-9 - _ . : / @ [ ] # + = < > ! * ~ ^ & | ? ;` is written `%HEX;` (`$` alone = the
  empty string).  Numbers are decimal.  `_` is "absent" (Rust `None`).  Booleans are `0`/`1`.

    types  ::= (T uid (D def*) (R res*) (F func*) (I iface*) (W world*) (M module*))
    vt     ::= u8|s8|u16|s16|u32|s32|u64|s64|f32|f64|char|bool|string|error-context
             | (own n) | (bor n) | (def n)
    ovt    ::= _ | vt
    def    ::= (tuple vt*) | (list vt) | (flist vt n) | (option vt) | (result ovt ovt)
             | (variant ($name ovt)*) | (record ($name vt)*) | (flags $name*) | (enum $name*)
             | (alias vt) | (stream ovt) | (future ovt)
    res    ::= (res $name) | (res $name oowner source)          oowner ::= _ | n
    func   ::= (func async (($name vt)*) ovt)
    ty     ::= (res n) | (func n) | (val vt) | (iface n) | (world n) | (mod n)
    kind   ::= (type ty) | (func n) | (inst n) | (comp n) | (mod n) | (val vt)
    use    ::= ($localname iface-index oname)                    oname ::= _ | $name
    iface  ::= (iface oid (use*) (($name kind)*))                oid ::= _ | $name
    world  ::= (world oid (use*) (($name kind)*) (($name kind)*))        -- imports, exports
    module ::= (module (($module $name extern)*) (($name extern)*))      -- imports, exports
    extern ::= (func cft) | (tag cft) | (table ref initial omax table64 shared)
             | (memory memory64 shared initial omax opagesizelog2) | (global ct mutable shared)
    cft    ::= ((ct*) (ct*))
    ct     ::= i32|i64|f32|f64|v128 | ref
    ref    ::= (ref nullable heap)
    heap   ::= func|extern|any|none|noextern|nofunc|eq|struct|array|i31|exn|noexn|cont|nocont
             | (concrete n)
-/
namespace Wac

/-! ## (a) arenas -/

inductive Prim
  | u8 | s8 | u16 | s16 | u32 | s32 | u64 | s64 | f32 | f64 | char | bool | string | errorContext
deriving DecidableEq, Repr, Inhabited

/-- `ValueType` -/
inductive ValueType
  | prim (p : Prim)
  | borrow (r : Nat)
  | own (r : Nat)
  | defined (d : Nat)
deriving DecidableEq, Repr, Inhabited

/-- `DefinedType` (`Variant`, `Record`, `Flags`, `Enum` inlined; IndexMap = association list) -/
inductive DefinedType
  | tuple (ts : List ValueType)
  | list (t : ValueType)
  | fixedSizeList (t : ValueType) (n : Nat)
  | option (t : ValueType)
  | result (ok err : Option ValueType)
  | variant (cases : List (Str × Option ValueType))
  | record (fields : List (Str × ValueType))
  | flags (names : List Str)
  | enum (names : List Str)
  | alias (t : ValueType)
  | stream (t : Option ValueType)
  | future (t : Option ValueType)
deriving DecidableEq, Repr, Inhabited

/-- `ResourceAlias` -/
structure ResourceAlias where
  owner : Option Nat
  source : Nat
deriving DecidableEq, Repr, Inhabited

/-- `Resource` -/
structure Resource where
  name : Str
  alias : Option ResourceAlias := none
deriving DecidableEq, Repr, Inhabited

/-- `FuncType` -/
structure FuncType where
  params : List (Str × ValueType) := []
  result : Option ValueType := none
  isAsync : Bool := false
deriving DecidableEq, Repr, Inhabited

/-- `Type` -/
inductive Ty
  | resource (r : Nat)
  | func (f : Nat)
  | value (v : ValueType)
  | interface (i : Nat)
  | world (w : Nat)
  | module (m : Nat)
deriving DecidableEq, Repr, Inhabited

/-- `ItemKind` -/
inductive ItemKind
  | type (t : Ty)
  | func (f : Nat)
  | instance (i : Nat)
  | component (w : Nat)
  | module (m : Nat)
  | value (v : ValueType)
deriving DecidableEq, Repr, Inhabited

/-- `ItemKind::ty` -/
def ItemKind.ty : ItemKind → Ty
  | .type t => t
  | .func f => .func f
  | .instance i => .interface i
  | .component w => .world w
  | .module m => .module m
  | .value v => .value v

/-- `ItemKind::promote` -/
def ItemKind.promote : ItemKind → ItemKind
  | .type (.func f) => .func f
  | .type (.interface i) => .instance i
  | .type (.world w) => .component w
  | k => k

/-- `UsedType` -/
structure UsedType where
  interface : Nat
  name : Option Str := none
deriving DecidableEq, Repr, Inhabited

/-- `Interface` -/
structure Interface where
  id : Option Str := none
  uses : List (Str × UsedType) := []
  exports : List (Str × ItemKind) := []
deriving DecidableEq, Repr, Inhabited

/-- `World` -/
structure World where
  id : Option Str := none
  uses : List (Str × UsedType) := []
  imports : List (Str × ItemKind) := []
  exports : List (Str × ItemKind) := []
deriving DecidableEq, Repr, Inhabited

/-- `HeapType` (core.rs) -/
inductive HeapType
  | concrete (n : Nat)
  | func | extern | any | none | noExtern | noFunc | eq | struct | array | i31 | exn | noExn | cont | noCont
deriving DecidableEq, Repr, Inhabited

/-- `CoreRefType` -/
structure CoreRefType where
  nullable : Bool
  heap : HeapType
deriving DecidableEq, Repr, Inhabited

/-- `CoreType` -/
inductive CoreType
  | i32 | i64 | f32 | f64 | v128
  | ref (r : CoreRefType)
deriving DecidableEq, Repr, Inhabited

/-- `CoreFuncType` -/
structure CoreFuncType where
  params : List CoreType := []
  results : List CoreType := []
deriving DecidableEq, Repr, Inhabited

/-- `CoreExtern` -/
inductive CoreExtern
  | func (t : CoreFuncType)
  | table (elem : CoreRefType) (initial : Nat) (maximum : Option Nat) (table64 shared : Bool)
  | memory (memory64 shared : Bool) (initial : Nat) (maximum : Option Nat) (pageSizeLog2 : Option Nat)
  | global (valType : CoreType) (mutable shared : Bool)
  | tag (t : CoreFuncType)
deriving DecidableEq, Repr, Inhabited

/-- `ModuleType` -/
structure ModuleType where
  imports : List ((Str × Str) × CoreExtern) := []
  exports : List (Str × CoreExtern) := []
deriving DecidableEq, Repr, Inhabited

/-- `Types`: the six arenas.  `uid` models the arena id (id equality across collections). -/
structure Types where
  uid : Nat := 0
  defined : List DefinedType := []
  resources : List Resource := []
  funcs : List FuncType := []
  interfaces : List Interface := []
  worlds : List World := []
  modules : List ModuleType := []
deriving DecidableEq, Repr, Inhabited

/-- enough fuel to unfold any kind of an acyclic collection -/
def Types.fuel (t : Types) : Nat :=
  t.defined.length + t.resources.length + t.funcs.length + t.interfaces.length +
    t.worlds.length + t.modules.length + 2

/-- association-list lookup (IndexMap::get) for any key type -/
def alGet {κ β : Type} [BEq κ] (m : List (κ × β)) (k : κ) : Option β :=
  match m with
  | [] => none
  | (k', v) :: r => if k' == k then some v else alGet r k

/-- `IndexMap::insert`: overwrite in place, else append -/
def alInsert {κ β : Type} [BEq κ] (m : List (κ × β)) (k : κ) (v : β) : List (κ × β) :=
  match m with
  | [] => [(k, v)]
  | (k', v') :: r => if k' == k then (k, v) :: r else (k', v') :: alInsert r k v

/-- `Types::resolve_value_type` (fuelled loop; `none` = dangling id or a cycle of aliases) -/
def Types.resolveValueType (t : Types) : Nat → ValueType → Option ValueType
  | 0, _ => none
  | fuel + 1, .defined d =>
    match t.defined[d]? with
    | none => none
    | some (.alias a) => t.resolveValueType fuel a
    | some _ => some (.defined d)
  | _ + 1, v => some v

/-- `Types::resolve_resource` (fuelled loop) -/
def Types.resolveResource (t : Types) : Nat → Nat → Option Nat
  | 0, _ => none
  | fuel + 1, r =>
    match t.resources[r]? with
    | none => none
    | some res =>
      match res.alias with
      | none => some r
      | some a => t.resolveResource fuel a.source

/-! ## (b) structural trees -/

/-- a resource leaf: identity = (collection, alias-resolved index); the name is what wac compares -/
structure Res where
  uid : Nat
  idx : Nat
  name : Str
deriving DecidableEq, Repr, Inhabited

mutual
/-- the component-model type tree.  Value types: `prim … future`, `none` = absent optional
payload (result arms, variant case payload, stream/future payload, function result).
Item kinds: `func`, `instance`, `component`, `module`, `value t`, `type t` where the `t` of a
`type` item is a value type, `func`, `instance`, `component`, `module` or `resource`. -/
inductive Tree
  | none
  | prim (p : Prim)
  | own (r : Res)
  | borrow (r : Res)
  | tuple (ts : Forest)
  | list (t : Tree)
  | fixedList (t : Tree) (n : Nat)
  | option (t : Tree)
  | result (ok err : Tree)
  | variant (cases : Forest)
  | record (fields : Forest)
  | flags (names : List Str)
  | enum (names : List Str)
  | stream (t : Tree)
  | future (t : Tree)
  | func (isAsync : Bool) (params : Forest) (result : Tree)
  | instance (exports : Forest)
  | component (imports exports : Forest)
  | module (m : ModuleType)
  | value (t : Tree)
  | type (t : Tree)
  | resource (r : Res)
/-- named children in order (tuple items have the empty name) -/
inductive Forest
  | nil
  | cons (name : Str) (t : Tree) (rest : Forest)
end

deriving instance DecidableEq for Tree, Forest
deriving instance Repr for Tree, Forest
instance : Inhabited Tree := ⟨.none⟩
instance : Inhabited Forest := ⟨.nil⟩

def Forest.ofList : List (Str × Tree) → Forest
  | [] => .nil
  | (n, t) :: r => .cons n t (Forest.ofList r)

def Forest.toList : Forest → List (Str × Tree)
  | .nil => []
  | .cons n t r => (n, t) :: r.toList

/-- first entry named `k` -/
def Forest.get : Forest → Str → Option Tree
  | .nil, _ => Option.none
  | .cons n t r, k => if n == k then some t else r.get k

def Forest.hasName : Forest → Str → Bool
  | .nil, _ => false
  | .cons n _ r, k => n == k || r.hasName k

def Forest.names : Forest → List Str
  | .nil => []
  | .cons n _ r => n :: r.names

/-- every name of the first forest occurs in the second -/
def Forest.namesIn : Forest → Forest → Bool
  | .nil, _ => true
  | .cons n _ r, o => o.hasName n && r.namesIn o

mutual
/-- no resource leaf anywhere -/
def Tree.resourceFree : Tree → Bool
  | .own _ | .borrow _ | .resource _ => false
  | .none | .prim _ | .flags _ | .enum _ | .module _ => true
  | .tuple f | .variant f | .record f | .instance f => f.resourceFree
  | .list t | .fixedList t _ | .option t | .stream t | .future t | .value t | .type t => t.resourceFree
  | .result a b => a.resourceFree && b.resourceFree
  | .func _ ps r => ps.resourceFree && r.resourceFree
  | .component i e => i.resourceFree && e.resourceFree
termination_by structural t => t
def Forest.resourceFree : Forest → Bool
  | .nil => true
  | .cons _ t r => t.resourceFree && r.resourceFree
termination_by structural f => f
end

/-- keys of an association list are pairwise distinct (true of every `IndexMap`) -/
def keysDistinct {κ β : Type} [BEq κ] : List (κ × β) → Bool
  | [] => true
  | (k, _) :: r => !(r.any (fun e => e.1 == k)) && keysDistinct r

def ModuleType.keysDistinct (m : ModuleType) : Bool :=
  Wac.keysDistinct m.imports && Wac.keysDistinct m.exports

mutual
/-- names of every forest are pairwise distinct (true of anything built from an `IndexMap`);
tuples are exempt (their items are unnamed) -/
def Tree.namesDistinct : Tree → Bool
  | .module m => m.keysDistinct
  | .none | .prim _ | .flags _ | .enum _ | .own _ | .borrow _ | .resource _ => true
  | .tuple f => f.subtreesDistinct
  | .variant f | .record f | .instance f => f.namesDistinct
  | .list t | .fixedList t _ | .option t | .stream t | .future t | .value t | .type t => t.namesDistinct
  | .result a b => a.namesDistinct && b.namesDistinct
  | .func _ ps r => ps.namesDistinct && r.namesDistinct
  | .component i e => i.namesDistinct && e.namesDistinct
termination_by structural t => t
def Forest.namesDistinct : Forest → Bool
  | .nil => true
  | .cons n t r => !r.hasName n && t.namesDistinct && r.namesDistinct
termination_by structural f => f
def Forest.subtreesDistinct : Forest → Bool
  | .nil => true
  | .cons _ t r => t.namesDistinct && r.subtreesDistinct
termination_by structural f => f
end

/-! ## (c) unfolding an item kind of a collection into its tree -/

def optM {α β : Type} (f : α → Option β) : Option α → (β → Option γ) → (Unit → Option γ) → Option γ
  | some a, k, _ => (f a).bind k
  | none, _, z => z ()

/-- resource leaf of resource id `r` -/
def Types.resLeaf (t : Types) (r : Nat) : Option Res :=
  match t.resolveResource (t.resources.length + 1) r with
  | none => none
  | some r' =>
    match t.resources[r']? with
    | none => none
    | some res => some { uid := t.uid, idx := r', name := res.name }

/-- optional payload: absent = `Tree.none` -/
def unfoldOpt (f : ValueType → Option Tree) : Option ValueType → Option Tree
  | none => some .none
  | some v => f v

def unfoldNamed (f : ValueType → Option Tree) : List (Str × ValueType) → Option Forest
  | [] => some .nil
  | (n, v) :: r =>
    match f v, unfoldNamed f r with
    | some t, some fr => some (.cons n t fr)
    | _, _ => none

def unfoldNamedOpt (f : ValueType → Option Tree) : List (Str × Option ValueType) → Option Forest
  | [] => some .nil
  | (n, v) :: r =>
    match unfoldOpt f v, unfoldNamedOpt f r with
    | some t, some fr => some (.cons n t fr)
    | _, _ => none

def unfoldUnnamed (f : ValueType → Option Tree) : List ValueType → Option Forest
  | [] => some .nil
  | v :: r =>
    match f v, unfoldUnnamed f r with
    | some t, some fr => some (.cons [] t fr)
    | _, _ => none

/-- one defined type, given the unfolding `u` of the value types it mentions; an alias unfolds
to what it aliases -/
def unfoldDefined (u : ValueType → Option Tree) : DefinedType → Option Tree
  | .alias a => u a
  | .tuple ts => (unfoldUnnamed u ts).map .tuple
  | .list a => (u a).map .list
  | .fixedSizeList a n => (u a).map (.fixedList · n)
  | .option a => (u a).map .option
  | .result ok err =>
    match unfoldOpt u ok, unfoldOpt u err with
    | some a, some b => some (.result a b)
    | _, _ => none
  | .variant cs => (unfoldNamedOpt u cs).map .variant
  | .record fs => (unfoldNamed u fs).map .record
  | .flags ns => some (.flags ns)
  | .enum ns => some (.enum ns)
  | .stream a => (unfoldOpt u a).map .stream
  | .future a => (unfoldOpt u a).map .future

/-- value type → tree; aliases disappear -/
def Types.unfoldVT (t : Types) : Nat → ValueType → Option Tree
  | 0, _ => none
  | _ + 1, .prim p => some (.prim p)
  | _ + 1, .own r => (t.resLeaf r).map .own
  | _ + 1, .borrow r => (t.resLeaf r).map .borrow
  | fuel + 1, .defined d =>
    match t.defined[d]? with
    | none => none
    | some x => unfoldDefined (t.unfoldVT fuel) x

/-- function type id → `Tree.func` -/
def Types.unfoldFunc (t : Types) (fuel : Nat) (f : Nat) : Option Tree :=
  match t.funcs[f]? with
  | none => none
  | some ft =>
    match unfoldNamed (t.unfoldVT fuel) ft.params, unfoldOpt (t.unfoldVT fuel) ft.result with
    | some ps, some r => some (.func ft.isAsync ps r)
    | _, _ => none

def unfoldItems (f : ItemKind → Option Tree) : List (Str × ItemKind) → Option Forest
  | [] => some .nil
  | (n, k) :: r =>
    match f k, unfoldItems f r with
    | some t, some fr => some (.cons n t fr)
    | _, _ => none

/-- item kind → tree (`ItemKind::Type(t)` ↦ `.type …`, `ItemKind::Value(v)` ↦ `.value …`) -/
def Types.unfoldKind (t : Types) : Nat → ItemKind → Option Tree
  | 0, _ => none
  | fuel + 1, .func f => t.unfoldFunc fuel f
  | fuel + 1, .value v => (t.unfoldVT fuel v).map .value
  | _ + 1, .module m => (t.modules[m]?).map .module
  | fuel + 1, .instance i =>
    match t.interfaces[i]? with
    | none => none
    | some itf => (unfoldItems (t.unfoldKind fuel) itf.exports).map .instance
  | fuel + 1, .component w =>
    match t.worlds[w]? with
    | none => none
    | some wd =>
      match unfoldItems (t.unfoldKind fuel) wd.imports, unfoldItems (t.unfoldKind fuel) wd.exports with
      | some i, some e => some (.component i e)
      | _, _ => none
  | _ + 1, .type (.resource r) => (t.resLeaf r).map (fun x => .type (.resource x))
  | fuel + 1, .type (.func f) => (t.unfoldFunc fuel f).map .type
  | fuel + 1, .type (.value v) => (t.unfoldVT fuel v).map .type
  | _ + 1, .type (.module m) => (t.modules[m]?).map (fun x => .type (.module x))
  | fuel + 1, .type (.interface i) =>
    match t.interfaces[i]? with
    | none => none
    | some itf => (unfoldItems (t.unfoldKind fuel) itf.exports).map (fun x => .type (.instance x))
  | fuel + 1, .type (.world w) =>
    match t.worlds[w]? with
    | none => none
    | some wd =>
      match unfoldItems (t.unfoldKind fuel) wd.imports, unfoldItems (t.unfoldKind fuel) wd.exports with
      | some i, some e => some (.type (.component i e))
      | _, _ => none

/-- unfold with the default fuel -/
def Types.unfold (t : Types) (k : ItemKind) : Option Tree := t.unfoldKind t.fuel k

/-! ## (d) the protocol text form -/

inductive SExp
  | atom (s : Str)
  | list (xs : List SExp)
deriving Repr, Inhabited

inductive STok
  | lp | rp
  | atom (s : Str)
deriving Repr

def isSep (c : Char) : Bool := c == ',' || c == ' ' || c == '\n' || c == '\t'

def sHexVal (c : Char) : Nat :=
  if '0' ≤ c && c ≤ '9' then c.toNat - '0'.toNat
  else if 'a' ≤ c && c ≤ 'f' then c.toNat - 'a'.toNat + 10
  else if 'A' ≤ c && c ≤ 'F' then c.toNat - 'A'.toNat + 10
  else 0

/-- tokens; `%HEX;` inside an atom is decoded here -/
def sTokens : Nat → Str → Str → Bool → List STok → List STok
  | 0, _, cur, inAtom, acc => (if inAtom then STok.atom cur.reverse :: acc else acc).reverse
  | fuel + 1, s, cur, inAtom, acc =>
    let flush (acc : List STok) := if inAtom then STok.atom cur.reverse :: acc else acc
    match s with
    | [] => (flush acc).reverse
    | '(' :: r => sTokens fuel r [] false (STok.lp :: flush acc)
    | ')' :: r => sTokens fuel r [] false (STok.rp :: flush acc)
    | '%' :: r =>
      let hex := r.takeWhile (· != ';')
      let rest := (r.dropWhile (· != ';')).drop 1
      let v := hex.foldl (fun a c => 16 * a + sHexVal c) 0
      sTokens fuel rest (Char.ofNat v :: cur) true acc
    | c :: r =>
      if isSep c then sTokens fuel r [] false (flush acc)
      else sTokens fuel r (c :: cur) true acc

/-- build the S-expression with an explicit stack of open lists (reversed) -/
def sBuild : List STok → List (List SExp) → Option SExp
  | [], [[x]] => some x
  | [], _ => none
  | .lp :: r, st => sBuild r ([] :: st)
  | .rp :: r, top :: next :: st => sBuild r ((SExp.list top.reverse :: next) :: st)
  | .rp :: _, _ => none
  | .atom a :: r, top :: st => sBuild r ((SExp.atom a :: top) :: st)
  | .atom _ :: _, [] => none

def parseSExp (s : Str) : Option SExp := sBuild (sTokens (s.length + 1) s [] false []) [[]]

namespace SExp

def isAtom (x : SExp) (s : String) : Bool :=
  match x with
  | .atom a => a == s.toList
  | _ => false

def nat? : SExp → Option Nat
  | .atom a => if !a.isEmpty && a.all isDigit then some (digitsVal a) else none
  | _ => none

def bool? : SExp → Option Bool
  | .atom ['0'] => some false
  | .atom ['1'] => some true
  | _ => none

/-- `$name` -/
def str? : SExp → Option Str
  | .atom ('$' :: r) => some r
  | _ => none

/-- `_` or `f x` -/
def opt? {α : Type} (f : SExp → Option α) (x : SExp) : Option (Option α) :=
  if x.isAtom "_" then some none else (f x).map some

def prim? (x : SExp) : Option Prim :=
  match x with
  | .atom a =>
    let s := String.ofList a
    if s == "u8" then some .u8 else if s == "s8" then some .s8
    else if s == "u16" then some .u16 else if s == "s16" then some .s16
    else if s == "u32" then some .u32 else if s == "s32" then some .s32
    else if s == "u64" then some .u64 else if s == "s64" then some .s64
    else if s == "f32" then some .f32 else if s == "f64" then some .f64
    else if s == "char" then some .char else if s == "bool" then some .bool
    else if s == "string" then some .string else if s == "error-context" then some .errorContext
    else none
  | _ => none

def vt? (x : SExp) : Option ValueType :=
  match x with
  | .atom _ => (prim? x).map .prim
  | .list [h, n] =>
    if h.isAtom "own" then n.nat?.map .own
    else if h.isAtom "bor" then n.nat?.map .borrow
    else if h.isAtom "def" then n.nat?.map .defined
    else none
  | _ => none

def named? {α : Type} (f : SExp → Option α) (x : SExp) : Option (Str × α) :=
  match x with
  | .list [n, v] => match n.str?, f v with
    | some n, some v => some (n, v)
    | _, _ => none
  | _ => none

def defined? (x : SExp) : Option DefinedType :=
  match x with
  | .list (h :: args) =>
    if h.isAtom "tuple" then (args.mapM vt?).map .tuple
    else if h.isAtom "flags" then (args.mapM str?).map .flags
    else if h.isAtom "enum" then (args.mapM str?).map .enum
    else if h.isAtom "variant" then (args.mapM (named? (opt? vt?))).map .variant
    else if h.isAtom "record" then (args.mapM (named? vt?)).map .record
    else match args with
      | [a] =>
        if h.isAtom "list" then (vt? a).map .list
        else if h.isAtom "option" then (vt? a).map .option
        else if h.isAtom "alias" then (vt? a).map .alias
        else if h.isAtom "stream" then (opt? vt? a).map .stream
        else if h.isAtom "future" then (opt? vt? a).map .future
        else none
      | [a, b] =>
        if h.isAtom "flist" then match vt? a, b.nat? with
          | some a, some n => some (.fixedSizeList a n)
          | _, _ => none
        else if h.isAtom "result" then match opt? vt? a, opt? vt? b with
          | some a, some b => some (.result a b)
          | _, _ => none
        else none
      | _ => none
  | _ => none

def resource? (x : SExp) : Option Resource :=
  match x with
  | .list [h, n] => if h.isAtom "res" then n.str?.map fun n => { name := n } else none
  | .list [h, n, o, s] =>
    if h.isAtom "res" then
      match n.str?, opt? nat? o, s.nat? with
      | some n, some o, some s => some { name := n, alias := some { owner := o, source := s } }
      | _, _, _ => none
    else none
  | _ => none

def func? (x : SExp) : Option FuncType :=
  match x with
  | .list [h, a, .list ps, r] =>
    if h.isAtom "func" then
      match a.bool?, ps.mapM (named? vt?), opt? vt? r with
      | some a, some ps, some r => some { params := ps, result := r, isAsync := a }
      | _, _, _ => none
    else none
  | _ => none

def ty? (x : SExp) : Option Ty :=
  match x with
  | .list [h, a] =>
    if h.isAtom "res" then a.nat?.map .resource
    else if h.isAtom "func" then a.nat?.map .func
    else if h.isAtom "val" then (vt? a).map .value
    else if h.isAtom "iface" then a.nat?.map .interface
    else if h.isAtom "world" then a.nat?.map .world
    else if h.isAtom "mod" then a.nat?.map .module
    else none
  | _ => none

def kind? (x : SExp) : Option ItemKind :=
  match x with
  | .list [h, a] =>
    if h.isAtom "type" then (ty? a).map .type
    else if h.isAtom "func" then a.nat?.map .func
    else if h.isAtom "inst" then a.nat?.map .instance
    else if h.isAtom "comp" then a.nat?.map .component
    else if h.isAtom "mod" then a.nat?.map .module
    else if h.isAtom "val" then (vt? a).map .value
    else none
  | _ => none

def use? (x : SExp) : Option (Str × UsedType) :=
  match x with
  | .list [n, i, o] =>
    match n.str?, i.nat?, opt? str? o with
    | some n, some i, some o => some (n, { interface := i, name := o })
    | _, _, _ => none
  | _ => none

def iface? (x : SExp) : Option Interface :=
  match x with
  | .list [h, id, .list us, .list es] =>
    if h.isAtom "iface" then
      match opt? str? id, us.mapM use?, es.mapM (named? kind?) with
      | some id, some us, some es => some { id := id, uses := us, exports := es }
      | _, _, _ => none
    else none
  | _ => none

def world? (x : SExp) : Option World :=
  match x with
  | .list [h, id, .list us, .list is, .list es] =>
    if h.isAtom "world" then
      match opt? str? id, us.mapM use?, is.mapM (named? kind?), es.mapM (named? kind?) with
      | some id, some us, some is, some es => some { id := id, uses := us, imports := is, exports := es }
      | _, _, _, _ => none
    else none
  | _ => none

def heap? (x : SExp) : Option HeapType :=
  match x with
  | .atom a =>
    let s := String.ofList a
    if s == "func" then some .func else if s == "extern" then some .extern
    else if s == "any" then some .any else if s == "none" then some .none
    else if s == "noextern" then some .noExtern else if s == "nofunc" then some .noFunc
    else if s == "eq" then some .eq else if s == "struct" then some .struct
    else if s == "array" then some .array else if s == "i31" then some .i31
    else if s == "exn" then some .exn else if s == "noexn" then some .noExn
    else if s == "cont" then some .cont else if s == "nocont" then some .noCont
    else none
  | .list [h, n] => if h.isAtom "concrete" then n.nat?.map .concrete else none
  | _ => none

def ref? (x : SExp) : Option CoreRefType :=
  match x with
  | .list [h, n, hp] =>
    if h.isAtom "ref" then
      match n.bool?, heap? hp with
      | some n, some hp => some { nullable := n, heap := hp }
      | _, _ => none
    else none
  | _ => none

def coreType? (x : SExp) : Option CoreType :=
  match x with
  | .atom a =>
    let s := String.ofList a
    if s == "i32" then some .i32 else if s == "i64" then some .i64
    else if s == "f32" then some .f32 else if s == "f64" then some .f64
    else if s == "v128" then some .v128 else none
  | _ => (ref? x).map .ref

def coreFunc? (x : SExp) : Option CoreFuncType :=
  match x with
  | .list [.list ps, .list rs] =>
    match ps.mapM coreType?, rs.mapM coreType? with
    | some ps, some rs => some { params := ps, results := rs }
    | _, _ => none
  | _ => none

def extern? (x : SExp) : Option CoreExtern :=
  match x with
  | .list [h, a] =>
    if h.isAtom "func" then (coreFunc? a).map .func
    else if h.isAtom "tag" then (coreFunc? a).map .tag
    else none
  | .list [h, a, b, c] =>
    if h.isAtom "global" then
      match coreType? a, b.bool?, c.bool? with
      | some t, some m, some s => some (.global t m s)
      | _, _, _ => none
    else none
  | .list [h, a, b, c, d, e] =>
    if h.isAtom "table" then
      match ref? a, b.nat?, opt? nat? c, d.bool?, e.bool? with
      | some r, some i, some m, some t64, some sh => some (.table r i m t64 sh)
      | _, _, _, _, _ => none
    else if h.isAtom "memory" then
      match a.bool?, b.bool?, c.nat?, opt? nat? d, opt? nat? e with
      | some m64, some sh, some i, some m, some p => some (.memory m64 sh i m p)
      | _, _, _, _, _ => none
    else none
  | _ => none

def modImport? (x : SExp) : Option ((Str × Str) × CoreExtern) :=
  match x with
  | .list [m, n, e] =>
    match m.str?, n.str?, extern? e with
    | some m, some n, some e => some ((m, n), e)
    | _, _, _ => none
  | _ => none

def module? (x : SExp) : Option ModuleType :=
  match x with
  | .list [h, .list is, .list es] =>
    if h.isAtom "module" then
      match is.mapM modImport?, es.mapM (named? extern?) with
      | some is, some es => some { imports := is, exports := es }
      | _, _ => none
    else none
  | _ => none

def section? {α : Type} (tag : String) (f : SExp → Option α) (x : SExp) : Option (List α) :=
  match x with
  | .list (h :: xs) => if h.isAtom tag then xs.mapM f else none
  | _ => none

def types? (x : SExp) : Option Types :=
  match x with
  | .list [h, uid, d, r, f, i, w, m] =>
    if h.isAtom "T" then
      match uid.nat?, section? "D" defined? d, section? "R" resource? r, section? "F" func? f,
            section? "I" iface? i, section? "W" world? w, section? "M" module? m with
      | some uid, some d, some r, some f, some i, some w, some m =>
        some { uid := uid, defined := d, resources := r, funcs := f, interfaces := i, worlds := w, modules := m }
      | _, _, _, _, _, _, _ => none
    else none
  | _ => none

end SExp

/-- parse a `types` field of the protocol -/
def parseTypes (s : Str) : Option Types := (parseSExp s).bind SExp.types?
/-- parse a `kind` field of the protocol -/
def parseKind (s : Str) : Option ItemKind := (parseSExp s).bind SExp.kind?

end Wac
