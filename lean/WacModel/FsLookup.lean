import WacModel.Names
/-
  Model of `crates/wac-resolver/src/fs.rs`: `FileSystemPackageResolver::resolve` and
  `append_extension`, plus the three `std::path` functions it relies on
  (`Path::extension`, `Path::file_stem`, `PathBuf::set_extension`, all through
  `rsplit_file_at_dot`).

  * The file system is a total function `Path → Entry` (`absent | file bytes | dir`); a finite
    map is the special case `FS.ofList`.  No symbolic links, every regular file is readable.
  * A path is the list of its components; `PathBuf::push(segment)` is modelled as appending one
    component, which is what it does for a segment that is non-empty, contains no `/` and is
    neither `.` nor `..` (assumption on package-name segments, recorded in checks/C18.json).
  * File contents and produced component bytes are opaque tokens (`Bytes`): the resolver only
    copies them.  The three foreign encoders are parameters (`Codec`):
      `witDir`  = `Resolve::push_dir` + `wit_component::encode` of a directory,
      `witFile` = `Resolve::push_file` + `wit_component::encode` of a file's contents,
      `wat`     = `wat::parse_bytes` of a file's contents (binary input is returned unchanged);
    `none` = the encoder failed.
  * The cargo features `wat` / `wit` of wac-resolver are the Booleans `featWat` / `featWit`.
  * Spans are opaque (`Str`); errors are variant + package name + span.

  Core Lean only (linked into the driver).
-/
namespace Wac.FsLookup
open Wac

abbrev Bytes := Str
abbrev Path := List Str

inductive Entry where
  | absent
  | file (bytes : Bytes)
  | dir
deriving DecidableEq, Repr

abbrev FS := Path → Entry

/-- `Path::is_dir` -/
def isDir (fs : FS) (p : Path) : Bool := match fs p with | .dir => true | _ => false
/-- `Path::is_file` -/
def isFile (fs : FS) (p : Path) : Bool := match fs p with | .file _ => true | _ => false
/-- `Path::exists` -/
def pathExists (fs : FS) (p : Path) : Bool := match fs p with | .absent => false | _ => true

/-- a finite map as a file system (first binding wins, everything else is absent) -/
def FS.ofList (l : List (Path × Entry)) : FS := fun p =>
  match l.find? (fun e => e.1 == p) with
  | some e => e.2
  | none => .absent

/-- the three extensions fs.rs mentions -/
def extWasm : Str := ['w', 'a', 's', 'm']
def extWat : Str := ['w', 'a', 't']
def extWit : Str := ['w', 'i', 't']

/-! ### `std::path` string helpers -/

/-- split at the last `.` (`rsplitn(2, '.')`): `(before, after)`; `none` when there is no dot -/
def splitLastDot : Str → Option (Str × Str)
  | [] => none
  | c :: r =>
    match splitLastDot r with
    | some (b, a) => some (c :: b, a)
    | none => if c == '.' then some ([], r) else none

/-- `rsplit_file_at_dot(file)` = `(before, after)` -/
def rsplitFileAtDot (file : Str) : Option Str × Option Str :=
  if file == ['.', '.'] then (some file, none)
  else
    match splitLastDot file with
    | none => (none, some file)
    | some (b, a) => if b.isEmpty then (some file, none) else (some b, some a)

/-- `Path::file_name`: the last component unless it is `..` -/
def fileName (p : Path) : Option Str :=
  match p.getLast? with
  | none => none
  | some f => if f == ['.', '.'] then none else some f

/-- `Path::file_stem` = `before.or(after)` -/
def fileStem (p : Path) : Option Str :=
  match fileName p with
  | none => none
  | some f =>
    match rsplitFileAtDot f with
    | (some b, _) => some b
    | (none, a) => a

/-- `Path::extension` = `before.and(after)` -/
def extension (p : Path) : Option Str :=
  match fileName p with
  | none => none
  | some f =>
    match rsplitFileAtDot f with
    | (some _, a) => a
    | (none, _) => none

/-- `PathBuf::set_extension(ext)` for a non-empty `ext`: truncate after the file stem, push
    `.` and `ext`; unchanged when there is no file name. -/
def setExtension (p : Path) (ext : Str) : Path :=
  match fileStem p with
  | none => p
  | some st => p.dropLast ++ [st ++ '.' :: ext]

/-- `append_extension(path, extension)` (fs.rs): pushes `.` and the extension onto the path's
    string, i.e. onto its last component. -/
def appendExtension (p : Path) (ext : Str) : Path :=
  match p.getLast? with
  | none => ['.' :: ext]
  | some l => p.dropLast ++ [l ++ '.' :: ext]

/-- `str::split(':')` -/
def splitColon (s : Str) : List Str :=
  let rec go (acc : Str) : Str → List Str
    | [] => [acc.reverse]
    | c :: r => if c == ':' then acc.reverse :: go [] r else go (c :: acc) r
  go [] s

/-- `impl Display for semver::Version` -/
def renderVersion (v : Version) : Str :=
  Nat.toDigits 10 v.major ++ '.' :: Nat.toDigits 10 v.minor ++ '.' :: Nat.toDigits 10 v.patch
    ++ (if v.pre.isEmpty then [] else '-' :: v.pre)
    ++ (if v.build.isEmpty then [] else '+' :: v.build)

/-! ### the resolver -/

structure Codec where
  witDir  : Path → Option Bytes
  witFile : Bytes → Option Bytes
  wat     : Bytes → Option Bytes

/-- `FileSystemPackageResolver` plus the cargo features it was compiled with -/
structure Config where
  root : Path
  overrides : List (Str × Path)
  errorOnUnknown : Bool
  featWat : Bool
  featWit : Bool

/-- `BorrowedPackageKey` -/
structure Key where
  name : Str
  version : Option Version
deriving DecidableEq, Repr

abbrev Span := Str

/-- the variants of `wac_resolver::Error` this function returns -/
inductive Err where
  | unknownPackage (name : Str) (span : Span)
  | resolutionFailure (name : Str) (span : Span)
deriving DecidableEq, Repr

/-- what one iteration of the `for (key, span) in keys` loop does -/
inductive Step where
  | loaded (bytes : Bytes)     -- `packages.insert(*key, bytes)`
  | skipped                    -- `continue` without inserting
  | fail (e : Err)             -- `return Err(e)`
deriving DecidableEq, Repr

/-- the path built in the `_ =>` arm before any extension handling:
    `root`, one `push` per `:`-separated segment of the name, then the version -/
def layoutPath (root : Path) (key : Key) : Path :=
  root ++ splitColon key.name ++ (match key.version with | some v => [renderVersion v] | none => [])

/-- The `_ =>` arm.  `probe` is the test applied to the `.wat` candidate: `Path::exists` in the
    code as pinned (`defaultPathOrig`), `Path::is_file` after the repair (`defaultPath`). -/
def defaultPathWith (probe : FS → Path → Bool) (cfg : Config) (fs : FS) (key : Key) : Path :=
  let path := layoutPath cfg.root key
  if !isDir fs path then
    let path := appendExtension path extWasm
    if cfg.featWat then
      let path := setExtension path extWat
      if !probe fs path then setExtension path extWasm else path
    else path
  else path

def defaultPathOrig := defaultPathWith pathExists
def defaultPath := defaultPathWith isFile

/-- the `let path = match self.overrides.get(key.name) { … }` block -/
def choosePathWith (probe : FS → Path → Bool) (cfg : Config) (fs : FS) (key : Key) (span : Span) :
    Except Err Path :=
  match amGet cfg.overrides key.name with
  | some path =>
    if key.version.isNone then
      if !isFile fs path then .error (.resolutionFailure key.name span)
      else .ok path
    else .ok (defaultPathWith probe cfg fs key)
  | none => .ok (defaultPathWith probe cfg fs key)

/-- the rest of the loop body once `path` is known -/
def loadPath (cfg : Config) (codec : Codec) (fs : FS) (key : Key) (span : Span) (path : Path) : Step :=
  -- #[cfg(feature = "wit")] block: `some` = it inserted/returned, `none` = fell through
  let wit : Option Step :=
    if cfg.featWit then
      if isDir fs path then
        match codec.witDir path with
        | some b => some (.loaded b)
        | none => some (.fail (.resolutionFailure key.name span))
      else if extension path == some extWit then
        match fs path with
        | .file src =>
          match codec.witFile src with
          | some b => some (.loaded b)
          | none => some (.fail (.resolutionFailure key.name span))
        | _ => some (.fail (.resolutionFailure key.name span))   -- `push_file` cannot read it
      else none
    else none
  match wit with
  | some s => s
  | none =>
    match fs path with
    | .file bytes =>
      if cfg.featWat && extension path == some extWat then
        match codec.wat bytes with
        | some b => .loaded b
        | none => .fail (.resolutionFailure key.name span)
      else .loaded bytes
    | _ =>
      if cfg.errorOnUnknown then .fail (.unknownPackage key.name span) else .skipped

/-- one iteration of the loop in `FileSystemPackageResolver::resolve` -/
def resolveKeyWith (probe : FS → Path → Bool) (cfg : Config) (codec : Codec) (fs : FS) (key : Key)
    (span : Span) : Step :=
  match choosePathWith probe cfg fs key span with
  | .error e => .fail e
  | .ok path => loadPath cfg codec fs key span path

def resolveKeyOrig := resolveKeyWith pathExists
def resolveKey := resolveKeyWith isFile

/-- `FileSystemPackageResolver::resolve`: the loop with its accumulator `packages`
    (an `IndexMap`; the requested keys are distinct, so `insert` appends). -/
def resolveLoop (step : Key → Span → Step) :
    List (Key × Span) → List (Key × Bytes) → Except Err (List (Key × Bytes))
  | [], packages => .ok packages
  | (key, span) :: rest, packages =>
    match step key span with
    | .fail e => .error e
    | .skipped => resolveLoop step rest packages
    | .loaded b => resolveLoop step rest (packages ++ [(key, b)])

def resolveWith (probe : FS → Path → Bool) (cfg : Config) (codec : Codec) (fs : FS)
    (keys : List (Key × Span)) : Except Err (List (Key × Bytes)) :=
  resolveLoop (resolveKeyWith probe cfg codec fs) keys []

/-- the code as pinned -/
def resolveOrig := resolveWith pathExists
/-- the code after `fix: prefer a .wat *file* …` -/
def resolve := resolveWith isFile

end Wac.FsLookup
