import WacModel.Names
/-
  A plain composition-graph *value*: what the encoding checks (C01, C02, C03) start from.

  It is the harness's dump of the real `wac_graph::CompositionGraph` (public queries `nodes()`,
  `node_ids()`, `get_instantiation_arguments`, `get_alias_source`, `get_export`, node
  kind/name/package accessors, the packages' world types) plus the petgraph adjacency order of
  the edges (hook `verif_encode_edges`), which is what `toposort` observes.  The graph
  *operations* (C06) are not modelled here: the encoding theorems quantify over graph values.
-/
namespace Wac

/-- the index spaces of a component that wac's encoder allocates in
    (`wasm_encoder::ComponentExportKind`; `module` is the core-module space) -/
inductive Kind where
  | type | func | instance | component | module | value
deriving DecidableEq, Repr, Inhabited

def Kind.tag : Kind → String
  | .type => "type" | .func => "func" | .instance => "instance"
  | .component => "component" | .module => "module" | .value => "value"

def Kind.all : List Kind := [.type, .func, .instance, .component, .module, .value]

/-- what the encoder needs to know about the *type* of an imported item -/
structure ItemTy where
  kind  : Kind
  /-- `Interface.id` when the item is an instance of a named interface -/
  iface : Option Str := none
  /-- ids of the interfaces this type depends on through `use`, dependencies first
      (the order `TypeEncoder::import_deps` visits them in) -/
  deps  : List Str := []
  /-- for an instance: the export names of its interface (what the importer needs; C03) -/
  exports : List Str := []
deriving DecidableEq, Repr, Inhabited

/-- one import of a package's world, in world order -/
structure ImportReq where
  name : Str
  ty   : ItemTy
deriving DecidableEq, Repr, Inhabited

/-- a registered package (`wac_types::Package` + its slot in `CompositionGraph.packages`) -/
structure PkgVal where
  slot    : Nat
  name    : Str
  version : Option Str
  /-- class of `Package::bytes()`: packages with identical bytes carry the same number -/
  bytesId : Nat
  imports : List ImportReq
deriving DecidableEq, Repr, Inhabited

/-- edge weights (`graph.rs` `enum Edge`), with the index already resolved to the name the
    public queries report -/
inductive EdgeW where
  | alias (exportName : Str)
  | arg (importIdx : Nat) (importName : Str)
  | dep
deriving DecidableEq, Repr, Inhabited

inductive NodeKind where
  | import (name : Str)
  /-- `satisfied` is the `HashSet<usize>` of `NodeKind::Instantiation` (sorted by the harness) -/
  | instantiation (pkg : Nat) (satisfied : List Nat)
  | alias
  | definition
deriving DecidableEq, Repr, Inhabited

structure Node where
  id     : Nat
  kind   : NodeKind
  /-- item kind of the node (type information only matters for import nodes) -/
  ty     : ItemTy
  name   : Option Str := none
  /-- `Node.export` -/
  exportName : Option Str := none
  /-- for a definition whose type is an alias of a type defined by another definition node:
      that node (the encoder then re-exports the index of the earlier export) -/
  defAlias : Option Nat := none
  /-- incoming edges `(weight, source)` in petgraph adjacency order -/
  inc    : List (EdgeW × Nat) := []
  /-- targets of the outgoing edges in petgraph adjacency order (`graph.neighbors(n)`) -/
  succ   : List Nat := []
deriving DecidableEq, Repr, Inhabited

structure GraphVal where
  /-- live nodes in increasing index order (`graph.node_indices()`) -/
  nodes   : List Node
  /-- `CompositionGraph.exports` in `IndexMap` order -/
  exports : List (Str × Nat)
  pkgs    : List PkgVal
deriving DecidableEq, Repr, Inhabited

namespace GraphVal

def node? (g : GraphVal) (n : Nat) : Option Node := g.nodes.find? (·.id == n)

def pkg? (g : GraphVal) (slot : Nat) : Option PkgVal := g.pkgs.find? (·.slot == slot)

def ids (g : GraphVal) : List Nat := g.nodes.map (·.id)

/-- `CompositionGraph.imports` (name → node) as far as encoding reads it -/
def importNode? (g : GraphVal) (name : Str) : Option Nat :=
  (g.nodes.find? fun n => match n.kind with | .import nm => nm == name | _ => false).map (·.id)

end GraphVal

namespace Node

def isImport (n : Node) : Bool := match n.kind with | .import _ => true | _ => false
def isInstantiation (n : Node) : Bool := match n.kind with | .instantiation .. => true | _ => false
def isDefinition (n : Node) : Bool := match n.kind with | .definition => true | _ => false

/-- the argument edges among incoming edges: `(import name, source)` -/
def argsOf : List (EdgeW × Nat) → List (Str × Nat)
  | [] => []
  | (.arg _ nm, s) :: r => (nm, s) :: argsOf r
  | _ :: r => argsOf r

/-- `get_instantiation_arguments`: incoming argument edges in adjacency order -/
def args (n : Node) : List (Str × Nat) := argsOf n.inc

/-- `get_alias_source`: the first incoming alias edge -/
def aliasSource (n : Node) : Option (Nat × Str) :=
  n.inc.findSome? fun (w, s) => match w with | .alias e => some (s, e) | _ => none

end Node

end Wac
