import WacModel.FsLookup
import WacModel.Generated.CliFlags
/-
  Model of the command layer: `src/commands/{compose,plug,targets,parse}.rs` (`…Command::exec`)
  and the exit-code rule of `src/bin/wac.rs` (`main`).

  A command is split into
    * a *plan* (`composePlan`, `plugPlan`, `targetsPlan`, `parsePlan`): what the flags make the
      command ask of the library — which source, which dependency directory and overrides, which
      `EncodeOptions`, text or binary, where the output goes;
    * a *run* (`emitRun`, `targetsRun`, `parseRun`): the control flow of `exec` + `main` over the
      outcome of the library calls, which are inputs here (`LibResult`): first failing stage or
      the produced bytes.  Bytes are opaque tokens.

  The plans are parametrised by the tables that `tools/translate_cli.py` regenerates from the clap
  attributes and the `EncodeOptions { … }` literal (`Tables`): default values and the polarity of
  every Boolean come from the source as it is now.

  Process-level behaviour that is an *input* of the model rather than modelled: whether stdout is
  a terminal, whether the output file can be written, clap's own argument parsing / usage errors.

  Core Lean only (linked into the driver).
-/
namespace Wac.Cli
open Wac

abbrev Tok := Str

/-! ### the generated tables -/

structure Tables where
  flags : List Generated.CliFlags.FlagSpec
  encodeOptions : List (String × String × String × Bool)
  encodeDefaults : List String
  exitCodes : List Nat

def generated : Tables :=
  { flags := Generated.CliFlags.flags, encodeOptions := Generated.CliFlags.encodeOptions,
    encodeDefaults := Generated.CliFlags.encodeDefaults, exitCodes := Generated.CliFlags.exitCodes }

/-- clap `default_value` of a field -/
def Tables.defaultOf (t : Tables) (command field : String) : Option String :=
  match t.flags.find? (fun f => f.command == command && f.field == field) with
  | some f => f.default
  | none => none

/-- value of an `EncodeOptions` field given the values of the command's Boolean flags;
    `EncodeOptions::default()` (both true) when the command does not set it -/
def Tables.encodeOption (t : Tables) (command option : String) (flagValue : String → Bool) : Bool :=
  match t.encodeOptions.find? (fun e => e.1 == command && e.2.1 == option) with
  | some (_, _, flag, negated) => if negated then !flagValue flag else flagValue flag
  | none => true

/-- exit status of a failed command (`std::process::exit(1)` in `main`) -/
def Tables.failureExit (t : Tables) : Nat := t.exitCodes.headD 1

/-! ### `wac compose` -/

structure ComposeFlags where
  depsDir : Option Str          -- `--deps-dir PATH`
  deps : List (Str × Str)       -- `--dep PKG=PATH`, in argument order
  noValidate : Bool             -- `--no-validate`
  wat : Bool                    -- `-t` / `--wat`
  importDependencies : Bool     -- `-i` / `--import-dependencies`
  output : Option Str           -- `-o` / `--output PATH`
  path : Str                    -- the WAC source
deriving DecidableEq, Repr

inductive Sink where
  | stdout
  | file (path : Str)
deriving DecidableEq, Repr

/-- what `ComposeCommand::exec` asks of the library -/
structure ComposePlan where
  source : Str
  depsDir : Str
  overrides : List (Str × Str)   -- the `HashMap` built from `--dep`: one path per package
  defineComponents : Bool        -- `EncodeOptions::define_components`
  validate : Bool                -- `EncodeOptions::validate`
  text : Bool                    -- `print_bytes` applied to the encoded component
  sink : Sink
deriving DecidableEq, Repr

/-- `self.deps.into_iter().collect::<HashMap<_, _>>()`: a later `--dep` for the same package
    replaces an earlier one -/
def collectOverrides (deps : List (Str × Str)) : List (Str × Str) :=
  deps.foldl (fun m d => amInsert m d.1 d.2) []

def composeFlagValue (f : ComposeFlags) (flag : String) : Bool :=
  if flag == "import_dependencies" then f.importDependencies
  else if flag == "no_validate" then f.noValidate
  else if flag == "wat" then f.wat
  else false

/-- `ComposeCommand::exec`, the part before any library call -/
def composePlanWith (t : Tables) (f : ComposeFlags) : ComposePlan :=
  { source := f.path
    depsDir := match f.depsDir with
      | some d => d
      | none => ((t.defaultOf "compose" "deps_dir").getD "").toList
    overrides := collectOverrides f.deps
    defineComponents := t.encodeOption "compose" "define_components" (composeFlagValue f)
    validate := t.encodeOption "compose" "validate" (composeFlagValue f)
    text := f.wat
    sink := match f.output with
      | some p => .file p
      | none => .stdout }

def composePlan : ComposeFlags → ComposePlan := composePlanWith generated

/-! ### running a command that emits a component (`compose`, `plug`) -/

/-- the library pipeline of `exec`, as far as it got: the stage that failed, or the encoded
    component and its text form -/
inductive LibResult where
  | failed (stage : Str)
  | encoded (binary text : Tok)
deriving DecidableEq, Repr

/-- what can be seen of a process -/
structure Observation where
  exit : Nat
  stdout : Tok              -- `[]` = nothing written
  stdoutNewline : Bool      -- a single `\n` after the payload
  file : Option (Str × Tok) -- output file written, with its contents
  diagnostic : Bool         -- something on stderr
deriving DecidableEq, Repr

def failure (t : Tables) : Observation :=
  { exit := t.failureExit, stdout := [], stdoutNewline := false, file := none, diagnostic := true }

/-- `exec` from the terminal check on, then `main`'s error handling.  `isTerminal`: stdout is a
    terminal; `writable`: `fs::write` / `write_all` succeeds. -/
def emitRun (t : Tables) (text : Bool) (sink : Sink) (lib : LibResult) (isTerminal writable : Bool) : Observation :=
  match lib with
  | .failed _ => failure t
  | .encoded binary txt =>
    -- the compose command checks the terminal before encoding, plug after; both before writing
    if !text && sink == .stdout && isTerminal then failure t
    else if !writable then failure t
    else
      let payload := if text then txt else binary
      match sink with
      | .file p => { exit := 0, stdout := [], stdoutNewline := false, file := some (p, payload), diagnostic := false }
      | .stdout => { exit := 0, stdout := payload, stdoutNewline := text, file := none, diagnostic := false }

def composeRun (t : Tables) (plan : ComposePlan) (lib : Bool → Bool → LibResult) (isTerminal writable : Bool) :
    Observation :=
  emitRun t plan.text plan.sink (lib plan.defineComponents plan.validate) isTerminal writable

/-! ### `wac plug` -/

structure PlugFlags where
  plugs : List Str      -- `--plug PATH`, in argument order (local paths)
  socket : Str
  wat : Bool
  output : Option Str
deriving DecidableEq, Repr

structure PlugPlan where
  socket : Str
  /-- the plug packages in registration order: (package name, path) -/
  packages : List (Str × Str)
  defineComponents : Bool
  validate : Bool
  text : Bool
  sink : Sink
deriving DecidableEq, Repr

/-- `Path::file_stem` of a `/`-separated path -/
def stemOf (path : Str) : Str :=
  let comps := (FsLookup.splitColon (path.map fun c => if c == '/' then ':' else c)).filter (!·.isEmpty)
  (FsLookup.fileStem comps).getD []

/-- `plugs_by_name.entry(name).or_default().push(plug)` -/
def groupStep (m : List (Str × List Str)) (p : Str) : List (Str × List Str) :=
  match amGet m (stemOf p) with
  | some ps => amInsert m (stemOf p) (ps ++ [p])
  | none => m ++ [(stemOf p, [p])]

/-- `plugs_by_name`: the plugs grouped by file stem; groups in order of first occurrence,
    members in argument order -/
def groupByStem (plugs : List Str) : List (Str × List Str) :=
  plugs.foldl groupStep []

/-- names given to the members of one group: `plug:<stem>`, with the member's index appended
    when the group has more than one member -/
def groupPackages (g : Str × List Str) : List (Str × Str) :=
  (List.range g.2.length).zip g.2 |>.map fun (i, p) =>
    ("plug:".toList ++ g.1 ++ (if g.2.length > 1 then (Nat.toDigits 10 i) else []), p)

/-- `PlugCommand::exec` before the library calls.  The code iterates a `HashMap` of groups, so
    the order of the *groups* is some permutation `order` of the first-occurrence order. -/
def plugPlanWith (t : Tables) (order : List (Str × List Str) → List (Str × List Str)) (f : PlugFlags) : PlugPlan :=
  { socket := f.socket
    packages := (order (groupByStem f.plugs)).flatMap groupPackages
    defineComponents := t.encodeOption "plug" "define_components" (fun _ => false)
    validate := t.encodeOption "plug" "validate" (fun _ => false)
    text := f.wat
    sink := match f.output with
      | some p => .file p
      | none => .stdout }

/-- the reference plan: groups in order of first occurrence -/
def plugPlan : PlugFlags → PlugPlan := plugPlanWith generated id

/-! ### `wac targets` -/

structure TargetsFlags where
  component : Str
  wit : Str
  world : Option Str
deriving DecidableEq, Repr

inductive WorldChoice where
  | world (name : Str)
  | noSuchWorld (name : Str)
  | multipleWorlds
  | noWorld
deriving DecidableEq, Repr

/-- `get_wit_world`: which of the WIT package's worlds is the target -/
def selectWorld (worlds : List Str) (requested : Option Str) : WorldChoice :=
  match requested with
  | some w => if worlds.contains w then .world w else .noSuchWorld w
  | none =>
    match worlds with
    | [w] => .world w
    | [] => .noWorld
    | _ => .multipleWorlds

/-- `TargetsCommand::exec`: `conforms w` is `validate_target` for world `w` (an input) -/
def targetsRun (t : Tables) (f : TargetsFlags) (loadable : Bool) (worlds : List Str) (conforms : Str → Bool) : Observation :=
  let ok : Observation := { exit := 0, stdout := [], stdoutNewline := false, file := none, diagnostic := false }
  if !loadable then failure t
  else
    match selectWorld worlds f.world with
    | .world w => if conforms w then ok else failure t
    | _ => failure t

/-! ### `wac parse` -/

/-- `ParseCommand::exec`: the JSON of the AST and a newline, or a diagnostic -/
def parseRun (t : Tables) (json : Option Tok) : Observation :=
  match json with
  | some j => { exit := 0, stdout := j, stdoutNewline := true, file := none, diagnostic := false }
  | none => failure t


/-! ### `PackageResolver::resolve` (src/lib.rs): file system first, then the registry

  Generic in the key, span, content and error types; the two resolvers are parameters (they are
  the subjects of C18 and C20). -/

inductive PipelineErr (ε₁ ε₂ κ σ : Type) where
  | fileSystem (e : ε₁)
  | registry (e : ε₂)
  | unknownPackage (key : κ) (span : σ)
deriving DecidableEq, Repr

section
variable {κ σ β ε₁ ε₂ : Type} [DecidableEq κ]

/-- `keys.retain(|key, _| !packages.contains_key(key))` -/
def retainMissing (keys : List (κ × σ)) (packages : List (κ × β)) : List (κ × σ) :=
  keys.filter fun k => !(packages.any fun p => p.1 == k.1)

/-- the final `if let Some((key, span)) = keys.first()` -/
def finishResolve (packages : List (κ × β)) (remaining : List (κ × σ)) :
    Except (PipelineErr ε₁ ε₂ κ σ) (List (κ × β)) :=
  match remaining with
  | [] => .ok packages
  | (k, sp) :: _ => .error (.unknownPackage k sp)

/-- `PackageResolver::resolve`; `registry = none` is a build without the `registry` feature -/
def resolvePackages (fs : List (κ × σ) → Except ε₁ (List (κ × β)))
    (registry : Option (List (κ × σ) → Except ε₂ (List (κ × β)))) (keys : List (κ × σ)) :
    Except (PipelineErr ε₁ ε₂ κ σ) (List (κ × β)) :=
  match fs keys with
  | .error e => .error (.fileSystem e)
  | .ok found =>
    let remaining := retainMissing keys found
    match registry with
    | none => finishResolve found remaining
    | some reg =>
      if remaining.isEmpty then finishResolve found remaining
      else
        match reg remaining with
        | .error e => .error (.registry e)
        | .ok more => finishResolve (found ++ more) (retainMissing remaining more)
end

end Wac.Cli
