import WacModel.Checker
import WacModel.Names
/-
  Models for C11:
  * `World::implicit_imported_interfaces` (component.rs),
  * `AstResolver::validate_target` (wac-parser resolution.rs): exact-name lookup over
    `graph.imports()` / `graph.get_export`, first failure wins,
  * `wac_types::validate_target` (targets.rs): semver-aware `NameMap` lookups (`all_imports`,
    component exports), all failures collected into a report.
  Both use one fresh `SubtypeChecker` per call (memo shared by all the checks of the call) and
  `invert()` around the import checks.
-/
namespace Wac

/-- `World::implicit_imported_interfaces`; `none` = the `unwrap()` on a missing interface id
(or an out-of-bounds index) panics -/
def implicitImported (t : Types) (w : World) : Option (List (Str × ItemKind)) :=
  let add (acc : Option (List (Str × ItemKind))) (u : UsedType) : Option (List (Str × ItemKind)) :=
    match acc, t.interfaces[u.interface]? with
    | some m, some itf =>
      match itf.id with
      | some name => some (amInsert m name (.instance u.interface))
      | none => none
    | _, _ => none
  let fromUses := w.uses.foldl (fun acc e => add acc e.2) (some [])
  w.imports.foldl (fun acc e =>
    match e.2 with
    | .instance i =>
      match t.interfaces[i]? with
      | some itf => itf.uses.foldl (fun acc u => add acc u.2) acc
      | none => none
    | _ => acc) fromUses

/-- verdict of the resolution-time check (`Error::{ImportNotInTarget, TargetMismatch,
MissingTargetExport}`) -/
inductive ResolveVerdict
  | ok
  | importNotInTarget (name : Str)
  | targetMismatch (isImport : Bool) (name : Str) (msg : String)
  | missingTargetExport (name : Str) (kind : String)
  | panic (site : String)
deriving DecidableEq, Repr, Inhabited

/-- the import loop of `AstResolver::validate_target` -/
def resolveImports (t : Types) (implicit explicit : List (Str × ItemKind)) :
    Checker → List (Str × ItemKind) → ResolveVerdict × Checker
  | c, [] => (.ok, c)
  | c, (name, kind) :: rest =>
    match (amGet implicit name).orElse (fun _ => amGet explicit name) with
    | none => (.importNotInTarget name, c)
    | some expected =>
      match isSubtype (checkFuel t t) c t expected.promote t kind with
      | (.ok, c') => resolveImports t implicit explicit c' rest
      | (.err m, c') => (.targetMismatch true name m, c')
      | (.panic s, c') => (.panic s, c')

/-- the export loop of `AstResolver::validate_target` -/
def resolveExports (t : Types) (graphExports : List (Str × ItemKind)) :
    Checker → List (Str × ItemKind) → ResolveVerdict × Checker
  | c, [] => (.ok, c)
  | c, (name, expected) :: rest =>
    match amGet graphExports name with
    | none => (.missingTargetExport name (t.descKind expected), c)
    | some kind =>
      match isSubtype (checkFuel t t) c t kind t expected.promote with
      | (.ok, c') => resolveExports t graphExports c' rest
      | (.err m, c') => (.targetMismatch false name m, c')
      | (.panic s, c') => (.panic s, c')

/-- `AstResolver::validate_target(state, path, world)` on the graph's imports (`graph.imports()`,
in that order) and exports (`graph.get_export`) -/
def resolveValidateTarget (t : Types) (world : Nat) (graphImports graphExports : List (Str × ItemKind)) :
    ResolveVerdict :=
  match t.worlds[world]? with
  | none => .panic "world index"
  | some w =>
    match implicitImported t w with
    | none => .panic "used interface without id"
    | some implicit =>
      let c0 : Checker := (({} : Checker).invert).2
      match resolveImports t implicit w.imports c0 graphImports with
      | (.ok, c1) =>
        match c1.revert with
        | none => .panic "mismatched stack"
        | some c2 => (resolveExports t graphExports c2 w.exports).1
      | (v, _) => v

/-- `TargetValidationReport` (the three `BTree` collections, as lists in iteration order of the loops;
`mismatched_types` is keyed by name: a later mismatch of the same name replaces the earlier one) -/
structure Report where
  importsNotInTarget : List Str := []
  missingExports : List Str := []
  mismatched : List (Str × Bool × String) := []
deriving DecidableEq, Repr, Inhabited

def Report.isOk (r : Report) : Bool :=
  r.importsNotInTarget.isEmpty && r.missingExports.isEmpty && r.mismatched.isEmpty

/-- `World::all_imports`: implicit imports first, then the explicit ones (shadowing allowed) -/
def allImports (implicit explicit : List (Str × ItemKind)) : NameMap ItemKind :=
  (implicit ++ explicit).foldl (fun m e => (m.insert e.1 true e.2).getD m) {}

def nameMapOf (l : List (Str × ItemKind)) : NameMap ItemKind :=
  l.foldl (fun m e => (m.insert e.1 true e.2).getD m) {}

/-- the import loop of `wac_types::validate_target` -/
def binaryImports (t : Types) (worldImports : NameMap ItemKind) :
    Checker → Report → List (Str × ItemKind) → Option (Report × Checker)
  | c, r, [] => some (r, c)
  | c, r, (name, kind) :: rest =>
    match worldImports.get name with
    | none => binaryImports t worldImports c { r with importsNotInTarget := r.importsNotInTarget ++ [name] } rest
    | some expected =>
      match isSubtype (checkFuel t t) c t expected.promote t kind with
      | (.ok, c') => binaryImports t worldImports c' r rest
      | (.err m, c') => binaryImports t worldImports c' { r with mismatched := (r.mismatched.filter fun e => e.1 != name) ++ [(name, true, m)] } rest
      | (.panic _, _) => none

/-- the export loop of `wac_types::validate_target` -/
def binaryExports (t : Types) (componentExports : NameMap ItemKind) :
    Checker → Report → List (Str × ItemKind) → Option (Report × Checker)
  | c, r, [] => some (r, c)
  | c, r, (name, expected) :: rest =>
    match componentExports.get name with
    | none => binaryExports t componentExports c { r with missingExports := r.missingExports ++ [name] } rest
    | some kind =>
      match isSubtype (checkFuel t t) c t kind t expected.promote with
      | (.ok, c') => binaryExports t componentExports c' r rest
      | (.err m, c') => binaryExports t componentExports c' { r with mismatched := (r.mismatched.filter fun e => e.1 != name) ++ [(name, false, m)] } rest
      | (.panic _, _) => none

/-- the core of `wac_types::validate_target` on the component's import / export lists -/
def binaryValidateLists (t : Types) (w : World) (compImports compExports : List (Str × ItemKind)) : Option Report :=
  match implicitImported t w with
  | none => none
  | some implicit =>
    let c0 : Checker := (({} : Checker).invert).2
    match binaryImports t (allImports implicit w.imports) c0 {} compImports with
    | none => none
    | some (r1, c1) =>
      match c1.revert with
      | none => none
      | some c2 => (binaryExports t (nameMapOf compExports) c2 r1 w.exports).map (·.1)

/-- `wac_types::validate_target(types, wit_world_id, component_world_id)`; `none` = panic -/
def binaryValidateTarget (t : Types) (witWorld componentWorld : Nat) : Option Report :=
  match t.worlds[witWorld]?, t.worlds[componentWorld]? with
  | some w, some cw => binaryValidateLists t w cw.imports cw.exports
  | _, _ => none

end Wac
