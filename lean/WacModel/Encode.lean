import WacModel.Skeleton
import WacModel.Toposort
/-
  Model of `CompositionGraphEncoder::encode` (graph.rs) on a graph value:
  toposort + imports-first partition + `encode_imports`/`resolve_imports` (name-level model of
  `TypeAggregator::aggregate`) + `definition` / `instantiation` / `alias` + exports loop +
  `encode_names`.

  Abstracted (see Skeleton.lean): the content of types.  What is kept of the type encoder is
  what is visible in the other index spaces: the instance imports it adds for `use`d
  interfaces (`import_deps`) and the reuse of an already imported interface instance
  (`state.current.instances`).  Merging of import *types* is only modelled up to the item kind
  (a kind mismatch is a merge conflict; everything else is assumed to merge).

  Panics of the Rust code (`unwrap`, indexing, `assert!`) are the value `Res.panic site`.
-/
namespace Wac

structure Opts where
  /-- `EncodeOptions::define_components` -/
  define : Bool := true
deriving DecidableEq, Repr, Inhabited

inductive EncErr where
  | cycle (node : Nat)
  | implicitConflict (name : Str) (inst : Nat) (imp : Nat)
  | mergeConflict (name : Str) (first second : Nat)
deriving DecidableEq, Repr, Inhabited

inductive Res (α : Type) where
  | ok (a : α)
  | error (e : EncErr)
  | panic (site : String)
deriving Repr, Inhabited

def Res.bind {α β} (r : Res α) (f : α → Res β) : Res β :=
  match r with
  | .ok a => f a
  | .error e => .error e
  | .panic s => .panic s

instance : Monad Res where
  pure := .ok
  bind := Res.bind

def optOr {α} (o : Option α) (site : String) : Res α :=
  match o with
  | some a => .ok a
  | none => .panic site

/-! ### name-level model of `TypeAggregator` -/

structure Agg where
  /-- `imports` in `IndexMap` order -/
  imports   : List (Str × ItemTy) := []
  /-- `name_redirects` -/
  redirects : List (Str × Str) := []
  /-- the ids of the named interfaces remapped so far (`interfaces`): one per semver track, the
      first one seen (`remap_interface` merges a later interface of the track into it), renamed
      when the import of that name is superseded by a higher version -/
  ifaces    : List Str := []
deriving DecidableEq, Repr, Inhabited

/-- the id of the (merged) interface that stands for interface id `d` -/
def Agg.ifaceOf (a : Agg) (d : Str) : Str :=
  match a.ifaces.find? fun i => compat i d with
  | some i => i
  | none => d

/-- `remap_interface` on the interfaces a type mentions: dependencies first, then the interface itself -/
def Agg.register (a : Agg) (ty : ItemTy) : Agg :=
  let ids := ty.deps ++ (match ty.iface with | some i => [i] | none => [])
  -- a later interface of a track is merged into the first one, which is then named for the
  -- higher of the two versions
  let higher (i d : Str) : Bool :=
    match altKey i, altKey d with
    | some (_, vi), some (_, vd) => vi.lt vd
    | _, _ => false
  { a with ifaces := ids.foldl (fun l d =>
      if l.any fun i => compat i d then l.map fun i => if compat i d && higher i d then d else i
      else l ++ [d]) a.ifaces }

/-- an aggregated import type with its interfaces replaced by the merged ones -/
def Agg.fix (a : Agg) (ty : ItemTy) : ItemTy :=
  { ty with iface := ty.iface.map a.ifaceOf, deps := ty.deps.map a.ifaceOf }

/-- `find_semver_compatible_import`: the first import on the same semver track -/
def Agg.findCompat (a : Agg) (name : Str) : Option (Str × ItemTy) :=
  match altKey name with
  | none => none
  | some (k, _) =>
    a.imports.find? fun e =>
      match altKey e.1 with
      | some (k', _) => k' == k
      | none => false

/-- `aggregate` (`none` = the merge failed) -/
def Agg.aggregate (a0 : Agg) (name : Str) (ty : ItemTy) : Option Agg :=
  let a := a0.register ty
  match amGet a.imports name with
  | some ex => if ex.kind = ty.kind then some a else none
  | none =>
    match a.findCompat name with
    | some (exName, exTy) =>
      if exTy.kind ≠ ty.kind then none
      else
        match altKey name, altKey exName with
        | some (_, nv), some (_, ev) =>
          if ev.lt nv then
            -- the merged interface is renamed with the import (its id follows the import name)
            let exTy' : ItemTy := if exTy.iface = some exName then { exTy with iface := some name } else exTy
            some { imports := (a.imports.filter fun e => e.1 != exName) ++ [(name, exTy')],
                   redirects := amInsert (a.redirects.map fun (k, v) => if v == exName then (k, name) else (k, v))
                                  exName name,
                   ifaces := if exTy.iface = some exName then a.ifaces.map fun i => if i == exName then name else i
                             else a.ifaces }
          else some { a with redirects := amInsert a.redirects name exName }
        | _, _ => some a
    | none => some { a with imports := a.imports ++ [(name, ty)] }

/-- `canonical_import_name` -/
def Agg.canonical (a : Agg) (name : Str) : Str := (amGet a.redirects name).getD name

/-! ### encoder state -/

structure EncSt where
  /-- the items emitted so far -/
  items     : List Item := []
  /-- `ComponentBuilder`'s counters -/
  cnt       : Kind → Nat := fun _ => 0
  /-- `State.node_indexes` -/
  nodeIdx   : List (Nat × Nat) := []
  /-- `State.packages` -/
  pkgs      : List (Nat × Nat) := []
  /-- `State.implicit_args` -/
  implicit  : List (Nat × List (Str × Kind × Nat)) := []
  /-- `State.current.instances` -/
  instances : List (Str × Nat) := []
deriving Inhabited

def natGet {β} (m : List (Nat × β)) (k : Nat) : Option β := (m.find? (·.1 == k)).map (·.2)

/-- append an item; the result is the index it allocates (`inc_kind`) -/
def EncSt.emit (st : EncSt) (it : Item) : EncSt × Nat :=
  match it.alloc with
  | some k =>
    ({ st with items := st.items ++ [it], cnt := fun k' => if k' = k then st.cnt k' + 1 else st.cnt k' }, st.cnt k)
  | none => ({ st with items := st.items ++ [it] }, 0)

/-! ### imports -/

/-- the unsatisfied imports of an instantiation, in world order (`is_arg_satisfied`) -/
def unsatisfied (p : PkgVal) (sat : List Nat) : List ImportReq :=
  (p.imports.zipIdx.filter fun (_, i) => !sat.contains i).map (·.1)

structure Resolved where
  agg      : Agg := {}
  /-- `implicit_imports` -/
  implicit : List (Str × Nat) := []
  /-- `instantiations`: the first instantiation seen per implicit import name -/
  first    : List (Str × Nat) := []
deriving Inhabited

/-- the inner loop of `resolve_imports` for one instantiation -/
def resolveArgs (g : GraphVal) (inst : Nat) : List ImportReq → Resolved → Res Resolved
  | [], r => .ok r
  | req :: rest, r =>
    match g.importNode? req.name with
    | some imp => .error (.implicitConflict req.name inst imp)
    | none =>
      let first := match amGet r.first req.name with
        | some _ => r.first
        | none => r.first ++ [(req.name, inst)]
      match r.agg.aggregate req.name req.ty with
      | none => .error (.mergeConflict req.name ((amGet first req.name).getD inst) inst)
      | some agg => resolveArgs g inst rest { agg := agg, implicit := r.implicit ++ [(req.name, inst)], first := first }

/-- `resolve_imports`, first loop: instantiations in node-index order -/
def resolveInsts (g : GraphVal) : List Node → Resolved → Res Resolved
  | [], r => .ok r
  | n :: ns, r =>
    match n.kind with
    | .instantiation slot sat =>
      match g.pkg? slot with
      | none => .panic "invalid package id"
      | some p =>
        match resolveArgs g n.id (unsatisfied p sat) r with
        | .ok r' => resolveInsts g ns r'
        | .error e => .error e
        | .panic s => .panic s
    | _ => resolveInsts g ns r

/-- `resolve_imports`, second loop: explicit import nodes in toposort order; a merge failure is
    reported against the first instantiation that introduced an import on the same track -/
def resolveExplicit (g : GraphVal) (first : List (Str × Nat)) :
    List Nat → Agg → List (Str × Nat) → Res (Agg × List (Str × Nat))
  | [], a, ex => .ok (a, ex)
  | n :: ns, a, ex =>
    match g.node? n with
    | none => .panic "invalid node"
    | some nd =>
      match nd.kind with
      | .import name =>
        match a.aggregate name nd.ty with
        | none =>
          let cands := (first.filter fun e => compat e.1 name).map (·.2)
          .error (.mergeConflict name (cands.foldl Nat.min (cands.headD n)) n)
        | some a' => resolveExplicit g first ns a' (ex ++ [(name, n)])
      | _ => resolveExplicit g first ns a ex

/-- `import_deps` at the top level: one instance import per not yet imported interface -/
def importDeps : List Str → EncSt → EncSt
  | [], st => st
  | d :: ds, st =>
    match amGet st.instances d with
    | some _ => importDeps ds st
    | none =>
      let (st1, _) := st.emit .typeDef
      let (st2, idx) := st1.emit (.import d .instance)
      importDeps ds { st2 with instances := amInsert st2.instances d idx }

/-- an import under the interface's own name, or a semver-compatible version of it, is *the*
    import of that interface (`provides_interface`) -/
def providesIface (name i : Str) : Bool := i == name || compat i name

/-- `CompositionGraphEncoder::import`; `cn` = the naming applied to dependency ids -/
def importItem (cn : Str → Str) (st : EncSt) (name : Str) (ty : ItemTy) : EncSt × Nat :=
  let reuse : Option Nat :=
    if ty.kind = .instance then
      match ty.iface with
      | some i => if providesIface name i then amGet st.instances i else none
      | none => none
    else none
  match reuse with
  | some idx => (st, idx)
  | none =>
    let st0 := if ty.kind = .instance then importDeps (ty.deps.map cn) st else st
    let (st1, _) := st0.emit .typeDef
    let (st2, idx) := st1.emit (.import name ty.kind)
    let st3 :=
      if ty.kind = .instance then
        match ty.iface with
        | some i => if providesIface name i then { st2 with instances := amInsert st2.instances i idx } else st2
        | none => st2
      else st2
    (st3, idx)

/-- the import loop of `encode_imports`; `encoded` maps name ↦ (kind, index) -/
def importAll (cn : Str → Str) : List (Str × ItemTy) → EncSt → List (Str × (Kind × Nat)) → EncSt × List (Str × (Kind × Nat))
  | [], st, enc => (st, enc)
  | (name, ty) :: rest, st, enc =>
    let (st', idx) := importItem cn st name ty
    importAll cn rest st' (amInsert enc name (ty.kind, idx))

def pushImplicit (m : List (Nat × List (Str × Kind × Nat))) (node : Nat) (a : Str × Kind × Nat) :
    List (Nat × List (Str × Kind × Nat)) :=
  match m with
  | [] => [(node, [a])]
  | (n, l) :: r => if n == node then (n, l ++ [a]) :: r else (n, l) :: pushImplicit r node a

def fillImplicit (agg : Agg) (enc : List (Str × (Kind × Nat))) :
    List (Str × Nat) → EncSt → Res EncSt
  | [], st => .ok st
  | (name, node) :: rest, st =>
    match amGet enc (agg.canonical name) with
    | none => .panic "encoded[canonical]"
    | some (k, idx) => fillImplicit agg enc rest { st with implicit := pushImplicit st.implicit node (name, k, idx) }

def fillExplicit (agg : Agg) (enc : List (Str × (Kind × Nat))) :
    List (Str × Nat) → EncSt → Res EncSt
  | [], st => .ok st
  | (name, node) :: rest, st =>
    match amGet enc (agg.canonical name) with
    | none => .panic "encoded[canonical]"
    | some (_, idx) => fillExplicit agg enc rest { st with nodeIdx := st.nodeIdx ++ [(node, idx)] }

/-- `encode_imports` -/
def encodeImports (g : GraphVal) (importNodes : List Nat) (st : EncSt) : Res EncSt :=
  match resolveInsts g g.nodes {} with
  | .error e => .error e
  | .panic s => .panic s
  | .ok r =>
    match resolveExplicit g r.first importNodes r.agg [] with
    | .error e => .error e
    | .panic s => .panic s
    | .ok (agg, explicit) =>
      let fixed := agg.imports.map fun e => (e.1, agg.fix e.2)
      let insts := fixed.filter fun e => e.2.kind = .instance
      let rest := fixed.filter fun e => ¬ (e.2.kind = .instance)
      let (st1, enc) := importAll id (insts ++ rest) st []
      match fillImplicit agg enc r.implicit st1 with
      | .error e => .error e
      | .panic s => .panic s
      | .ok st2 => fillExplicit agg enc explicit st2

/-! ### the other nodes -/

/-- `package_import_name` -/
def pkgImportName (p : PkgVal) : Str :=
  "unlocked-dep=<".toList ++ p.name ++
    (match p.version with
     | some v => "@{>=".toList ++ v ++ "}".toList
     | none => []) ++ ">".toList

/-- the explicit arguments of `instantiation`: incoming edges in adjacency order -/
def explicitArgs (g : GraphVal) (st : EncSt) : List (EdgeW × Nat) → Res (List (Str × Kind × Nat))
  | [] => .ok []
  | (w, src) :: rest =>
    match g.node? src with
    | none => .panic "edge source"
    | some sn =>
      match natGet st.nodeIdx src with
      | none => .panic "node_indexes[source]"
      | some idx =>
        match w with
        | .arg _ name =>
          match explicitArgs g st rest with
          | .ok l => .ok ((name, sn.ty.kind, idx) :: l)
          | .error e => .error e
          | .panic s => .panic s
        | _ => .panic "unexpected edge for an instantiation"

/-- the component index of a package: cached per package (`state.packages`), else the
    embedded component or the `unlocked-dep` component import -/
def pkgComponent (o : Opts) (st : EncSt) (slot : Nat) (p : PkgVal) : EncSt × Nat :=
  match natGet st.pkgs slot with
  | some c => (st, c)
  | none =>
    let r :=
      if o.define then st.emit (.component p.bytesId)
      else (st.emit .typeDef).1.emit (.import (pkgImportName p) .component)
    ({ r.1 with pkgs := r.1.pkgs ++ [(slot, r.2)] }, r.2)

/-- `instantiation` -/
def encInstantiation (g : GraphVal) (o : Opts) (st : EncSt) (n : Node) (slot : Nat) : Res (EncSt × Nat) :=
  match g.pkg? slot with
  | none => .panic "invalid package id"
  | some p =>
    let r := pkgComponent o st slot p
    match explicitArgs g r.1 n.inc with
    | .error e => .error e
    | .panic s => .panic s
    | .ok args =>
      let implicit := (natGet r.1.implicit n.id).getD []
      let st2 := { r.1 with implicit := r.1.implicit.filter fun e => e.1 != n.id }
      .ok (st2.emit (.instantiate r.2 (args ++ implicit)))

/-- `alias` -/
def encAlias (g : GraphVal) (st : EncSt) (n : Node) : Res (EncSt × Nat) :=
  match n.aliasSource with
  | none => .panic "alias should have a source"
  | some (src, exportName) =>
    match g.node? src with
    | none => .panic "alias source"
    | some sn =>
      if sn.ty.kind ≠ .instance then .panic "expected the source of an alias to be an instance"
      else
        match natGet st.nodeIdx src with
        | none => .panic "node_indexes[source]"
        | some inst => .ok (st.emit (.aliasExport inst n.ty.kind exportName))

/-- the type index `definition` exports: the index of an already exported aliased definition,
    else a freshly encoded type -/
def defTypeIndex (st : EncSt) (n : Node) : EncSt × Nat :=
  match n.defAlias.bind (natGet st.nodeIdx) with
  | some idx => (st, idx)
  | none => st.emit .typeDef

/-- `definition` -/
def encDefinition (st : EncSt) (n : Node) : Res (EncSt × Nat) :=
  match n.exportName with
  | none => .panic "definition without a name"
  | some name =>
    let r := defTypeIndex st n
    .ok (r.1.emit (.export name .type r.2))

/-- the body of the loop over the non-import nodes -/
def encNode (g : GraphVal) (o : Opts) (st : EncSt) (id : Nat) : Res EncSt :=
  match g.node? id with
  | none => .panic "invalid node"
  | some n =>
    let r : Res (EncSt × Nat) :=
      match n.kind with
      | .definition => encDefinition st n
      | .instantiation slot _ => encInstantiation g o st n slot
      | .alias => encAlias g st n
      | .import _ => .panic "unreachable"
    match r with
    | .error e => .error e
    | .panic s => .panic s
    | .ok (st', idx) =>
      match natGet st'.nodeIdx id with
      | some _ => .panic "assert!(prev.is_none())"
      | none => .ok { st' with nodeIdx := st'.nodeIdx ++ [(id, idx)] }

def encNodes (g : GraphVal) (o : Opts) : List Nat → EncSt → Res EncSt
  | [], st => .ok st
  | id :: rest, st =>
    match encNode g o st id with
    | .ok st' => encNodes g o rest st'
    | .error e => .error e
    | .panic s => .panic s

/-- the exports loop: every entry that points to a definition is skipped (a definition is
    exported by `definition`, under `Node.export` — the *last* name `export()` gave it) -/
def encExports (g : GraphVal) : List (Str × Nat) → EncSt → Res EncSt
  | [], st => .ok st
  | (name, id) :: rest, st =>
    match g.node? id with
    | none => .panic "export of a dead node"
    | some n =>
      if n.isDefinition then encExports g rest st
      else
        match natGet st.nodeIdx id with
        | none => .panic "node_indexes[export]"
        | some idx => encExports g rest (st.emit (.export name n.ty.kind idx)).1

/-- the entries of `encode_names` for one bucket -/
def nameEntries (st : EncSt) (k : Kind) : List Node → Res (List (Kind × Nat × Str))
  | [] => .ok []
  | n :: rest =>
    match n.name with
    | none => nameEntries st k rest
    | some nm =>
      if n.ty.kind ≠ k then nameEntries st k rest
      else
        match natGet st.nodeIdx n.id with
        | none => .panic "node_indexes[named]"
        | some idx =>
          match nameEntries st k rest with
          | .ok l => .ok ((k, idx, nm) :: l)
          | .error e => .error e
          | .panic s => .panic s

def allNameEntries (st : EncSt) (nodes : List Node) : List Kind → Res (List (Kind × Nat × Str))
  | [] => .ok []
  | k :: ks =>
    match nameEntries st k nodes with
    | .error e => .error e
    | .panic s => .panic s
    | .ok l =>
      match allNameEntries st nodes ks with
      | .ok l' => .ok (l ++ l')
      | .error e => .error e
      | .panic s => .panic s

/-- `encode_names` (bucket order: types, funcs, instances, components, modules, values) -/
def encNames (g : GraphVal) (st : EncSt) : Res EncSt :=
  match allNameEntries st g.nodes [.type, .func, .instance, .component, .module, .value] with
  | .error e => .error e
  | .panic s => .panic s
  | .ok [] => .ok st
  | .ok es => .ok (st.emit (.names es)).1

/-- the unsatisfied imports `imports()` lists for one node (by the satisfied set) -/
def queryOfNode (g : GraphVal) (n : Node) : List (Str × Kind × Option Nat) :=
  match n.kind with
  | .instantiation slot sat =>
    match g.pkg? slot with
    | some p => (unsatisfied p sat).map fun r => (r.name, r.ty.kind, (none : Option Nat))
    | none => []
  | _ => []

def queryOfImport (n : Node) : Option (Str × Kind × Option Nat) :=
  match n.kind with
  | .import nm => some (nm, n.ty.kind, some n.id)
  | _ => none

/-- `CompositionGraph::imports()`: for the instantiations in node-index order their unsatisfied
    imports (by the satisfied set) in world order, then the explicit imports in node-index order -/
def importsQuery (g : GraphVal) : List (Str × Kind × Option Nat) :=
  g.nodes.flatMap (queryOfNode g) ++ g.nodes.filterMap queryOfImport

def isImportNode (g : GraphVal) (id : Nat) : Bool :=
  match g.node? id with
  | some n => n.isImport
  | none => false

/-- the state after the whole encoding -/
def encodeSt (g : GraphVal) (o : Opts) : Res EncSt :=
  match toposort g with
  | .fuel => .panic "model fuel"
  | .cycle n => .error (.cycle n)
  | .ok order =>
    let importNodes := order.filter (isImportNode g)
    let otherNodes := order.filter fun id => !isImportNode g id
    match encodeImports g importNodes {} with
    | .error e => .error e
    | .panic s => .panic s
    | .ok st1 =>
      match encNodes g o otherNodes st1 with
      | .error e => .error e
      | .panic s => .panic s
      | .ok st2 =>
        match encExports g g.exports st2 with
        | .error e => .error e
        | .panic s => .panic s
        | .ok st3 => encNames g st3

/-- `CompositionGraphEncoder::encode` -/
def encode (g : GraphVal) (o : Opts) : Res Skeleton :=
  match encodeSt g o with
  | .ok st => .ok st.items
  | .error e => .error e
  | .panic s => .panic s

end Wac
