import WacModel.GraphProto
/-
  Judging one operation history (shared by the C06 and C16 drivers):

    seq <ops-text> <ctx…> <nsteps> ( <op…> <result…> <0|1> [<observation…>] )*

  For every step, in this order:
    SPEC   the implementation panicked although every identifier of the call was live;
           the hook reported a violated invariant; the executable invariant `Inv` is false on
           the state the implementation reported; a query panicked / does not reflect the
           reported state; `encode` panicked; the documented effect of a successful call
           (argument set / unset, node exported / removed) is missing from the reported state;
    MODEL  result or reported state differs from the Lean model's.
-/
namespace Wac.GraphJudge
open Wac Wac.Proto Wac.Graph Wac.GraphProto

def sortNat (l : List Nat) : List Nat := l.mergeSort (fun a b => decide (a ≤ b))

def canonNode (nd : Node) : Node :=
  match nd.kind with
  | .instantiation s => { nd with kind := .instantiation (sortNat s) }
  | _ => nd

def sameSet {α} [BEq α] (a b : List α) : Bool :=
  a.length == b.length && a.all (fun x => b.contains x) && b.all (fun x => a.contains x)

/-- one-line rendering (the protocol is line based) -/
def flat (s : String) : String :=
  let cs := s.toList.map (fun c => if c == '\n' || c == '\t' then ' ' else c)
  let rec squeeze : List Char → List Char
    | ' ' :: ' ' :: r => squeeze (' ' :: r)
    | c :: r => c :: squeeze r
    | [] => []
  String.ofList (squeeze cs)

def showStr (s : Str) : String := "\"" ++ String.ofList s ++ "\""

def showOp : Op → String
  | .register d => s!"register({showStr d.name}{match d.version with | some v => "@" ++ String.ofList v | none => ""} imports={d.imports.map (fun p => String.ofList p.1)})"
  | .unregister id => s!"unregister({id.index}:{id.gen})"
  | .defineType n ty => s!"define_type({showStr n}, ty{ty})"
  | .importItem n k => s!"import({showStr n}, kind{k})"
  | .instantiate id => s!"instantiate({id.index}:{id.gen})"
  | .alias n e => s!"alias_instance_export({n}, {showStr e})"
  | .setArg i n a => s!"set_instantiation_argument({i}, {showStr n}, {a})"
  | .unsetArg i n a => s!"unset_instantiation_argument({i}, {showStr n}, {a})"
  | .exportNode n e => s!"export({n}, {showStr e})"
  | .unexport n => s!"unexport({n})"
  | .setName n e => s!"set_node_name({n}, {showStr e})"
  | .removeNode n => s!"remove_node({n})"

def showOutcome : Outcome → String
  | o => flat (reprStr o)

/-- petgraph's `node_bound`: one past the highest occupied index -/
def modelBound (g : Graph) : Nat :=
  match g.nodeIds.getLast? with
  | some i => i + 1
  | none => 0

/-- answers of the public queries computed from a state -/
def queriesOf (t : Tables) (g : Graph) (bound : Nat) : Except String Queries := do
  let imps ← match importsQuery g with
    | .ok l => pure l
    | .error s => throw s!"imports() panics ({reprStr s})"
  let args ← (List.range bound).mapM fun i => do
    let a ← match getInstantiationArguments g i with
      | .ok l => pure l
      | .error s => throw s!"get_instantiation_arguments({i}) panics ({reprStr s})"
    let s ← match getAliasSource t.ctx g i with
      | .ok l => pure l
      | .error s => throw s!"get_alias_source({i}) panics ({reprStr s})"
    pure (a, s)
  pure { nodeIds := g.nodeIds, accessorMismatch := false, imports := imps
         exports := t.names.toList.map (fun n => getExport g n.1)
         args := args
         pkgByName := t.pkgs.toList.map (fun d => getPackageByName g d.key)
         pkgCount := (g.pkgs.filter (fun s => s.pkg.isSome)).length }

def cmpQueries (q m : Queries) : Option String :=
  if q.nodeIds != m.nodeIds then some s!"node_ids impl={q.nodeIds} expected={m.nodeIds}"
  else if q.imports != m.imports then some s!"imports() impl={reprStr q.imports} expected={reprStr m.imports}"
  else if q.exports != m.exports then some s!"get_export impl={q.exports} expected={m.exports}"
  else if q.args != m.args then some s!"arguments/alias sources impl={reprStr q.args} expected={reprStr m.args}"
  else if q.pkgByName != m.pkgByName then some s!"get_package_by_name impl={reprStr q.pkgByName} expected={reprStr m.pkgByName}"
  else if q.pkgCount != m.pkgCount then some s!"packages().count impl={q.pkgCount} expected={m.pkgCount}"
  else none

/-- state comparison, model vs reported -/
def cmpState (gm : Graph) (o : Obs) : Option String :=
  if modelBound gm != o.bound then some s!"node bound model={modelBound gm} impl={o.bound}"
  else
    let nodeDiff := (List.range o.bound).findSome? fun i =>
      let im := (o.nodes.find? (fun n => n.idx == i))
      match gm.node? i, im with
      | none, none => none
      | some a, some b =>
        if canonNode a != canonNode b.node then some s!"node {i} model={reprStr (canonNode a)} impl={reprStr (canonNode b.node)}"
        else
          let mo := (gm.outEdges i).map fun e => (e.dst, e.kind)
          let mi := (gm.inEdges i).map fun e => (e.src, e.kind)
          if mo != b.outs then some s!"outgoing edges of {i} model={reprStr mo} impl={reprStr b.outs}"
          else if mi != b.ins then some s!"incoming edges of {i} model={reprStr mi} impl={reprStr b.ins}"
          else none
      | some _, none => some s!"node {i} live in the model, vacant in the implementation"
      | none, some _ => some s!"node {i} vacant in the model, live in the implementation"
    match nodeDiff with
    | some d => some d
    | none =>
      if !sameSet gm.imports o.imports then some s!"imports map model={reprStr gm.imports} impl={reprStr o.imports}"
      else if gm.exports != o.exports then some s!"exports map model={reprStr gm.exports} impl={reprStr o.exports}"
      else if !sameSet gm.defined o.defined then some s!"defined map model={reprStr gm.defined} impl={reprStr o.defined}"
      else if gm.pkgs != o.pkgs then some s!"package slots model={reprStr gm.pkgs} impl={reprStr o.pkgs}"
      else if !sameSet gm.pkgMap o.pkgMap then some s!"package map model={reprStr gm.pkgMap} impl={reprStr o.pkgMap}"
      else if gm.freePkgs.reverse != o.freePkgs then some s!"free packages model={gm.freePkgs.reverse} impl={o.freePkgs}"
      else none

/-- SPEC: documented postcondition of a SUCCESSFUL call, evaluated on the state the implementation
reports after it (from the method documentation: "sets / unsets the argument", "exports the node
under the name", "removes the node"; not derived from the code) -/
def effectVerdict (g' : Graph) (op : Op) : Option String :=
  match op with
  | .setArg i n a =>
    match getInstantiationArguments g' i with
    | .ok l =>
      if l.contains (n, a) then none
      else some s!"after the successful call node {a} is not passed as argument {showStr n} of {i}"
    | .error _ => none
  | .unsetArg i n a =>
    match getInstantiationArguments g' i with
    | .ok l =>
      if l.contains (n, a) then some s!"after the successful call node {a} is still passed as argument {showStr n} of {i}"
      else none
    | .error _ => none
  | .exportNode n e =>
    if getExport g' e == some n then none else some s!"after the successful call {showStr e} is not an export of node {n}"
  | .removeNode n => if g'.live n then some s!"after the successful call node {n} is still live" else none
  | _ => none

/-- package ids mentioned by a call -/
def opPkgIds : Op → List PkgId
  | .unregister id | .instantiate id => [id]
  | _ => []

/-- `dead` = package ids whose `unregister_package` succeeded earlier in this history -/
def judgeSteps (t : Tables) : Nat → Nat → Graph → Option Graph → List PkgId → P String
  | 0, _, _, _, _ => pure "ok"
  | n + 1, k, gm, gi, dead => do
    let op ← pOp t
    let res ← pRes t
    let flag ← nat
    let ctx := t.ctx
    -- SPEC: no panic with live identifiers (liveness on the implementation's own previous state)
    let prev := gi.getD gm
    match res with
    | .panic msg =>
      if LiveIds prev op then
        pure s!"SPEC\tstep {k}: {showOp op} panicked with live identifiers: {msg}"
      else
        match step ctx gm op with
        | (_, .panic _) => pure "ok"     -- a history ends at its first panic
        | (_, o) => pure s!"MODEL\tstep {k}: {showOp op} impl=panic({msg}) model={showOutcome o}"
    | .unknownErr v => pure s!"BAD\tstep {k}: unknown error variant {v}"
    | .out io =>
      let (gm', mo) := step ctx gm op
      let obs ← if flag == 1 then (do let o ← pObs t; pure (some o)) else pure none
      -- SPEC: an unregistered package id is never accepted again, and never handed out again
      let staleVerdict : Option String :=
        if (opPkgIds op).any (fun id => dead.contains id) then
          some "a package id whose unregistration succeeded earlier was accepted"
        else match io with
          | .ok (.pkg id) => if dead.contains id then some "register_package handed out an unregistered id again" else none
          | _ => none
      -- SPEC: the result is the documented one for the state the call was applied to
      -- (`errors_documented`: the model's outcome on the implementation's own previous state)
      let docVerdict : Option String :=
        match gi with
        | none => none
        | some g =>
          match (step ctx g op).2, io with
          | .ok _, .ok _ => none
          | .panic _, _ => none          -- identifiers not live: no requirement
          | doc, r => if doc != r then
              some s!"result is not the documented one for the state: impl={showOutcome r} documented={showOutcome doc}"
            else none
      -- SPEC on the reported state
      let stateVerdict : Option String :=
        match obs with
        | none => none
        | some o =>
          if !o.inv.isEmpty then some s!"hook invariant report: {o.inv}"
          else
            let g' := o.toGraph
            let rep := invReport ctx g'
            if !rep.isEmpty then some s!"Inv false on the reported state: {rep}"
            else match o.queries with
              | none => some s!"a public query panicked: {o.queryPanic}"
              | some q =>
                if q.accessorMismatch then some "node accessors disagree with the reported state"
                else if o.encode == 3 then some "encode panicked"
                else match queriesOf t g' o.bound with
                  | .error e => some s!"query specification not evaluable on the reported state: {e}"
                  | .ok m => (cmpQueries q m).map (fun d => "queries do not reflect the reported state: " ++ d)
      -- SPEC: the documented effect of a successful call is visible in the reported state
      let effVerdict : Option String :=
        match obs, io with
        | some o, .ok _ => (effectVerdict o.toGraph op).map (fun d => "documented effect missing: " ++ d)
        | _, _ => none
      match staleVerdict.orElse (fun _ => docVerdict.orElse (fun _ => stateVerdict.orElse (fun _ => effVerdict))) with
      | some v => pure s!"SPEC\tstep {k} {showOp op}: {v}"
      | none =>
        if mo != io then pure s!"MODEL\tstep {k}: {showOp op} impl={showOutcome io} model={showOutcome mo}"
        else
          let dead' := match op, io with
            | .unregister id, .ok _ => id :: dead
            | _, _ => dead
          match obs with
          | none => judgeSteps t n (k + 1) gm' none dead'
          | some o =>
            match cmpState gm' o with
            | some d => pure s!"MODEL\tstep {k} {showOp op}: {d}"
            | none => judgeSteps t n (k + 1) gm' (some o.toGraph) dead'

def judgeSeq : P String := do
  let _ops ← tok
  let t ← pTables
  let n ← nat
  -- assumptions of the theorems on the universe (Spec: `KindWF`, `TyWF`)
  if !(kindWFUpTo t.ctx t.kinds.size && tyWFUpTo t.ctx t.types.size) then
    pure "BAD\tthe universe is not numbered children first (KindWF / TyWF)"
  else
  judgeSteps t n 0 {} (some {}) []

/-- keep the TAB after the verdict class, flatten the rest -/
def flat' (v : String) : String :=
  match v.splitOn "\t" with
  | [a] => a
  | a :: r => a ++ "\t" ++ flat (" ".intercalate r)
  | [] => v

def judge (fs : List (List Char)) : String :=
  match fs with
  | k :: rest =>
    if String.ofList k == "seq" then
      match judgeSeq.run rest with
      | some (v, _) => flat' v
      | none => "BAD\tcannot read the case"
    else "BAD\tunknown kind"
  | [] => "BAD\tempty"


end Wac.GraphJudge
