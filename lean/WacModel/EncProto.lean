import WacModel.Spec.Wiring
import WacModel.Encode
import WacModel.Proto
/-
  Reading the token streams of the encoding harnesses (harness/src/enc_util.rs): one protocol
  field = space separated tokens, each token escaped on its own.  Shared by the drivers of
  C01, C02 and C03.
-/
namespace Wac.EncProto
open Wac Wac.Proto

/-- split an (already unescaped) field into its tokens -/
def tokens (field : Str) : List Str :=
  let rec go (s : Str) (cur : Str) (acc : List Str) : List Str :=
    match s with
    | [] => (if cur.isEmpty then acc else cur.reverse :: acc).reverse
    | c :: r => if c == ' ' then go r [] (if cur.isEmpty then acc else cur.reverse :: acc) else go r (c :: cur) acc
  go field [] []

abbrev P (α : Type) := List Str → Option (α × List Str)

instance : Monad P where
  pure a := fun ts => some (a, ts)
  bind p f := fun ts => match p ts with
    | none => none
    | some (a, ts') => f a ts'

def fail {α} : P α := fun _ => none

def tok : P Str := fun ts => match ts with
  | [] => none
  | t :: r => some (t, r)

def str : P Str := do let t ← tok; pure (unescape t)

def natOf (s : Str) : Option Nat :=
  if s.isEmpty || !s.all Char.isDigit then none
  else some (s.foldl (fun a c => 10 * a + (c.toNat - '0'.toNat)) 0)

def nat : P Nat := do
  let t ← tok
  match natOf t with
  | some n => pure n
  | none => fail

def opt : P (Option Str) := do
  let t ← tok
  match t with
  | ['-'] => pure none
  | '+' :: r => pure (some (unescape r))
  | _ => fail

def optNat : P (Option Nat) := do
  let o ← opt
  match o with
  | none => pure none
  | some s => match natOf s with
    | some n => pure (some n)
    | none => fail

def many {α} (p : P α) : Nat → P (List α)
  | 0 => pure []
  | n + 1 => do
    let a ← p
    let r ← many p n
    pure (a :: r)

def counted {α} (p : P α) : P (List α) := do
  let n ← nat
  many p n

def kind : P Kind := do
  let t ← str
  if t == "type".toList then pure .type
  else if t == "func".toList then pure .func
  else if t == "instance".toList then pure .instance
  else if t == "component".toList then pure .component
  else if t == "module".toList then pure .module
  else if t == "value".toList then pure .value
  else fail

def itemTy : P ItemTy := do
  let k ← kind
  let iface ← opt
  let deps ← counted str
  let exports ← counted str
  pure { kind := k, iface := iface, deps := deps, exports := exports }

def importReq : P ImportReq := do
  let n ← str
  let ty ← itemTy
  pure { name := n, ty := ty }

def pkg : P PkgVal := do
  let slot ← nat
  let name ← str
  let ver ← opt
  let cls ← nat
  let imps ← counted importReq
  pure { slot := slot, name := name, version := ver, bytesId := cls, imports := imps }

def edge : P (EdgeW × Nat) := do
  let t ← str
  if t == "alias".toList then do
    let n ← str
    let s ← nat
    pure (.alias n, s)
  else if t == "arg".toList then do
    let i ← nat
    let n ← str
    let s ← nat
    pure (.arg i n, s)
  else if t == "dep".toList then do
    let s ← nat
    pure (.dep, s)
  else fail

def node : P Node := do
  let id ← nat
  let t ← str
  let (k, defAlias) ← (
    if t == "import".toList then do
      let n ← str
      pure (NodeKind.import n, none)
    else if t == "inst".toList then do
      let slot ← nat
      let sat ← counted nat
      pure (NodeKind.instantiation slot sat, none)
    else if t == "alias".toList then pure (NodeKind.alias, none)
    else if t == "def".toList then do
      let a ← optNat
      pure (NodeKind.definition, a)
    else fail : P (NodeKind × Option Nat))
  let ty ← itemTy
  let name ← opt
  let exp ← opt
  let inc ← counted edge
  let succ ← counted nat
  pure { id := id, kind := k, ty := ty, name := name, exportName := exp, defAlias := defAlias, inc := inc, succ := succ }

def graph : P GraphVal := do
  let pkgs ← counted pkg
  let nodes ← counted node
  let exports ← counted (do let n ← str; let i ← nat; pure (n, i))
  pure { nodes := nodes, exports := exports, pkgs := pkgs }

/-- terms in prefix form: `I name | N k | C k | A term name | X name term | L | B` -/
def term : Nat → P Term
  | 0 => fail
  | fuel + 1 => do
    let t ← str
    match t with
    | ['I'] => do let n ← str; pure (.imp n)
    | ['N'] => do let k ← nat; pure (.inst k)
    | ['C'] => do let k ← nat; pure (.comp k)
    | ['A'] => do let i ← term fuel; let n ← str; pure (.aliasOf i n)
    | ['X'] => do let n ← str; let i ← term fuel; pure (.exported n i)
    | ['L'] => pure .opaque
    | ['B'] => pure .bad
    | _ => fail

def termP : P Term := fun ts => term (ts.length + 1) ts

def wiringP : P Wiring := do
  let imports ← counted (do let n ← str; let k ← kind; pure (n, k))
  let comps ← counted nat
  let insts ← counted (do
    let c ← termP
    let args ← counted (do let n ← str; let k ← kind; let t ← termP; pure (n, k, t))
    pure ({ comp := c, args := args } : InstW))
  let aliases ← counted (do let t ← termP; let k ← kind; let n ← str; pure (t, k, n))
  let exports ← counted (do let n ← str; let k ← kind; let t ← termP; pure (n, k, t))
  let names ← counted (do let k ← kind; let t ← termP; let n ← str; pure (k, t, n))
  pure { imports := imports, comps := comps, insts := insts, aliases := aliases, exports := exports, names := names }

def run {α} (p : P α) (field : Str) : Option α :=
  match p (tokens field) with
  | some (a, []) => some a
  | _ => none

/-! ### rendering (for verdict details) -/

def showStr (s : Str) : String := String.ofList s

partial def showTerm : Term → String
  | .imp n => s!"import({showStr n})"
  | .inst k => s!"inst#{k}"
  | .comp k => s!"comp#{k}"
  | .aliasOf t n => s!"{showTerm t}.{showStr n}"
  | .exported n t => s!"export({showStr n}={showTerm t})"
  | .opaque => "type"
  | .bad => "BAD"

def showInst (i : InstW) : String :=
  s!"[{showTerm i.comp}](" ++ ", ".intercalate (i.args.map fun (n, k, t) => s!"{showStr n}:{k.tag}={showTerm t}") ++ ")"

def showWiring (w : Wiring) : String :=
  "comps=" ++ toString w.comps ++
  " insts=" ++ "; ".intercalate (w.insts.map showInst) ++
  " aliases=" ++ "; ".intercalate (w.aliases.map fun (t, k, n) => s!"{showTerm t}.{showStr n}:{k.tag}") ++
  " exports=" ++ "; ".intercalate (w.exports.map fun (n, k, t) => s!"{showStr n}:{k.tag}={showTerm t}") ++
  " names=" ++ "; ".intercalate (w.names.map fun (k, t, n) => s!"{k.tag}:{showTerm t}={showStr n}")

/-- the first field on which two wirings differ -/
def diffWiring (a b : Wiring) (la lb : String) : String :=
  if a.comps != b.comps then s!"components {la}={a.comps} {lb}={b.comps}"
  else if a.insts != b.insts then
    s!"instantiations {la}={"; ".intercalate (a.insts.map showInst)} {lb}={"; ".intercalate (b.insts.map showInst)}"
  else if a.aliases != b.aliases then
    s!"aliases {la}={"; ".intercalate (a.aliases.map fun (t, k, n) => s!"{showTerm t}.{showStr n}:{k.tag}")} {lb}={"; ".intercalate (b.aliases.map fun (t, k, n) => s!"{showTerm t}.{showStr n}:{k.tag}")}"
  else if a.exports != b.exports then
    s!"exports {la}={"; ".intercalate (a.exports.map fun (n, k, t) => s!"{showStr n}:{k.tag}={showTerm t}")} {lb}={"; ".intercalate (b.exports.map fun (n, k, t) => s!"{showStr n}:{k.tag}={showTerm t}")}"
  else if a.names != b.names then
    s!"names {la}={"; ".intercalate (a.names.map fun (k, t, n) => s!"{k.tag}:{showTerm t}={showStr n}")} {lb}={"; ".intercalate (b.names.map fun (k, t, n) => s!"{k.tag}:{showTerm t}={showStr n}")}"
  else if a.imports != b.imports then
    s!"imports {la}={", ".intercalate (a.imports.map fun (n, k) => s!"{showStr n}:{k.tag}")} {lb}={", ".intercalate (b.imports.map fun (n, k) => s!"{showStr n}:{k.tag}")}"
  else "equal"

end Wac.EncProto
