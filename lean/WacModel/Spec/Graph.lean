import WacModel.Graph
/-
  Declarative specification for C06, written from the property statement and the `anchors`
  of the property (not from the code): the internal consistency a composition graph must have
  after any history (`Inv`), what it means for the identifiers of a call to be live
  (`LiveIds`), and the abstract view of a graph ("the surviving items", `Abs`) that every
  public query has to reflect.

  Everything here is decidable, so the driver evaluates it on the state the *implementation*
  reports after each call.
-/
namespace Wac.Graph
open Wac

/-! ### the invariant, one conjunct per piece of bookkeeping -/

def Node.isInst (nd : Node) : Bool := match nd.kind with | .instantiation _ => true | _ => false
def Node.isAlias (nd : Node) : Bool := match nd.kind with | .alias => true | _ => false
def Node.isDef (nd : Node) : Bool := match nd.kind with | .definition _ => true | _ => false
def Node.sat (nd : Node) : List Nat := match nd.kind with | .instantiation s => s | _ => []
/-- the type a definition node defines -/
def Node.defTy (nd : Node) : Option Ty := match nd.kind with | .definition ty => some ty | _ => none

def EdgeKind.isArg : EdgeKind → Bool | .arg _ => true | _ => false
def EdgeKind.isAlias : EdgeKind → Bool | .alias _ => true | _ => false

/-- the package id is live: slot in range, generation current, package present -/
def Graph.pkgLive (g : Graph) (id : PkgId) : Bool :=
  match g.pkgOf id with
  | .ok _ => true
  | .error _ => false

/-- (I7) what one edge must look like -/
def EdgeOk (ctx : Ctx) (g : Graph) (e : Edge) : Prop :=
  ∃ s ∈ g.node? e.src, ∃ d ∈ g.node? e.dst,
    match e.kind with
    | .alias i =>
      d.isAlias = true ∧ d.pkg = s.pkg ∧
      ∃ exps ∈ ctx.kindExports s.item, ∃ p ∈ exps[i]?, d.item = p.2
    | .arg i =>
      i ∈ d.sat ∧ d.isInst = true ∧
      ∃ pid ∈ d.pkg, ∃ pd ∈ (g.pkgOf pid).toOption, i < pd.imports.length
    -- from a definition to a definition built from it (types are numbered children first)
    | .dep => ∃ ts ∈ s.defTy, ∃ td ∈ d.defTy, ts < td

/-- the key (target, argument index) of an argument edge -/
def Edge.argKey (e : Edge) : Option (Nat × Nat) :=
  match e.kind with
  | .arg i => some (e.dst, i)
  | _ => none

/-- (I1)+(I5)+(I6, node part): what one live node must look like -/
def NodeOk (g : Graph) (n : Nat) (nd : Node) : Prop :=
  -- package ids held by nodes are live
  (∀ pid ∈ nd.pkg, g.pkgLive pid = true) ∧
  (match nd.kind with
   | .instantiation sat =>
     -- the satisfied set is exactly the set of incoming argument edges
     sat.Nodup ∧ (∀ i ∈ sat, ∃ e ∈ g.edges, e.dst = n ∧ e.kind = .arg i) ∧
     (∃ pid ∈ nd.pkg, ∃ pd ∈ (g.pkgOf pid).toOption, nd.item = pd.instKind)
   | .alias => (g.inEdges n).length = 1
   | .import name => alGet g.imports name = some n
   | .definition ty => alGet g.defined ty = some n ∧ nd.exp.isSome = true) ∧
  -- the per-node export name agrees with the export map
  (∀ name ∈ nd.exp, alGet g.exports name = some n)

/-- (I6, slot part) package map ↔ occupied slots; free list ↔ vacant slots -/
def SlotOk (g : Graph) (i : Nat) (slot : PkgSlot) : Prop :=
  match slot.pkg with
  | some pd => alGet g.pkgMap pd.key = some ⟨i, slot.gen⟩ ∧ i ∉ g.freePkgs
  | none => i ∈ g.freePkgs

structure Inv (ctx : Ctx) (g : Graph) : Prop where
  /-- (I7) edge endpoints are live and of the right kinds -/
  edges : ∀ e ∈ g.edges, EdgeOk ctx g e
  /-- (I1) at most one argument edge per (instantiation, index) -/
  argUnique : (g.edges.filterMap Edge.argKey).Nodup
  /-- (I1)(I5)(I6) every live node -/
  nodes : ∀ n ∈ List.range g.nodes.length, ∀ nd ∈ g.node? n, NodeOk g n nd
  /-- (I2) export names are unique and refer to live, exported nodes -/
  exportsKeys : (g.exports.map (·.1)).Nodup
  exportsLive : ∀ e ∈ g.exports, ∃ nd ∈ g.node? e.2, nd.exp.isSome = true
  /-- (I3) import names are unique and refer to that import node -/
  importsKeys : (g.imports.map (·.1)).Nodup
  importsLive : ∀ e ∈ g.imports, ∃ nd ∈ g.node? e.2, nd.kind = .import e.1
  /-- (I4) defined types are unique and refer to that definition node -/
  definedKeys : (g.defined.map (·.1)).Nodup
  definedLive : ∀ e ∈ g.defined, ∃ nd ∈ g.node? e.2, nd.kind = .definition e.1
  /-- (I6) package map ↔ occupied slots; free list = vacant slots, no duplicates -/
  pkgMapKeys : (g.pkgMap.map (·.1)).Nodup
  pkgMapLive : ∀ e ∈ g.pkgMap, ∃ pd ∈ (g.pkgOf e.2).toOption, pd.key = e.1
  pkgSlots : ∀ i ∈ List.range g.pkgs.length, ∀ slot ∈ g.pkgs[i]?, SlotOk g i slot
  freePkgsNodup : g.freePkgs.Nodup
  freePkgsRange : ∀ i ∈ g.freePkgs, i < g.pkgs.length
  /-- (petgraph) node free list = vacant slots, no duplicates -/
  freeNodesNodup : g.freeNodes.Nodup
  freeNodesVacant : ∀ i ∈ g.freeNodes, i < g.nodes.length ∧ g.node? i = none
  vacantFree : ∀ i ∈ List.range g.nodes.length, g.node? i = none → i ∈ g.freeNodes

instance (ctx : Ctx) (g : Graph) (e : Edge) : Decidable (EdgeOk ctx g e) := by
  unfold EdgeOk
  cases e.kind <;> infer_instance

instance (g : Graph) (n : Nat) (nd : Node) : Decidable (NodeOk g n nd) := by
  unfold NodeOk
  cases nd.kind <;> infer_instance

instance (g : Graph) (i : Nat) (slot : PkgSlot) : Decidable (SlotOk g i slot) := by
  unfold SlotOk
  cases slot.pkg <;> infer_instance

theorem inv_iff (ctx : Ctx) (g : Graph) : Inv ctx g ↔
    ((∀ e ∈ g.edges, EdgeOk ctx g e) ∧ (g.edges.filterMap Edge.argKey).Nodup ∧
     (∀ n ∈ List.range g.nodes.length, ∀ nd ∈ g.node? n, NodeOk g n nd) ∧
     (g.exports.map (·.1)).Nodup ∧ (∀ e ∈ g.exports, ∃ nd ∈ g.node? e.2, nd.exp.isSome = true) ∧
     (g.imports.map (·.1)).Nodup ∧ (∀ e ∈ g.imports, ∃ nd ∈ g.node? e.2, nd.kind = .import e.1) ∧
     (g.defined.map (·.1)).Nodup ∧ (∀ e ∈ g.defined, ∃ nd ∈ g.node? e.2, nd.kind = .definition e.1) ∧
     (g.pkgMap.map (·.1)).Nodup ∧ (∀ e ∈ g.pkgMap, ∃ pd ∈ (g.pkgOf e.2).toOption, pd.key = e.1) ∧
     (∀ i ∈ List.range g.pkgs.length, ∀ slot ∈ g.pkgs[i]?, SlotOk g i slot) ∧
     g.freePkgs.Nodup ∧ (∀ i ∈ g.freePkgs, i < g.pkgs.length) ∧
     g.freeNodes.Nodup ∧ (∀ i ∈ g.freeNodes, i < g.nodes.length ∧ g.node? i = none) ∧
     (∀ i ∈ List.range g.nodes.length, g.node? i = none → i ∈ g.freeNodes)) :=
  ⟨fun h => ⟨h.1, h.2, h.3, h.4, h.5, h.6, h.7, h.8, h.9, h.10, h.11, h.12, h.13, h.14, h.15, h.16, h.17⟩,
   fun ⟨h1, h2, h3, h4, h5, h6, h7, h8, h9, h10, h11, h12, h13, h14, h15, h16, h17⟩ =>
     ⟨h1, h2, h3, h4, h5, h6, h7, h8, h9, h10, h11, h12, h13, h14, h15, h16, h17⟩⟩

instance (ctx : Ctx) (g : Graph) : Decidable (Inv ctx g) :=
  decidable_of_iff _ (inv_iff ctx g).symm

/-- names of the violated conjuncts (for the driver's report) -/
def invReport (ctx : Ctx) (g : Graph) : List String :=
  let c (b : Bool) (s : String) : List String := if b then [] else [s]
  c (decide (∀ e ∈ g.edges, EdgeOk ctx g e)) "edges(I7)" ++
  c (decide ((g.edges.filterMap Edge.argKey).Nodup)) "argUnique(I1)" ++
  c (decide (∀ n ∈ List.range g.nodes.length, ∀ nd ∈ g.node? n, NodeOk g n nd)) "nodes(I1,I5,I6)" ++
  c (decide ((g.exports.map (·.1)).Nodup)) "exportsKeys(I2)" ++
  c (decide (∀ e ∈ g.exports, ∃ nd ∈ g.node? e.2, nd.exp.isSome = true)) "exportsLive(I2)" ++
  c (decide ((g.imports.map (·.1)).Nodup)) "importsKeys(I3)" ++
  c (decide (∀ e ∈ g.imports, ∃ nd ∈ g.node? e.2, nd.kind = .import e.1)) "importsLive(I3)" ++
  c (decide ((g.defined.map (·.1)).Nodup)) "definedKeys(I4)" ++
  c (decide (∀ e ∈ g.defined, ∃ nd ∈ g.node? e.2, nd.kind = .definition e.1)) "definedLive(I4)" ++
  c (decide ((g.pkgMap.map (·.1)).Nodup)) "pkgMapKeys(I6)" ++
  c (decide (∀ e ∈ g.pkgMap, ∃ pd ∈ (g.pkgOf e.2).toOption, pd.key = e.1)) "pkgMapLive(I6)" ++
  c (decide (∀ i ∈ List.range g.pkgs.length, ∀ slot ∈ g.pkgs[i]?, SlotOk g i slot)) "pkgSlots(I6)" ++
  c (decide g.freePkgs.Nodup) "freePkgsNodup(I6)" ++
  c (decide (∀ i ∈ g.freePkgs, i < g.pkgs.length)) "freePkgsRange(I6)" ++
  c (decide g.freeNodes.Nodup) "freeNodesNodup" ++
  c (decide (∀ i ∈ g.freeNodes, i < g.nodes.length ∧ g.node? i = none)) "freeNodesVacant" ++
  c (decide (∀ i ∈ List.range g.nodes.length, g.node? i = none → i ∈ g.freeNodes)) "vacantFree"

/-! ### the static universe: kinds and types are finite trees

  The harness numbers kinds and types children first, so "finite tree" reads "a component has a
  smaller number".  Both are assumptions of `no_panic_live` / `inv_step` on the universe (they
  hold of every real `Types` arena, where an item is allocated after its components); the
  driver checks them on the universe of each case (`kindWFUpTo`, `tyWFUpTo`). -/

/-- the export kinds of an instance kind are smaller kinds -/
def KindWF (ctx : Ctx) : Prop := ∀ k exps, ctx.kindExports k = some exps → ∀ p ∈ exps, p.2 < k

/-- the defined types visited from a type are the type itself or smaller types -/
def TyWF (ctx : Ctx) : Prop := ∀ t, ∀ u ∈ ctx.tyVisits t, u ≤ t

def kindWFUpTo (ctx : Ctx) (n : Nat) : Bool :=
  (List.range n).all fun k =>
    match ctx.kindExports k with
    | some exps => exps.all fun p => decide (p.2 < k)
    | none => true

def tyWFUpTo (ctx : Ctx) (n : Nat) : Bool :=
  (List.range n).all fun t => (ctx.tyVisits t).all fun u => decide (u ≤ t)

/-! ### live identifiers -/

/-- every identifier the call mentions denotes a live node / registered package -/
def LiveIds (g : Graph) : Op → Bool
  | .register _ | .defineType _ _ | .importItem _ _ => true
  | .unregister id | .instantiate id => g.pkgLive id
  | .alias n _ | .exportNode n _ | .unexport n | .setName n _ | .removeNode n => g.live n
  | .setArg i _ a | .unsetArg i _ a => g.live i && g.live a

end Wac.Graph
