import WacModel.Spec.Decode
/-
  C05 specification: what a WIT interface / world *denotes* as a component-model type, written
  from the WIT documentation (component-model/design/mvp/WIT.md), not from wac's resolver.

  * a parser of the WIT subset shared with WAC (the text itself is the protocol input);
  * `denotePkg : Pkg → …`: for every declared interface its instance type (list of exports),
    for every declared world its explicit imports and exports, as `Tree`s whose resource leaves
    carry a package-wide identity (a `use`d or aliased resource *is* the resource it names).

  WIT meaning used here:
  * `record/variant/enum/flags/type` declare a named value type; `type t = r` for a resource
    `r` declares a second name for the same resource;
  * `resource r { constructor(ps); m: func(ps) -> t; s: static func(ps) -> t; }` declares a fresh
    resource type exported as `r` and the functions `[constructor]r : func(ps) -> own<r>`,
    `[method]r.m : func(self: borrow<r>, ps) -> t`, `[static]r.s : func(ps) -> t`;
  * a resource name in type position means `own<r>`; `borrow<r>` is a borrow;
  * `use i.{a, b as c}` makes the types `a`, `b` of interface `i` available (as `a`, `c`) — the
    same types — and (in an interface) exports them, (in a world) imports them;
  * world-level type declarations are imports of the world;
  * `include w with { a as b }` adds every import and export of `w` that the world does not
    already have, plain (kebab) names renamed by the `with` list, interface ids never.
-/
namespace Wac.Spec.Wit
open Wac

/-! ## syntax -/

inductive WTy
  | prim (p : Prim)
  | list (t : WTy)
  | option (t : WTy)
  | result (ok err : Option WTy)
  | tuple (ts : List WTy)
  | borrow (n : Str)
  | id (n : Str)
deriving Repr, Inhabited

structure Sig where
  params : List (Str × WTy) := []
  result : Option WTy := none
deriving Repr, Inhabited

inductive ResItem
  | ctor (params : List (Str × WTy))
  | method (n : Str) (isStatic : Bool) (sig : Sig)
deriving Repr, Inhabited

inductive Item
  | use (path : Str) (items : List (Str × Option Str))
  | record (n : Str) (fields : List (Str × WTy))
  | variant (n : Str) (cases : List (Str × Option WTy))
  | enum (n : Str) (cases : List Str)
  | flags (n : Str) (names : List Str)
  | alias (n : Str) (t : WTy)
  | resource (n : Str) (items : List ResItem)
  | func (n : Str) (sig : Sig)
deriving Repr, Inhabited

inductive WItem
  | item (i : Item)
  | externPath (isImport : Bool) (path : Str)
  | externFunc (isImport : Bool) (n : Str) (sig : Sig)
  | externIface (isImport : Bool) (n : Str) (items : List Item)
  | include (w : Str) (withs : List (Str × Str))
deriving Repr, Inhabited

structure Pkg where
  name : Str := []
  version : Option Str := none
  ifaces : List (Str × List Item) := []
  worlds : List (Str × List WItem) := []
deriving Repr, Inhabited

/-! ## tokens -/

inductive Tok
  | word (s : Str)      -- identifiers, keywords, package paths, versions
  | sym (c : Char)      -- { } ( ) < > , ; : = . _
  | arrow
deriving Repr, Inhabited, DecidableEq

def isWordChar (c : Char) : Bool :=
  c.isAlphanum || c == ':' || c == '/' || c == '@' || c == '.' || c == '+' || c == '-' || c == '%'

/-- split trailing `:` / `.` off a word (`p0:` `ifc1.`) -/
def splitWord (w : Str) : List Tok :=
  match w.reverse with
  | ':' :: r => [Tok.word r.reverse, Tok.sym ':']
  | '.' :: r => [Tok.word r.reverse, Tok.sym '.']
  | _ => [Tok.word w]

def tokenize : Nat → Str → Str → List Tok → List Tok
  | 0, _, _, acc => acc.reverse
  | fuel + 1, s, cur, acc =>
    let flush (acc : List Tok) : List Tok :=
      if cur.isEmpty then acc
      else if cur == ['-', '>'] then Tok.arrow :: acc
      else (splitWord cur.reverse).reverse ++ acc
    match s with
    | [] => (flush acc).reverse
    | '/' :: '*' :: r =>
      -- block comment (the generator only writes `/*;*/`)
      let rest := (r.dropWhile (· != '/')).drop 1
      tokenize fuel rest [] (flush acc)
    | '/' :: '/' :: r => tokenize fuel (r.dropWhile (· != '\n')) [] (flush acc)
    | c :: r =>
      if c == '-' && r.head? == some '>' then
        tokenize fuel (r.drop 1) [] (Tok.arrow :: flush acc)
      else if isWordChar c then tokenize fuel r (c :: cur) acc
      else if c == ' ' || c == '\n' || c == '\t' || c == '\r' then tokenize fuel r [] (flush acc)
      else tokenize fuel r [] (Tok.sym c :: flush acc)

def primOf (w : Str) : Option Prim :=
  let s := String.ofList w
  if s == "u8" then some .u8 else if s == "s8" then some .s8
  else if s == "u16" then some .u16 else if s == "s16" then some .s16
  else if s == "u32" then some .u32 else if s == "s32" then some .s32
  else if s == "u64" then some .u64 else if s == "s64" then some .s64
  else if s == "f32" then some .f32 else if s == "f64" then some .f64
  else if s == "char" then some .char else if s == "bool" then some .bool
  else if s == "string" then some .string
  else none

/-! ## parser (recursive descent, fuelled) -/

abbrev P (α : Type) := List Tok → Option (α × List Tok)

def expectSym (c : Char) : P Unit
  | Tok.sym c' :: r => if c == c' then some ((), r) else none
  | _ => none

def expectWord (w : String) : P Unit
  | Tok.word w' :: r => if w' == w.toList then some ((), r) else none
  | _ => none

def word : P Str
  | Tok.word w :: r => some (w, r)
  | _ => none

def isWord (w : String) : List Tok → Bool
  | Tok.word w' :: _ => w' == w.toList
  | _ => false

def isSym (c : Char) : List Tok → Bool
  | Tok.sym c' :: _ => c == c'
  | _ => false

mutual
/-- a type -/
def pTy : Nat → P WTy
  | 0, _ => none
  | fuel + 1, ts =>
    match ts with
    | Tok.word w :: r =>
      let s := String.ofList w
      if s == "list" then
        match expectSym '<' r with
        | some (_, r) => match pTy fuel r with
          | some (t, r) => (expectSym '>' r).map fun (_, r) => (.list t, r)
          | none => none
        | none => none
      else if s == "option" then
        match expectSym '<' r with
        | some (_, r) => match pTy fuel r with
          | some (t, r) => (expectSym '>' r).map fun (_, r) => (.option t, r)
          | none => none
        | none => none
      else if s == "borrow" then
        match expectSym '<' r with
        | some (_, r) => match word r with
          | some (n, r) => (expectSym '>' r).map fun (_, r) => (.borrow n, r)
          | none => none
        | none => none
      else if s == "tuple" then
        match expectSym '<' r with
        | some (_, r) => match pTys fuel r with
          | some (tys, r) => (expectSym '>' r).map fun (_, r) => (.tuple tys, r)
          | none => none
        | none => none
      else if s == "result" then
        if isSym '<' r then
          let r := r.drop 1
          -- `_` or a type
          let okp : Option (Option WTy × List Tok) :=
            if isSym '_' r then some (none, r.drop 1)
            else (pTy fuel r).map fun (t, r) => (some t, r)
          match okp with
          | some (ok, r) =>
            if isSym ',' r then
              match pTy fuel (r.drop 1) with
              | some (e, r) => (expectSym '>' r).map fun (_, r) => (.result ok (some e), r)
              | none => none
            else (expectSym '>' r).map fun (_, r) => (.result ok none, r)
          | none => none
        else some (.result none none, r)
      else
        match primOf w with
        | some p => some (.prim p, r)
        | none => some (.id w, r)
    | _ => none
/-- comma separated types -/
def pTys : Nat → P (List WTy)
  | 0, _ => none
  | fuel + 1, ts =>
    match pTy fuel ts with
    | some (t, r) =>
      if isSym ',' r then
        match pTys fuel (r.drop 1) with
        | some (rest, r) => some (t :: rest, r)
        | none => none
      else some ([t], r)
    | none => none
end

/-- `name: type, …` up to (not including) the closing symbol -/
def pNamed (close : Char) : Nat → P (List (Str × WTy))
  | 0, _ => none
  | fuel + 1, ts =>
    if isSym close ts then some ([], ts)
    else
      match word ts with
      | some (n, r) =>
        match expectSym ':' r with
        | some (_, r) =>
          match pTy 64 r with
          | some (t, r) =>
            let r := if isSym ',' r then r.drop 1 else r
            (pNamed close fuel r).map fun (rest, r) => ((n, t) :: rest, r)
          | none => none
        | none => none
      | none => none

/-- `func(params) [-> type]` (after the keyword `func`) -/
def pSig (ts : List Tok) : Option (Sig × List Tok) :=
  match expectSym '(' ts with
  | some (_, r) =>
    match pNamed ')' 64 r with
    | some (ps, r) =>
      match expectSym ')' r with
      | some (_, r) =>
        match r with
        | Tok.arrow :: r => (pTy 64 r).map fun (t, r) => ({ params := ps, result := some t }, r)
        | _ => some ({ params := ps, result := none }, r)
      | none => none
    | none => none
  | none => none

/-- `a, b, c` identifiers up to `}` -/
def pIds : Nat → P (List Str)
  | 0, _ => none
  | fuel + 1, ts =>
    if isSym '}' ts then some ([], ts)
    else match word ts with
      | some (n, r) =>
        let r := if isSym ',' r then r.drop 1 else r
        (pIds fuel r).map fun (rest, r) => (n :: rest, r)
      | none => none

/-- variant cases `c0, c1(t)` up to `}` -/
def pCases : Nat → P (List (Str × Option WTy))
  | 0, _ => none
  | fuel + 1, ts =>
    if isSym '}' ts then some ([], ts)
    else match word ts with
      | some (n, r) =>
        let payload : Option (Option WTy × List Tok) :=
          if isSym '(' r then
            match pTy 64 (r.drop 1) with
            | some (t, r) => (expectSym ')' r).map fun (_, r) => (some t, r)
            | none => none
          else some (none, r)
        match payload with
        | some (p, r) =>
          let r := if isSym ',' r then r.drop 1 else r
          (pCases fuel r).map fun (rest, r) => ((n, p) :: rest, r)
        | none => none
      | none => none

/-- `a, b as c` up to `}` -/
def pUseItems : Nat → P (List (Str × Option Str))
  | 0, _ => none
  | fuel + 1, ts =>
    if isSym '}' ts then some ([], ts)
    else match word ts with
      | some (n, r) =>
        let asp : Option (Option Str × List Tok) :=
          if isWord "as" r then (word (r.drop 1)).map fun (m, r) => (some m, r) else some (none, r)
        match asp with
        | some (a, r) =>
          let r := if isSym ',' r then r.drop 1 else r
          (pUseItems fuel r).map fun (rest, r) => ((n, a) :: rest, r)
        | none => none
      | none => none

/-- resource body items up to `}` -/
def pResItems : Nat → P (List ResItem)
  | 0, _ => none
  | fuel + 1, ts =>
    if isSym '}' ts then some ([], ts)
    else if isWord "constructor" ts then
      match expectSym '(' (ts.drop 1) with
      | some (_, r) =>
        match pNamed ')' 64 r with
        | some (ps, r) =>
          match expectSym ')' r with
          | some (_, r) =>
            match expectSym ';' r with
            | some (_, r) => (pResItems fuel r).map fun (rest, r) => (.ctor ps :: rest, r)
            | none => none
          | none => none
        | none => none
      | none => none
    else
      match word ts with
      | some (n, r) =>
        match expectSym ':' r with
        | some (_, r) =>
          let (st, r) := if isWord "static" r then (true, r.drop 1) else (false, r)
          match expectWord "func" r with
          | some (_, r) =>
            match pSig r with
            | some (sg, r) =>
              match expectSym ';' r with
              | some (_, r) => (pResItems fuel r).map fun (rest, r) => (.method n st sg :: rest, r)
              | none => none
            | none => none
          | none => none
        | none => none
      | none => none

/-- one interface item -/
def pItem (ts : List Tok) : Option (Item × List Tok) :=
  match ts with
  | Tok.word w :: r =>
    let s := String.ofList w
    if s == "use" then
      match word r with
      | some (path, r) =>
        match expectSym '.' r with
        | some (_, r) =>
          match expectSym '{' r with
          | some (_, r) =>
            match pUseItems 64 r with
            | some (items, r) =>
              match expectSym '}' r with
              | some (_, r) => (expectSym ';' r).map fun (_, r) => (.use path items, r)
              | none => none
            | none => none
          | none => none
        | none => none
      | none => none
    else if s == "record" then
      match word r with
      | some (n, r) =>
        match expectSym '{' r with
        | some (_, r) =>
          match pNamed '}' 64 r with
          | some (fs, r) => (expectSym '}' r).map fun (_, r) => (.record n fs, r)
          | none => none
        | none => none
      | none => none
    else if s == "variant" then
      match word r with
      | some (n, r) =>
        match expectSym '{' r with
        | some (_, r) =>
          match pCases 64 r with
          | some (cs, r) => (expectSym '}' r).map fun (_, r) => (.variant n cs, r)
          | none => none
        | none => none
      | none => none
    else if s == "enum" || s == "flags" then
      match word r with
      | some (n, r) =>
        match expectSym '{' r with
        | some (_, r) =>
          match pIds 64 r with
          | some (cs, r) =>
            (expectSym '}' r).map fun (_, r) => (if s == "enum" then .enum n cs else .flags n cs, r)
          | none => none
        | none => none
      | none => none
    else if s == "type" then
      match word r with
      | some (n, r) =>
        match expectSym '=' r with
        | some (_, r) =>
          match pTy 64 r with
          | some (t, r) => (expectSym ';' r).map fun (_, r) => (.alias n t, r)
          | none => none
        | none => none
      | none => none
    else if s == "resource" then
      match word r with
      | some (n, r) =>
        if isSym ';' r then some (.resource n [], r.drop 1)
        else
          match expectSym '{' r with
          | some (_, r) =>
            match pResItems 64 r with
            | some (items, r) => (expectSym '}' r).map fun (_, r) => (.resource n items, r)
            | none => none
          | none => none
      | none => none
    else
      -- `name: func(…) -> t;`
      match expectSym ':' r with
      | some (_, r) =>
        match expectWord "func" r with
        | some (_, r) =>
          match pSig r with
          | some (sg, r) => (expectSym ';' r).map fun (_, r) => (.func w sg, r)
          | none => none
        | none => none
      | none => none
  | _ => none

def pItems : Nat → P (List Item)
  | 0, _ => none
  | fuel + 1, ts =>
    if isSym '}' ts then some ([], ts)
    else match pItem ts with
      | some (i, r) => (pItems fuel r).map fun (rest, r) => (i :: rest, r)
      | none => none

/-- `a as b, …` up to `}` -/
def pWiths : Nat → P (List (Str × Str))
  | 0, _ => none
  | fuel + 1, ts =>
    if isSym '}' ts then some ([], ts)
    else match word ts with
      | some (a, r) =>
        match expectWord "as" r with
        | some (_, r) =>
          match word r with
          | some (b, r) =>
            let r := if isSym ',' r then r.drop 1 else r
            (pWiths fuel r).map fun (rest, r) => ((a, b) :: rest, r)
          | none => none
        | none => none
      | none => none

def optSemi (ts : List Tok) : List Tok := if isSym ';' ts then ts.drop 1 else ts

/-- one world item -/
def pWItem (ts : List Tok) : Option (WItem × List Tok) :=
  match ts with
  | Tok.word w :: r =>
    let s := String.ofList w
    if s == "import" || s == "export" then
      let imp := s == "import"
      match word r with
      | some (n, r') =>
        if isSym ':' r' then
          let r' := r'.drop 1
          if isWord "func" r' then
            match pSig (r'.drop 1) with
            | some (sg, r) => (expectSym ';' r).map fun (_, r) => (.externFunc imp n sg, r)
            | none => none
          else if isWord "interface" r' then
            match expectSym '{' (r'.drop 1) with
            | some (_, r) =>
              match pItems 256 r with
              | some (items, r) => (expectSym '}' r).map fun (_, r) => (.externIface imp n items, optSemi r)
              | none => none
            | none => none
          else none
        else (expectSym ';' r').map fun (_, r) => (.externPath imp n, r)
      | none => none
    else if s == "include" then
      match word r with
      | some (wn, r) =>
        if isWord "with" r then
          match expectSym '{' (r.drop 1) with
          | some (_, r) =>
            match pWiths 64 r with
            | some (ws, r) => (expectSym '}' r).map fun (_, r) => (.include wn ws, optSemi r)
            | none => none
          | none => none
        else (expectSym ';' r).map fun (_, r) => (.include wn [], r)
      | none => none
    else (pItem ts).map fun (i, r) => (.item i, r)
  | _ => none

def pWItems : Nat → P (List WItem)
  | 0, _ => none
  | fuel + 1, ts =>
    if isSym '}' ts then some ([], ts)
    else match pWItem ts with
      | some (i, r) => (pWItems fuel r).map fun (rest, r) => (i :: rest, r)
      | none => none

/-- the declarations of a package, after the `package` line -/
def pDecls : Nat → Pkg → List Tok → Option Pkg
  | 0, _, _ => none
  | _ + 1, p, [] => some p
  | fuel + 1, p, ts =>
    if isWord "interface" ts then
      match word (ts.drop 1) with
      | some (n, r) =>
        match expectSym '{' r with
        | some (_, r) =>
          match pItems 256 r with
          | some (items, r) =>
            match expectSym '}' r with
            | some (_, r) => pDecls fuel { p with ifaces := p.ifaces ++ [(n, items)] } r
            | none => none
          | none => none
        | none => none
      | none => none
    else if isWord "world" ts then
      match word (ts.drop 1) with
      | some (n, r) =>
        match expectSym '{' r with
        | some (_, r) =>
          match pWItems 256 r with
          | some (items, r) =>
            match expectSym '}' r with
            | some (_, r) => pDecls fuel { p with worlds := p.worlds ++ [(n, items)] } r
            | none => none
          | none => none
        | none => none
      | none => none
    else none

/-- split `ns:name@version` -/
def splitVersion (w : Str) : Str × Option Str :=
  let n := w.takeWhile (· != '@')
  let v := (w.dropWhile (· != '@')).drop 1
  (n, if v.isEmpty then none else some v)

def parsePkg (src : Str) : Option Pkg :=
  let ts := tokenize (src.length + 1) src [] []
  match expectWord "package" ts with
  | some (_, r) =>
    match word r with
    | some (w, r) =>
      match expectSym ';' r with
      | some (_, r) =>
        let (n, v) := splitVersion w
        pDecls (r.length + 1) { name := n, version := v } r
      | none => none
    | none => none
  | none => none

/-! ## denotation -/

/-- what a name stands for in a scope -/
inductive Bind
  | val (t : Tree)          -- a value type
  | res (r : Res)           -- a resource
deriving Repr, Inhabited

structure Scope where
  binds : List (Str × Bind) := []
  /-- next fresh resource number -/
  next : Nat := 0
deriving Repr, Inhabited

def Scope.get (s : Scope) (n : Str) : Option Bind := alGet s.binds n

/-- the tree of a type expression -/
def tyTree (s : Scope) : Nat → WTy → Option Tree
  | 0, _ => none
  | _ + 1, .prim p => some (.prim p)
  | fuel + 1, .list t => (tyTree s fuel t).map .list
  | fuel + 1, .option t => (tyTree s fuel t).map .option
  | fuel + 1, .result a b =>
    let f : Option WTy → Option Tree := fun
      | none => some .none
      | some t => tyTree s fuel t
    match f a, f b with
    | some a, some b => some (.result a b)
    | _, _ => none
  | fuel + 1, .tuple ts =>
    (ts.mapM (tyTree s fuel)).map fun l => .tuple (Forest.ofList (l.map fun t => ([], t)))
  | _ + 1, .borrow n =>
    match s.get n with
    | some (.res r) => some (.borrow r)
    | _ => none
  | _ + 1, .id n =>
    match s.get n with
    | some (.val t) => some t
    | some (.res r) => some (.own r)
    | none => none

def namedTrees (s : Scope) (xs : List (Str × WTy)) : Option Forest :=
  (xs.mapM fun (nt : Str × WTy) => (tyTree s 64 nt.2).map fun t => (nt.1, t)).map Forest.ofList

def sigTree (s : Scope) (extra : List (Str × Tree)) (sg : Sig) (forced : Option Tree) : Option Tree :=
  match namedTrees s sg.params with
  | none => none
  | some ps =>
    let ps := Forest.ofList (extra ++ ps.toList)
    match forced with
    | some r => some (.func false ps r)
    | none =>
      match sg.result with
      | none => some (.func false ps .none)
      | some t => (tyTree s 64 t).map fun r => .func false ps r

/-- the items (name, tree) an interface-level declaration contributes, and the new scope.
`ifaces` = the interfaces known so far (by path as written in `use`): their exports. -/
def denoteItem (container : Str) (ifaces : List (Str × List (Str × Tree))) (s : Scope) (i : Item) :
    Option (Scope × List (Str × Tree)) :=
  match i with
  | .use path items =>
    match alGet ifaces path with
    | none => none
    | some exports =>
      items.foldlM (fun (acc : Scope × List (Str × Tree)) (it : Str × Option Str) =>
        match alGet exports it.1 with
        | some (.type (.resource r)) =>
          let local_ := it.2.getD it.1
          some ({ acc.1 with binds := acc.1.binds ++ [(local_, .res r)] }, acc.2 ++ [(local_, .type (.resource r))])
        | some (.type t) =>
          let local_ := it.2.getD it.1
          some ({ acc.1 with binds := acc.1.binds ++ [(local_, .val t)] }, acc.2 ++ [(local_, .type t)])
        | _ => none) (s, [])
  | .record n fs =>
    (namedTrees s fs).map fun f =>
      ({ s with binds := s.binds ++ [(n, .val (.record f))] }, [(n, .type (.record f))])
  | .variant n cs =>
    let f := cs.mapM fun (ct : Str × Option WTy) =>
      match ct.2 with
      | none => some (ct.1, Tree.none)
      | some t => (tyTree s 64 t).map fun t => (ct.1, t)
    f.map fun l =>
      let t := Tree.variant (Forest.ofList l)
      ({ s with binds := s.binds ++ [(n, .val t)] }, [(n, .type t)])
  | .enum n cs => some ({ s with binds := s.binds ++ [(n, .val (.enum cs))] }, [(n, .type (.enum cs))])
  | .flags n cs => some ({ s with binds := s.binds ++ [(n, .val (.flags cs))] }, [(n, .type (.flags cs))])
  | .alias n t =>
    match t with
    | .id m =>
      match s.get m with
      | some (.res r) => some ({ s with binds := s.binds ++ [(n, .res r)] }, [(n, .type (.resource r))])
      | some (.val t) => some ({ s with binds := s.binds ++ [(n, .val t)] }, [(n, .type t)])
      | none => none
    | _ => (tyTree s 64 t).map fun t => ({ s with binds := s.binds ++ [(n, .val t)] }, [(n, .type t)])
  | .resource n items =>
    -- identity of the declared resource: the declaring interface (by id) and its name; inline
    -- interfaces and worlds have no id
    let r : Res := { uid := 0, idx := s.next, name := (if container.contains ':' then container else []) ++ ['#'] ++ n }
    let s := { s with binds := s.binds ++ [(n, .res r)], next := s.next + 1 }
    let fs := items.mapM fun it =>
      match it with
      | .ctor ps =>
        (sigTree s [] { params := ps } (some (.own r))).map fun t => ("[constructor]".toList ++ n, t)
      | .method m st sg =>
        if st then (sigTree s [] sg none).map fun t => ("[static]".toList ++ n ++ ['.'] ++ m, t)
        else (sigTree s [("self".toList, .borrow r)] sg none).map fun t => ("[method]".toList ++ n ++ ['.'] ++ m, t)
    fs.map fun l => (s, (n, .type (.resource r)) :: l)
  | .func n sg => (sigTree s [] sg none).map fun t => (s, [(n, t)])

/-- the exports of an interface body; the scope's `next` counter is threaded through the whole
package so that every declared resource has its own identity -/
def denoteItems (container : Str) (ifaces : List (Str × List (Str × Tree))) (next : Nat) (items : List Item) :
    Option (Nat × List (Str × Tree)) :=
  (items.foldlM (fun (acc : Scope × List (Str × Tree)) i =>
    (denoteItem container ifaces acc.1 i).map fun (s, out) => (s, acc.2 ++ out)) ({ next := next }, [])).map
      fun (s, out) => (s.next, out)

/-- explicit imports and exports of a world -/
structure WorldD where
  imports : List (Str × Tree) := []
  exports : List (Str × Tree) := []
deriving Repr, Inhabited

def addIfAbsent (l : List (Str × Tree)) (n : Str) (t : Tree) : List (Str × Tree) :=
  if (alGet l n).isSome then l else l ++ [(n, t)]

/-- `include`: rename plain names, keep what is already there -/
def includeInto (own : List (Str × Tree)) (other : List (Str × Tree)) (withs : List (Str × Str)) : List (Str × Tree) :=
  other.foldl (fun (acc : List (Str × Tree)) (nt : Str × Tree) =>
    let n' := if nt.1.contains ':' then nt.1 else (alGet withs nt.1).getD nt.1
    addIfAbsent acc n' nt.2) own

/-- full id of an interface/world of the package: `ns:name/item[@version]` -/
def Pkg.idOf (p : Pkg) (item : Str) : Str :=
  p.name ++ ['/'] ++ item ++ (match p.version with | some v => '@' :: v | none => [])

structure Env where
  /-- interfaces by the path a `use`/`import` names them with (local name and full id) -/
  ifaces : List (Str × List (Str × Tree)) := []
  /-- full id of an interface path -/
  ids : List (Str × Str) := []
  worlds : List (Str × WorldD) := []
  next : Nat := 0
deriving Repr, Inhabited

/-- the world items in two passes as WIT does: everything but `include` first, then includes -/
def denoteWorld (env : Env) (items : List WItem) : Option (Nat × WorldD) :=
  let step (acc : Scope × WorldD) (wi : WItem) : Option (Scope × WorldD) :=
    match wi with
    | .item i =>
      (denoteItem [] env.ifaces acc.1 i).map fun (s, out) =>
        (s, { acc.2 with imports := out.foldl (fun l (n, t) => addIfAbsent l n t) acc.2.imports })
    | .externPath imp path =>
      match alGet env.ifaces path, alGet env.ids path with
      | some ex, some id =>
        let t := Tree.instance (Forest.ofList ex)
        some (acc.1, if imp then { acc.2 with imports := addIfAbsent acc.2.imports id t }
                     else { acc.2 with exports := addIfAbsent acc.2.exports id t })
      | _, _ => none
    | .externFunc imp n sg =>
      (sigTree acc.1 [] sg none).map fun t =>
        (acc.1, if imp then { acc.2 with imports := addIfAbsent acc.2.imports n t }
                else { acc.2 with exports := addIfAbsent acc.2.exports n t })
    | .externIface imp n its =>
      (denoteItems [] env.ifaces acc.1.next its).map fun (next, ex) =>
        let t := Tree.instance (Forest.ofList ex)
        ({ acc.1 with next := next },
          if imp then { acc.2 with imports := addIfAbsent acc.2.imports n t }
          else { acc.2 with exports := addIfAbsent acc.2.exports n t })
    | .include _ _ => some acc
  match items.foldlM step ({ next := env.next }, {}) with
  | none => none
  | some (s, wd) =>
    let inc (wd : WorldD) (wi : WItem) : Option WorldD :=
      match wi with
      | .include wn withs =>
        (alGet env.worlds wn).map fun o =>
          { imports := includeInto wd.imports o.imports withs, exports := includeInto wd.exports o.exports withs }
      | _ => some wd
    (items.foldlM inc wd).map fun wd => (s.next, wd)

/-- denotation of a package given the interfaces of its dependencies (by full id) -/
def denotePkg (deps : List (Str × List (Str × Tree))) (next : Nat) (p : Pkg) : Option Env :=
  let env0 : Env := { ifaces := deps, ids := deps.map fun (n, _) => (n, n), next := next }
  let envI := p.ifaces.foldlM (fun (env : Env) (ni : Str × List Item) =>
    (denoteItems (p.idOf ni.1) env.ifaces env.next ni.2).map fun (next, ex) =>
      let id := p.idOf ni.1
      { env with ifaces := env.ifaces ++ [(ni.1, ex), (id, ex)], ids := env.ids ++ [(ni.1, id), (id, id)], next := next }) env0
  match envI with
  | none => none
  | some env =>
    p.worlds.foldlM (fun (env : Env) (nw : Str × List WItem) =>
      (denoteWorld env nw.2).map fun (next, wd) =>
        { env with worlds := env.worlds ++ [(nw.1, wd)], next := next }) env

end Wac.Spec.Wit

/-! ## comparison of an encoding (validator's view `W`) with the denotation -/
namespace Wac.Spec.Wit
open Wac Wac.Decode

def insertByName (x : Str × Tree) : List (Str × Tree) → List (Str × Tree)
  | [] => [x]
  | y :: r => if String.ofList x.1 ≤ String.ofList y.1 then x :: y :: r else y :: insertByName x r

def sortByName (l : List (Str × Tree)) : List (Str × Tree) := l.foldr insertByName []

mutual
/-- order-insensitive normal form: the exports of instances and the imports/exports of
components sorted by name (mutual subtyping does not see their order) -/
def normT : Tree → Tree
  | .instance f => .instance (Forest.ofList (sortByName (normL f)))
  | .component i e => .component (Forest.ofList (sortByName (normL i))) (Forest.ofList (sortByName (normL e)))
  | .tuple f => .tuple (Forest.ofList (normL f))
  | .variant f => .variant (Forest.ofList (normL f))
  | .record f => .record (Forest.ofList (normL f))
  | .func a ps r => .func a (Forest.ofList (normL ps)) (normT r)
  | .list t => .list (normT t)
  | .fixedList t n => .fixedList (normT t) n
  | .option t => .option (normT t)
  | .result a b => .result (normT a) (normT b)
  | .stream t => .stream (normT t)
  | .future t => .future (normT t)
  | .value t => .value (normT t)
  | .type t => .type (normT t)
  | t => t
termination_by structural t => t
def normL : Forest → List (Str × Tree)
  | .nil => []
  | .cons n t r => (n, normT t) :: normL r
termination_by structural f => f
end

def alGetNat (m : List (Nat × Str)) (k : Nat) : Option Str :=
  match m with
  | [] => none
  | (k', v) :: r => if k' == k then some v else alGetNat r k

mutual
/-- resource leaves reduced to their nominal identity (`Res.name`) -/
def nominalT : Tree → Tree
  | .own r => .own { uid := 0, idx := 0, name := r.name }
  | .borrow r => .borrow { uid := 0, idx := 0, name := r.name }
  | .resource r => .resource { uid := 0, idx := 0, name := r.name }
  | .instance f => .instance (nominalF f)
  | .component i e => .component (nominalF i) (nominalF e)
  | .tuple f => .tuple (nominalF f)
  | .variant f => .variant (nominalF f)
  | .record f => .record (nominalF f)
  | .func a ps r => .func a (nominalF ps) (nominalT r)
  | .list t => .list (nominalT t)
  | .fixedList t n => .fixedList (nominalT t) n
  | .option t => .option (nominalT t)
  | .result a b => .result (nominalT a) (nominalT b)
  | .stream t => .stream (nominalT t)
  | .future t => .future (nominalT t)
  | .value t => .value (nominalT t)
  | .type t => .type (nominalT t)
  | t => t
termination_by structural t => t
def nominalF : Forest → Forest
  | .nil => .nil
  | .cons n t r => .cons n (nominalT t) (nominalF r)
termination_by structural f => f
end

/-- canonical form for comparison: order of exports irrelevant, resources identified by the
interface (id) that declares them and their name there (inline interfaces and worlds: by name).
An imported and an exported copy of one interface are thereby not distinguished: which copy an
item refers to is outside the per-item comparison the property asks for. -/
def canonN (t : Tree) : Tree := nominalT (normT t)

/-- the nominal identity of every base resource of an encoding: a resource is declared where a
type export/import introduces it (`sub resource`: referenced = created) -/
def declaredIn (container : Str) (items : List (Str × WEnt)) (w : WTypes) : List (Nat × Str) :=
  items.filterMap fun (n, e) =>
    match e with
    | .type (.res a) (.res b) =>
      if a == b then (w.res[b]?).map fun r => (r.base, (if container.contains ':' then container else []) ++ ['#'] ++ n)
      else none
    | _ => none

def labelsOfItems (w : WTypes) (items : List (Str × WEnt)) : List (Nat × Str) :=
  declaredIn [] items w ++
  items.flatMap fun (n, e) =>
    match e with
    | .instance i => match w.insts[i]? with
      | some es => declaredIn n es w
      | none => []
    | _ => []

/-- labels of one exported declaration (its wrapper component and, for a world, the world) -/
def labelsOf (w : WTypes) (e : WEnt) : List (Nat × Str) :=
  match e with
  | .type _ (.component c) =>
    match w.comps[c]? with
    | none => []
    | some ct =>
      labelsOfItems w ct.imports ++ labelsOfItems w ct.exports ++
      (ct.exports.flatMap fun (_, x) =>
        match x with
        | .component cw =>
          match w.comps[cw]? with
          | some wd => labelsOfItems w wd.imports ++ labelsOfItems w wd.exports
          | none => []
        | _ => [])
  | _ => []

mutual
def relabelT (ls : List (Nat × Str)) : Tree → Tree
  | .own r => .own { r with name := (alGetNat ls r.idx).getD ("?".toList) }
  | .borrow r => .borrow { r with name := (alGetNat ls r.idx).getD ("?".toList) }
  | .resource r => .resource { r with name := (alGetNat ls r.idx).getD ("?".toList) }
  | .instance f => .instance (relabelF ls f)
  | .component i e => .component (relabelF ls i) (relabelF ls e)
  | .tuple f => .tuple (relabelF ls f)
  | .variant f => .variant (relabelF ls f)
  | .record f => .record (relabelF ls f)
  | .func a ps r => .func a (relabelF ls ps) (relabelT ls r)
  | .list t => .list (relabelT ls t)
  | .fixedList t n => .fixedList (relabelT ls t) n
  | .option t => .option (relabelT ls t)
  | .result a b => .result (relabelT ls a) (relabelT ls b)
  | .stream t => .stream (relabelT ls t)
  | .future t => .future (relabelT ls t)
  | .value t => .value (relabelT ls t)
  | .type t => .type (relabelT ls t)
  | t => t
termination_by structural t => t
def relabelF (ls : List (Nat × Str)) : Forest → Forest
  | .nil => .nil
  | .cons n t r => .cons n (relabelT ls t) (relabelF ls r)
termination_by structural f => f
end

/-- the declarations exported by a package encoding: name ↦ (id, item exported by the wrapper) -/
def wrapperOf (w : WTypes) (e : WEnt) : Option (Str × WEnt) :=
  match e with
  | .type _ (.component c) =>
    match w.comps[c]? with
    | some ct => ct.exports.head?
    | none => none
  | _ => none

def declsOf (w : WTypes) : List (Str × (WEnt × List (Nat × Str))) :=
  match w.comps[w.root]? with
  | none => []
  | some root => root.exports.filterMap fun (n, e) => (wrapperOf w e).map fun x => (n, (x.2, labelsOf w e))

/-- the id under which the wrapper of each declaration exports it: name ↦ `ns:pkg/name[@version]` -/
def declIds (w : WTypes) : List (Str × Str) :=
  match w.comps[w.root]? with
  | none => []
  | some root => root.exports.filterMap fun (n, e) => (wrapperOf w e).map fun x => (n, x.1)

def treeOf (w : WTypes) (ls : List (Nat × Str)) (e : WEnt) : Option Tree :=
  (Wac.Spec.Decode.entTree w (2 * w.fuel) e).map (relabelT ls)

/-- difference between an interface encoding and the denoted exports -/
def cmpInterface (w : WTypes) (ls : List (Nat × Str)) (e : WEnt) (spec : List (Str × Tree)) : Option String :=
  match treeOf w ls e with
  | some t =>
    let a := canonN t
    let b := canonN (.instance (Forest.ofList spec))
    if a == b then none else some ((Wac.Spec.Decode.diffT a b).getD "?")
  | none => some "encoding does not unfold"

/-- difference between a world encoding and the denoted explicit imports/exports -/
def cmpWorld (w : WTypes) (ls : List (Nat × Str)) (e : WEnt) (spec : WorldD) : Option String :=
  match e with
  | .component c =>
    match w.comps[c]? with
    | none => some "dangling component"
    | some ct =>
      let missing := spec.imports.filter fun (n, _) => (alGet ct.imports n).isNone
      let extra := ct.imports.filter fun (n, _) => (alGet spec.imports n).isNone && !n.contains ':'
      let missingE := spec.exports.filter fun (n, _) => (alGet ct.exports n).isNone
      let extraE := ct.exports.filter fun (n, _) => (alGet spec.exports n).isNone
      if !missing.isEmpty then some s!"import {String.ofList (missing.head!).1} is missing"
      else if !extra.isEmpty then some s!"import {String.ofList (extra.head!).1} is not declared"
      else if !missingE.isEmpty then some s!"export {String.ofList (missingE.head!).1} is missing"
      else if !extraE.isEmpty then some s!"export {String.ofList (extraE.head!).1} is not declared"
      else
        -- explicit imports jointly (they share resource identities)
        let explicit := ct.imports.filter fun (n, _) => (alGet spec.imports n).isSome
        match Wac.Spec.Decode.entTrees (Wac.Spec.Decode.entTree w (2 * w.fuel)) explicit with
        | none => some "imports do not unfold"
        | some f =>
          let a := canonN (relabelT ls (.instance f))
          let b := canonN (.instance (Forest.ofList spec.imports))
          if a != b then some ("imports: " ++ (Wac.Spec.Decode.diffT a b).getD "?")
          else
            -- exports one by one
            spec.exports.findSome? fun (n, ts) =>
              match alGet ct.exports n with
              | none => some "?"
              | some ee =>
                match treeOf w ls ee with
                | none => some s!"export {String.ofList n} does not unfold"
                | some t =>
                  let a := canonN t
                  let b := canonN ts
                  if a == b then none else some (s!"export {String.ofList n}: " ++ (Wac.Spec.Decode.diffT a b).getD "?")
  | _ => some "not a component"

/-- split the source at the package separator written by the harness -/
def splitPackages (src : Str) : List Str :=
  let sep := "\n//--- package ---\n".toList
  let rec go (fuel : Nat) (s cur : Str) (acc : List Str) : List Str :=
    match fuel with
    | 0 => (cur.reverse :: acc).reverse
    | fuel + 1 =>
      match s with
      | [] => (cur.reverse :: acc).reverse
      | c :: r =>
        if sep.isPrefixOf s then go fuel (s.drop sep.length) [] (cur.reverse :: acc)
        else go fuel r (c :: cur) acc
  go (src.length + 1) src [] []

/-- denotation of the last package of a source, dependencies first -/
def denoteSource (src : Str) : Option (Pkg × Env) :=
  let texts := splitPackages src
  let step (acc : Option (List (Str × List (Str × Tree)) × Nat × Option (Pkg × Env))) (t : Str) :=
    match acc with
    | none => none
    | some (deps, next, _) =>
      match parsePkg t with
      | none => none
      | some p =>
        match denotePkg deps next p with
        | none => none
        | some env =>
          -- interfaces of this package by full id become dependencies of the next
          let full := p.ifaces.filterMap fun (n, _) => (alGet env.ifaces (p.idOf n)).map fun ex => (p.idOf n, ex)
          some (deps ++ full, env.next, some (p, env))
  match texts.foldl step (some ([], 0, none)) with
  | some (_, _, r) => r
  | none => none

/-- verdict for one encoding: first declaration that differs from the denotation -/
def checkEncoding (w : WTypes) (p : Pkg) (env : Env) : Option String :=
  let decls := declsOf w
  let ids := declIds w
  -- every declaration is exported under the id of *this* package version (the whole version:
  -- pre-release and build metadata included)
  let badId := (p.ifaces.map (·.1) ++ p.worlds.map (·.1)).findSome? fun n =>
    match alGet ids n with
    | some id => if id == p.idOf n then none
                 else some s!"declaration {String.ofList n}: exported under id {String.ofList id}, expected {String.ofList (p.idOf n)}"
    | none => none
  if badId.isSome then badId else
  match p.ifaces.findSome? fun (n, _) =>
      match alGet decls n, alGet env.ifaces n with
      | some (e, ls), some spec => (cmpInterface w ls e spec).map (s!"interface {String.ofList n}: " ++ ·)
      | none, _ => some s!"interface {String.ofList n} is not exported"
      | _, none => some s!"interface {String.ofList n} has no denotation" with
  | some e => some e
  | none =>
    p.worlds.findSome? fun (n, _) =>
      match alGet decls n, alGet env.worlds n with
      | some (e, ls), some spec => (cmpWorld w ls e spec).map (s!"world {String.ofList n}: " ++ ·)
      | none, _ => some s!"world {String.ofList n} is not exported"
      | _, none => some s!"world {String.ofList n} has no denotation"

end Wac.Spec.Wit
