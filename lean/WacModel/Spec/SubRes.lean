import WacModel.Spec.Sub
/-
  C07, resource clause: the hypothesis under which the *name* comparison of
  `SubtypeChecker::resource` is the *identity* comparison the component model asks for.

  Written from the property statement ("one provider: distinct resources have distinct names"),
  not from checker.rs.  Executable, so the C07 driver evaluates it on every generated case.

  * `rootResources t`: the resource leaves a collection can produce — its non-alias resources
    (an alias resource is never a leaf: `resolve_resource` follows `alias_of` to the end), each
    with its identity (collection uid, index) and its name.
  * `namesInjective l`: two leaves of `l` with the same name are the same leaf.
  * `resourceNamesInjective at bt`: the decidable predicate on the (one or two) collections of a
    check: names are injective on the union of the root resources of both collections.  For one
    collection (`at = bt`) this is "distinct resource ids have distinct names"; for two different
    collections it also says that they share no resource name (a resource of one collection is
    never *identical* to a resource of another one).
  * `allRes p t`: every resource leaf of the tree satisfies `p`.
-/
namespace Wac.Spec
open Wac

/-- the non-alias resources of an arena from index `i` on, as leaves -/
def rootsFrom (uid : Nat) : Nat → List Resource → List Res
  | _, [] => []
  | i, r :: rs =>
    match r.alias with
    | none => { uid := uid, idx := i, name := r.name } :: rootsFrom uid (i + 1) rs
    | some _ => rootsFrom uid (i + 1) rs

/-- the resource leaves a collection can produce -/
def rootResources (t : Types) : List Res := rootsFrom t.uid 0 t.resources

/-- leaves with equal names are equal -/
def namesInjective (l : List Res) : Bool :=
  l.all fun r => l.all fun s => r.name != s.name || r == s

/-- **the injectivity predicate on the collections of a check**: distinct resource identities
have distinct names, over both collections -/
def resourceNamesInjective (at_ bt : Types) : Bool :=
  namesInjective (rootResources at_ ++ rootResources bt)

mutual
/-- every resource leaf of the tree satisfies `p` -/
def allRes (p : Res → Bool) : Tree → Bool
  | .own r | .borrow r | .resource r => p r
  | .none | .prim _ | .flags _ | .enum _ | .module _ => true
  | .tuple f | .variant f | .record f | .instance f => allResF p f
  | .list t | .fixedList t _ | .option t | .stream t | .future t | .value t | .type t => allRes p t
  | .result a b => allRes p a && allRes p b
  | .func _ ps r => allResF p ps && allRes p r
  | .component i e => allResF p i && allResF p e
termination_by structural t => t
def allResF (p : Res → Bool) : Forest → Bool
  | .nil => true
  | .cons _ t r => allRes p t && allResF p r
termination_by structural f => f
end

/-- tree-level form of the predicate: names are injective on the leaves drawn from `l` and both
trees only have leaves of `l` (what the driver can also evaluate on unfolded trees) -/
def leavesInjective (l : List Res) (ta tb : Tree) : Bool :=
  namesInjective l && allRes (fun x => l.contains x) ta && allRes (fun x => l.contains x) tb

/-- the number of resource leaves (to tell trivial from non-trivial cases) -/
def hasResource (t : Tree) : Bool := !t.resourceFree

end Wac.Spec
