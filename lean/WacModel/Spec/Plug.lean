import WacModel.Plug
import WacModel.Spec.Names
import WacModel.Spec.Graph
/-
  Declarative specification for C10, written from the property statement:

    "each socket import for which a plug exports a type-compatible item under the same name
     (or, failing that, a semver-compatible name) is supplied by that plug's export; every
     other socket import remains an import of the result; every socket export is exported
     under its own name; a plug contributing nothing is not instantiated.  If two plugs both
     offer a compatible item for the same socket import the operation fails …, it reports
     that no plugging happened exactly when no socket import could be supplied"

  Names are related by the C15 *specification* of semver compatibility (`Spec.compatSpec`,
  tracks as data), not by the code's string slicing.  Everything is executable: the driver
  evaluates it on the graph the implementation reports after `plug`.
-/
namespace Wac.Graph
open Wac

/-- the socket import a plug export named `name` is meant for: the import of the same name,
    failing that the first import with a semver-compatible name -/
def intendedImport (imports : List (Str × Kind)) (name : Str) : Option (Str × Kind) :=
  match imports.find? (fun p => p.1 = name) with
  | some p => some p
  | none => imports.find? (fun p => Spec.compatSpec name p.1)

/-- what one plug offers: (socket import name, plug export name), type-compatible items only -/
def offers (ctx : Ctx) (socketD plugD : PkgDef) : List (Str × Str) :=
  (ctx.pkgExports plugD).filterMap fun e =>
    match intendedImport socketD.imports e.1 with
    | some (imp, ik) => if ctx.sub e.2 ik then some (imp, e.1) else none
    | none => none

/-- all offers, in plug order: (socket import, position of the plug, plug export) -/
def allOffers (ctx : Ctx) (socketD : PkgDef) (plugDs : List PkgDef) : List (Str × Nat × Str) :=
  plugDs.zipIdx.flatMap fun (d, k) => (offers ctx socketD d).map fun (imp, exp) => (imp, k, exp)

inductive Expected where
  /-- two offers for one socket import: the operation must fail -/
  | fails
  /-- nothing can be supplied -/
  | noPlug
  /-- success; the socket's arguments -/
  | supplied (args : List (Str × Nat × Str))
deriving DecidableEq, Repr

def expected (ctx : Ctx) (socketD : PkgDef) (plugDs : List PkgDef) : Expected :=
  let all := allOffers ctx socketD plugDs
  if !(all.map (·.1)).Nodup then .fails
  else if all.isEmpty then .noPlug
  else .supplied all

/-- instantiation nodes of a package -/
def instancesOf (g : Graph) (id : PkgId) : List Nat :=
  g.nodeIds.filter fun n =>
    match g.node? n with
    | some nd => nd.isInst && nd.pkg == some id
    | none => false

/-- the post-condition of a successful plug, evaluated on a graph that contained only the
    registered packages before the call; returns the violated clauses -/
def plugPost (ctx : Ctx) (g : Graph) (socket : PkgId) (socketD : PkgDef) (plugs : List (PkgId × PkgDef))
    (args : List (Str × Nat × Str)) : List String :=
  match instancesOf g socket with
  | [si] =>
    let actual := (getInstantiationArguments g si).toOption.getD []
    -- (1) every offer is an argument edge from an alias of that plug's instantiation
    let c1 := args.filterMap fun (imp, k, exp) =>
      match plugs[k]? with
      | none => some "offer of an unknown plug"
      | some (pid, _) =>
        let ok := actual.any fun (nm, a) =>
          nm == imp &&
          (match getAliasSource ctx g a with
           | .ok (some (src, ename)) => ename == exp && (instancesOf g pid).contains src
           | _ => false)
        if ok then none else some s!"socket import {String.ofList imp} is not supplied by export {String.ofList exp} of plug #{k}"
    -- … and nothing else is passed
    let c1' := if actual.length == args.length then [] else
      [s!"socket has {actual.length} arguments, {args.length} offers"]
    -- (2) every other socket import remains an import of the result
    let imps := (importsQuery g).toOption.getD []
    let c2 := socketD.imports.filterMap fun (nm, k) =>
      if args.any (fun a => a.1 == nm) then none
      else if imps.any (fun i => i.1 == nm && i.2.1 == k && i.2.2 == none) then none
      else some s!"unmatched socket import {String.ofList nm} is not an import of the result"
    -- (3) every socket export is exported under its own name, from the socket instantiation
    let c3 := (ctx.pkgExports socketD).filterMap fun (nm, _) =>
      match getExport g nm with
      | none => some s!"socket export {String.ofList nm} is not exported"
      | some a =>
        match getAliasSource ctx g a with
        | .ok (some (src, ename)) =>
          if src == si && ename == nm then none else some s!"export {String.ofList nm} is not the socket's export"
        | _ => some s!"export {String.ofList nm} is not an alias of the socket instantiation"
    -- (4) a plug contributing nothing is not instantiated; a contributing plug once
    let c4 := plugs.zipIdx.filterMap fun ((pid, _), k) =>
      let contributes := args.any (fun a => a.2.1 == k)
      -- the same package may appear at several positions
      let positions := plugs.zipIdx.filter (fun q => q.1.1 == pid)
      let contributing := (positions.filter fun q => args.any (fun a => a.2.1 == q.2)).length
      let n := (instancesOf g pid).length
      if n == contributing then none
      else some s!"plug #{k} ({if contributes then "contributing" else "idle"}): package instantiated {n} times, {contributing} contributing positions"
    c1 ++ c1' ++ c2 ++ c3 ++ c4
  | l => [s!"{l.length} instantiations of the socket"]

end Wac.Graph
