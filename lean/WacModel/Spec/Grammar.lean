import WacModel.Ast
/-
  Specification for C12: the WAC language as documented in `LANGUAGE.md` ("WAC Grammar").

  Written from the document, not from the parser: a token is the *longest* prefix matching one
  of the documented token classes (regular expressions, interpreted by the generic matcher
  `Re.longest` below), white space and (nested) comments separate tokens, and a text is a
  document iff the token sequence is derivable from the EBNF.  The EBNF is transcribed
  production by production as a *list-of-successes* recogniser (`SP`): every alternative is
  explored, nothing is committed, so `derivations ts` is the set of all derivations and the text
  is in the language iff it is non-empty.  Trees are the `Wac.Ast` types with all spans `⟨0,0⟩`
  and no doc comments (comments are white space in the grammar).

  Deviations from the printed EBNF (each one a decision about what the documentation means,
  see DESIGN.md §7 C12 and notes/C12.md):
   D1  identifiers are WIT kebab words: every word all-lower or all-upper
       (`[a-z][a-z0-9]*|[A-Z][A-Z0-9]*`), the printed rule only lists lower case;
   D2  `borrow<id>` (WIT), the printed rule says `borrow<type>`;
   D3  named result lists `-> (a: t, …)` are not part of the language (the AST has none);
   D4  the argument list of `new` may be empty, and `...` may stand at any argument position
       (`new a:b {}` and `new a:b { ... }` are used throughout LANGUAGE.md; "`...` must be last"
       is a resolution diagnostic, C04);
   D5  the name lists of `use … .{}` and `include … with {}` may be empty (the printed rule wants
       one element; the WIT reference parser accepts none);
   D6  package names and package paths, including `@version`, are single tokens (no white space
       inside); the lexical shape of a version is `[0-9]+(\.[0-9a-zA-Z+-]+)*` and it must be a
       valid semantic version (`version ::= <SEMVER>`, numeric parts fitting 64 bits);
   D7  any control character other than tab/CR/LF, any bidirectional-override and any
       deprecated code point anywhere in the text makes it invalid (C12 statement).
   D8  in `result<…>` the hole `_` may stand for an absent type in either position
       (`result<_>`, `result<_, _>`, `result<t, _>` besides the four printed forms): the
       repository's own test suite writes `result<_>` (tests/resolution/fail/missing-ok-result-type.wac).
   D9  an implementation limit: `(`, `<` and `{` may be nested at most `MAX_NESTING_DEPTH` deep
       (the constant of lexer.rs, read by the translator; `verdictWith`).  A recursive-descent
       front end cannot accept unbounded nesting without overflowing its stack (C14).
  Everything else — in particular `'->' results` needing a result type, keywords not being
  identifiers, non-empty record/variant/enum/flags/tuple bodies — is taken literally.

  Core Lean only.
-/
namespace Wac.Spec.Grammar
open Wac Wac.Ast

/-! ### regular expressions (the documented token classes) -/

inductive Re where
  | empty
  | eps
  /-- one character in one of the inclusive ranges -/
  | cls (ranges : List (Char × Char))
  /-- one character in none of the inclusive ranges -/
  | ncls (ranges : List (Char × Char))
  | seq (a b : Re)
  | alt (a b : Re)
  | star (a : Re)
deriving Repr, Inhabited

namespace Re
def nullable : Re → Bool
  | empty => false | eps => true | cls _ => false | ncls _ => false
  | seq a b => a.nullable && b.nullable
  | alt a b => a.nullable || b.nullable
  | star _ => true

def inRanges (c : Char) (rs : List (Char × Char)) : Bool := rs.any fun (lo, hi) => lo ≤ c && c ≤ hi

def isEmpty : Re → Bool
  | empty => true
  | _ => false

def mkSeq (a b : Re) : Re :=
  match a, b with
  | empty, _ => empty
  | _, empty => empty
  | eps, b => b
  | a, eps => a
  | a, b => seq a b

def mkAlt (a b : Re) : Re :=
  match a, b with
  | empty, b => b
  | a, empty => a
  | a, b => alt a b

/-- Brzozowski derivative -/
def deriv (c : Char) : Re → Re
  | empty => empty
  | eps => empty
  | cls rs => if inRanges c rs then eps else empty
  | ncls rs => if inRanges c rs then empty else eps
  | seq a b => if a.nullable then mkAlt (mkSeq (deriv c a) b) (deriv c b) else mkSeq (deriv c a) b
  | alt a b => mkAlt (deriv c a) (deriv c b)
  | star a => mkSeq (deriv c a) (star a)

/-- length (in characters) of the longest prefix of `s` matched by `r`, if any -/
def longest (r : Re) (s : Str) : Option Nat :=
  let rec go (r : Re) (s : Str) (n : Nat) (best : Option Nat) : Option Nat :=
    let best := if r.nullable then some n else best
    match s with
    | [] => best
    | c :: rest =>
      let r' := deriv c r
      if r'.isEmpty then best else go r' rest (n + 1) best
  go r s 0 none

def lit (s : String) : Re := s.toList.foldr (fun c r => mkSeq (cls [(c, c)]) r) eps
def plus (a : Re) : Re := seq a (star a)
def opt (a : Re) : Re := alt a eps
end Re

open Re in
/-- `word ::= [a-z][a-z0-9]* | [A-Z][A-Z0-9]*` (D1) -/
def reWord : Re :=
  alt (seq (cls [('a', 'z')]) (star (cls [('a', 'z'), ('0', '9')])))
      (seq (cls [('A', 'Z')]) (star (cls [('A', 'Z'), ('0', '9')])))
open Re in
/-- `id ::= '%'? word ('-' word)*` -/
def reId : Re := seq (opt (lit "%")) (seq reWord (star (seq (lit "-") reWord)))
open Re in
/-- `id (':' id)+` -/
def rePackageName : Re := seq reId (plus (seq (lit ":") reId))
open Re in
/-- lexical shape of a version (D6) -/
def reVersion : Re :=
  seq (plus (cls [('0', '9')]))
      (star (seq (lit ".") (plus (cls [('0', '9'), ('a', 'z'), ('A', 'Z'), ('-', '-'), ('+', '+')]))))
open Re in
/-- `package-name ::= id (':' id)+ ('@' version)?` -/
def rePackageNameTok : Re := seq rePackageName (opt (seq (lit "@") reVersion))
open Re in
/-- `package-path ::= id (':' id)+ ('/' id)+ ('@' version)?` -/
def rePackagePathTok : Re :=
  seq rePackageName (seq (plus (seq (lit "/") reId)) (opt (seq (lit "@") reVersion)))
open Re in
/-- `string ::= '"' character-that-is-not-a-double-quote* '"'` -/
def reString : Re := seq (lit "\"") (seq (star (ncls [('"', '"')])) (lit "\""))

/-! ### the documented token table -/

/-- every keyword terminal of the EBNF (in the order of `enum Token`, so that the table can be
compared with the generated one) -/
def keywords : List String := [
  "import", "with", "type", "tuple", "list", "option", "result", "borrow", "resource", "variant",
  "record", "flags", "enum", "func", "static", "constructor", "u8", "s8", "u16", "s16", "u32",
  "s32", "u64", "s64", "f32", "f64", "char", "bool", "string", "interface", "world", "export",
  "new", "let", "use", "include", "as", "package", "targets"]

/-- every punctuation terminal of the EBNF with the name the lexer gives it -/
def symbols : List (String × String) := [
  ("Semicolon", ";"), ("OpenBrace", "{"), ("CloseBrace", "}"), ("Colon", ":"), ("Equals", "="),
  ("OpenParen", "("), ("CloseParen", ")"), ("Arrow", "->"), ("OpenAngle", "<"), ("CloseAngle", ">"),
  ("Underscore", "_"), ("OpenBracket", "["), ("CloseBracket", "]"), ("Dot", "."), ("Ellipsis", "..."),
  ("Comma", ","), ("Slash", "/"), ("At", "@")]

/-- name of the token of a keyword: `import` ↦ `ImportKeyword` -/
def keywordVariant (k : String) : String :=
  match k.toList with
  | c :: r => String.ofList (c.toUpper :: r) ++ "Keyword"
  | [] => "Keyword"

/-- the documented regular token classes, as the strings the lexer declares them with
(`Re` values above are their meaning) and the callback attached to each (`logos::skip`: the
line comment is not a token) -/
def regexTokens : List (String × String × String) := [
  ("Comment", "//[^\\n]*", "logos::skip"),
  ("Ident", "(?&id)", ""),
  ("PackageName", "(?&package_name)(@(?&semver))?", ""),
  ("PackagePath", "(?&package_name)(/(?&id))+(@(?&semver))?", "")]

def subpatterns : List (String × String) := [
  ("word", "[a-z][a-z0-9]*|[A-Z][A-Z0-9]*"),
  ("id", "%?(?&word)(-(?&word))*"),
  ("package_name", "(?&id)(:(?&id))+"),
  ("semver", "([0-9]+)(\\.[0-9a-zA-Z-\\+]+)*")]

def callbackTokens : List (String × String × String) := [
  ("BlockComment", "/*", "helpers::skip_block_comment"),
  ("String", "\"", "helpers::string")]

def skipPatterns : List String := ["[ \\t\\r\\n\\f]+"]

/-- D7: the code points that make a text invalid wherever they occur -/
def bidiOverrides : List Nat := [0x202a, 0x202b, 0x202c, 0x202d, 0x202e, 0x2066, 0x2067, 0x2068, 0x2069]
def deprecated : List Nat := [0x149, 0x673, 0xf77, 0xf79, 0x17a3, 0x17a4, 0x17b4, 0x17b5]
def allowedControls : List Nat := [0x0d, 0x09, 0x0a]

/-- a control character (Unicode category Cc) other than tab, CR, LF; a bidi override; a
deprecated code point -/
def forbiddenChar (c : Char) : Bool :=
  let n := c.toNat
  ((n < 0x20 || (0x7f ≤ n && n < 0xa0)) && !allowedControls.contains n) ||
    bidiOverrides.contains n || deprecated.contains n

/-! ### tokens -/

inductive SKind where
  /-- a keyword or punctuation terminal, identified by its text -/
  | lit
  | id
  | string
  | packageName
  | packagePath
deriving DecidableEq, Repr, Inhabited

structure STok where
  kind : SKind
  text : Str
deriving DecidableEq, Repr, Inhabited

/-- skip nested block comment text after an opening `/*`; `depth` = number of enclosing comments -/
def skipComment : Nat → Str → Option Str
  | _, [] => none
  | d, '*' :: '/' :: r => if d = 0 then some r else skipComment (d - 1) r
  | d, '/' :: '*' :: r => skipComment (d + 1) r
  | d, _ :: r => skipComment d r

/-- the token classes tried at a position: (kind, length) of every class that matches -/
def candidates (s : Str) : List (SKind × Nat) :=
  let re (k : SKind) (r : Re) : List (SKind × Nat) :=
    match r.longest s with
    | some n => if n > 0 then [(k, n)] else []
    | none => []
  let lits := (keywords ++ symbols.map (·.2)).filterMap fun t =>
    if t.toList.isPrefixOf s then some (SKind.lit, t.length) else none
  lits ++ re .id reId ++ re .string reString ++ re .packageName rePackageNameTok ++ re .packagePath rePackagePathTok

/-- longest candidate; among equally long ones the first (terminals come before classes, so a
keyword wins over an identifier of the same text) -/
def best : List (SKind × Nat) → Option (SKind × Nat)
  | [] => none
  | c :: r =>
    match best r with
    | some b => if b.2 > c.2 then some b else some c
    | none => some c

/-- tokens of a text; `none` when some position matches no token class or a comment or string is
not terminated -/
def tokens : Nat → Str → Option (List STok)
  | 0, _ => none
  | fuel + 1, s =>
    match s with
    | [] => some []
    | c :: r =>
      if c == ' ' || c == '\n' || c == '\r' || c == '\t' then tokens fuel r
      else if c == '/' && r.head? == some '/' then tokens fuel (s.dropWhile (· != '\n'))
      else if c == '/' && r.head? == some '*' then
        match skipComment 0 (r.drop 1) with
        | some rest => if rest.length < s.length then tokens fuel rest else none
        | none => none
      else
        match best (candidates s) with
        | some (k, n) =>
          if n = 0 then none else
          (tokens fuel (s.drop n)).map fun ts => ⟨k, s.take n⟩ :: ts
        | none => none

/-! ### versions (`version ::= <SEMVER>`, semver.org 2.0.0 §2, §9, §10) -/

def splitOn (c : Char) (s : Str) : List Str :=
  let rec go (acc : Str) : Str → List Str
    | [] => [acc.reverse]
    | d :: r => if d == c then acc.reverse :: go [] r else go (d :: acc) r
  go [] s

/-- split at the first occurrence of `c` -/
def splitFirst (c : Char) (s : Str) : Str × Option Str :=
  let a := s.takeWhile (· != c)
  if a.length < s.length then (a, some (s.drop (a.length + 1))) else (a, none)

def isDig (c : Char) : Bool := '0' ≤ c && c ≤ '9'
def isAlnumHyphen (c : Char) : Bool := isDig c || ('a' ≤ c && c ≤ 'z') || ('A' ≤ c && c ≤ 'Z') || c == '-'

/-- a numeric identifier: digits, no leading zero, (implementation limit) below 2^64 -/
def numericId (s : Str) : Option Nat :=
  if s.isEmpty || !s.all isDig then none
  else if s.length > 1 && s.head? == some '0' then none
  else
    let v := s.foldl (fun a c => 10 * a + (c.toNat - '0'.toNat)) 0
    if v < 2 ^ 64 then some v else none

def preIdOk (s : Str) : Bool :=
  !s.isEmpty && s.all isAlnumHyphen && !(s.all isDig && s.length > 1 && s.head? == some '0')
def buildIdOk (s : Str) : Bool := !s.isEmpty && s.all isAlnumHyphen

/-- `<valid semver> ::= core | core "-" pre | core "+" build | core "-" pre "+" build` -/
def semver (s : Str) : Option Version :=
  let (front, build) := splitFirst '+' s
  let (core, pre) := splitFirst '-' front
  match splitOn '.' core with
  | [a, b, c] =>
    match numericId a, numericId b, numericId c with
    | some ma, some mi, some pa =>
      let preOk := match pre with
        | none => true
        | some p => (splitOn '.' p).all preIdOk
      let buildOk := match build with
        | none => true
        | some b => (splitOn '.' b).all buildIdOk
      if preOk && buildOk then some ⟨ma, mi, pa, pre.getD [], build.getD []⟩ else none
    | _, _, _ => none
  | _ => none

/-! ### the grammar (list of successes) -/

/-- a recogniser: every way of deriving a prefix of the input, with the rest of the input -/
abbrev SP (α : Type) := List STok → List (α × List STok)

def SP.pure {α} (a : α) : SP α := fun ts => [(a, ts)]
def SP.bind {α β} (p : SP α) (f : α → SP β) : SP β := fun ts => (p ts).flatMap fun (a, r) => f a r
instance : Monad SP where
  pure := SP.pure
  bind := SP.bind

def fail {α} : SP α := fun _ => []
/-- `a | b` -/
def alt {α} (p q : SP α) : SP α := fun ts => p ts ++ q ts
infixl:20 " <+> " => alt
/-- `p?` -/
def opt {α} (p : SP α) : SP (Option α) := (do let a ← p; pure (some a)) <+> pure none
/-- a terminal -/
def t (text : String) : SP Unit := fun ts =>
  match ts with
  | tok :: r => if tok.kind == .lit && tok.text == text.toList then [((), r)] else []
  | [] => []
def class_ (k : SKind) : SP Str := fun ts =>
  match ts with
  | tok :: r => if tok.kind == k then [(tok.text, r)] else []
  | [] => []
/-- `p*` -/
def many {α} (p : SP α) : Nat → SP (List α)
  | 0 => pure []
  | fuel + 1 => (do let a ← p; let as ← many p fuel; pure (a :: as)) <+> pure []
/-- `p (',' p)* ','?` -/
def list1 {α} (p : SP α) (fuel : Nat) : SP (List α) := do
  let a ← p
  let as ← many (do t ","; p) fuel
  let _ ← opt (t ",")
  pure (a :: as)
/-- `(p (',' p)* ','?)?` -/
def list0 {α} (p : SP α) (fuel : Nat) : SP (List α) := list1 p fuel <+> pure []

def z : Span := ⟨0, 0⟩

/-- `id` -/
def gId : SP Ident := do
  let s ← class_ .id
  match s with
  | '%' :: r => pure ⟨r, true, z⟩
  | _ => pure ⟨s, false, z⟩

/-- `string` -/
def gString : SP StringLit := do
  let s ← class_ .string
  pure ⟨(s.drop 1).take (s.length - 2), z⟩

/-- `package-name ::= id (':' id)+ ('@' version)?` -/
def gPackageName : SP PackageName := do
  let s ← class_ .packageName
  let (name, v) := splitFirst '@' s
  match v with
  | none => pure ⟨s, name, none, z⟩
  | some v =>
    match semver v with
    | some ver => pure ⟨s, name, some ver, z⟩
    | none => fail

/-- `package-path ::= id (':' id)+ ('/' id)+ ('@' version)?` -/
def gPackagePath : SP PackagePath := do
  let s ← class_ .packagePath
  let (path, v) := splitFirst '@' s
  let (name, segs) := splitFirst '/' path
  match v with
  | none => pure ⟨z, s, name, segs.getD [], none⟩
  | some v =>
    match semver v with
    | some ver => pure ⟨z, s, name, segs.getD [], some ver⟩
    | none => fail

mutual
/-- `type | '_'` -/
def gTypeOrHole : Nat → SP (Option Ty)
  | 0 => fail
  | fuel + 1 => (do t "_"; pure none) <+> (do let ty ← gType fuel; pure (some ty))
/-- `type` (with `tuple`, `list`, `option`, `result`, `borrow`) -/
def gType : Nat → SP Ty
  | 0 => fail
  | fuel + 1 =>
    (do t "u8"; pure (.U8 z)) <+> (do t "s8"; pure (.S8 z)) <+>
    (do t "u16"; pure (.U16 z)) <+> (do t "s16"; pure (.S16 z)) <+>
    (do t "u32"; pure (.U32 z)) <+> (do t "s32"; pure (.S32 z)) <+>
    (do t "u64"; pure (.U64 z)) <+> (do t "s64"; pure (.S64 z)) <+>
    (do t "f32"; pure (.F32 z)) <+> (do t "f64"; pure (.F64 z)) <+>
    (do t "char"; pure (.Char z)) <+> (do t "bool"; pure (.Bool z)) <+>
    (do t "string"; pure (.String z)) <+>
    -- tuple ::= 'tuple' '<' type (',' type)* ','? '>'
    (do t "tuple"; t "<"; let ts ← list1 (gType fuel) fuel; t ">"; pure (.Tuple ts z)) <+>
    -- list ::= 'list' '<' type '>'
    (do t "list"; t "<"; let ty ← gType fuel; t ">"; pure (.List ty z)) <+>
    -- option ::= 'option' '<' type '>'
    (do t "option"; t "<"; let ty ← gType fuel; t ">"; pure (.Option ty z)) <+>
    -- result ::= 'result' | 'result' '<' type '>' | 'result' '<' '_' ',' type '>' | 'result' '<' type ',' type '>'
    -- (D8: `_` may stand for an absent type in either position: 'result' '<' (type|'_') (',' (type|'_'))? '>')
    -- (written left-factored, so that nested results are recognised in linear time)
    (do t "result"; pure (.Result none none z)) <+>
    (do t "result"; t "<"; let ok ← gTypeOrHole fuel
        let err ← opt (do t ","; gTypeOrHole fuel)
        t ">"; pure (.Result ok (err.getD none) z)) <+>
    -- borrow ::= 'borrow' '<' id '>'   (D2)
    (do t "borrow"; t "<"; let id ← gId; t ">"; pure (.Borrow id z)) <+>
    (do let id ← gId; pure (.Ident id))
end

/-- `named-type ::= id ':' type` -/
def gNamedType (fuel : Nat) : SP NamedType := do
  let id ← gId; t ":"; let ty ← gType fuel; pure ⟨id, ty⟩

/-- `'(' params? ')'` -/
def gParamList (fuel : Nat) : SP (List NamedType) := do
  t "("; let ps ← list0 (gNamedType fuel) fuel; t ")"; pure ps

/-- `func-type ::= 'func' '(' params? ')' ('->' results)?`, `results ::= type` (D3) -/
def gFuncType (fuel : Nat) : SP FuncType := do
  t "func"
  let ps ← gParamList fuel
  let r ← opt (do t "->"; gType fuel)
  pure ⟨ps, match r with | some ty => .Scalar ty | none => .Empty⟩

/-- `func-type-ref ::= func-type | id` -/
def gFuncTypeRef (fuel : Nat) : SP FuncTypeRef :=
  (do let f ← gFuncType fuel; pure (.Func f)) <+> (do let id ← gId; pure (.Ident id))

/-- `resource-item ::= constructor | method` -/
def gResourceItem (fuel : Nat) : SP ResourceMethod :=
  -- constructor ::= 'constructor' param-list ';'
  (do t "constructor"; let ps ← gParamList fuel; t ";"; pure (.Constructor ⟨[], z, ps⟩)) <+>
  -- method ::= id ':' 'static'? func-type ';'
  (do let id ← gId; t ":"; let s ← opt (t "static"); let f ← gFuncType fuel; t ";"
      pure (.Method ⟨[], id, s.isSome, f⟩))

/-- `resource-decl ::= 'resource' id (';' | '{' resource-item* '}')` -/
def gResourceDecl (fuel : Nat) : SP ResourceDecl := do
  t "resource"; let id ← gId
  (do t ";"; pure ⟨[], id, []⟩) <+>
    (do t "{"; let ms ← many (gResourceItem fuel) fuel; t "}"; pure ⟨[], id, ms⟩)

/-- `variant-decl ::= 'variant' id '{' variant-cases '}'` -/
def gVariantDecl (fuel : Nat) : SP VariantDecl := do
  t "variant"; let id ← gId; t "{"
  -- variant-case ::= id ('(' type ')')?
  let cases ← list1 (do let id ← gId; let ty ← opt (do t "("; let ty ← gType fuel; t ")"; pure ty); pure (⟨[], id, ty⟩ : VariantCase)) fuel
  t "}"; pure ⟨[], id, cases⟩

/-- `record-decl ::= 'record' id '{' fields '}'` -/
def gRecordDecl (fuel : Nat) : SP RecordDecl := do
  t "record"; let id ← gId; t "{"
  let fields ← list1 (do let n ← gNamedType fuel; pure (⟨[], n.id, n.ty⟩ : Field)) fuel
  t "}"; pure ⟨[], id, fields⟩

/-- `flags-decl ::= 'flags' id '{' ids '}'` -/
def gFlagsDecl (fuel : Nat) : SP FlagsDecl := do
  t "flags"; let id ← gId; t "{"
  let flags ← list1 (do let id ← gId; pure (⟨[], id⟩ : Flag)) fuel
  t "}"; pure ⟨[], id, flags⟩

/-- `enum-decl ::= 'enum' id '{' ids '}'` -/
def gEnumDecl (fuel : Nat) : SP EnumDecl := do
  t "enum"; let id ← gId; t "{"
  let cases ← list1 (do let id ← gId; pure (⟨[], id⟩ : EnumCase)) fuel
  t "}"; pure ⟨[], id, cases⟩

/-- `type-alias ::= 'type' id '=' (func-type | type) ';'` -/
def gTypeAlias (fuel : Nat) : SP TypeAlias := do
  t "type"; let id ← gId; t "="
  let kind ← (do let f ← gFuncType fuel; pure (TypeAliasKind.Func f)) <+> (do let ty ← gType fuel; pure (TypeAliasKind.Type' ty))
  t ";"; pure ⟨[], id, kind⟩

/-- `type-decl ::= variant-decl | record-decl | flags-decl | enum-decl | type-alias` -/
def gTypeDecl (fuel : Nat) : SP TypeDecl :=
  (do let d ← gVariantDecl fuel; pure (.Variant d)) <+> (do let d ← gRecordDecl fuel; pure (.Record d)) <+>
  (do let d ← gFlagsDecl fuel; pure (.Flags d)) <+> (do let d ← gEnumDecl fuel; pure (.Enum d)) <+>
  (do let d ← gTypeAlias fuel; pure (.Alias d))

/-- `item-type-decl ::= resource-decl | type-decl` -/
def gItemTypeDecl (fuel : Nat) : SP ItemTypeDecl :=
  (do let d ← gResourceDecl fuel; pure (.Resource d)) <+>
  (do let d ← gTypeDecl fuel
      pure (match d with
        | .Variant d => .Variant d | .Record d => .Record d | .Flags d => .Flags d
        | .Enum d => .Enum d | .Alias d => .Alias d))

/-- `use-type ::= 'use' use-path '.' '{' use-items '}' ';'` (D5: the list may be empty) -/
def gUse (fuel : Nat) : SP Use := do
  t "use"
  -- use-path ::= package-path | id
  let path ← (do let p ← gPackagePath; pure (UsePath.Package p)) <+> (do let id ← gId; pure (UsePath.Ident id))
  t "."; t "{"
  -- use-item ::= id ('as' id)?
  let items ← list0 (do let id ← gId; let a ← opt (do t "as"; gId); pure (⟨id, a⟩ : UseItem)) fuel
  t "}"; t ";"; pure ⟨[], path, items⟩

/-- `interface-item ::= use-type | item-type-decl | interface-export` -/
def gInterfaceItem (fuel : Nat) : SP InterfaceItem :=
  (do let u ← gUse fuel; pure (.Use u)) <+>
  (do let d ← gItemTypeDecl fuel; pure (.Type' d)) <+>
  -- interface-export ::= id ':' func-type-ref ';'
  (do let id ← gId; t ":"; let ty ← gFuncTypeRef fuel; t ";"; pure (.Export ⟨[], id, ty⟩))

/-- `inline-interface ::= 'interface' '{' interface-item* '}'` -/
def gInlineInterface (fuel : Nat) : SP InlineInterface := do
  t "interface"; t "{"; let items ← many (gInterfaceItem fuel) fuel; t "}"; pure ⟨items⟩

/-- `world-item-path ::= named-world-item | package-path | id` -/
def gWorldItemPath (fuel : Nat) : SP WorldItemPath :=
  -- named-world-item ::= id ':' extern-type ;  extern-type ::= func-type | inline-interface | id
  (do let id ← gId; t ":"
      let ty ← (do let f ← gFuncType fuel; pure (ExternType.Func f)) <+>
               (do let i ← gInlineInterface fuel; pure (ExternType.Interface i)) <+>
               (do let id ← gId; pure (ExternType.Ident id))
      pure (.Named ⟨id, ty⟩)) <+>
  (do let p ← gPackagePath; pure (.Package p)) <+>
  (do let id ← gId; pure (.Ident id))

/-- `world-item` -/
def gWorldItem (fuel : Nat) : SP WorldItem :=
  (do let u ← gUse fuel; pure (.Use u)) <+>
  (do let d ← gItemTypeDecl fuel; pure (.Type' d)) <+>
  -- world-import ::= 'import' world-item-path ';'
  (do t "import"; let p ← gWorldItemPath fuel; t ";"; pure (.Import ⟨[], p⟩)) <+>
  -- world-export ::= 'export' world-item-path ';'
  (do t "export"; let p ← gWorldItemPath fuel; t ";"; pure (.Export ⟨[], p⟩)) <+>
  -- world-include ::= 'include' world-ref ('with' '{' world-include-items '}')? ';'
  (do t "include"
      -- world-ref ::= package-path | id
      let w ← (do let p ← gPackagePath; pure (WorldRef.Package p)) <+> (do let id ← gId; pure (WorldRef.Ident id))
      -- world-include-item ::= id 'as' id   (D5: the list may be empty)
      let items ← opt (do t "with"; t "{"
                          let is ← list0 (do let a ← gId; t "as"; let b ← gId; pure (⟨a, b⟩ : WorldIncludeItem)) fuel
                          t "}"; pure is)
      t ";"; pure (.Include ⟨[], w, items.getD []⟩))

/-- `type-statement ::= interface-decl | world-decl | type-decl` -/
def gTypeStatement (fuel : Nat) : SP TypeStatement :=
  -- interface-decl ::= 'interface' id '{' interface-item* '}'
  (do t "interface"; let id ← gId; t "{"; let items ← many (gInterfaceItem fuel) fuel; t "}"
      pure (.Interface ⟨[], id, items⟩)) <+>
  -- world-decl ::= 'world' id '{' world-item* '}'
  (do t "world"; let id ← gId; t "{"; let items ← many (gWorldItem fuel) fuel; t "}"
      pure (.World ⟨[], id, items⟩)) <+>
  (do let d ← gTypeDecl fuel; pure (.Type' d))

/-- `(id | string)` after `as` -/
def gExternName : SP ExternName :=
  (do let id ← gId; pure (.Ident id)) <+> (do let s ← gString; pure (.String s))

/-- `import-statement ::= 'import' id ('as' (id | string))? ':' import-type ';'` -/
def gImportStatement (fuel : Nat) : SP ImportStatement := do
  t "import"; let id ← gId
  let name ← opt (do t "as"; gExternName)
  t ":"
  -- import-type ::= package-path | func-type | inline-interface | id
  let ty ← (do let p ← gPackagePath; pure (ImportType.Package p)) <+>
           (do let f ← gFuncType fuel; pure (ImportType.Func f)) <+>
           (do let i ← gInlineInterface fuel; pure (ImportType.Interface i)) <+>
           (do let id ← gId; pure (ImportType.Ident id))
  t ";"; pure ⟨[], id, name, ty⟩

/-- `postfix-expr ::= access-expr | named-access-expr` -/
def gPostfix : SP PostfixExpr :=
  -- access-expr ::= '.' id
  (do t "."; let id ← gId; pure (.Access ⟨z, id⟩)) <+>
  -- named-access-expr ::= '[' string ']'
  (do t "["; let s ← gString; t "]"; pure (.NamedAccess ⟨z, s⟩))

mutual
/-- `expr ::= primary-expr postfix-expr*` -/
def gExpr : Nat → SP Expr
  | 0 => fail
  | fuel + 1 => do
    let p ← gPrimary fuel
    let post ← many gPostfix fuel
    pure (.mk z p post)
/-- `primary-expr ::= new-expr | nested-expr | id` -/
def gPrimary : Nat → SP PrimaryExpr
  | 0 => fail
  | fuel + 1 =>
    -- new-expr ::= 'new' package-name '{' instantiation-args '}'   (D4)
    (do t "new"; let p ← gPackageName; t "{"; let args ← list0 (gArg fuel) fuel; t "}"
        pure (.New (.mk z p args))) <+>
    -- nested-expr ::= '(' expr ')'
    (do t "("; let e ← gExpr fuel; t ")"; pure (.Nested (.mk z e))) <+>
    (do let id ← gId; pure (.Ident id))
/-- `instantiation-arg ::= id | '...' id | named-instantiation-arg | '...'` (D4) -/
def gArg : Nat → SP InstantiationArgument
  | 0 => fail
  | fuel + 1 =>
    (do let id ← gId; pure (.Inferred id)) <+>
    (do t "..."; let id ← gId; pure (.Spread id)) <+>
    -- named-instantiation-arg ::= (id | string) ':' expr
    (do let name ← (do let id ← gId; pure (InstantiationArgumentName.Ident id)) <+>
                   (do let s ← gString; pure (InstantiationArgumentName.String s))
        t ":"; let e ← gExpr fuel; pure (.Named (.mk name e))) <+>
    (do t "..."; pure (.Fill z))
end

/-- `statement ::= import-statement | type-statement | let-statement | export-statement` -/
def gStatement (fuel : Nat) : SP Statement :=
  (do let s ← gImportStatement fuel; pure (.Import s)) <+>
  (do let s ← gTypeStatement fuel; pure (.Type' s)) <+>
  -- let-statement ::= 'let' id '=' expr ';'
  (do t "let"; let id ← gId; t "="; let e ← gExpr fuel; t ";"; pure (.Let ⟨[], id, e⟩)) <+>
  -- export-statement ::= 'export' expr (export-options)? ';' ; export-options ::= `...` | 'as' (id | string)
  (do t "export"; let e ← gExpr fuel
      let o ← (do t "..."; pure (ExportOptions.Spread z)) <+> (do t "as"; let n ← gExternName; pure (ExportOptions.Rename n)) <+> pure ExportOptions.None
      t ";"; pure (.Export ⟨[], e, o⟩))

/-- `document ::= package-decl statement*` -/
def gDocument (fuel : Nat) : SP Document := do
  -- package-decl ::= `package` package-name (`targets` package-path)? `;`
  t "package"; let p ← gPackageName
  let tg ← opt (do t "targets"; gPackagePath)
  t ";"
  let ss ← many (gStatement fuel) fuel
  pure ⟨[], ⟨p, tg⟩, ss⟩

/-- all derivations of the whole token sequence -/
def derivations (ts : List STok) : List Document :=
  ((gDocument (ts.length + 2) ts).filter fun (_, rest) => rest.isEmpty).map (·.1)

/-- the verdict of the specification on a text -/
inductive Verdict where
  /-- not in the language -/
  | reject (why : String)
  /-- in the language, with its tree -/
  | accept (d : Document)
  /-- more than one derivation (never happens: C12 `grammar_unambiguous_partial` / evidence) -/
  | ambiguous (n : Nat)
deriving Inhabited

/-- D9: does the number of open `(`, `<`, `{` stay within `limit` along the token sequence? -/
def nestingWithin (limit : Nat) : Nat → List STok → Bool
  | _, [] => true
  | d, tok :: r =>
    if tok.kind == .lit && (tok.text == ['('] || tok.text == ['<'] || tok.text == ['{']) then
      d + 1 ≤ limit && nestingWithin limit (d + 1) r
    else if tok.kind == .lit && (tok.text == [')'] || tok.text == ['>'] || tok.text == ['}']) then
      nestingWithin limit (d - 1) r
    else nestingWithin limit d r

/-- the verdict, given the implementation's bracket-nesting limit (`none`: unlimited) -/
def verdictWith (limit : Option Nat) (src : Str) : Verdict :=
  if src.any forbiddenChar then .reject "forbidden code point" else
  match tokens (src.length + 1) src with
  | none => .reject "lexical"
  | some ts =>
    if !(match limit with | some l => nestingWithin l 0 ts | none => true) then .reject "nesting limit" else
    match derivations ts with
    | [] => .reject "syntax"
    | [d] => .accept d
    | ds => .ambiguous ds.length

/-- the verdict of the documented language proper -/
def verdict (src : Str) : Verdict := verdictWith none src

end Wac.Spec.Grammar
