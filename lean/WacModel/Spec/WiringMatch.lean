import WacModel.Spec.Wiring
import WacModel.Toposort
/-
  The property does not fix the order in which independent nodes are emitted, so the
  implementation-vs-specification comparison of C02 is "there is an emission order `ord` of the
  graph's non-import nodes such that the wiring read from the real bytes equals
  `specWiring g define ord`".  This file is the *search* for such an order (untrusted: whatever
  it returns is checked by evaluating the specification on it): the instantiate items of the
  real output are matched, in order, to instantiation nodes of the same package receiving the
  same designated arguments; identical twins are tried in turn.
-/
namespace Wac.Spec
open Wac

/-- designated term of a node when instantiation node `n` is the `σ n`-th instantiate item -/
def termUnder (g : GraphVal) (cn : Str → Str) (σ : List (Nat × Nat)) : Nat → Nat → Option Term
  | 0, _ => none
  | fuel + 1, id =>
    match g.node? id with
    | none => none
    | some n =>
      match n.kind with
      | .import nm => some (.imp (cn nm))
      | .instantiation _ _ => ((σ.find? (·.1 == id)).map (·.2)).map Term.inst
      | .alias =>
        match n.aliasSource with
        | some (src, e) => (termUnder g cn σ fuel src).map fun t => Term.aliasOf t e
        | none => none
      | .definition => n.exportName.map fun nm => Term.exported nm .opaque

/-- apply a renaming of terms throughout a wiring -/
def mapW (ct : Term → Term) (w : Wiring) : Wiring :=
  { w with
    insts := w.insts.map fun i => { comp := ct i.comp, args := i.args.map fun (a : Str × Kind × Term) => (a.1, a.2.1, ct a.2.2) },
    aliases := w.aliases.map fun (a : Term × Kind × Str) => (ct a.1, a.2.1, a.2.2),
    exports := w.exports.map fun (a : Str × Kind × Term) => (a.1, a.2.1, ct a.2.2),
    names := w.names.map fun (a : Kind × Term × Str) => (a.1, ct a.2.1, a.2.2) }

def allSome {α} : List (Option α) → Option (List α)
  | [] => some []
  | none :: _ => none
  | some a :: r => (allSome r).map (a :: ·)

/-- the designated arguments of instantiation node `n` under `σ`, canonically sorted -/
def argsUnder (g : GraphVal) (cn : Str → Str) (ct : Term → Term) (σ : List (Nat × Nat)) (n : Node) (p : PkgVal) :
    Option (List (Str × Kind × Term)) :=
  let fuel := g.nodes.length + 1
  let explicit := allSome (n.args.map fun (a : Str × Nat) =>
    (termUnder g cn σ fuel a.2).map fun t => (a.1, kindOf g a.2, ct t.base))
  let implicit := (unsatisfiedByArgs n p).map fun r => (r.name, r.ty.kind, ct (Term.imp (cn r.name)))
  explicit.map fun e => sortBy reprStr (e ++ implicit)

/-- can node `n` be the instantiate item `iw`? -/
def candidate (g : GraphVal) (cn : Str → Str) (ct : Term → Term) (define : Bool) (comps : List Nat) (σ : List (Nat × Nat))
    (iw : InstW) (n : Node) : Bool :=
  match n.kind with
  | .instantiation slot _ =>
    match g.pkg? slot with
    | none => false
    | some p =>
      let compOk : Bool :=
        match iw.comp.base with
        | .comp c => define && comps[c]? == some p.bytesId
        | .imp nm => !define && nm == unlockedName p
        | _ => false
      compOk &&
        (argsUnder g cn ct σ n p == some (sortBy reprStr (iw.args.map fun (a : Str × Kind × Term) => (a.1, a.2.1, ct a.2.2.base))))
  | _ => false

/-- assign the instantiate items, in order, to instantiation nodes; `k` = position of the next
    item; a complete assignment is kept only if `verify` accepts it (so that identical twins
    that are told apart later — by an alias, an export or a name — are tried both ways) -/
def assign (g : GraphVal) (cn : Str → Str) (ct : Term → Term) (define : Bool) (comps : List Nat) (verify : List (Nat × Nat) → Bool) :
    List InstW → Nat → List (Nat × Nat) → Option (List (Nat × Nat))
  | [], _, σ => if verify σ then some σ else none
  | iw :: rest, k, σ =>
    let cands := g.nodes.filter fun n => !(σ.any (·.1 == n.id)) && candidate g cn ct define comps σ iw n
    cands.findSome? fun n => assign g cn ct define comps verify rest (k + 1) (σ ++ [(n.id, k)])

/-- place `id` after everything it depends on -/
def place (g : GraphVal) : Nat → List Nat → Nat → List Nat
  | 0, placed, _ => placed
  | fuel + 1, placed, id =>
    if placed.contains id || isImportLike g id then placed
    else
      let placed' := (g.preds id).foldl (fun acc p => place g fuel acc p) placed
      if placed'.contains id then placed' else placed' ++ [id]
where
  isImportLike (g : GraphVal) (id : Nat) : Bool :=
    match g.node? id with
    | some n => n.isImport
    | none => true

/-- an emission order of the non-import nodes in which the instantiation nodes appear in the
    order `insts` (when that is compatible with the dependencies) -/
def orderFrom (g : GraphVal) (insts : List Nat) : List Nat :=
  (insts ++ g.ids).foldl (place g (g.nodes.length + 1)) []

/-- search for an emission order under which the real wiring `w` is the designated one, up to
    the renaming `ct` of terms (the identity for the property itself) -/
def findOrder (g : GraphVal) (cn : Str → Str) (ct : Term → Term) (define : Bool) (w : Wiring) : Option (List Nat) :=
  let nInst := (g.nodes.filter (·.isInstantiation)).length
  let rw := normW (mapW ct w)
  if w.insts.length != nInst then none
  else
    let verify := fun (σ : List (Nat × Nat)) =>
      normW (mapW ct (specWiringWith g cn define (orderFrom g (σ.map (·.1))))) == rw
    (assign g cn ct define w.comps verify w.insts 0 []).map fun σ => orderFrom g (σ.map (·.1))

end Wac.Spec
