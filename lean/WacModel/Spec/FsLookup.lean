import WacModel.FsLookup
/-
  Declarative specification for C18 (file-system dependency lookup), written from the property
  statement and README.md ("Dependencies"), not from fs.rs:

    * a package `ns:name[@version]` lives at `<deps>/ns/name[/<version>]`;
    * the extension is *appended* to that path (`0.0.1` -> `0.0.1.wasm`, never `0.0.wasm`);
    * a directory there is a WIT package;
    * otherwise a `.wat` *file* is preferred when text support is enabled, else the `.wasm` file;
    * `--dep name=path` applies to unversioned references only and the path must exist (be a file);
      what the file is, is decided by its own extension (`.wit` / `.wat` when those are enabled);
    * nothing found: skipped or `UnknownPackage`, according to the mode;
    * the bytes are the file's bytes, or the encoding of the WIT / WAT found.

  Two rows of the table are outside what the documentation describes (`Decision.undocumented`):
  a build without WIT support meeting a directory at the package path, and a *directory* named
  `<name>.wasm`.  The specification does not constrain them (the model says what the code does).

  No string slicing: paths are built from components, extensions are tested as suffixes.
-/
namespace Wac.Spec.FsLookup
open Wac Wac.FsLookup

/-- the `:`-separated segments of a package name -/
def segments : Str → List Str
  | [] => [[]]
  | c :: r =>
    if c == ':' then [] :: segments r
    else match segments r with
      | s :: ss => (c :: s) :: ss
      | [] => [[c]]

/-- assumption on package names (they come from the WAC parser): every segment is non-empty -/
def wellFormedName (name : Str) : Bool := (segments name).all (fun s => !s.isEmpty)

/-- `<deps>/ns/name[/<version>]` -/
def layout (deps : Path) (key : Key) : Path :=
  deps ++ segments key.name ++ key.version.toList.map renderVersion

/-- `<path>.<ext>`: the last component with `.ext` appended -/
def withExt : Path → Str → Path
  | [], ext => ['.' :: ext]
  | [l], ext => [l ++ '.' :: ext]
  | c :: r, ext => c :: withExt r ext

/-- the last component is `<stem>.<ext>` with a non-empty stem -/
def hasExt (p : Path) (ext : Str) : Bool :=
  match p.getLast? with
  | none => false
  | some l => ('.' :: ext).isSuffixOf l && l.length > ext.length + 1

/-- where the documentation says a package is taken from (with the file contents found there) -/
inductive Source where
  | witDir (p : Path)
  | witFile (src : Bytes)
  | wat (src : Bytes)
  | binary (bytes : Bytes)
deriving DecidableEq, Repr

inductive Decision where
  | load (s : Source)
  | missing             -- nothing at the documented places
  | overrideMissing     -- `--dep` path that does not exist
  | undocumented
deriving DecidableEq, Repr

/-- a file is what its own extension says it is (as far as the build supports it) -/
def fileSource (cfg : Config) (p : Path) (contents : Bytes) : Source :=
  if cfg.featWit && hasExt p extWit then .witFile contents
  else if cfg.featWat && hasExt p extWat then .wat contents
  else .binary contents

/-- the override that applies to this key: unversioned references only -/
def applicableOverride (cfg : Config) (key : Key) : Option Path :=
  match key.version with
  | some _ => none
  | none => (cfg.overrides.find? (fun o => o.1 == key.name)).map (·.2)

/-- the decision table -/
def decision (cfg : Config) (fs : FS) (key : Key) : Decision :=
  match applicableOverride cfg key with
  | some p =>
    match fs p with
    | .file contents => .load (fileSource cfg p contents)
    | _ => .overrideMissing
  | none =>
    let base := layout cfg.root key
    match fs base with
    | .dir => if cfg.featWit then .load (.witDir base) else .undocumented
    | _ =>
      match cfg.featWat, fs (withExt base extWat) with
      | true, .file src => .load (.wat src)
      | _, _ =>
        match fs (withExt base extWasm) with
        | .file bytes => .load (.binary bytes)
        | .dir => if cfg.featWit then .undocumented else .missing
        | .absent => .missing

/-- what the resolver must do for one key (`none` = not constrained) -/
def specStep (cfg : Config) (codec : Codec) (fs : FS) (key : Key) (span : Span) : Option Step :=
  let encoded (r : Option Bytes) : Step :=
    match r with
    | some b => .loaded b
    | none => .fail (.resolutionFailure key.name span)
  match decision cfg fs key with
  | .load (.witDir p) => some (encoded (codec.witDir p))
  | .load (.witFile src) => some (encoded (codec.witFile src))
  | .load (.wat src) => some (encoded (codec.wat src))
  | .load (.binary bytes) => some (.loaded bytes)
  | .missing => some (if cfg.errorOnUnknown then .fail (.unknownPackage key.name span) else .skipped)
  | .overrideMissing => some (.fail (.resolutionFailure key.name span))
  | .undocumented => none

/-- the whole request: keys are looked up in request order, the first failing key's error is the
    result, otherwise every key that was found, in request order -/
def specResolve (cfg : Config) (codec : Codec) (fs : FS) :
    List (Key × Span) → Option (Except Err (List (Key × Bytes)))
  | [] => some (.ok [])
  | (key, span) :: rest =>
    match specStep cfg codec fs key span with
    | none => none
    | some (.fail e) => some (.error e)
    | some .skipped => specResolve cfg codec fs rest
    | some (.loaded b) =>
      match specResolve cfg codec fs rest with
      | none => none
      | some (.error e) => some (.error e)
      | some (.ok l) => some (.ok ((key, b) :: l))

end Wac.Spec.FsLookup
