import WacModel.Spec.Wiring
/-
  Declarative specification for C03: the imports and exports a composition implies.

  Imports: every explicit import under its name; one import per class of unsatisfied
  instantiation-argument names, a class being the names that are equal or on the same semver
  track; the class is named for its highest version, has the kind of its members and — for an
  instance — offers the union of the exports its members need; plus the interfaces those types
  depend on (`use`).  Exports: the designated export names (which include every type
  definition's name), each with the kind of the designated item.
  Written from the property statement; nothing of the aggregator (insertion order, redirects)
  appears here, so the result is insensitive to the order in which nodes were created.
-/
namespace Wac.Spec
open Wac

/-- the imports of its package an instantiation node leaves to be imported -/
def reqsOfNode (g : GraphVal) (n : Node) : List ImportReq :=
  match n.kind with
  | .instantiation slot _ =>
    match g.pkg? slot with
    | some p => unsatisfiedByArgs n p
    | none => []
  | _ => []

def reqOfImport (n : Node) : Option ImportReq :=
  match n.kind with
  | .import nm => some { name := nm, ty := n.ty }
  | _ => none

/-- what the composition requires to be imported: `(name, type)` of every unsatisfied
    instantiation argument (by the argument query) and of every explicit import -/
def impliedReqs (g : GraphVal) : List ImportReq :=
  g.nodes.flatMap (reqsOfNode g) ++ g.nodes.filterMap reqOfImport

def insertStr (x : Str) : List Str → List Str
  | [] => [x]
  | y :: ys => if x = y then y :: ys else if String.ofList x < String.ofList y then x :: y :: ys else y :: insertStr x ys

/-- sorted, duplicate-free -/
def strSet (l : List Str) : List Str := l.foldr insertStr []

structure ImportSpec where
  name    : Str
  kind    : Kind
  /-- for an instance: the export names it has to offer -/
  exports : List Str
deriving DecidableEq, Repr, Inhabited

/-- the members of the class of `name` -/
def classOf (reqs : List ImportReq) (name : Str) : List ImportReq :=
  reqs.filter fun r => compatSpec r.name name

/-- the name a class is imported under: its highest version (the name itself without a track) -/
def className (reqs : List ImportReq) (name : Str) : Str :=
  match trackOf name with
  | none => name
  | some t =>
    match highest (onTrack (reqs.map fun r => (r.name, ())) t) with
    | some (n, _) => n
    | none => name

/-- one import per class -/
def impliedImports (g : GraphVal) : List ImportSpec :=
  let reqs := impliedReqs g
  let names := strSet (reqs.map fun r => className reqs r.name)
  names.map fun c =>
    let members := classOf reqs c
    { name := c,
      kind := ((members.head?).map (·.ty.kind)).getD .type,
      exports := strSet (members.flatMap (·.ty.exports)) }

/-- the interfaces the implied imports depend on -/
def impliedDeps (g : GraphVal) : List Str := strSet ((impliedReqs g).flatMap (·.ty.deps))

/-- the packages that are instantiated (each becomes a component import when dependencies are imported) -/
def instantiatedPkgs (g : GraphVal) : List PkgVal :=
  g.pkgs.filter fun p => g.nodes.any fun n => match n.kind with | .instantiation slot _ => slot == p.slot | _ => false

/-- the designated exports: `(name, kind)` -/
def impliedExports (g : GraphVal) : List (Str × Kind) :=
  g.exports.map fun e => (e.1, kindOf g e.2)

/-- `CompositionGraph::imports()` as the property describes it: the unsatisfied arguments of the
    instantiations in node order, then the explicit imports -/
def importsQuerySpec (g : GraphVal) : List (Str × Kind) := (impliedReqs g).map fun r => (r.name, r.ty.kind)

end Wac.Spec
