import WacModel.Skeleton
/-
  Declarative specification for the structural part of C01: scoping of the index operands of a
  skeleton, and the shape of the argument lists of its instantiate items.

  `WellScoped s`: reading the items in emission order with one counter per index space (the
  counter of a space is the number of items that allocated in it so far — `import`, `alias`,
  `instantiate`, `component`, a type definition and also `export` allocate), every index
  operand of every item — the component index and the argument indices of an `instantiate`,
  the instance index of an alias, the item index of an `export`, the indices of the name
  section — is smaller than the counter of *its* index space at that point.  An operand is
  always read in the space its item names (an argument `(name, kind, idx)` in the space `kind`,
  an alias source in the instance space, …), so "below the counter of that space" is the same
  as "refers to an earlier item of that sort".

  Written from the component-model binary format (index spaces), not from the encoder.
-/
namespace Wac.Spec
open Wac

/-- the counters after one more item -/
def bump (cnt : Kind → Nat) (it : Item) : Kind → Nat :=
  match it.alloc with
  | some k => fun k' => if k' = k then cnt k' + 1 else cnt k'
  | none => cnt

/-- every index operand of the item is below the counter of its index space -/
def operandsOk (cnt : Kind → Nat) : Item → Bool
  | .import _ _ => true
  | .typeDef => true
  | .component _ => true
  | .instantiate c args => decide (c < cnt .component) && args.all fun a => decide (a.2.2 < cnt a.2.1)
  | .aliasExport i _ _ => decide (i < cnt .instance)
  | .export _ k i => decide (i < cnt k)
  | .names es => es.all fun e => decide (e.2.1 < cnt e.1)

def wellScopedFrom (cnt : Kind → Nat) : Skeleton → Bool
  | [] => true
  | it :: r => operandsOk cnt it && wellScopedFrom (bump cnt it) r

/-- every index operand of every item is in scope, and of the right sort -/
def WellScoped (s : Skeleton) : Bool := wellScopedFrom (fun _ => 0) s

/-- the counters after a whole skeleton -/
def countersOf (s : Skeleton) : Kind → Nat := s.foldl bump (fun _ => 0)

/-- the argument names of every instantiate item, in order -/
def instArgNames (s : Skeleton) : List (List Str) :=
  s.filterMap fun it => match it with
    | .instantiate _ args => some (args.map (·.1))
    | _ => none

/-- the import items `(name, kind)` in order -/
def importItems (s : Skeleton) : List (Str × Kind) :=
  s.filterMap fun it => match it with
    | .import n k => some (n, k)
    | _ => none

/-- the export items `(name, kind)` in order -/
def exportItems (s : Skeleton) : List (Str × Kind) :=
  s.filterMap fun it => match it with
    | .export n k _ => some (n, k)
    | _ => none

end Wac.Spec
