import WacModel.Skeleton
/-
  Declarative specification for the structural part of C01: scoping of the index operands of a
  skeleton, and the shape of the argument lists of its instantiate items.

  `WellScoped s`: reading the items in emission order with one counter per index space (the
  counter of a space is the number of items that allocated in it so far — `import`, `alias`,
  `instantiate`, `component`, a type definition and also `export` allocate), every index
  operand of every item — the component index and the argument indices of an `instantiate`,
  the instance index of an alias, the item index of an `export`, the indices of the name
  section — is smaller than the counter of *its* index space at that point.  An operand is
  always read in the space its item names (an argument `(name, kind, idx)` in the space `kind`,
  an alias source in the instance space, …), so "below the counter of that space" is the same
  as "refers to an earlier item of that sort".

  Written from the component-model binary format (index spaces), not from the encoder.
-/
namespace Wac.Spec
open Wac

/-- the counters after one more item -/
def bump (cnt : Kind → Nat) (it : Item) : Kind → Nat :=
  match it.alloc with
  | some k => fun k' => if k' = k then cnt k' + 1 else cnt k'
  | none => cnt

/-- every index operand of the item is below the counter of its index space -/
def operandsOk (cnt : Kind → Nat) : Item → Bool
  | .import _ _ => true
  | .typeDef => true
  | .component _ => true
  | .instantiate c args => decide (c < cnt .component) && args.all fun a => decide (a.2.2 < cnt a.2.1)
  | .aliasExport i _ _ => decide (i < cnt .instance)
  | .export _ k i => decide (i < cnt k)
  | .names es => es.all fun e => decide (e.2.1 < cnt e.1)

def wellScopedFrom (cnt : Kind → Nat) : Skeleton → Bool
  | [] => true
  | it :: r => operandsOk cnt it && wellScopedFrom (bump cnt it) r

/-- every index operand of every item is in scope, and of the right sort -/
def WellScoped (s : Skeleton) : Bool := wellScopedFrom (fun _ => 0) s

/-- the counters after a whole skeleton -/
def countersOf (s : Skeleton) : Kind → Nat := s.foldl bump (fun _ => 0)

/-- the argument names of every instantiate item, in order -/
def instArgNames (s : Skeleton) : List (List Str) :=
  s.filterMap fun it => match it with
    | .instantiate _ args => some (args.map (·.1))
    | _ => none

/-- the import items `(name, kind)` in order -/
def importItems (s : Skeleton) : List (Str × Kind) :=
  s.filterMap fun it => match it with
    | .import n k => some (n, k)
    | _ => none

/-- the export items `(name, kind)` in order -/
def exportItems (s : Skeleton) : List (Str × Kind) :=
  s.filterMap fun it => match it with
    | .export n k _ => some (n, k)
    | _ => none

/-! ### closedness of a graph value (what C06's invariant gives for the encoder)

  every edge stays inside the live nodes, no node is its own source, every instantiation has a
  registered package and only argument edges, every alias has an instance as its source, every
  definition is named, every export names a live node -/

structure Closed (g : GraphVal) : Prop where
  succLive : ∀ n ∈ g.nodes, ∀ m ∈ n.succ, m ∈ g.ids
  srcLive : ∀ n ∈ g.nodes, ∀ e ∈ n.inc, e.2 ∈ g.ids ∧ e.2 ≠ n.id
  pkgLive : ∀ n ∈ g.nodes, ∀ slot sat, n.kind = .instantiation slot sat → (g.pkg? slot).isSome = true
  instEdges : ∀ n ∈ g.nodes, ∀ slot sat, n.kind = .instantiation slot sat →
    ∀ e ∈ n.inc, ∃ i nm, e.1 = EdgeW.arg i nm
  aliasSrc : ∀ n ∈ g.nodes, n.kind = .alias →
    ∃ src e sn, n.aliasSource = some (src, e) ∧ g.node? src = some sn ∧ sn.ty.kind = .instance
  defNamed : ∀ n ∈ g.nodes, n.kind = .definition → n.exportName.isSome = true
  exportsLive : ∀ e ∈ g.exports, e.2 ∈ g.ids

def closedCheck (g : GraphVal) : Bool :=
  g.nodes.all (fun n => n.succ.all fun m => g.ids.contains m) &&
  g.nodes.all (fun n => n.inc.all fun e => g.ids.contains e.2 && e.2 != n.id) &&
  g.nodes.all (fun n => match n.kind with
    | .instantiation slot _ => (g.pkg? slot).isSome &&
        n.inc.all fun e => match e.1 with | .arg _ _ => true | _ => false
    | .alias => match n.aliasSource with
      | some (src, _) => match g.node? src with
        | some sn => decide (sn.ty.kind = .instance)
        | none => false
      | none => false
    | .definition => n.exportName.isSome
    | .import _ => true) &&
  g.exports.all (fun e => g.ids.contains e.2)

theorem closedCheck_sound {g : GraphVal} (h : closedCheck g = true) : Closed g := by
  simp only [closedCheck, Bool.and_eq_true, List.all_eq_true, List.contains_iff_mem, bne_iff_ne, ne_eq] at h
  obtain ⟨⟨⟨h1, h2⟩, h3⟩, h4⟩ := h
  refine ⟨h1, fun n hn e he => h2 n hn e he, ?_, ?_, ?_, ?_, h4⟩
  · intro n hn slot sat hk
    have := h3 n hn
    simp only [hk, Bool.and_eq_true] at this
    exact this.1
  · intro n hn slot sat hk e he
    have := h3 n hn
    simp only [hk, Bool.and_eq_true, List.all_eq_true] at this
    have := this.2 e he
    cases hw : e.1 with
    | arg i nm => exact ⟨i, nm, rfl⟩
    | alias x => simp [hw] at this
    | dep => simp [hw] at this
  · intro n hn hk
    have := h3 n hn
    simp only [hk] at this
    cases ha : n.aliasSource with
    | none => simp [ha] at this
    | some se =>
      obtain ⟨src, e⟩ := se
      simp only [ha] at this
      cases hs : g.node? src with
      | none => simp [hs] at this
      | some sn =>
        simp only [hs, decide_eq_true_eq] at this
        exact ⟨src, e, sn, rfl, hs, this⟩
  · intro n hn hk
    have := h3 n hn
    simpa [hk] using this

end Wac.Spec
