import WacModel.Discover
/-
  C17 specification, from the property statement: "The set of packages reported as referenced
  by a document contains every package (name and version) that resolving the document can
  request, and never the document's own package … A document that instantiates its own package
  is rejected at discovery."

  `instantiatesSelf` is the syntactic notion "the document instantiates its own package": some
  `new` expression — in a `let` or `export` statement, at any depth of named arguments and
  parentheses — names the package the document defines.  `covers` is the judgement on one
  observed run (keys reported by discovery, keys actually requested during resolution).
-/
namespace Wac.Discover.Spec
open Wac Wac.Ast Wac.Discover

mutual
/-- the package names of all `new` expressions inside an expression -/
def newsExpr : Expr → List PackageName
  | .mk _ (.New (.mk _ package arguments)) _ => package :: newsArgs arguments
  | .mk _ (.Nested (.mk _ inner)) _ => newsExpr inner
  | .mk _ (.Ident _) _ => []
def newsArgs : List InstantiationArgument → List PackageName
  | [] => []
  | .Named (.mk _ e) :: rest => newsExpr e ++ newsArgs rest
  | .Inferred _ :: rest => newsArgs rest
  | .Spread _ :: rest => newsArgs rest
  | .Fill _ :: rest => newsArgs rest
end

/-- the `new` expressions of one statement -/
def stmtNews : Statement → List PackageName
  | .Let l => newsExpr l.expr
  | .Export e => newsExpr e.expr
  | .Import _ => []
  | .Type' _ => []

/-- all `new` expressions of a document -/
def news (d : Document) : List PackageName := d.statements.flatMap stmtNews

def instantiatesSelf (d : Document) : Bool :=
  (news d).any (·.name == d.directive.package.name)

/-- discovery reported `discovered`; resolution asked for `requested` -/
def covers (self : Str) (discovered requested : List Key) : Bool :=
  requested.all (discovered.contains ·) && discovered.all (·.name != self)

end Wac.Discover.Spec
