import WacModel.Spec.Graph
/-
  C06, second sentence: "every query (nodes, imports, exports, arguments, alias sources) reflects
  exactly the surviving items".

  This file is the *abstract specification* of the graph API, written from the documentation of
  `CompositionGraph` (the `///` comments of graph.rs) and from the property statement, NOT from
  the code:

  * `Abs` — the surviving items and nothing else: live nodes (kind, package, item kind, name),
    argument edges as a partial map (instantiation, import index) ↦ source, alias edges as a
    partial map alias node ↦ (instance, export index), the "is used by" relation between type
    definitions, export names ↦ node, import names ↦ node, defined types ↦ node, live packages
    keyed by their identifier (slot index + generation) and package keys ↦ identifier.
    There is NO satisfied-argument set, NO per-node export name, NO edge list / adjacency order,
    NO order of any map, NO free lists.
  * `specStep` — what each of the 12 mutating operations means on surviving items.
  * `abs` — the abstraction function from the concrete model state.
  * the public queries as functions of `Abs`.

  Identifiers.  Node ids and package ids are visible in results (`instantiate` returns the new
  node's id …), so the abstract state is keyed by the CONCRETE ids, and the one thing the
  abstract specification does not decide is WHICH vacant id a new item receives: petgraph hands
  out the most recently vacated slot (LIFO), and after a cascading removal the order of the
  vacated slots depends on the adjacency order that `Abs` has forgotten.  `specStep` therefore
  takes the allocator's choice as an input (`Fresh`); the refinement theorem instantiates it with
  the model's choice (`Graph.fresh`) and proves separately that the chosen ids are vacant
  (`fresh_vacant`).  `cap` is an upper bound of the node ids in use (it makes the finite maps
  enumerable); it carries no other information.

  Everything here is executable and Mathlib-free.
-/
namespace Wac.Graph
open Wac

/-! ### the abstract state -/

/-- the kind of a surviving node, without bookkeeping -/
inductive AKind where
  | definition (ty : Ty)
  | import (name : Str)
  | instantiation
  | alias
deriving DecidableEq, Repr

structure ANode where
  kind : AKind
  /-- instantiation: the instantiated package; alias: the package of the aliased instance -/
  pkg  : Option PkgId
  item : Kind
  name : Option Str
deriving DecidableEq, Repr

structure Abs where
  /-- every live node id is `< cap` -/
  cap      : Nat
  node     : Nat → Option ANode
  /-- argument edges: (instantiation, import index) ↦ source node -/
  arg      : Nat → Nat → Option Nat
  /-- alias edges: alias node ↦ (aliased instance node, export index) -/
  aliasOf  : Nat → Option (Nat × Nat)
  /-- `dep a b`: definition `b` is built from definition `a` -/
  dep      : Nat → Nat → Bool
  exports  : Str → Option Nat
  imports  : Str → Option Nat
  defined  : Ty → Option Nat
  /-- live packages, keyed by identifier (slot index, generation) -/
  pkg      : PkgId → Option PkgDef
  pkgByKey : PkgKey → Option PkgId

/-- the allocator's choice for the next new node / package (an input of the specification) -/
structure Fresh where
  node : Nat
  pkg  : PkgId
deriving DecidableEq, Repr

/-- point update of a finite map -/
def upd {κ β : Type} [DecidableEq κ] (f : κ → β) (k : κ) (v : β) : κ → β :=
  fun x => if x = k then v else f x

def ANode.isInst (nd : ANode) : Bool := match nd.kind with | .instantiation => true | _ => false
def ANode.isDef (nd : ANode) : Bool := match nd.kind with | .definition _ => true | _ => false

/-- the empty graph -/
def Abs.empty : Abs :=
  ⟨0, fun _ => none, fun _ _ => none, fun _ => none, fun _ _ => false, fun _ => none, fun _ => none,
   fun _ => none, fun _ => none, fun _ => none⟩

/-- a new node with the identifier the allocator chose -/
def Abs.addNode (a : Abs) (idx : Nat) (nd : ANode) : Abs :=
  { a with cap := max a.cap (idx + 1), node := upd a.node idx (some nd) }

/-- the items that survive when the nodes of `S` go: the nodes themselves, every edge with an
    endpoint in `S` (so the arguments they supplied are unsatisfied again), and every name that
    denoted one of them (so the names are free again) -/
def Abs.removeSet (a : Abs) (S : Nat → Bool) : Abs :=
  { a with
    node := fun m => if S m then none else a.node m
    arg := fun i k => if S i then none else (a.arg i k).filter (fun s => !S s)
    aliasOf := fun t => if S t then none else (a.aliasOf t).filter (fun p => !S p.1)
    dep := fun x y => a.dep x y && !S x && !S y
    exports := fun nm => (a.exports nm).filter (fun n => !S n)
    imports := fun nm => (a.imports nm).filter (fun n => !S n)
    defined := fun ty => (a.defined ty).filter (fun n => !S n) }

/-- `t` is aliased from `m` or is a type definition built from `m` -/
def Abs.succ (a : Abs) (m t : Nat) : Bool :=
  a.dep m t || (match a.aliasOf t with | some (s, _) => s == m | none => false)

/-- one round of the closure: the nodes of `S` and their direct dependants -/
def Abs.grow (a : Abs) (S : List Nat) : List Nat :=
  (List.range a.cap).filter (fun t => S.contains t || S.any (fun m => a.succ m t))

def Abs.growN (a : Abs) (n : Nat) : Nat → List Nat
  | 0 => [n]
  | k + 1 => a.grow (a.growN n k)

/-- `n`, everything aliased from it or depending on it, transitively (`cap` rounds reach the
    fixed point: `reach_closure` in WacProofs/Lemmas/GraphAbsReach.lean) -/
def Abs.reach (a : Abs) (n : Nat) (t : Nat) : Bool :=
  t == n || (a.growN n a.cap).contains t

/-- the existing alias node of export `i` of instance `inst` -/
def Abs.findAlias (a : Abs) (inst i : Nat) : Option Nat :=
  (List.range a.cap).find? (fun t => decide (a.aliasOf t = some (inst, i)))

/-- the nodes associated with a package: its instantiations and (transitively) their aliases —
    an alias carries the package of the instance it aliases -/
def Abs.ofPkg (a : Abs) (id : PkgId) (m : Nat) : Bool :=
  match a.node m with
  | some nd => decide (nd.pkg = some id)
  | none => false

/-- the package of an instantiation node -/
def Abs.instPkg (a : Abs) (nd : ANode) : Option PkgDef :=
  match nd.pkg with
  | some pid => a.pkg pid
  | none => none

/-! ### the specification of the operations (from the documentation)

  Panics: the documentation of every method taking an id says "Panics if the … id is invalid";
  the specification answers `.panic` there and is otherwise total.  The refinement theorem is
  about calls that do not panic. -/

def specStep (ctx : Ctx) (fr : Fresh) (a : Abs) : Op → Abs × Outcome
  /- `register_package`: "Registers a package with the graph"; `PackageAlreadyRegistered` when a
     package with the same name and version is registered. -/
  | .register d =>
    if (a.pkgByKey d.key).isSome then (a, .err (.packageAlreadyRegistered d.key))
    else ({ a with pkg := upd a.pkg fr.pkg (some d), pkgByKey := upd a.pkgByKey d.key (some fr.pkg) },
          .ok (.pkg fr.pkg))
  /- `unregister_package`: "Any edges and nodes associated with the package are also removed":
     its instantiations and (transitively) their aliases — an alias carries the package of the
     instance it aliases. -/
  | .unregister id =>
    match a.pkg id with
    | none => (a, .panic .invalidPackageId)
    | some d =>
      let a1 := a.removeSet (a.ofPkg id)
      ({ a1 with pkg := upd a1.pkg id none, pkgByKey := upd a1.pkgByKey d.key none }, .ok .unit)
  /- `define_type`: "Adds a type definition node … The graph must not already have a node
     exported with the same name.  This method will implicitly add dependency edges to other
     defined types."  Errors in the documented order. -/
  | .defineType name ty =>
    if (a.defined ty).isSome then (a, .err .typeAlreadyDefined)
    else if ctx.tyIsResource ty then (a, .err .cannotDefineResource)
    else if (a.exports name).isSome then (a, .err (.exportConflict name))
    else if !ctx.validExtern name then (a, .err (.invalidExternName name))
    else
      let idx := fr.node
      let a1 := a.addNode idx ⟨.definition ty, none, ctx.tyKind ty, none⟩
      ({ a1 with
         dep := fun x y =>
           a.dep x y ||
           -- the new type is built from the defined types it references …
           (y == idx && (ctx.tyVisits ty).any (fun u => u != ty && a.defined u == some x)) ||
           -- … and every defined type that references it is built from it
           (x == idx && (match a.node y with
             | some nd => (match nd.kind with
               | .definition t => (ctx.tyVisits t).contains ty
               | _ => false)
             | none => false))
         defined := upd a.defined ty (some idx)
         exports := upd a.exports name (some idx) }, .ok (.node idx))
  /- `import`: "If the provided import name is invalid or if an import already exists with the
     same name, an error is returned." -/
  | .importItem name kind =>
    match a.imports name with
    | some n => (a, .err (.importAlreadyExists name n))
    | none =>
      if !ctx.validExtern name then (a, .err (.invalidImportName name))
      else
        let idx := fr.node
        let a1 := a.addNode idx ⟨.import name, none, kind, none⟩
        ({ a1 with imports := upd a.imports name (some idx) }, .ok (.node idx))
  /- `instantiate`: "Initially the instantiation will have no satisfied arguments." -/
  | .instantiate id =>
    match a.pkg id with
    | none => (a, .panic .invalidPackageId)
    | some d => (a.addNode fr.node ⟨.instantiation, some id, d.instKind, none⟩, .ok (.node fr.node))
  /- `alias_instance_export`: "The provided node must be an instance and the export name must
     match an export of the instance.  If an alias already exists for the export, the existing
     alias node will be returned.  An implicit alias edge will be added." -/
  | .alias inst ename =>
    match a.node inst with
    | none => (a, .panic .invalidNodeId)
    | some nd =>
      match ctx.kindExports nd.item with
      | none => (a, .err (.nodeIsNotAnInstance inst))
      | some exps =>
        match alFull exps ename with
        | none => (a, .err (.instanceMissingExport inst ename))
        | some (i, k) =>
          match a.findAlias inst i with
          | some t => (a, .ok (.node t))
          | none =>
            let idx := fr.node
            let a1 := a.addNode idx ⟨.alias, nd.pkg, k, none⟩
            ({ a1 with aliasOf := upd a.aliasOf idx (some (inst, i)) }, .ok (.node idx))
  /- `set_instantiation_argument`: "The provided instantiation node must be an instantiation.
     The argument name must be a valid import on the instantiation node and not already have an
     incoming edge from a different argument node.  The argument node must be type-compatible
     …  If an edge already exists between the argument and the instantiation node, this method
     returns Ok." -/
  | .setArg inst name arg =>
    match a.node inst with
    | none => (a, .panic .invalidNodeId)
    | some nd =>
      if !nd.isInst then (a, .err (.nodeIsNotAnInstantiation inst))
      else
        match a.instPkg nd with
        | none => (a, .panic .pkgMissing)
        | some d =>
          match alFull d.imports name with
          | none => (a, .err (.invalidArgumentName inst name d.name))
          | some (i, expected) =>
            match a.arg inst i with
            | some s => if s = arg then (a, .ok .unit) else (a, .err (.argumentAlreadyPassed inst name))
            | none =>
              match a.node arg with
              | none => (a, .panic .invalidNodeId)
              | some argNd =>
                if !ctx.sub argNd.item expected then (a, .err (.argumentTypeMismatch name))
                else ({ a with arg := fun x k => if x = inst ∧ k = i then some arg else a.arg x k }, .ok .unit)
  /- `unset_instantiation_argument`: "removes an instantiation argument edge from the argument
     node to the instantiation node if the nodes are connected; if they are not connected, this
     method is a no-op." -/
  | .unsetArg inst name arg =>
    match a.node inst with
    | none => (a, .panic .invalidNodeId)
    | some nd =>
      if !nd.isInst then (a, .err (.nodeIsNotAnInstantiation inst))
      else
        match a.instPkg nd with
        | none => (a, .panic .pkgMissing)
        | some d =>
          match alFull d.imports name with
          | none => (a, .err (.invalidArgumentName inst name d.name))
          | some (i, _) =>
            if a.arg inst i = some arg then
              ({ a with arg := fun x k => if x = inst ∧ k = i then none else a.arg x k }, .ok .unit)
            else (a, .ok .unit)
  /- `export`: "Marks the given node for export"; `ExportAlreadyExists`, `InvalidExportName`. -/
  | .exportNode n name =>
    match a.exports name with
    | some e => (a, .err (.exportAlreadyExists name e))
    | none =>
      if !ctx.validExport name then (a, .err (.invalidExportName name))
      else
        match a.node n with
        | none => (a, .panic .invalidNodeId)
        | some _ => ({ a with exports := upd a.exports name (some n) }, .ok .unit)
  /- `unexport`: "Unmarks the given node from being exported …  Returns an error if the given
     node is a type definition": every export name of the node is free again. -/
  | .unexport n =>
    match a.node n with
    | none => (a, .panic .invalidNodeId)
    | some nd =>
      if nd.isDef then (a, .err .mustExportDefinition)
      else ({ a with exports := fun nm => (a.exports nm).filter (fun m => m != n) }, .ok .unit)
  /- `set_node_name` -/
  | .setName n name =>
    match a.node n with
    | none => (a, .panic .invalidNodeId)
    | some nd => ({ a with node := upd a.node n (some { nd with name := some name }) }, .ok .unit)
  /- `remove_node`: "All incoming and outgoing edges of the node are also removed.  If the node
     has dependent defined types, the dependent defined types are also removed.  If the node has
     aliases, the aliased nodes are also removed." -/
  | .removeNode n =>
    match a.node n with
    | none => (a, .panic .invalidNodeId)
    | some _ => (a.removeSet (a.reach n), .ok .unit)

/-- a whole history on the abstract state, with the allocator's choice for each call; stops at
    the first panic like `run` -/
def specRun (ctx : Ctx) (a : Abs) : List (Fresh × Op) → Abs × List Outcome
  | [] => (a, [])
  | (fr, op) :: ops =>
    match specStep ctx fr a op with
    | (a', .panic s) => (a', [.panic s])
    | (a', out) =>
      let (a'', outs) := specRun ctx a' ops
      (a'', out :: outs)

/-! ### the abstraction function -/

def NodeKind.abs : NodeKind → AKind
  | .definition ty => .definition ty
  | .import name => .import name
  | .instantiation _ => .instantiation
  | .alias => .alias

def Node.abs (nd : Node) : ANode := ⟨nd.kind.abs, nd.pkg, nd.item, nd.name⟩

/-- the source of the argument edge (· → i, index k) -/
def argOfE : List Edge → Nat → Nat → Option Nat
  | [], _, _ => none
  | e :: r, i, k => if e.dst = i ∧ e.kind = .arg k then some e.src else argOfE r i k

/-- the alias edge into `t` -/
def aliasOfE : List Edge → Nat → Option (Nat × Nat)
  | [], _ => none
  | e :: r, t =>
    match e.kind with
    | .alias j => if e.dst = t then some (e.src, j) else aliasOfE r t
    | _ => aliasOfE r t

/-- the surviving items of a concrete state -/
def abs (g : Graph) : Abs where
  cap := g.nodes.length
  node := fun n => (g.node? n).map Node.abs
  arg := argOfE g.edges
  aliasOf := aliasOfE g.edges
  dep := g.hasDep
  exports := alGet g.exports
  imports := alGet g.imports
  defined := alGet g.defined
  pkg := fun id => (g.pkgOf id).toOption
  pkgByKey := alGet g.pkgMap

/-- the identifiers the model's allocators hand out next (petgraph's / `free_packages`' LIFO
    free lists, else a new slot) -/
def Graph.fresh (g : Graph) : Fresh where
  node := match g.freeNodes with
    | i :: _ => i
    | [] => g.nodes.length
  pkg := match g.freePkgs with
    | i :: _ => ⟨i, match g.pkgs[i]? with | some s => s.gen | none => 0⟩
    | [] => ⟨g.pkgs.length, 0⟩

/-- the allocator choices along a history of the model -/
def freshTrace (ctx : Ctx) (g : Graph) : List Op → List Fresh
  | [] => []
  | op :: ops => g.fresh :: freshTrace ctx (step ctx g op).1 ops

/-- one alias node per (instance, export): an invariant of the model that `Inv` does not list
    (the C06 anchors do not mention it) and that the abstraction needs, because the abstract state
    records the alias edge at the alias node -/
def AliasUnique (g : Graph) : Prop :=
  ∀ e₁ ∈ g.edges, ∀ e₂ ∈ g.edges, e₁.kind.isAlias = true → e₁.src = e₂.src → e₁.kind = e₂.kind → e₁.dst = e₂.dst

instance (g : Graph) : Decidable (AliasUnique g) := by unfold AliasUnique; infer_instance

/-! ### the public queries, as functions of the surviving items -/

/-- `node_ids` -/
def Abs.nodeIds (a : Abs) : List Nat := (List.range a.cap).filter (fun n => (a.node n).isSome)

/-- `get_export` -/
def Abs.getExport (a : Abs) (name : Str) : Option Nat := a.exports name

/-- `get_import_name` (`none` = panic on an invalid id) -/
def Abs.getImportName (a : Abs) (n : Nat) : Option (Option Str) :=
  match a.node n with
  | none => none
  | some nd => match nd.kind with
    | .import name => some (some name)
    | _ => some none

/-- `get_alias_source` -/
def Abs.getAliasSource (ctx : Ctx) (a : Abs) (n : Nat) : Option (Nat × Str) :=
  match a.aliasOf n with
  | none => none
  | some (s, j) =>
    match a.node s with
    | none => none
    | some nd =>
      match ctx.kindExports nd.item with
      | none => none
      | some exps => match exps[j]? with
        | none => none
        | some (nm, _) => some (s, nm)

/-- `get_instantiation_arguments`, in import order (the API yields them in adjacency order,
    which is not part of the abstract state: compared as a permutation) -/
def Abs.instArgs (a : Abs) (n : Nat) : List (Str × Nat) :=
  match a.node n with
  | none => []
  | some nd =>
    if !nd.isInst then []
    else match a.instPkg nd with
      | none => []
      | some d =>
        (List.range d.imports.length).filterMap fun i =>
          match d.imports[i]?, a.arg n i with
          | some (nm, _), some s => some (nm, s)
          | _, _ => none

/-- the unsatisfied arguments of an instantiation node, in import order -/
def Abs.implicitImports (a : Abs) (n : Nat) : List (Str × Kind × Option Nat) :=
  match a.node n with
  | some nd =>
    if nd.isInst then
      match a.instPkg nd with
      | some d =>
        (List.zip (List.range d.imports.length) d.imports).filterMap fun (i, (nm, k)) =>
          if (a.arg n i).isSome then none else some (nm, k, (none : Option Nat))
      | none => []
    else []
  | none => []

/-- an import node, as `imports()` reports it -/
def Abs.explicitImport (a : Abs) (n : Nat) : Option (Str × Kind × Option Nat) :=
  match a.node n with
  | some nd => match nd.kind with
    | .import name => some (name, nd.item, some n)
    | _ => none
  | none => none

/-- `imports()`: the unsatisfied arguments of the instantiations in node order, then the explicit
    imports in node order -/
def Abs.importsQuery (a : Abs) : List (Str × Kind × Option Nat) :=
  a.nodeIds.flatMap a.implicitImports ++ a.nodeIds.filterMap a.explicitImport

/-- `get_package_by_name` -/
def Abs.getPackageByName (a : Abs) (key : PkgKey) : Option PkgId := a.pkgByKey key

/-! ### testing aid: compare two abstract states on a finite window (used by `#eval` sanity
    runs of the refinement before proving it; not part of any theorem) -/

def Abs.agreeOn (a b : Abs) (bound : Nat) (names : List Str) (tys : List Ty) (pids : List PkgId)
    (keys : List PkgKey) : List String :=
  let r := List.range bound
  let c (ok : Bool) (s : String) : List String := if ok then [] else [s]
  c (a.cap == b.cap) "cap" ++
  c (r.all fun n => a.node n == b.node n) "node" ++
  c (r.all fun n => r.all fun k => a.arg n k == b.arg n k) "arg" ++
  c (r.all fun n => a.aliasOf n == b.aliasOf n) "aliasOf" ++
  c (r.all fun n => r.all fun k => a.dep n k == b.dep n k) "dep" ++
  c (names.all fun s => a.exports s == b.exports s) "exports" ++
  c (names.all fun s => a.imports s == b.imports s) "imports" ++
  c (tys.all fun s => a.defined s == b.defined s) "defined" ++
  c (pids.all fun s => a.pkg s == b.pkg s) "pkg" ++
  c (keys.all fun s => a.pkgByKey s == b.pkgByKey s) "pkgByKey"

end Wac.Graph
