import WacModel.Spec.Sub
import WacModel.Spec.Names
/-
  Declarative specification for C09 (merged import requirements), written from the property
  statement: the merge of several requirements for one import is their greatest common subtype
  (`meet`): instances take the union of their exports (merging shared ones recursively),
  functions / values / defined types / resources must be equal, components take the union of
  exports and keep only the imports both sides have (at a common supertype), core modules
  likewise with comparable externs.  Requirements are *compatible* iff the meet exists.
  Names: requirements whose names are on one semver track are one import, named by the highest
  version; every other name of the track is redirected to it.
-/
namespace Wac.Spec
open Wac

/-! ### order-insensitive view of a tree: exports/imports of instances and components sorted by name -/

def Forest.sortByName (f : Forest) : Forest :=
  Forest.ofList (f.toList.mergeSort fun a b => decide (a.1 ≤ b.1))

mutual
def normTree : Tree → Tree
  | .instance f => .instance (Forest.sortByName (normForest f))
  | .component i e => .component (Forest.sortByName (normForest i)) (Forest.sortByName (normForest e))
  | .type t => .type (normTree t)
  | .value t => .value (normTree t)
  | t => t
termination_by structural t => t
def normForest : Forest → Forest
  | .nil => .nil
  | .cons n t r => .cons n (normTree t) (normForest r)
termination_by structural f => f
end

/-! ### the greatest common subtype -/

/-- entries of `g` whose name does not occur in `f`, appended to `f` -/
def appendMissing (f g : Forest) : Forest :=
  Forest.ofList (f.toList ++ g.toList.filter fun e => !f.hasName e.1)

def externMeet (x y : CoreExtern) : Option CoreExtern :=
  if externSub x y then some x else if externSub y x then some y else none

def externJoin (x y : CoreExtern) : Option CoreExtern :=
  if externSub x y then some y else if externSub y x then some x else none

def moduleMeet (a b : ModuleType) : Option ModuleType :=
  let imports := a.imports.filterMap fun ia =>
    match alGet b.imports ia.1 with
    | some eb => (externJoin ia.2 eb).map fun e => (ia.1, e)
    | none => none
  let shared := a.exports.mapM fun ea =>
    match alGet b.exports ea.1 with
    | some eb => (externMeet ea.2 eb).map fun e => (ea.1, e)
    | none => some ea
  match shared with
  | none => none
  | some es => some { imports := imports, exports := es ++ b.exports.filter fun eb => (alGet a.exports eb.1).isNone }

mutual
/-- `meet a b`: the greatest type that is a subtype of both, if there is one -/
def meet : Tree → Tree → Option Tree
  | .instance ea, .instance eb =>
    match meetShared ea eb with
    | some f => some (.instance (appendMissing f eb))
    | none => none
  | .component ia ea, .component ib eb =>
    match meetShared ea eb with
    | some e => some (.component (joinBoth ia ib) (appendMissing e eb))
    | none => none
  | .module a, .module b => (moduleMeet a b).map .module
  | .type a, .type b => (meet a b).map .type
  | a, b => if a == b then some a else none
termination_by structural a => a
/-- `join a b`: the least common supertype, if there is one -/
def join : Tree → Tree → Option Tree
  | .instance ea, .instance eb => some (.instance (joinBoth ea eb))
  | .component ia ea, .component ib eb =>
    match meetShared ia ib with
    | some i => some (.component (appendMissing i ib) (joinBoth ea eb))
    | none => none
  | .type a, .type b => (join a b).map .type
  | a, b => if a == b then some a else none
termination_by structural a => a
/-- the entries of the first forest, each merged with the same-named entry of the second -/
def meetShared : Forest → Forest → Option Forest
  | .nil, _ => some .nil
  | .cons n t r, g =>
    match (match g.get n with | some u => meet t u | none => some t), meetShared r g with
    | some t', some r' => some (.cons n t' r')
    | _, _ => none
termination_by structural f => f
/-- the entries present in both forests at their join; entries without a common supertype are dropped -/
def joinBoth : Forest → Forest → Forest
  | .nil, _ => .nil
  | .cons n t r, g =>
    match g.get n with
    | none => joinBoth r g
    | some u =>
      match join t u with
      | some t' => .cons n t' (joinBoth r g)
      | none => joinBoth r g
termination_by structural f => f
end

/-- requirement kinds that must merge to themselves -/
def isEqItem : Tree → Bool
  | .func .. => true
  | .value _ => true
  | .type (.instance _) => false
  | .type (.component ..) => false
  | .type (.module _) => false
  | .type _ => true
  | _ => false

/-! ### names -/

/-- the name the import of `n` goes by: the highest version among the requirement names on `n`'s
semver track (the name itself when it has no track) -/
def canonicalSpec (names : List Str) (n : Str) : Str :=
  match trackOf n with
  | none => n
  | some t =>
    match highest (onTrack (names.map fun x => (x, ())) t) with
    | some (h, _) => h
    | none => n

/-- all requirements that end up in one import are compatible: their meet exists -/
def compatibleAll (reqs : List (Str × Tree)) : Bool :=
  let names := reqs.map (·.1)
  let canon := (names.map (canonicalSpec names)).eraseDups
  canon.all fun cn =>
    let group := (reqs.filter fun r => canonicalSpec names r.1 == cn).map fun r => eraseRes r.2
    match group with
    | [] => true
    | t :: rest => (rest.foldl (fun acc u => acc.bind fun m => meet m u) (some t)).isSome

/-! ### diagnostics: why `sub a b` fails (path of export names) -/

mutual
def subWhy : Tree → Tree → String
  | .instance ea, .instance eb =>
    match eb.names.find? (fun n => !ea.hasName n) with
    | some n => s!"missing export `{String.ofList n}`"
    | none => subWhyF ea eb
  | .component ia ea, .component ib eb =>
    if !supAll ia ib then "component imports"
    else match eb.names.find? (fun n => !ea.hasName n) with
      | some n => s!"missing export `{String.ofList n}`"
      | none => subWhyF ea eb
  | .type a, .type b => subWhy a b
  | _, _ => "types differ"
termination_by structural a => a
def subWhyF : Forest → Forest → String
  | .nil, _ => "?"
  | .cons n ta r, eb =>
    match eb.get n with
    | some tb => if sub ta tb then subWhyF r eb else s!"in `{String.ofList n}`: " ++ subWhy ta tb
    | none => subWhyF r eb
termination_by structural f => f
end

end Wac.Spec
