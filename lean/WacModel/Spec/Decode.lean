import WacModel.Decode
/-
  C08 specification, written from the property statement (not from package.rs):

  "Loading a component as a package yields a world that lists exactly the component's imports and
   exports, in order, with the right kinds, names, function signatures (parameter names, order,
   result, async), value types, resource identity/aliasing and used-type provenance, and an
   instance type equal to its exports."

  * `treeW`   : the structural type tree that the *validator's* view `W` of the component denotes
                (aliases erased, resources identified by their base resource);
  * `canon`   : resource leaves renumbered by first occurrence, names erased, so that two trees
                are compared up to the choice of resource ids (alpha-equivalence);
  * `specTree`: `canon (treeW W root) = canon (unfold A (component world))` — everything in the
                first sentence except provenance;
  * `specInstance`: the instance type lists exactly the world's exports;
  * `specUsesSound`: every `uses` entry `n ↦ (J, m)` of an interface/world X names another
                interface J that exports a type `m` (or `n`), and X's item `n` *is* that
                type (same tree, same resources).  (J need not have an interface id: an instance
                imported under a plain name is a legitimate source — the first version of S3
                demanded an id because `TypeEncoder::use_aliases` did; that was the defect
                `interface should have an id`, repaired in the encoder.)
  * `specUsesComplete`: whenever the type referenced by a type export `n` of instance X was
                created by an export of a different instance (directly or through alias ids),
                X records a `uses` entry for `n`.
-/
namespace Wac.Spec.Decode
open Wac Wac.Decode

def leaf (w : WTypes) (r : Nat) : Option Res :=
  (w.res[r]?).map fun e => { uid := 0, idx := e.base, name := [] }

def optTree (f : WVal → Option Tree) : Option WVal → Option Tree
  | none => some .none
  | some v => f v

def namedTrees (f : WVal → Option Tree) : List (Str × WVal) → Option Forest
  | [] => some .nil
  | (n, v) :: r =>
    match f v, namedTrees f r with
    | some t, some fr => some (.cons n t fr)
    | _, _ => none

def namedOptTrees (f : WVal → Option Tree) : List (Str × Option WVal) → Option Forest
  | [] => some .nil
  | (n, v) :: r =>
    match optTree f v, namedOptTrees f r with
    | some t, some fr => some (.cons n t fr)
    | _, _ => none

def unnamedTrees (f : WVal → Option Tree) : List WVal → Option Forest
  | [] => some .nil
  | v :: r =>
    match f v, unnamedTrees f r with
    | some t, some fr => some (.cons [] t fr)
    | _, _ => none

/-- the tree of a value type of the validator -/
def valTree (w : WTypes) : Nat → WVal → Option Tree
  | 0, _ => none
  | _ + 1, .prim p => some (.prim p)
  | fuel + 1, .ty d =>
    match w.defs[d]? with
    | none => none
    | some e =>
      match e.body with
      | .prim p => some (.prim p)
      | .record fs => (namedTrees (valTree w fuel) fs).map .record
      | .variant cs => (namedOptTrees (valTree w fuel) cs).map .variant
      | .list t => (valTree w fuel t).map .list
      | .tuple ts => (unnamedTrees (valTree w fuel) ts).map .tuple
      | .flags ns => some (.flags ns)
      | .enum ns => some (.enum ns)
      | .option t => (valTree w fuel t).map .option
      | .result a b =>
        match optTree (valTree w fuel) a, optTree (valTree w fuel) b with
        | some a, some b => some (.result a b)
        | _, _ => none
      | .own r => (leaf w r).map .own
      | .borrow r => (leaf w r).map .borrow
      | .stream t => (optTree (valTree w fuel) t).map .stream
      | .future t => (optTree (valTree w fuel) t).map .future
      | .fixedList t n => (valTree w fuel t).map (.fixedList · n)
      | .map _ _ => none

def funcTree (w : WTypes) (fuel : Nat) (f : Nat) : Option Tree :=
  match w.funcs[f]? with
  | none => none
  | some ft =>
    match namedTrees (valTree w fuel) ft.params, optTree (valTree w fuel) ft.result with
    | some ps, some r => some (.func ft.isAsync ps r)
    | _, _ => none

def entTrees (f : WEnt → Option Tree) : List (Str × WEnt) → Option Forest
  | [] => some .nil
  | (n, e) :: r =>
    match f e, entTrees f r with
    | some t, some fr => some (.cons n t fr)
    | _, _ => none

/-- the tree of an import/export of the validator -/
def entTree (w : WTypes) : Nat → WEnt → Option Tree
  | 0, _ => none
  | _ + 1, .module m => (w.mods[m]?).map .module
  | fuel + 1, .func f => funcTree w fuel f
  | fuel + 1, .value v => (valTree w fuel v).map .value
  | fuel + 1, .instance i =>
    match w.insts[i]? with
    | none => none
    | some es => (entTrees (entTree w fuel) es).map .instance
  | fuel + 1, .component c =>
    match w.comps[c]? with
    | none => none
    | some ct =>
      match entTrees (entTree w fuel) ct.imports, entTrees (entTree w fuel) ct.exports with
      | some i, some e => some (.component i e)
      | _, _ => none
  | fuel + 1, .type _ created =>
    match created with
    | .res r => (leaf w r).map fun x => .type (.resource x)
    | .defined d => (valTree w fuel (.ty d)).map .type
    | .func f => (funcTree w fuel f).map .type
    | .instance i =>
      match w.insts[i]? with
      | none => none
      | some es => (entTrees (entTree w fuel) es).map fun x => .type (.instance x)
    | .component c =>
      match w.comps[c]? with
      | none => none
      | some ct =>
        match entTrees (entTree w fuel) ct.imports, entTrees (entTree w fuel) ct.exports with
        | some i, some e => some (.type (.component i e))
        | _, _ => none

/-- the component type the validator's view denotes -/
def treeW (w : WTypes) : Option Tree := entTree w (2 * w.fuel) (.component w.root)

/-! canonical resource numbering -/

def indexOf (seen : List Nat) (x : Nat) : Option Nat :=
  let rec go (l : List Nat) (i : Nat) : Option Nat :=
    match l with
    | [] => none
    | y :: r => if y = x then some i else go r (i + 1)
  go seen 0

/-- number of the resource in order of first occurrence -/
def canonRes (seen : List Nat) (r : Res) : Res × List Nat :=
  match indexOf seen r.idx with
  | some i => ({ uid := 0, idx := i, name := [] }, seen)
  | none => ({ uid := 0, idx := seen.length, name := [] }, seen ++ [r.idx])

mutual
def canonT : Tree → List Nat → Tree × List Nat
  | .none, s => (.none, s)
  | .prim p, s => (.prim p, s)
  | .own r, s => let (r, s) := canonRes s r; (.own r, s)
  | .borrow r, s => let (r, s) := canonRes s r; (.borrow r, s)
  | .tuple f, s => let (f, s) := canonF f s; (.tuple f, s)
  | .list t, s => let (t, s) := canonT t s; (.list t, s)
  | .fixedList t n, s => let (t, s) := canonT t s; (.fixedList t n, s)
  | .option t, s => let (t, s) := canonT t s; (.option t, s)
  | .result a b, s => let (a, s) := canonT a s; let (b, s) := canonT b s; (.result a b, s)
  | .variant f, s => let (f, s) := canonF f s; (.variant f, s)
  | .record f, s => let (f, s) := canonF f s; (.record f, s)
  | .flags ns, s => (.flags ns, s)
  | .enum ns, s => (.enum ns, s)
  | .stream t, s => let (t, s) := canonT t s; (.stream t, s)
  | .future t, s => let (t, s) := canonT t s; (.future t, s)
  | .func a ps r, s => let (ps, s) := canonF ps s; let (r, s) := canonT r s; (.func a ps r, s)
  | .instance f, s => let (f, s) := canonF f s; (.instance f, s)
  | .component i e, s => let (i, s) := canonF i s; let (e, s) := canonF e s; (.component i e, s)
  | .module m, s => (.module m, s)
  | .value t, s => let (t, s) := canonT t s; (.value t, s)
  | .type t, s => let (t, s) := canonT t s; (.type t, s)
  | .resource r, s => let (r, s) := canonRes s r; (.resource r, s)
termination_by structural t => t
def canonF : Forest → List Nat → Forest × List Nat
  | .nil, s => (.nil, s)
  | .cons n t r, s => let (t, s) := canonT t s; let (r, s) := canonF r s; (.cons n t r, s)
termination_by structural f => f
end

def canon (t : Tree) : Tree := (canonT t []).1

/-- first difference between two trees, as a path (for the verdict text) -/
def forestNames (f : Forest) : String :=
  ",".intercalate (f.names.map String.ofList)

mutual
def diffT : Tree → Tree → Option String
  | .func a ps r, .func a' ps' r' =>
    if a != a' then some "async flag"
    else match diffF ps ps' with
      | some d => some ("param " ++ d)
      | none => (diffT r r').map ("result " ++ ·)
  | .instance f, .instance f' => diffF f f'
  | .component i e, .component i' e' =>
    match diffF i i' with
    | some d => some ("import " ++ d)
    | none => (diffF e e').map ("export " ++ ·)
  | .record f, .record f' => (diffF f f').map ("field " ++ ·)
  | .variant f, .variant f' => (diffF f f').map ("case " ++ ·)
  | .tuple f, .tuple f' => (diffF f f').map ("tuple " ++ ·)
  | .list t, .list t' => diffT t t'
  | .option t, .option t' => diffT t t'
  | .value t, .value t' => diffT t t'
  | .type t, .type t' => diffT t t'
  | .result a b, .result a' b' =>
    match diffT a a' with
    | some d => some ("ok " ++ d)
    | none => (diffT b b').map ("err " ++ ·)
  | a, b => if a == b then none else some "differs here"
termination_by structural t => t
def diffF : Forest → Forest → Option String
  | .nil, .nil => none
  | .cons n t r, .cons n' t' r' =>
    if n != n' then some s!"name {String.ofList n} vs {String.ofList n'}"
    else match diffT t t' with
      | some d => some (String.ofList n ++ ": " ++ d)
      | none => diffF r r'
  | .nil, .cons n _ _ => some s!"missing {String.ofList n}"
  | .cons n _ _, .nil => some s!"extra {String.ofList n}"
termination_by structural f => f
end

/-- S1: the decoded world denotes the component's type -/
def specTree (w : WTypes) (a : Types) (world : Nat) : Option String :=
  match treeW w, a.unfold (.component world) with
  | none, _ => some "treeW undefined (harness)"
  | _, none => some "decoded world does not unfold (dangling id or cycle)"
  | some tw, some ta =>
    let cw := canon tw
    let ca := canon ta
    if cw == ca then none else some ("decoded world differs from the component type: " ++ (diffT cw ca).getD "?")

/-- S2: the instance type lists exactly the world's exports -/
def specInstance (a : Types) (world inst : Nat) : Option String :=
  match a.worlds[world]?, a.interfaces[inst]? with
  | some wd, some itf =>
    if itf.exports == wd.exports && itf.uses.isEmpty && itf.id.isNone then none
    else some "instance type is not the world's exports"
  | _, _ => some "dangling world / instance type"

/-- S3 for one `uses` map: entries name a different interface that exports the type, and the
item is that very type -/
def usesSound (a : Types) (self : Option Nat) (uses : List (Str × UsedType)) (items : List (Str × ItemKind)) :
    Option String :=
  uses.findSome? fun (n, u) =>
    match a.interfaces[u.interface]? with
    | none => some s!"uses {String.ofList n}: dangling interface"
    | some j =>
      if self == some u.interface then some s!"uses {String.ofList n}: refers to the interface itself"
      else
        match alGet j.exports (u.name.getD n), alGet items n with
        | some (.type tj), some (.type tx) =>
          match a.unfold (.type tj), a.unfold (.type tx) with
          | some t1, some t2 =>
            if t1 == t2 then none
            else some s!"uses {String.ofList n}: not the same type as {String.ofList (u.name.getD n)} of its source interface"
          | _, _ => some s!"uses {String.ofList n}: does not unfold"
        | none, _ => some s!"uses {String.ofList n}: source interface does not export {String.ofList (u.name.getD n)}"
        | _, none => some s!"uses {String.ofList n}: no such item"
        | _, _ => some s!"uses {String.ofList n}: not a type"

def enumFrom {α : Type} : Nat → List α → List (Nat × α)
  | _, [] => []
  | i, x :: r => (i, x) :: enumFrom (i + 1) r

def specUsesSound (a : Types) : Option String :=
  match (enumFrom 0 a.interfaces).findSome? fun (i, itf) =>
      (usesSound a (some i) itf.uses itf.exports).map (s!"interface {i}: " ++ ·) with
  | some e => some e
  | none =>
    (enumFrom 0 a.worlds).findSome? fun (i, wd) =>
      (usesSound a none wd.uses wd.imports).map (s!"world {i}: " ++ ·)

/-- the alias chain of an id, itself first -/
def chain (w : WTypes) : Nat → WAny → List WAny
  | 0, x => [x]
  | fuel + 1, x =>
    match w.peel x with
    | some y => x :: chain w fuel y
    | none => [x]

/-- every `(instance, name, created)` of a type export of an instance type -/
def createdByInstances (w : WTypes) : List (Nat × Str × WAny) :=
  (enumFrom 0 w.insts).flatMap fun (i, es) =>
    es.filterMap fun (n, e) =>
      match e with
      | .type _ created => some (i, n, created)
      | _ => none

/-- S4: a type export whose referenced type was created by an export of another instance
(directly or through alias ids) must be recorded as used.  The k-th instance type of `W`
(first-visit order) is the k-th interface of `A` (allocation order): both follow the same
depth-first order and share per id. -/
def specUsesComplete (w : WTypes) (a : Types) : Option String :=
  let created := createdByInstances w
  (enumFrom 0 w.insts).findSome? fun (i, es) =>
    es.findSome? fun (n, e) =>
      match e with
      | .type referenced _ =>
        let ch := chain w (w.defs.length + w.res.length + 1) referenced
        -- aliasable kinds only: function/instance/component type ids are shared, not aliased
        let aliasable := match referenced with | .res _ | .defined _ => true | _ => false
        if aliasable && created.any (fun (j, _, c) => j != i && ch.contains c) then
          match a.interfaces[i]? with
          | none => some s!"interface {i} missing"
          | some itf =>
            if (alGet itf.uses n).isSome then none
            else some s!"interface {i}: type {String.ofList n} comes from another interface but has no uses entry"
        else none
      | _ => none

/-- all checks, first failure -/
def spec (w : WTypes) (a : Types) (world inst : Nat) : Option String :=
  match specTree w a world with
  | some e => some e
  | none =>
    match specInstance a world inst with
    | some e => some e
    | none =>
      match specUsesSound a with
      | some e => some e
      | none => specUsesComplete w a

end Wac.Spec.Decode
