import WacModel.Spec.Interface
/-
  A hypothesis on graph values under which the encoder's treatment of interface imports is
  determined by the implied import names alone (used by the C02 / C03 theorems instead of a
  hypothesis on the aggregator's result).

  A *foreign* interface id of an implied request is an interface it depends on (`use`), or its
  own interface when the request is not named for it (an explicit import `xi : I`).
  `ForeignSingle g`: the interface of a request is the request's own name or not
  semver-compatible with it, and a foreign interface id that is semver-compatible with an
  implied import name *is* that name — so no dependency interface sits on a semver track that
  also carries another version as an implied import.
-/
namespace Wac.Spec
open Wac

def foreignOf (r : ImportReq) : List Str :=
  r.ty.deps ++ (match r.ty.iface with
    | some i => if i = r.name then [] else [i]
    | none => [])

def foreignIds (g : GraphVal) : List Str := (impliedReqs g).flatMap foreignOf

structure ForeignSingle (g : GraphVal) : Prop where
  own : ∀ r ∈ impliedReqs g, ∀ i, r.ty.iface = some i → i = r.name ∨ compat i r.name = false
  single : ∀ f ∈ foreignIds g, ∀ x ∈ impliedNames g, compat f x = true → f = x

def foreignSingleCheck (g : GraphVal) : Bool :=
  (impliedReqs g).all (fun r => match r.ty.iface with
    | some i => i == r.name || !compat i r.name
    | none => true) &&
  (foreignIds g).all fun f => (impliedNames g).all fun x => !compat f x || f == x

theorem foreignSingleCheck_sound {g : GraphVal} (h : foreignSingleCheck g = true) : ForeignSingle g := by
  simp only [foreignSingleCheck, Bool.and_eq_true, List.all_eq_true] at h
  obtain ⟨h1, h2⟩ := h
  constructor
  · intro r hr i hi
    have := h1 r hr
    simp only [hi, Bool.or_eq_true, beq_iff_eq, Bool.not_eq_eq_eq_not, Bool.not_true] at this
    exact this
  · intro f hf x hx hc
    have := h2 f hf x hx
    simp only [hc, Bool.not_true, Bool.false_or, beq_iff_eq] at this
    exact this

end Wac.Spec
