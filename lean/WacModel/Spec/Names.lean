import WacModel.Names
/-
  Declarative specification for C15 (semver-compatible name matching).  Written from the
  property statement, not from the code: no string slicing, tracks are compared as data.
-/
namespace Wac.Spec
open Wac

/-- split at the first `@` -/
def splitAt_ : Str → Option (Str × Str)
  | [] => none
  | c :: r => if c == '@' then some ([], r) else (splitAt_ r).map fun (b, v) => (c :: b, v)

/-- compatibility track: base name plus major (major > 0) or plus 0.minor (minor > 0) -/
inductive Track where
  | major (base : Str) (n : Nat)
  | minor (base : Str) (n : Nat)
deriving DecidableEq, Repr

/-- the release version a name carries (no pre-release), with its base name -/
def releaseOf (name : Str) : Option (Str × Version) :=
  match splitAt_ name with
  | none => none
  | some (base, vs) =>
    match parseVersion vs with
    | none => none
    | some v => if v.pre.isEmpty then some (base, v) else none

def trackOf (name : Str) : Option Track :=
  match releaseOf name with
  | none => none
  | some (base, v) =>
    if v.major > 0 then some (.major base v.major)
    else if v.minor > 0 then some (.minor base v.minor)
    else none

/-- C15, first sentence -/
def compatSpec (a b : Str) : Bool :=
  a == b || (match trackOf a, trackOf b with
    | some ta, some tb => ta == tb
    | _, _ => false)

/-- the entries of `es` on track `t`, with their version -/
def onTrack {β} (es : List (Str × β)) (t : Track) : List (Str × β) :=
  es.filter fun e => trackOf e.1 == some t

def versionOf (name : Str) : Option Version := (releaseOf name).map (·.2)

/-- the entry with the highest version among `es` (later entry wins ties) -/
def highest {β} : List (Str × β) → Option (Str × β)
  | [] => none
  | e :: r =>
    match highest r with
    | none => some e
    | some h =>
      match versionOf e.1, versionOf h.1 with
      | some ve, some vh => if vh.lt ve then some e else some h
      | _, _ => some h

/-- C15, second sentence: exact match first, else highest version on the requested track -/
def getSpec {β} (es : List (Str × β)) (q : Str) : Option β :=
  match es.find? (fun e => e.1 == q) with
  | some e => some e.2
  | none =>
    match trackOf q with
    | none => none
    | some t => (highest (onTrack es t)).map (·.2)

/-- the value stored under exactly this name -/
def lookup {β} (es : List (Str × β)) (n : Str) : Option β := (es.find? (fun e => e.1 == n)).map (·.2)

/-- C15, second sentence, declaratively: `r` is an admissible answer of a semver-aware lookup of
`q` in the entries `es`: the exact match if there is one; otherwise nothing unless `q` is on a
track, and then an entry of that same track such that no entry of the track has a strictly
higher version (and nothing only if the track has no entry). -/
def IsGet {β} (es : List (Str × β)) (q : Str) (r : Option β) : Prop :=
  match lookup es q with
  | some x => r = some x
  | none =>
    match trackOf q with
    | none => r = none
    | some t =>
      (r = none ∧ ∀ e ∈ es, trackOf e.1 ≠ some t) ∨
      (∃ n x v, r = some x ∧ (n, x) ∈ es ∧ trackOf n = some t ∧ versionOf n = some v ∧
        ∀ e ∈ es, trackOf e.1 = some t → ∀ v', versionOf e.1 = some v' → ¬ (v.lt v' = true))

/-- no two distinct entries of one track have the same position in the version order
(`Version.key` = major, minor, patch, build-metadata key) -/
def TieFree {β} (es : List (Str × β)) : Prop :=
  ∀ e ∈ es, ∀ e' ∈ es, ∀ t, trackOf e.1 = some t → trackOf e'.1 = some t →
    ∀ v v', versionOf e.1 = some v → versionOf e'.1 = some v' → v.key = v'.key → e.1 = e'.1

end Wac.Spec
