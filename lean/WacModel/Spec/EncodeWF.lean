import WacModel.Encode
import WacModel.Spec.Wiring
/-
  Well-formedness of a graph value: what every graph built through the public API satisfies
  and the encoding theorems assume.  `wfCheck` is the executable form; the drivers evaluate it
  on every dumped graph (so the share of real graphs inside the theorems' hypothesis is
  measured, and a graph outside it is reported).
-/
namespace Wac.Spec
open Wac

structure WF (g : GraphVal) : Prop where
  /-- node indices are distinct -/
  idsNodup : g.ids.Nodup
  /-- a definition node is a type -/
  defKind : ∀ n ∈ g.nodes, n.kind = .definition → n.ty.kind = .type
  /-- an instantiation node is an instance -/
  instKind : ∀ n ∈ g.nodes, ∀ slot sat, n.kind = .instantiation slot sat → n.ty.kind = .instance
  /-- the aliased definition of a definition is a type -/
  defAliasType : ∀ n ∈ g.nodes, ∀ m, n.defAlias = some m → kindOf g m = .type
  /-- a definition is exported under one name only (`export()` on a definition node renames
      it: the encoder exports a definition under `Node.export`, the last name, and drops the
      others — known finding `enc-definition-renamed-by-export`) -/
  defNames : ∀ e ∈ g.exports, ∀ n, g.node? e.2 = some n → n.isDefinition = true → n.exportName = some e.1
  /-- the satisfied-argument set of an instantiation is the set of its argument edges -/
  satOk : ∀ n ∈ g.nodes, ∀ slot sat p, n.kind = .instantiation slot sat → g.pkg? slot = some p →
    unsatisfied p sat = unsatisfiedByArgs n p

def wfCheck (g : GraphVal) : Bool :=
  decide g.ids.Nodup &&
  g.nodes.all (fun n => decide (n.kind = .definition → n.ty.kind = .type)) &&
  g.nodes.all (fun n => match n.kind with | .instantiation _ _ => decide (n.ty.kind = .instance) | _ => true) &&
  g.nodes.all (fun n => match n.defAlias with | some m => decide (kindOf g m = .type) | none => true) &&
  g.exports.all (fun e => match g.node? e.2 with
    | some n => !n.isDefinition || decide (n.exportName = some e.1)
    | none => true) &&
  g.nodes.all (fun n => match n.kind with
    | .instantiation slot sat => match g.pkg? slot with
      | some p => decide (unsatisfied p sat = unsatisfiedByArgs n p)
      | none => true
    | _ => true)

theorem wfCheck_sound {g : GraphVal} (h : wfCheck g = true) : WF g := by
  simp only [wfCheck, Bool.and_eq_true, decide_eq_true_eq, List.all_eq_true] at h
  obtain ⟨⟨⟨⟨⟨h1, h2⟩, h5⟩, h3⟩, h6⟩, h4⟩ := h
  refine ⟨h1, fun n hn => h2 n hn, ?_, ?_, ?_, ?_⟩
  · intro n hn slot sat hk
    have := h5 n hn
    simpa [hk] using this
  · intro n hn m hm
    have := h3 n hn
    simpa [hm] using this
  · intro e he n hn hd
    have := h6 e he
    simpa [hn, hd] using this
  · intro n hn slot sat p hk hp
    have := h4 n hn
    simpa [hk, hp] using this

/-! ### what the encoding theorems assume about the aggregated imports

  `AggOk` is stated on the result of the model's own name-level aggregation
  (`resolveInsts` + `resolveExplicit`); C03 (`canonical_kind`, `iface_named`) is where these
  facts are established from properties of the graph alone. -/

/-- the aggregated imports as the import loop sees them (interfaces replaced by the merged ones) -/
def fixedImports (agg : Agg) : List (Str × ItemTy) := agg.imports.map fun e => (e.1, agg.fix e.2)

def allDepsOf (l : List (Str × ItemTy)) : List Str := l.flatMap (·.2.deps)

/-- interface id `i` is private: no import is named like it and no import depends on it -/
def privIn (l : List (Str × ItemTy)) (i : Str) : Prop := i ∉ l.map (·.1) ∧ i ∉ allDepsOf l

instance (l : List (Str × ItemTy)) (i : Str) : Decidable (privIn l i) := by unfold privIn; infer_instance

/-- the kind under which the import that `name` resolves to is imported -/
def aggKind (agg : Agg) (name : Str) : Option Kind := (amGet agg.imports (agg.canonical name)).map (·.kind)

structure AggOk (g : GraphVal) (agg : Agg) : Prop where
  /-- import names are distinct (`IndexMap`) -/
  keysNodup : (agg.imports.map (·.1)).Nodup
  /-- an instance import of a named interface either has a name that does not stand for the
      interface (then nothing is reused or recorded for it), or is imported under the name of
      the interface, or — a different but semver-compatible version — the interface is mentioned
      by nothing else -/
  ifaceNamed : ∀ e ∈ fixedImports agg, e.2.kind = .instance → e.2.iface = none ∨ e.2.iface = some e.1 ∨
    ∃ i, e.2.iface = some i ∧ (providesIface e.1 i = false ∨
      (privIn (fixedImports agg) i ∧ ∀ e' ∈ fixedImports agg, e'.1 ≠ e.1 → e'.2.iface ≠ some i))
  /-- every unsatisfied argument resolves to an import of its own kind -/
  implicitKind : ∀ n ∈ g.nodes, ∀ slot sat p, n.kind = .instantiation slot sat → g.pkg? slot = some p →
    ∀ r ∈ unsatisfied p sat, aggKind agg r.name = some r.ty.kind
  /-- every explicit import resolves to an import of its own kind -/
  explicitKind : ∀ n ∈ g.nodes, ∀ nm, n.kind = .import nm → aggKind agg nm = some n.ty.kind

def ifaceEntryOk (l : List (Str × ItemTy)) (e : Str × ItemTy) : Bool :=
  e.2.kind != .instance ||
  match e.2.iface with
  | none => true
  | some i => i == e.1 || !providesIface e.1 i ||
      (decide (privIn l i) && l.all fun e' => e'.1 == e.1 || e'.2.iface != some i)

def aggOkCheck (g : GraphVal) (agg : Agg) : Bool :=
  decide (agg.imports.map (·.1)).Nodup &&
  (fixedImports agg).all (ifaceEntryOk (fixedImports agg)) &&
  g.nodes.all (fun n => match n.kind with
    | .instantiation slot sat => match g.pkg? slot with
      | some p => (unsatisfied p sat).all fun r => decide (aggKind agg r.name = some r.ty.kind)
      | none => true
    | .import nm => decide (aggKind agg nm = some n.ty.kind)
    | _ => true)

theorem aggOkCheck_sound {g : GraphVal} {agg : Agg} (h : aggOkCheck g agg = true) : AggOk g agg := by
  simp only [aggOkCheck, Bool.and_eq_true, decide_eq_true_eq, List.all_eq_true] at h
  obtain ⟨⟨h1, h2⟩, h3⟩ := h
  refine ⟨h1, ?_, ?_, ?_⟩
  · intro e he hk
    have := h2 e he
    unfold ifaceEntryOk at this
    cases hif : e.2.iface with
    | none => exact Or.inl rfl
    | some i =>
      simp only [hif, hk, bne_self_eq_false, Bool.false_or, Bool.or_eq_true, beq_iff_eq, Bool.and_eq_true,
        decide_eq_true_eq, List.all_eq_true, bne_iff_ne, ne_eq] at this
      rcases this with (h | h) | ⟨h3, h4⟩
      · exact Or.inr (Or.inl (by rw [h]))
      · exact Or.inr (Or.inr ⟨i, rfl, Or.inl (by simpa using h)⟩)
      · refine Or.inr (Or.inr ⟨i, rfl, Or.inr ⟨h3, ?_⟩⟩)
        intro e' he' hne
        rcases h4 e' he' with h5 | h5
        · exact absurd h5 hne
        · exact h5
  · intro n hn slot sat p hk hp r hr
    have := h3 n hn
    simp only [hk, hp, List.all_eq_true, decide_eq_true_eq] at this
    exact this r hr
  · intro n hn nm hk
    have := h3 n hn
    simpa [hk] using this

/-- the aggregation the model computes for `g` (when it succeeds) -/
def aggOf (g : GraphVal) (importNodes : List Nat) : Option Agg :=
  match resolveInsts g g.nodes {} with
  | .ok r =>
    match resolveExplicit g r.first importNodes r.agg [] with
    | .ok (agg, _) => some agg
    | _ => none
  | _ => none

end Wac.Spec
