import WacModel.Encode
import WacModel.Spec.Wiring
/-
  Well-formedness of a graph value: what every graph built through the public API satisfies
  and the encoding theorems assume.  `wfCheck` is the executable form; the drivers evaluate it
  on every dumped graph (so the share of real graphs inside the theorems' hypothesis is
  measured, and a graph outside it is reported).
-/
namespace Wac.Spec
open Wac

structure WF (g : GraphVal) : Prop where
  /-- node indices are distinct -/
  idsNodup : g.ids.Nodup
  /-- a definition node is a type -/
  defKind : ∀ n ∈ g.nodes, n.kind = .definition → n.ty.kind = .type
  /-- an instantiation node is an instance -/
  instKind : ∀ n ∈ g.nodes, ∀ slot sat, n.kind = .instantiation slot sat → n.ty.kind = .instance
  /-- the aliased definition of a definition is a type -/
  defAliasType : ∀ n ∈ g.nodes, ∀ m, n.defAlias = some m → kindOf g m = .type
  /-- the satisfied-argument set of an instantiation is the set of its argument edges -/
  satOk : ∀ n ∈ g.nodes, ∀ slot sat p, n.kind = .instantiation slot sat → g.pkg? slot = some p →
    unsatisfied p sat = unsatisfiedByArgs n p

def wfCheck (g : GraphVal) : Bool :=
  decide g.ids.Nodup &&
  g.nodes.all (fun n => decide (n.kind = .definition → n.ty.kind = .type)) &&
  g.nodes.all (fun n => match n.kind with | .instantiation _ _ => decide (n.ty.kind = .instance) | _ => true) &&
  g.nodes.all (fun n => match n.defAlias with | some m => decide (kindOf g m = .type) | none => true) &&
  g.nodes.all (fun n => match n.kind with
    | .instantiation slot sat => match g.pkg? slot with
      | some p => decide (unsatisfied p sat = unsatisfiedByArgs n p)
      | none => true
    | _ => true)

theorem wfCheck_sound {g : GraphVal} (h : wfCheck g = true) : WF g := by
  simp only [wfCheck, Bool.and_eq_true, decide_eq_true_eq, List.all_eq_true] at h
  obtain ⟨⟨⟨⟨h1, h2⟩, h5⟩, h3⟩, h4⟩ := h
  refine ⟨h1, fun n hn => h2 n hn, ?_, ?_, ?_⟩
  · intro n hn slot sat hk
    have := h5 n hn
    simpa [hk] using this
  · intro n hn m hm
    have := h3 n hn
    simpa [hm] using this
  · intro n hn slot sat p hk hp
    have := h4 n hn
    simpa [hk, hp] using this

end Wac.Spec
