import WacModel.Ast
import WacModel.Lexer
/-
  C14, specification of "every source location carried by a tree node lies within the source, on
  character boundaries" — written from the property statement and from the documentation of the
  AST (`ast.rs`: "the span of the identifier", "the span of the string", …), not from the parser.

  For a source text `src` (a list of characters; offsets are UTF-8 byte offsets):
    * `isBoundary src n`  — byte offset `n` is the start of a character of `src` or its end;
    * `spanIn src sp`     — `sp.offset + sp.len ≤ |src|` and both ends of `sp` are character
                            boundaries (the executable form of `Wac.Props.C14.InSource`);
    * `textAt src sp`     — the characters of `src` covered by `sp` (`none` unless `spanIn`);
    * `X.spansIn src x`   — for every node type `X` of `WacModel/Ast.lean`: every `Span` field of
      `x` and of all its descendants satisfies `spanIn src`, and moreover the span of a *leaf* is
      exactly the byte range of its spelling:
        - `Ident`        the text at the span is the raw spelling (`%` + name when escaped),
        - `StringLit`    the text at the span is `"` + value + `"`,
        - `PackageName`, `PackagePath`   the text at the span is the `string` field,
        - `DocComment`   the text at the span is a comment whose doc text (`Lexer::comments`:
                         `///…` or `/**…*/`, trimmed) is the `comment` field.

  Everything here is a total, executable `Bool` function (core Lean only), so a driver can evaluate
  it on any tree.  `Document.spansIn` walks the source once per span; a driver that wants speed on
  megabyte inputs can check `Wac.Props.C14Trees.spanIn_iff` style facts against a precomputed
  boundary table instead.
-/
namespace Wac.Spec.TreeSpans
open Wac Wac.Ast Wac.Lex

/-- what is left of `s` after its first `n` bytes; `none` when byte `n` is inside a character or
beyond the end -/
def dropBytes : Str → Nat → Option Str
  | s, 0 => some s
  | [], _ + 1 => none
  | c :: r, n + 1 => if n + 1 < c.utf8Size then none else dropBytes r (n + 1 - c.utf8Size)

/-- the first `n` bytes of `s` as characters; `none` when byte `n` is inside a character or beyond
the end -/
def takeBytes : Str → Nat → Option Str
  | _, 0 => some []
  | [], _ + 1 => none
  | c :: r, n + 1 =>
    if n + 1 < c.utf8Size then none else (takeBytes r (n + 1 - c.utf8Size)).map (c :: ·)

/-- byte offset `n` is a character boundary of `src` (the start of a character, or the end) -/
def isBoundary (src : Str) (n : Nat) : Bool := (dropBytes src n).isSome

/-- `sp` lies inside `src` and both its ends are character boundaries -/
def spanIn (src : Str) (sp : Span) : Bool :=
  decide (sp.offset + sp.len ≤ utf8Len src) && isBoundary src sp.offset && isBoundary src (sp.offset + sp.len)

/-- the characters of `src` covered by `sp`, when `sp` lies inside `src` on character boundaries -/
def textAt (src : Str) (sp : Span) : Option Str :=
  (dropBytes src sp.offset).bind (takeBytes · sp.len)

end Wac.Spec.TreeSpans

namespace Wac.Ast
open Wac.Spec.TreeSpans

/-! ### leaves: the span is the byte range of the spelling -/

def Ident.spansIn (src : Str) (i : Ident) : Bool := textAt src i.span == some i.raw

def StringLit.spansIn (src : Str) (s : StringLit) : Bool :=
  textAt src s.span == some ('"' :: (s.value ++ ['"']))

def PackageName.spansIn (src : Str) (p : PackageName) : Bool := textAt src p.span == some p.string

def PackagePath.spansIn (src : Str) (p : PackagePath) : Bool := textAt src p.span == some p.string

/-- the span of a doc comment covers one whole comment of the source, and `comment` is its text -/
def DocComment.spansIn (src : Str) (d : DocComment) : Bool :=
  match textAt src d.span with
  | some text => Wac.Lex.docText text == some d.comment
  | none => false

/-- a list of doc comments (`docs` fields) -/
def docsIn (src : Str) (ds : List DocComment) : Bool := ds.all (·.spansIn src)

end Wac.Ast

/-! ### types -/

mutual
def Wac.Ast.Ty.spansIn (src : Wac.Str) : Wac.Ast.Ty → _root_.Bool
  | .U8 s | .S8 s | .U16 s | .S16 s | .U32 s | .S32 s | .U64 s | .S64 s | .F32 s | .F64 s
  | .Char s | .Bool s | .String s => Wac.Spec.TreeSpans.spanIn src s
  | .Tuple ts s => Wac.Ast.Ty.allSpansIn src ts && Wac.Spec.TreeSpans.spanIn src s
  | .List t s => Wac.Ast.Ty.spansIn src t && Wac.Spec.TreeSpans.spanIn src s
  | .Option t s => Wac.Ast.Ty.spansIn src t && Wac.Spec.TreeSpans.spanIn src s
  | .Result ok err s =>
    Wac.Ast.Ty.optSpansIn src ok && Wac.Ast.Ty.optSpansIn src err && Wac.Spec.TreeSpans.spanIn src s
  | .Borrow id s => id.spansIn src && Wac.Spec.TreeSpans.spanIn src s
  | .Ident id => id.spansIn src
def Wac.Ast.Ty.allSpansIn (src : Wac.Str) : _root_.List Wac.Ast.Ty → _root_.Bool
  | [] => true
  | t :: r => Wac.Ast.Ty.spansIn src t && Wac.Ast.Ty.allSpansIn src r
def Wac.Ast.Ty.optSpansIn (src : Wac.Str) : _root_.Option Wac.Ast.Ty → _root_.Bool
  | none => true
  | some t => Wac.Ast.Ty.spansIn src t
end

namespace Wac.Ast
open Wac.Spec.TreeSpans

def NamedType.spansIn (src : Str) (n : NamedType) : Bool := n.id.spansIn src && n.ty.spansIn src

def ResultList.spansIn (src : Str) : ResultList → Bool
  | .Empty => true
  | .Scalar ty => ty.spansIn src

def FuncType.spansIn (src : Str) (f : FuncType) : Bool :=
  f.params.all (·.spansIn src) && f.results.spansIn src

def FuncTypeRef.spansIn (src : Str) : FuncTypeRef → Bool
  | .Func ty => ty.spansIn src
  | .Ident id => id.spansIn src

def Constructor.spansIn (src : Str) (c : Constructor) : Bool :=
  docsIn src c.docs && spanIn src c.span && c.params.all (·.spansIn src)

def Method.spansIn (src : Str) (m : Method) : Bool :=
  docsIn src m.docs && m.id.spansIn src && m.ty.spansIn src

def ResourceMethod.spansIn (src : Str) : ResourceMethod → Bool
  | .Constructor c => c.spansIn src
  | .Method m => m.spansIn src

def ResourceDecl.spansIn (src : Str) (d : ResourceDecl) : Bool :=
  docsIn src d.docs && d.id.spansIn src && d.methods.all (·.spansIn src)

def VariantCase.spansIn (src : Str) (c : VariantCase) : Bool :=
  docsIn src c.docs && c.id.spansIn src && Ty.optSpansIn src c.ty

def VariantDecl.spansIn (src : Str) (d : VariantDecl) : Bool :=
  docsIn src d.docs && d.id.spansIn src && d.cases.all (·.spansIn src)

def Field.spansIn (src : Str) (f : Field) : Bool :=
  docsIn src f.docs && f.id.spansIn src && f.ty.spansIn src

def RecordDecl.spansIn (src : Str) (d : RecordDecl) : Bool :=
  docsIn src d.docs && d.id.spansIn src && d.fields.all (·.spansIn src)

def Flag.spansIn (src : Str) (f : Flag) : Bool := docsIn src f.docs && f.id.spansIn src

def FlagsDecl.spansIn (src : Str) (d : FlagsDecl) : Bool :=
  docsIn src d.docs && d.id.spansIn src && d.flags.all (·.spansIn src)

def EnumCase.spansIn (src : Str) (c : EnumCase) : Bool := docsIn src c.docs && c.id.spansIn src

def EnumDecl.spansIn (src : Str) (d : EnumDecl) : Bool :=
  docsIn src d.docs && d.id.spansIn src && d.cases.all (·.spansIn src)

def TypeAliasKind.spansIn (src : Str) : TypeAliasKind → Bool
  | .Func ty => ty.spansIn src
  | .Type' ty => ty.spansIn src

def TypeAlias.spansIn (src : Str) (a : TypeAlias) : Bool :=
  docsIn src a.docs && a.id.spansIn src && a.kind.spansIn src

def TypeDecl.spansIn (src : Str) : TypeDecl → Bool
  | .Variant d => d.spansIn src
  | .Record d => d.spansIn src
  | .Flags d => d.spansIn src
  | .Enum d => d.spansIn src
  | .Alias d => d.spansIn src

def ItemTypeDecl.spansIn (src : Str) : ItemTypeDecl → Bool
  | .Resource d => d.spansIn src
  | .Variant d => d.spansIn src
  | .Record d => d.spansIn src
  | .Flags d => d.spansIn src
  | .Enum d => d.spansIn src
  | .Alias d => d.spansIn src

/-! ### interfaces and worlds -/

def UseItem.spansIn (src : Str) (u : UseItem) : Bool :=
  u.id.spansIn src && u.asId.all (·.spansIn src)

def UsePath.spansIn (src : Str) : UsePath → Bool
  | .Package p => p.spansIn src
  | .Ident id => id.spansIn src

def Use.spansIn (src : Str) (u : Use) : Bool :=
  docsIn src u.docs && u.path.spansIn src && u.items.all (·.spansIn src)

def InterfaceExport.spansIn (src : Str) (e : InterfaceExport) : Bool :=
  docsIn src e.docs && e.id.spansIn src && e.ty.spansIn src

def InterfaceItem.spansIn (src : Str) : InterfaceItem → Bool
  | .Use u => u.spansIn src
  | .Type' d => d.spansIn src
  | .Export e => e.spansIn src

def InterfaceDecl.spansIn (src : Str) (d : InterfaceDecl) : Bool :=
  docsIn src d.docs && d.id.spansIn src && d.items.all (·.spansIn src)

def InlineInterface.spansIn (src : Str) (i : InlineInterface) : Bool := i.items.all (·.spansIn src)

def ExternType.spansIn (src : Str) : ExternType → Bool
  | .Ident id => id.spansIn src
  | .Func ty => ty.spansIn src
  | .Interface i => i.spansIn src

def NamedWorldItem.spansIn (src : Str) (n : NamedWorldItem) : Bool :=
  n.id.spansIn src && n.ty.spansIn src

def WorldItemPath.spansIn (src : Str) : WorldItemPath → Bool
  | .Named n => n.spansIn src
  | .Package p => p.spansIn src
  | .Ident id => id.spansIn src

def WorldImport.spansIn (src : Str) (i : WorldImport) : Bool := docsIn src i.docs && i.path.spansIn src

def WorldExport.spansIn (src : Str) (e : WorldExport) : Bool := docsIn src e.docs && e.path.spansIn src

def WorldRef.spansIn (src : Str) : WorldRef → Bool
  | .Ident id => id.spansIn src
  | .Package p => p.spansIn src

def WorldIncludeItem.spansIn (src : Str) (i : WorldIncludeItem) : Bool :=
  i.fromId.spansIn src && i.toId.spansIn src

def WorldInclude.spansIn (src : Str) (i : WorldInclude) : Bool :=
  docsIn src i.docs && i.world.spansIn src && i.withItems.all (·.spansIn src)

def WorldItem.spansIn (src : Str) : WorldItem → Bool
  | .Use u => u.spansIn src
  | .Type' d => d.spansIn src
  | .Import i => i.spansIn src
  | .Export e => e.spansIn src
  | .Include i => i.spansIn src

def WorldDecl.spansIn (src : Str) (d : WorldDecl) : Bool :=
  docsIn src d.docs && d.id.spansIn src && d.items.all (·.spansIn src)

def TypeStatement.spansIn (src : Str) : TypeStatement → Bool
  | .Interface d => d.spansIn src
  | .World d => d.spansIn src
  | .Type' d => d.spansIn src

/-! ### imports -/

def ExternName.spansIn (src : Str) : ExternName → Bool
  | .Ident id => id.spansIn src
  | .String s => s.spansIn src

def ImportType.spansIn (src : Str) : ImportType → Bool
  | .Package p => p.spansIn src
  | .Func ty => ty.spansIn src
  | .Interface i => i.spansIn src
  | .Ident id => id.spansIn src

def ImportStatement.spansIn (src : Str) (s : ImportStatement) : Bool :=
  docsIn src s.docs && s.id.spansIn src && s.name.all (·.spansIn src) && s.ty.spansIn src

/-! ### expressions -/

def InstantiationArgumentName.spansIn (src : Str) : InstantiationArgumentName → Bool
  | .Ident id => id.spansIn src
  | .String s => s.spansIn src

/-- the span of `.id` / `["name"]` and the leaf inside it -/
def AccessExpr.spansIn (src : Str) (a : AccessExpr) : Bool := spanIn src a.span && a.id.spansIn src

def NamedAccessExpr.spansIn (src : Str) (a : NamedAccessExpr) : Bool :=
  spanIn src a.span && a.string.spansIn src

def PostfixExpr.spansIn (src : Str) : PostfixExpr → Bool
  | .Access a => a.spansIn src
  | .NamedAccess a => a.spansIn src

mutual
def Expr.spansIn (src : Str) : Expr → Bool
  | .mk span primary postfixes =>
    spanIn src span && PrimaryExpr.spansIn src primary && postfixes.all (·.spansIn src)
def PrimaryExpr.spansIn (src : Str) : PrimaryExpr → Bool
  | .New e => NewExpr.spansIn src e
  | .Nested e => NestedExpr.spansIn src e
  | .Ident id => id.spansIn src
def NewExpr.spansIn (src : Str) : NewExpr → Bool
  | .mk span package arguments =>
    spanIn src span && package.spansIn src && InstantiationArgument.allSpansIn src arguments
def NestedExpr.spansIn (src : Str) : NestedExpr → Bool
  | .mk span inner => spanIn src span && Expr.spansIn src inner
def InstantiationArgument.spansIn (src : Str) : InstantiationArgument → Bool
  | .Inferred id => id.spansIn src
  | .Spread id => id.spansIn src
  | .Named arg => NamedInstantiationArgument.spansIn src arg
  | .Fill span => spanIn src span
def InstantiationArgument.allSpansIn (src : Str) : List InstantiationArgument → Bool
  | [] => true
  | a :: r => InstantiationArgument.spansIn src a && InstantiationArgument.allSpansIn src r
def NamedInstantiationArgument.spansIn (src : Str) : NamedInstantiationArgument → Bool
  | .mk name expr => name.spansIn src && Expr.spansIn src expr
end

/-! ### statements and the document -/

def LetStatement.spansIn (src : Str) (s : LetStatement) : Bool :=
  docsIn src s.docs && s.id.spansIn src && s.expr.spansIn src

def ExportOptions.spansIn (src : Str) : ExportOptions → Bool
  | .None => true
  | .Spread span => spanIn src span
  | .Rename name => name.spansIn src

def ExportStatement.spansIn (src : Str) (s : ExportStatement) : Bool :=
  docsIn src s.docs && s.expr.spansIn src && s.options.spansIn src

def Statement.spansIn (src : Str) : Statement → Bool
  | .Import s => s.spansIn src
  | .Type' s => s.spansIn src
  | .Let s => s.spansIn src
  | .Export s => s.spansIn src

def PackageDirective.spansIn (src : Str) (d : PackageDirective) : Bool :=
  d.package.spansIn src && d.targets.all (·.spansIn src)

/-- every source location carried by the tree lies within `src`, on character boundaries, and
every leaf's span is the byte range of its spelling -/
def Document.spansIn (src : Str) (d : Document) : Bool :=
  docsIn src d.docs && d.directive.spansIn src && d.statements.all (·.spansIn src)

end Wac.Ast
