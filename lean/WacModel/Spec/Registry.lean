import WacModel.Registry
/-
  Declarative specification for C20, written from the property statement: every requested key
  is given exactly the content published under that name and version, or under the latest
  release when the key has no version; what does not exist is reported with the corresponding
  error attributed to the key that asked for it; no key is dropped or given another key's content.
  The specification looks at each key on its own: it knows nothing about tables, positions or
  completion orders.
-/
namespace Wac.Spec.Registry
open Wac Wac.Registry

/-- the latest release: not a pre-release, no other such release is later -/
def isLatest (rels : List Release) (r : Release) : Bool :=
  rels.contains r && starMatches r.version &&
    rels.all (fun o => !(starMatches o.version && laterThan o.version r.version))

/-- what one key must resolve to -/
def specKey (valid : Str → Bool) (reg : Registry) (key : Key) (span : Span) : Except RegErr Content :=
  if !valid key.name then .error (.invalidPackageName key.name span)
  else
    match reg.find? (fun p => p.1 == key.name) with
    | none => .error (.packageDoesNotExist key.name span)
    | some (_, rels) =>
      match key.version with
      | some v =>
        match rels.find? (fun r => r.version == v) with
        | some r => .ok r.content
        | none => .error (.packageVersionDoesNotExist key.name v span)
      | none =>
        match rels.find? (isLatest rels) with
        | some r => .ok r.content
        | none => .error (.packageNoReleases key.name span)

inductive SpecOutcome where
  /-- every key resolves: the key ↦ content map, in request order -/
  | ok (m : List (Key × Content))
  /-- some keys do not resolve: the admissible errors (one per failing key), in request order -/
  | errs (es : List RegErr)
deriving DecidableEq, Repr

/-- every requested key with what it must resolve to -/
def keyResults (valid : Str → Bool) (reg : Registry) (keys : List (Key × Span)) :
    List (Key × Except RegErr Content) :=
  keys.map fun p => (p.1, specKey valid reg p.1 p.2)

def failureOf (t : Key × Except RegErr Content) : Option RegErr :=
  match t.2 with | .error e => some e | .ok _ => none
def successOf (t : Key × Except RegErr Content) : Option (Key × Content) :=
  match t.2 with | .ok c => some (t.1, c) | .error _ => none

def specResolve (valid : Str → Bool) (reg : Registry) (keys : List (Key × Span)) : SpecOutcome :=
  let rs := keyResults valid reg keys
  let es := rs.filterMap failureOf
  if es.isEmpty then .ok (rs.filterMap successOf) else .errs es

/-- does an outcome of the resolver satisfy the specification?  A successful outcome must be
    the specified map (the order of an `IndexMap` built from concurrent completions is not
    constrained: compared up to permutation); a failure must be one of the admissible errors. -/
def satisfies (o : Outcome) (s : SpecOutcome) : Bool :=
  match o, s with
  | .ok m, .ok m' => m.isPerm m'
  | .error e, .errs es => es.contains e
  | _, _ => false

end Wac.Spec.Registry
