import WacModel.Spec.Names
/-
  Declarative reading of a sequence of `NameMap::insert` calls (C15 with shadowing), written
  from the documentation of `insert`: "inserts a name; unless shadowing is allowed a name
  that is already defined is an error", the entries keep the order of their *first*
  insertion (`IndexMap`), and the last accepted write of a name is the value stored under it.
  Nothing here mentions alternate lookup keys, versions or tracks: which entries exist is a
  matter of exact names only.  What a semver-aware lookup answers on these entries is
  `Spec.getSpec` / `Spec.IsGet` (Spec/Names.lean).
-/
namespace Wac.Spec
open Wac

/-- overwrite the value stored under exactly the name `n`; positions and names unchanged -/
def setValue {β : Type} (es : List (Str × β)) (n : Str) (x : β) : List (Str × β) :=
  es.map fun e => if e.1 == n then (e.1, x) else e

/-- is the call `insert(name, shadow, _)` accepted when the entries are `es`?  A new name always;
an existing name only when shadowing is allowed. -/
def accepts {β : Type} (es : List (Str × β)) (n : Str) (shadow : Bool) : Bool :=
  (lookup es n).isNone || shadow

/-- the entries after one `insert` call `(name, allow_shadowing, item)`:
a new name is appended; an existing name is overwritten in place when shadowing is allowed and
the call is rejected (entries unchanged) otherwise -/
def effStep {β : Type} (es : List (Str × β)) (op : Str × Bool × β) : List (Str × β) :=
  match lookup es op.1 with
  | none => es ++ [(op.1, op.2.2)]
  | some _ => if op.2.1 then setValue es op.1 op.2.2 else es

/-- the entries after the calls `ops`, starting from the entries `es` -/
def effectiveFrom {β : Type} (es : List (Str × β)) : List (Str × Bool × β) → List (Str × β)
  | [] => es
  | op :: r => effectiveFrom (effStep es op) r

/-- the *effective entries* of a call sequence on the empty map: first-insertion order, the last
accepted write wins -/
def effective {β : Type} (ops : List (Str × Bool × β)) : List (Str × β) := effectiveFrom [] ops

/-- closed form of the value stored under one name, reading only the calls that name it: the
first call defines it, a later call replaces it iff it allows shadowing (`cur` = value so far) -/
def storedFrom {β : Type} (cur : Option β) (n : Str) : List (Str × Bool × β) → Option β
  | [] => cur
  | op :: r =>
    if op.1 == n then
      match cur with
      | none => storedFrom (some op.2.2) n r
      | some y => if op.2.1 then storedFrom (some op.2.2) n r else storedFrom (some y) n r
    else storedFrom cur n r

def stored {β : Type} (ops : List (Str × Bool × β)) (n : Str) : Option β := storedFrom none n ops

/-- the entry that answers a semver-aware lookup of `q` in `es`: the exact match, else the
highest version on the track of `q` (the entry `getSpec` takes its answer from) -/
def answerEntry {β : Type} (es : List (Str × β)) (q : Str) : Option (Str × β) :=
  match es.find? (fun e => e.1 == q) with
  | some e => some e
  | none =>
    match trackOf q with
    | none => none
    | some t => highest (onTrack es t)

/-- the *name* of the entry through which a lookup of `q` is answered -/
def answeredBy {β : Type} (es : List (Str × β)) (q : Str) : Option Str :=
  (answerEntry es q).map (·.1)

end Wac.Spec
