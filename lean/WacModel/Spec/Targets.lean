import WacModel.Spec.Sub
import WacModel.Spec.Names
/-
  Declarative specification for C11: an output (its import and export name→type lists) conforms
  to a target world when it imports only what the world imports — explicitly or through used
  interfaces — at types the world's imports satisfy, and exports every export of the world at a
  conforming type.  `conforms` looks names up exactly (this is component subtyping
  `output <: world type`, `conforms_eq_sub`); `conformsSemver` looks names up the way the
  stand-alone check does (exact name first, else the highest version on the semver track).
-/
namespace Wac.Spec
open Wac

/-- `type` items of function / instance / component type stand for the item itself (`promote`) -/
def promoteTree : Tree → Tree
  | .type (.func a p r) => .func a p r
  | .type (.instance f) => .instance f
  | .type (.component i e) => .component i e
  | t => t

structure Sig where
  imports : List (Str × Tree)
  exports : List (Str × Tree)
deriving Repr, Inhabited

/-- the world's imports: declared ones first, then the interfaces reached through `use` -/
def worldImports (explicit implicit : List (Str × Tree)) : List (Str × Tree) :=
  explicit ++ implicit.filter fun e => (amGet explicit e.1).isNone

def conformsWith (lookupW : List (Str × Tree) → Str → Option Tree) (lookupO : List (Str × Tree) → Str → Option Tree)
    (out w : Sig) : Bool :=
  out.imports.all (fun e =>
    match lookupW w.imports e.1 with
    | some x => subNames (promoteTree x) e.2
    | none => false) &&
  w.exports.all (fun e =>
    match lookupO out.exports e.1 with
    | some t => subNames t (promoteTree e.2)
    | none => false)

/-- exact names -/
def conforms (out w : Sig) : Bool := conformsWith amGet amGet out w

/-- semver-aware names (`getSpec` of C15: exact, else highest version on the track) -/
def conformsSemver (out w : Sig) : Bool := conformsWith getSpec getSpec out w

/-- the three kinds of non-conformance, by name -/
structure Diagnosis where
  extraImports : List Str
  missingExports : List Str
  mismatchedImports : List Str
  mismatchedExports : List Str
deriving DecidableEq, Repr, Inhabited

def diagnoseWith (lookupW lookupO : List (Str × Tree) → Str → Option Tree) (out w : Sig) : Diagnosis :=
  { extraImports := (out.imports.filter fun e => (lookupW w.imports e.1).isNone).map (·.1),
    missingExports := (w.exports.filter fun e => (lookupO out.exports e.1).isNone).map (·.1),
    mismatchedImports := (out.imports.filter fun e =>
      match lookupW w.imports e.1 with
      | some x => !subNames (promoteTree x) e.2
      | none => false).map (·.1),
    mismatchedExports := (w.exports.filter fun e =>
      match lookupO out.exports e.1 with
      | some t => !subNames t (promoteTree e.2)
      | none => false).map (·.1) }

def Diagnosis.clean (d : Diagnosis) : Bool :=
  d.extraImports.isEmpty && d.missingExports.isEmpty && d.mismatchedImports.isEmpty && d.mismatchedExports.isEmpty

end Wac.Spec
