import WacModel.Program
/-
  C04 specification: a reference evaluator for the statement sublanguage of WAC, written from
  /repo/LANGUAGE.md (sections "Import Statements", "Implicit Imports", "Let Statements",
  "New Expressions", "Inferred/Named/Spread Arguments", "Access Expressions", "Named Access
  Expressions", "Export Statements"), not from resolution.rs.

  A document denotes a `Composition`: its imports, its instantiations (each argument is a
  provenance term) and its exports; or a diagnostic.  The evaluator works on *values*
  (provenance + kind); there is no graph.

  Reading decisions where LANGUAGE.md is silent or loose (each is listed in notes/C04.md):
  * "exactly one import that has a path which ends with the local name": the candidates are the
    interface paths whose final component (after the last `/`, version removed) is the local
    name, and the local name itself if it is an import name.  So with imports `baz` and
    `foo:bar/baz` the identifier `baz` is ambiguous and denotes itself.
  * export name inference (`export e;`): the document only shows "the name that was accessed";
    this evaluator uses rules 1 and 2 of the inferred-argument precedence (associated interface
    path, then import / accessed export name) and otherwise demands `as`.
  * order in which two simultaneous faults of one statement are reported: left to right,
    operands before the operation, explicit arguments before spreads (as the text says spreads
    "apply after"), name checks before the missing-argument check.
  * argument compatibility is component-model subtyping (`Kind.sub`), not described in LANGUAGE.md.
  * type statements (here: `interface` declarations of functions) are WIT; a declared interface is
    exported from the package under its name; "conflicting export" = an export taking the name of a
    declaration (`ExportConflict`) or a declaration taking the name of an export (`DeclarationConflict`).
-/
namespace Wac.Lang.Spec
open Wac.Lang

/-- what a local name or an expression denotes -/
structure Val where
  prov : Prov
  kind : Kind

structure St where
  /-- local names ("not variables and cannot be reassigned") -/
  env : List (Str × Val) := []
  /-- explicit imports, in statement order -/
  imports : List (Str × Kind) := []
  /-- instantiations in evaluation order; implicit arguments are `Prov.imp name` -/
  insts : List Instantiation := []
  /-- implicit imports created by `...`, in creation order (with repetitions) -/
  implicit : List (Str × Kind) := []
  exports : List (Str × Prov × Kind) := []

/-! ### names -/

/-- the text after the last `/` -/
def afterLastSlash (p : Str) : Str := (p.reverse.takeWhile (· != '/')).reverse

/-- final component of a name: for `foo:bar/baz@1.0.0` it is `baz`; a plain name is its own -/
def finalComponent (p : Str) : Str := (afterLastSlash p).takeWhile (· != '@')

/-- "has a path which ends with the local name": an interface path whose final component is the
    name; a plain name ends with the identifier only when it is the identifier -/
def endsWith (n p : Str) : Bool := (p.contains '/' && finalComponent p == n) || p == n

/-- "If the component … has exactly one import that has a path which ends with the local name
    then the path will be used … otherwise the identifier" (named arguments, access
    expressions, step 3 of inferred arguments). -/
def shortName (n : Str) (names : List Str) : Str :=
  match names.filter (endsWith n) with
  | [p] => p
  | _ => n

/-- the name an item is known by outside: its import name or the export name it was accessed by -/
def externName : Prov → Option Str
  | .imp n => some n
  | .exportOf _ n => some n
  | .inst _ => none
  | .defn _ => none

/-- Inferred arguments, "in order of precedence". -/
def inferredArgName (x : Str) (v : Val) (imports : List Str) : Str :=
  match v.kind.instId.filter (imports.contains ·) with
  | some path => path                                   -- 1. associated package path
  | none =>
    match (externName v.prov).filter (imports.contains ·) with
    | some n => n                                       -- 2. import / export name
    | none => shortName x imports                       -- 3. unique path suffix, 4. the local name

/-- Named arguments: identifier form uses the suffix rule, string form is exact. -/
def namedArgName (n : ArgName) (imports : List Str) : Str :=
  match n with
  | .id s => shortName s imports
  | .str s => s

def lookup (st : St) (x : Str) : Except Diag Val :=
  match alGet x st.env with
  | some v => .ok v
  | none => .error (.undefinedName x)

def bind (st : St) (x : Str) (v : Val) : Except Diag St :=
  if alHas x st.env then .error (.duplicateName x) else .ok { st with env := st.env ++ [(x, v)] }

/-! ### expressions -/

/-- select an export of an instance value -/
def select (op : InstOp) (v : Val) (name : Str) : Except Diag (Option Val) :=
  match v.kind.instExports with
  | none => .error (.notInstance op)
  | some es =>
    match es.get name with
    | none => .ok none
    | some k => .ok (some { prov := .exportOf v.prov name, kind := k })

def access (v : Val) (name : Str) : Except Diag Val :=
  match select .access v name with
  | .error e => .error e
  | .ok none => .error (.missingExport name)
  | .ok (some r) => .ok r

/-- the value of an expression together with the (unchanged) state -/
def attach (st : St) : Except Diag Val → Except Diag (St × Val)
  | .error e => .error e
  | .ok r => .ok (st, r)

/-- the spread arguments of an argument list, in order -/
def spreadNames : Args → List Str
  | .nil => []
  | .cons (.spread x) r => x :: spreadNames r
  | .cons _ r => spreadNames r

/-- One spread argument: "the exports of the instance will be spread to any unspecified and
    unsatisfied instantiation arguments", "an evaluation error if a spread argument has no matching
    exports", "an error for the local name … to name anything other than an instance".
    `given` are the arguments already bound. -/
def spreadStep (st : St) (imports : List Str) (x : Str) (given : List (Str × Val)) :
    Except Diag (List (Str × Val)) :=
  match lookup st x with
  | .error e => .error e
  | .ok v =>
    match v.kind.instExports with
    | none => .error (.notInstance .spread)
    | some es =>
      let contributed := imports.filter (fun n => !alHas n given && es.has n)
      if contributed.isEmpty then .error .spreadNoMatch
      else .ok (given ++ contributed.map fun n =>
             (n, { prov := .exportOf v.prov n, kind := (es.get n).getD default }))

/-- Spread arguments are "applied in-order". -/
def applySpreads (st : St) (imports : List Str) :
    List Str → List (Str × Val) → Except Diag (List (Str × Val))
  | [], given => .ok given
  | x :: rest, given =>
    match spreadStep st imports x given with
    | .error e => .error e
    | .ok given => applySpreads st imports rest given

/-- every supplied argument must name an import of the component and fit its type -/
def checkArgs (p : Package) : List (Str × Val) → Except Diag Unit
  | [] => .ok ()
  | (n, v) :: rest =>
    match p.imports.get n with
    | none => .error (.unknownArg n)
    | some expected => if v.kind.sub expected then checkArgs p rest else .error (.mismatchedArg n)

/-- the instantiation itself: every supplied argument must fit, then either all imports are
    supplied or `...` imports the missing ones from the composition -/
def finishNew (st : St) (pkg : Str) (ver : Option Str) (p : Package) (given : List (Str × Val)) (fill : Bool) :
    Except Diag (St × Val) :=
  match checkArgs p given with
  | .error e => .error e
  | .ok () =>
    let missing := p.imports.toList.filter (fun (n, _) => !alHas n given)
    -- "If `...` is not specified, then all instantiation arguments must be explicitly specified"
    match fill, missing with
    | false, (n, _) :: _ => .error (.missingArg n)
    | _, _ =>
      -- "`...` … any missing arguments should be imported from the composition"
      let inst : Instantiation :=
        { pkg := pkg, ver := ver,
          args := given.map (fun (n, v) => (n, v.prov)) ++ missing.map (fun (n, _) => (n, Prov.imp n)) }
      let k := st.insts.length
      .ok ({ st with insts := st.insts ++ [inst], implicit := st.implicit ++ missing },
           { prov := .inst k, kind := .inst none p.exports })

mutual
def evalExpr (lib : Lib) (self : Str) (st : St) : Expr → Except Diag (St × Val)
  | .ident x =>
    match lookup st x with
    | .error e => .error e
    | .ok v => .ok (st, v)
  | .nested e => evalExpr lib self st e
  | .access e id =>
    match evalExpr lib self st e with
    | .error e => .error e
    | .ok (st, v) =>
      match v.kind.instExports with
      | none => .error (.notInstance .access)
      | some es => attach st (access v (shortName id es.names))
  | .namedAccess e s =>
    match evalExpr lib self st e with
    | .error e => .error e
    | .ok (st, v) => attach st (access v s)
  | .new pkg ver args =>
    -- the package being defined cannot be instantiated
    if pkg == self then .error (.unknownPackage pkg) else
    match lib.find pkg ver with
    | none => .error (.unknownPackage pkg)
    | some p =>
      let imports := p.imports.names
      -- inferred and named arguments first, in order
      match evalArgs lib self imports st [] args with
      | .error e => .error e
      | .ok (st, explicit, fill) =>
        -- then the spread arguments, in order
        match applySpreads st imports (spreadNames args) explicit with
        | .error e => .error e
        | .ok given => finishNew st pkg ver p given fill
/-- explicit (inferred and named) arguments; returns the bound names in order and whether `...` ends the list -/
def evalArgs (lib : Lib) (self : Str) (imports : List Str) (st : St) (acc : List (Str × Val)) :
    Args → Except Diag (St × List (Str × Val) × Bool)
  | .nil => .ok (st, acc, false)
  | .cons .fill .nil => .ok (st, acc, true)
  | .cons .fill (.cons _ _) => .error .fillNotLast       -- "must be used as the last argument"
  | .cons (.spread _) rest => evalArgs lib self imports st acc rest
  | .cons (.inferred x) rest =>
    match lookup st x with
    | .error e => .error e
    | .ok v =>
      let n := inferredArgName x v imports
      if alHas n acc then .error (.duplicateArg n)
      else evalArgs lib self imports st (acc ++ [(n, v)]) rest
  | .cons (.named nm e) rest =>
    match evalExpr lib self st e with
    | .error e => .error e
    | .ok (st, v) =>
      let n := namedArgName nm imports
      if alHas n acc then .error (.duplicateArg n)
      else evalArgs lib self imports st (acc ++ [(n, v)]) rest
end

/-! ### statements -/

/-- the item a package path refers to -/
def pathKind (lib : Lib) (pkg : Str) (ver : Option Str) (segs : List Str) : Except Diag Kind :=
  match lib.find pkg ver with
  | none => .error (.unknownPackage pkg)
  | some p =>
    match segs with
    | [] => .error (.unknownPackage pkg)
    | s :: rest =>
      match p.definition s with
      | none => .error (.packageMissingExport pkg s)
      | some k => project pkg k rest
where
  project (pkg : Str) (k : Kind) : List Str → Except Diag Kind
    | [] => .ok k
    | s :: rest =>
      match k.instExports.bind (·.get s) with
      | none => .error (.packageMissingExport pkg s)
      | some k' => project pkg k' rest

def importKind (lib : Lib) (st : St) : ImportTy → Except Diag Kind
  | .path pkg ver segs => pathKind lib pkg ver segs
  | .func sig => .ok (.func sig)
  | .iface fs => .ok (.inst none (funcsKind fs))
  | .ident x =>
    -- importing by a local name imports an item of the type the name denotes
    match lookup st x with
    | .error e => .error e
    | .ok v => .ok v.kind.promote

/-- "Items imported by a package path use the path as the name of the import"; otherwise "the
    name of the import will be the same as the local name"; `as` renames.  (An import by the local
    name of an *instance* that has an interface path takes that path: not in LANGUAGE.md, read off
    the implementation as a decision.) -/
def importName (st : St) (id : Str) (as : Option Str) (ty : ImportTy) : Str :=
  match as with
  | some n => n
  | none =>
    match ty with
    | .path pkg ver segs => pathString pkg ver segs
    | .ident x =>
      match alGet x st.env with
      | some v => v.kind.importNameOr id
      | none => id
    | _ => id

/-- `export e;` without `as` -/
def inferredExportName (v : Val) : Option Str :=
  match v.kind.instId with
  | some p => some p
  | none => externName v.prov

/-- an export may not take a name that denotes a type declared in the document -/
def conflictsWithDeclaration (st : St) (name : Str) : Bool :=
  match alGet name st.env with
  | some v => v.prov.isDefn
  | none => false

def addExport (st : St) (name : Str) (v : Val) : Except Diag St :=
  if conflictsWithDeclaration st name then .error (.exportConflict name)
  else if alHas name st.exports then .error (.duplicateExport name)
  else .ok { st with exports := st.exports ++ [(name, v.prov, v.kind)] }

/-- "Spread exports will only create new exports that do not conflict with previously exported
    items": the exports of the instance in order, each under its own name unless that name is
    already exported; the flag tells whether anything was exported. -/
def spreadExports (st : St) (v : Val) : List (Str × Kind) → List (Str × Prov × Kind) →
    Except Diag (List (Str × Prov × Kind) × Bool)
  | [], exports => .ok (exports, false)
  | (n, k) :: rest, exports =>
    if alHas n exports then spreadExports st v rest exports
    else if conflictsWithDeclaration st n then .error (.exportConflict n)
    else
      match spreadExports st v rest (exports ++ [(n, Prov.exportOf v.prov n, k)]) with
      | .error e => .error e
      | .ok (exports, _) => .ok (exports, true)

def evalStmt (lib : Lib) (self : Str) (st : St) : Stmt → Except Diag St
  | .imp id as ty =>
    match importKind lib st ty with
    | .error e => .error e
    | .ok k =>
      let name := importName st id as ty
      if alHas name st.imports then .error (.duplicateImport name)
      else bind { st with imports := st.imports ++ [(name, k)] } id { prov := .imp name, kind := k }
  | .bind id e =>
    match evalExpr lib self st e with
    | .error e => .error e
    | .ok (st, v) => bind st id v
  | .exp e .none =>
    match evalExpr lib self st e with
    | .error e => .error e
    | .ok (st, v) =>
      match inferredExportName v with
      | none => .error .exportRequiresAs
      | some n => addExport st n v
  | .exp e (.as n) =>
    match evalExpr lib self st e with
    | .error e => .error e
    | .ok (st, v) => addExport st n v
  | .exp e .spread =>
    match evalExpr lib self st e with
    | .error e => .error e
    | .ok (st, v) =>
      match v.kind.instExports with
      | none => .error (.notInstance .spread)
      | some es =>
        match spreadExports st v es.toList st.exports with
        | .error e => .error e
        | .ok (exports, any) =>
          if !any then .error .spreadExportNoEffect
          else .ok { st with exports := exports }
  | .iface id funcs =>
    -- a declared interface belongs to the package being defined: it is exported under its name,
    -- which therefore must not be an export already
    if alHas id st.exports then .error (.declarationConflict id)
    else
      let v : Val := { prov := .defn id, kind := .ifaceTy (some (declId self id)) (funcsKind funcs) }
      bind { st with exports := st.exports ++ [(id, v.prov, v.kind)] } id v

def evalStmts (lib : Lib) (self : Str) (st : St) : List Stmt → Except Diag St
  | [] => .ok st
  | s :: rest =>
    match evalStmt lib self st s with
    | .error e => .error e
    | .ok st => evalStmts lib self st rest

/-- keep the first entry of each name -/
def dedupNames {α} (l : List (Str × α)) : List (Str × α) :=
  l.foldl (fun acc (n, a) => if alHas n acc then acc else acc ++ [(n, a)]) []

/-- "implicit imports may not conflict with explicit imports of the same name"; implicit imports
    of one name are shared. -/
def finish (st : St) : Except Diag Composition :=
  match st.implicit.find? (fun (n, _) => alHas n st.imports) with
  | some (n, _) => .error (.importConflict n)
  | none =>
    .ok { imports := st.imports ++ dedupNames st.implicit,
          instantiations := st.insts,
          exports := st.exports }

def eval (p : Program) (lib : Lib) : Except Diag Composition :=
  match evalStmts lib p.self {} p.stmts with
  | .error e => .error e
  | .ok st => finish st

end Wac.Lang.Spec
