import WacModel.Skeleton
import WacModel.Spec.Names
/-
  Declarative specification for C02: the wiring the composition graph *designates*, read off
  the graph's public queries (`get_instantiation_arguments` = `Node.args`, `get_alias_source` =
  `Node.aliasSource`, `get_export` = `GraphVal.exports`, node kind / name / package), for a
  given emission order of the non-import nodes.

  Written from the property statement: every instantiation node instantiates its package once
  and receives, under each import name of the package, the designated item — the source node
  of the argument edge of that name, or else the (shared, canonically named) implicit import of
  that name; every alias reads the designated export of the designated instance; every export
  binds the designated item; every package is embedded once; every named node is named at the
  item that realises it.  Nothing of the encoder's state (index maps, counters) appears here.
-/
namespace Wac.Spec
open Wac

/-- the imports of `p` no argument edge of `n` provides -/
def unsatisfiedByArgs (n : Node) (p : PkgVal) : List ImportReq :=
  p.imports.filter fun r => !(n.args.any fun a => a.1 == r.name)

/-- every import name the composition implies: unsatisfied argument names, then explicit imports -/
def impliedNames (g : GraphVal) : List Str :=
  (g.nodes.flatMap fun n =>
    match n.kind with
    | .instantiation slot _ =>
      match g.pkg? slot with
      | some p => (unsatisfiedByArgs n p).map (·.name)
      | none => []
    | _ => []) ++
  (g.nodes.filterMap fun n => match n.kind with | .import nm => some nm | _ => none)

/-- the name under which `name` is imported: the highest version among the implied names on the
    same semver track (the name itself when it has no track) -/
def canon (g : GraphVal) (name : Str) : Str :=
  match trackOf name with
  | none => name
  | some t =>
    match highest (onTrack ((impliedNames g).map fun n => (n, ())) t) with
    | some (n, _) => n
    | none => name

structure SpecSt where
  /-- designated item per node -/
  terms : List (Nat × Term) := []
  /-- package slots in order of first instantiation -/
  seen  : List Nat := []
  w     : Wiring := {}
deriving Inhabited

def SpecSt.term (s : SpecSt) (n : Nat) : Term := ((s.terms.find? (·.1 == n)).map (·.2)).getD .bad

def kindOf (g : GraphVal) (n : Nat) : Kind := ((g.node? n).map (·.ty.kind)).getD .type

/-- the name of the component import that stands for a package when dependencies are imported -/
def unlockedName (p : PkgVal) : Str :=
  "unlocked-dep=<".toList ++ p.name ++
    (match p.version with
     | some v => "@{>=".toList ++ v ++ "}".toList
     | none => []) ++ ">".toList

/-- the type a definition node exports: the (already exported) type of the definition it is an
    alias of, else a fresh type -/
def defInner (s : SpecSt) (n : Node) : Term :=
  match n.defAlias with
  | some m =>
    match s.terms.find? (·.1 == m) with
    | some (_, t) => t
    | none => .opaque
  | none => .opaque

/-- an instantiation node of package `p` (slot `slot`): it instantiates the component that
    stands for `p` (embedded at the first instantiation of `p`, or imported), passing for every
    argument edge the designated source and for every other import of `p` the shared implicit
    import of that name -/
def specInst (g : GraphVal) (cn : Str → Str) (define : Bool) (s : SpecSt) (id : Nat) (n : Node)
    (slot : Nat) (p : PkgVal) : SpecSt :=
  let firstUse := !s.seen.contains slot
  let compTerm : Term :=
    if define then .comp (if firstUse then s.seen.length else s.seen.idxOf slot)
    else .imp (unlockedName p)
  let explicit := n.args.map fun (a : Str × Nat) => (a.1, kindOf g a.2, s.term a.2)
  let implicit := (unsatisfiedByArgs n p).map fun r => (r.name, r.ty.kind, Term.imp (cn r.name))
  let iw : InstW := { comp := compTerm, args := explicit ++ implicit }
  { terms := s.terms ++ [(id, .inst s.w.insts.length)],
    seen := if firstUse then s.seen ++ [slot] else s.seen,
    w := { s.w with
           insts := s.w.insts ++ [iw],
           comps := if define ∧ firstUse then s.w.comps ++ [p.bytesId] else s.w.comps } }

/-- one non-import node, in emission order -/
def specNode (g : GraphVal) (cn : Str → Str) (define : Bool) (s : SpecSt) (id : Nat) : SpecSt :=
  match g.node? id with
  | none => s
  | some n =>
    match n.kind with
    | .import _ => s
    | .instantiation slot _ =>
      match g.pkg? slot with
      | none => s
      | some p => specInst g cn define s id n slot p
    | .alias =>
      match n.aliasSource with
      | none => s
      | some (src, e) =>
        let t := s.term src
        { s with
          terms := s.terms ++ [(id, .aliasOf t e)],
          w := if n.ty.kind = .type ∧ t.isImp then s.w
               else { s.w with aliases := s.w.aliases ++ [(t, n.ty.kind, e)] } }
    | .definition =>
      match n.exportName with
      | none => s
      | some name =>
        let inner : Term := defInner s n
        { s with
          terms := s.terms ++ [(id, .exported name inner)],
          w := { s.w with exports := s.w.exports ++ [(name, .type, inner)] } }

def importTerm1 (cn : Str → Str) (n : Node) : Option (Nat × Term) :=
  match n.kind with
  | .import nm => some (n.id, Term.imp (cn nm))
  | _ => none

/-- the designated term of every explicit import node -/
def importTerms (g : GraphVal) (cn : Str → Str) : List (Nat × Term) :=
  g.nodes.filterMap (importTerm1 cn)

/-- one entry of the export map: the defining export of a definition is the definition itself
    (already exported); every other entry binds the designated node -/
def specExport1 (g : GraphVal) (s : SpecSt) (e : Str × Nat) : Option (Str × Kind × Term) :=
  match g.node? e.2 with
  | none => some (e.1, .type, .bad)
  | some n =>
    if n.isDefinition ∧ n.exportName = some e.1 then none
    else some (e.1, n.ty.kind, s.term e.2)

/-- the exports that are not the defining export of a definition -/
def specExports (g : GraphVal) (s : SpecSt) : List (Str × Kind × Term) :=
  g.exports.filterMap (specExport1 g s)

def specName1 (s : SpecSt) (k : Kind) (n : Node) : Option (Kind × Term × Str) :=
  match n.name with
  | some nm => if n.ty.kind = k then some (k, s.term n.id, nm) else none
  | none => none

/-- named nodes, by kind (the name section has one map per kind) and then by node index -/
def specNames (g : GraphVal) (s : SpecSt) : List (Kind × Term × Str) :=
  [Kind.type, .func, .instance, .component, .module, .value].flatMap fun k =>
    g.nodes.filterMap (specName1 s k)

/-- the wiring the graph designates, for the emission order `ord` of its non-import nodes and
    the naming `cn` of shared imports (import name ↦ the name it is imported under) -/
def specWiringWith (g : GraphVal) (cn : Str → Str) (define : Bool) (ord : List Nat) : Wiring :=
  let s := ord.foldl (specNode g cn define) { terms := importTerms g cn }
  { s.w with exports := s.w.exports ++ specExports g s, names := specNames g s }

/-- the wiring the graph designates: shared imports are named for the highest version on
    their semver track (`canon`) -/
def specWiring (g : GraphVal) (define : Bool) (ord : List Nat) : Wiring :=
  specWiringWith g (canon g) define ord

/-- the export-map entries that name a definition by a name other than its current one
    (`export()` on a definition node renames the definition; the earlier names stay in the map) -/
def renamedDefExports (g : GraphVal) : List (Str × Nat) :=
  g.exports.filter fun e =>
    match g.node? e.2 with
    | some n => n.isDefinition && n.exportName != some e.1
    | none => false

/-- the graph without them -/
def dropRenamedDefs (g : GraphVal) : GraphVal :=
  { g with exports := g.exports.filter fun e => !(renamedDefExports g).contains e }

/-! ### comparison up to what the property does not constrain -/

/-- insertion sort by a key rendered as a string (only used for canonical comparison) -/
def insertBy {α} (key : α → String) (x : α) : List α → List α
  | [] => [x]
  | y :: ys => if key x ≤ key y then x :: y :: ys else y :: insertBy key x ys

def sortBy {α} (key : α → String) (l : List α) : List α := l.foldr (insertBy key) []

def reprStr {α} [Repr α] (a : α) : String := toString (repr a)

/-- canonical form for the implementation-vs-specification comparison: re-exports looked
    through (`Term.base`), argument lists / aliases / exports / names as sets (sorted);
    imports are C03's and are left out -/
def normW (w : Wiring) : Wiring :=
  { imports := [],
    comps := w.comps,
    insts := w.insts.map fun i =>
      { comp := i.comp.base,
        args := sortBy reprStr (i.args.map fun (n, k, t) => (n, k, t.base)) },
    aliases := sortBy reprStr (w.aliases.map fun (t, k, n) => (t.base, k, n)),
    exports := sortBy reprStr (w.exports.map fun (n, k, t) => (n, k, t.base)),
    names := sortBy reprStr (w.names.map fun (k, t, n) => (k, t.base, n)) }

end Wac.Spec
