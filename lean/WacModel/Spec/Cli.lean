import WacModel.Cli
/-
  Specification for C19, written from README.md ("Usage", "Encoding Compositions",
  "Dependencies"), the property statement and the `--help` texts — not from the `exec` functions.

    * dependencies are embedded unless `--import-dependencies` is given;
    * output is validated unless `--no-validate` is given;
    * `-t` prints the text form of that same component;
    * `-o` writes exactly the bytes otherwise sent to stdout (in text mode stdout gets one
      terminating newline that is not part of the component's text; a file does not);
    * `--deps-dir` selects the dependency directory (default `deps`), `--dep PKG=PATH` the
      location of one package;
    * the process exits 0 exactly when the pipeline succeeds and otherwise prints a diagnostic
      and exits non-zero without writing an output file.
-/
namespace Wac.Spec.Cli
open Wac Wac.Cli
open Wac.Generated.CliFlags (FlagSpec)

/-! ### the documented command line -/

private def sw (command field long : String) (short : Option String := none) : FlagSpec :=
  { command, field, long := some long, short, takesValue := false, multiple := false, required := false, default := none, feature := none }
private def op (command field long : String) (short : Option String := none) (default : Option String := none)
    (multiple := false) (required := false) (feature : Option String := none) : FlagSpec :=
  { command, field, long := some long, short, takesValue := true, multiple, required, default, feature }
private def pos (command field : String) : FlagSpec :=
  { command, field, long := none, short := none, takesValue := true, multiple := false, required := true, default := none, feature := none }

/-- README + `--help`: every option of every sub-command, its spelling, polarity (a switch is
    off when absent) and default -/
def documentedFlags : List FlagSpec := [
  op "compose" "deps_dir" "deps-dir" (default := some "deps"),
  op "compose" "deps" "dep" (short := some "d") (multiple := true),
  sw "compose" "no_validate" "no-validate",
  sw "compose" "wat" "wat" (short := some "t"),
  sw "compose" "import_dependencies" "import-dependencies" (short := some "i"),
  op "compose" "output" "output" (short := some "o"),
  op "compose" "registry" "registry" (feature := some "registry"),
  pos "compose" "path",
  op "plug" "plugs" "plug" (multiple := true) (required := true),
  pos "plug" "socket",
  sw "plug" "wat" "wat" (short := some "t"),
  op "plug" "output" "output" (short := some "o"),
  op "plug" "registry" "registry" (feature := some "registry"),
  pos "targets" "component",
  op "targets" "wit" "wit" (required := true),
  op "targets" "world" "world",
  pos "parse" "path",
  op "resolve" "deps_dir" "deps-dir" (default := some "deps"),
  op "resolve" "deps" "dep" (short := some "d") (multiple := true),
  op "resolve" "registry" "registry" (feature := some "registry"),
  pos "resolve" "path"
]

/-- README "Usage" -/
def documentedSubcommands : List String := ["plug", "compose", "parse", "resolve", "targets"]

/-- "embeds its dependencies … to cause dependencies to be imported … use `--import-dependencies`";
    "`--no-validate`: skip validation" -/
def documentedEncodeOptions : List (String × String × String × Bool) := [
  ("compose", "define_components", "import_dependencies", true),
  ("compose", "validate", "no_validate", true)
]

/-! ### the documented meaning of the flags -/

/-- the last `--dep` for a package decides -/
def lastOverride (deps : List (Str × Str)) (pkg : Str) : Option Str :=
  (deps.reverse.find? (fun d => d.1 == pkg)).map (·.2)

structure DocumentedCompose where
  source : Str
  depsDir : Str
  overrideOf : Str → Option Str
  embedDependencies : Bool
  validate : Bool
  text : Bool
  sink : Sink

def documentedCompose (f : ComposeFlags) : DocumentedCompose :=
  { source := f.path
    depsDir := f.depsDir.getD "deps".toList
    overrideOf := lastOverride f.deps
    embedDependencies := !f.importDependencies
    validate := !f.noValidate
    text := f.wat
    sink := match f.output with | some p => .file p | none => .stdout }

/-- what must be observable of `wac compose`, given what the library does for each choice of
    `EncodeOptions` (`lib define_components validate`), on a non-terminal stdout and a writable
    output location -/
def documentedComposeObservation (f : ComposeFlags) (lib : Bool → Bool → LibResult) : Observation :=
  let d := documentedCompose f
  match lib d.embedDependencies d.validate with
  | .failed _ => { exit := 1, stdout := [], stdoutNewline := false, file := none, diagnostic := true }
  | .encoded binary txt =>
    let payload := if d.text then txt else binary
    match d.sink with
    | .file p => { exit := 0, stdout := [], stdoutNewline := false, file := some (p, payload), diagnostic := false }
    | .stdout => { exit := 0, stdout := payload, stdoutNewline := d.text, file := none, diagnostic := false }

/-- `wac plug`: default encoding (dependencies embedded, validated) of plugging, in argument
    order, packages named `plug:<file stem>` (indexed when a stem repeats) into the socket -/
def documentedPlugObservation (f : PlugFlags) (lib : LibResult) : Observation :=
  match lib with
  | .failed _ => { exit := 1, stdout := [], stdoutNewline := false, file := none, diagnostic := true }
  | .encoded binary txt =>
    let payload := if f.wat then txt else binary
    match f.output with
    | some p => { exit := 0, stdout := [], stdoutNewline := false, file := some (p, payload), diagnostic := false }
    | none => { exit := 0, stdout := payload, stdoutNewline := f.wat, file := none, diagnostic := false }

/-- `wac targets`: succeeds exactly when the component conforms to the selected world
    ("if the WIT has multiple worlds, disambiguate with `--world`") -/
def documentedTargetsSuccess (f : TargetsFlags) (loadable : Bool) (worlds : List Str) (conforms : Str → Bool) : Bool :=
  loadable &&
    match f.world with
    | some w => worlds.contains w && conforms w
    | none => match worlds with
      | [w] => conforms w
      | _ => false

end Wac.Spec.Cli
