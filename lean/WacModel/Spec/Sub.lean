import WacModel.Tree
/-
  Declarative specification for C07: the component-model subtype relation on structural type
  trees, written from the property statement (and the component-model / core import-matching
  rules), not from checker.rs:

  * instances may offer more exports (width) and each shared export must itself be a subtype (depth);
  * components: exports as for instances, imports contravariant (the subtype may need fewer
    imports, and each of its imports must be *satisfied by* the supertype's import of that name);
  * functions, values and defined types: structural equality of the alias-free tree — parameter
    names and order, async flag, result presence, option/result arms, fixed-list length,
    stream/future payloads, field/case/flag names and order;
  * resources: identity (`Res` equality);
  * core modules: import matching — every import of the subtype exists in the supertype with a
    type that matches it, every export of the supertype exists in the subtype with a matching
    type; functions/tags/globals exact, tables/memories by limits (`min >=`, `max <=` or absent
    on the required side), equal element type / index type / shared flag / effective page size.

  `sub a b` decides `a <: b`; `sup a b` decides `b <: a` (needed so that the recursion is
  structural on the first argument; `sup_eq_sub_swap` in WacProofs shows it is the converse).
  The relation is validated against wasmparser's `ComponentEntityType::is_subtype_of` on every
  run (C07 harness); known oracle deviations: wasmparser 0.247 does not compare `table64` of tables nor `shared` of globals.
-/
namespace Wac.Spec
open Wac

/-- limits `a` may be used where limits `b` are required -/
def limitsMatch (ai : Nat) (am : Option Nat) (bi : Nat) (bm : Option Nat) : Bool :=
  decide (bi ≤ ai) &&
    match bm with
    | none => true
    | some bm =>
      match am with
      | some am => decide (am ≤ bm)
      | none => false

/-- effective log2 page size (64 KiB pages unless the custom-page-sizes proposal says otherwise) -/
def pageSizeLog2 (p : Option Nat) : Nat := p.getD 16

/-- core extern `a` may be used where `b` is required (import matching) -/
def externSub : CoreExtern → CoreExtern → Bool
  | .func a, .func b => a == b
  | .tag a, .tag b => a == b
  | .table ae ai am a64 ash, .table be bi bm b64 bsh =>
    ae == be && a64 == b64 && ash == bsh && limitsMatch ai am bi bm
  | .memory a64 ash ai am ap, .memory b64 bsh bi bm bp =>
    a64 == b64 && ash == bsh && pageSizeLog2 ap == pageSizeLog2 bp && limitsMatch ai am bi bm
  | .global avt am ash, .global bvt bm bsh => avt == bvt && am == bm && ash == bsh
  | _, _ => false

/-- module type `a` may be used where `b` is required -/
def moduleSub (a b : ModuleType) : Bool :=
  a.imports.all (fun ia =>
    match alGet b.imports ia.1 with
    | some eb => externSub eb ia.2
    | none => false) &&
  b.exports.all (fun eb =>
    match alGet a.exports eb.1 with
    | some ea => externSub ea eb.2
    | none => false)

mutual
/-- `sub a b`: `a <: b` -/
def sub : Tree → Tree → Bool
  | .instance ea, .instance eb => eb.namesIn ea && subShared ea eb
  | .component ia ea, .component ib eb => supAll ia ib && eb.namesIn ea && subShared ea eb
  | .module a, .module b => moduleSub a b
  | .type a, .type b => sub a b
  | a, b => a == b
termination_by structural a => a
/-- `sup a b`: `b <: a` -/
def sup : Tree → Tree → Bool
  | .instance ea, .instance eb => supAll ea eb
  | .component ia ea, .component ib eb => ib.namesIn ia && subShared ia ib && supAll ea eb
  | .module a, .module b => moduleSub b a
  | .type a, .type b => sup a b
  | a, b => a == b
termination_by structural a => a
/-- every entry of the first forest that the second also has is a subtype of it -/
def subShared : Forest → Forest → Bool
  | .nil, _ => true
  | .cons n ta r, eb =>
    (match eb.get n with
     | some tb => sub ta tb
     | none => true) && subShared r eb
termination_by structural f => f
/-- every entry of the first forest is in the second one, at a subtype of it -/
def supAll : Forest → Forest → Bool
  | .nil, _ => true
  | .cons n ta r, eb =>
    (match eb.get n with
     | some tb => sup ta tb
     | none => false) && supAll r eb
termination_by structural f => f
end

/-- the name-only view of a resource leaf: what `SubtypeChecker::resource` compares -/
def eraseR (r : Res) : Res := { uid := 0, idx := 0, name := r.name }

mutual
/-- the tree with every resource identity replaced by the resource's name -/
def eraseRes : Tree → Tree
  | .own r => .own (eraseR r)
  | .borrow r => .borrow (eraseR r)
  | .resource r => .resource (eraseR r)
  | .none => .none
  | .prim p => .prim p
  | .flags ns => .flags ns
  | .enum ns => .enum ns
  | .module m => .module m
  | .tuple f => .tuple (eraseResF f)
  | .variant f => .variant (eraseResF f)
  | .record f => .record (eraseResF f)
  | .instance f => .instance (eraseResF f)
  | .list t => .list (eraseRes t)
  | .fixedList t n => .fixedList (eraseRes t) n
  | .option t => .option (eraseRes t)
  | .stream t => .stream (eraseRes t)
  | .future t => .future (eraseRes t)
  | .value t => .value (eraseRes t)
  | .type t => .type (eraseRes t)
  | .result a b => .result (eraseRes a) (eraseRes b)
  | .func a ps r => .func a (eraseResF ps) (eraseRes r)
  | .component i e => .component (eraseResF i) (eraseResF e)
termination_by structural t => t
def eraseResF : Forest → Forest
  | .nil => .nil
  | .cons n t r => .cons n (eraseRes t) (eraseResF r)
termination_by structural f => f
end

/-- the relation `SubtypeChecker` decides on all kinds: `sub` on the name-only views.  It is
`sub` itself on resource-free trees (`eraseRes_of_resourceFree`). -/
def subNames (a b : Tree) : Bool := sub (eraseRes a) (eraseRes b)

/-- C07 specification on item kinds of two collections: both unfold and the trees are related -/
def subKinds (at_ : Types) (a : ItemKind) (bt : Types) (b : ItemKind) : Option Bool :=
  match at_.unfold a, bt.unfold b with
  | some ta, some tb => some (sub ta tb)
  | _, _ => none

end Wac.Spec
