import WacModel.Names
/-
  Arbitrary call sequences of `NameMap::insert(name, interner, allow_shadowing, item)`
  (`crates/wac-types/src/names.rs`): every call either updates the map or returns the
  "defined twice" error and leaves the map untouched (the check happens before any mutation).
  `runOps` is what a caller that ignores (or merely reports) the errors ends up with.
-/
namespace Wac

/-- one `NameMap::insert` call; a rejected insertion leaves the map unchanged -/
def NameMap.step {β : Type} (m : NameMap β) (op : Str × Bool × β) : NameMap β :=
  match m.insert op.1 op.2.1 op.2.2 with
  | none => m
  | some m' => m'

/-- a sequence of `NameMap::insert` calls `(name, allow_shadowing, item)`, in order -/
def NameMap.runOps {β : Type} (m : NameMap β) : List (Str × Bool × β) → NameMap β
  | [] => m
  | op :: r => (m.step op).runOps r

end Wac
