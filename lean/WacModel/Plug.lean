import WacModel.Graph
import WacModel.Names
/-
  Model of `crates/wac-graph/src/plug.rs` (`plug`) over the graph model: the function is a
  composition of the public graph operations `instantiate`, `alias_instance_export`,
  `set_instantiation_argument`, `export` and the query `get_instantiation_arguments`.

  A package's world exports are the exports of its instance type
  (`Package::from_bytes` builds both from the same list), i.e. `ctx.kindExports d.instKind`.
-/
namespace Wac.Graph
open Wac

inductive PlugOutcome where
  | ok
  | noPlugHappened
  | graphError (e : Err)
  | panic (s : Site)
deriving DecidableEq, Repr

/-- `types[graph[pkg].ty()].exports` -/
def Ctx.pkgExports (ctx : Ctx) (d : PkgDef) : List (Str × Kind) := (ctx.kindExports d.instKind).getD []

/-- exact name first, else the first semver-compatible import (`are_semver_compatible(name, import_name)`) -/
def matchingImport (imports : List (Str × Kind)) (name : Str) : Option (Str × Kind) :=
  match alGet imports name with
  | some k => some (name, k)
  | none => imports.find? (fun p => compat name p.1)

/-- the `(plug_export_name, socket_import_name)` pairs collected for one plug -/
def plugExports (ctx : Ctx) (plugD socketD : PkgDef) : List (Str × Str) :=
  (ctx.pkgExports plugD).filterMap fun (name, plugTy) =>
    match matchingImport socketD.imports name with
    | some (socketName, socketTy) => if ctx.sub plugTy socketTy then some (name, socketName) else none
    | none => none

/-- the inner loop for one plug: lazily instantiate it, alias each export, pass it -/
def plugOne (ctx : Ctx) (socketInst : Nat) (plug : PkgId) :
    List (Str × Str) → Graph → Option Nat → Graph × Option PlugOutcome
  | [], g, _ => (g, none)
  | (plugName, socketName) :: rest, g, inst =>
    -- `*plug_instantiation.get_or_insert_with(|| graph.instantiate(plug))`
    let r : Graph × Except PlugOutcome Nat :=
      match inst with
      | some i => (g, .ok i)
      | none =>
        match instantiate g plug with
        | (g1, .ok (.node i)) => (g1, .ok i)
        | (g1, .panic s) => (g1, .error (.panic s))
        | (g1, _) => (g1, .error (.panic .invalidPackageId))
    match r with
    | (g1, .error o) => (g1, some o)
    | (g1, .ok i) =>
      match aliasInstanceExport ctx g1 i plugName with
      | (g2, .ok (.node a)) =>
        match setArg ctx g2 socketInst socketName a with
        | (g3, .ok _) => plugOne ctx socketInst plug rest g3 (some i)
        | (g3, .err e) => (g3, some (.graphError e))
        | (g3, .panic s) => (g3, some (.panic s))
      | (g2, .err e) => (g2, some (.graphError e))
      | (g2, .panic s) => (g2, some (.panic s))
      | (g2, .ok _) => (g2, some (.panic .invalidNodeId))

/-- the loop over the plugs -/
def plugAll (ctx : Ctx) (socketInst : Nat) (socketD : PkgDef) :
    List PkgId → Graph → Graph × Option PlugOutcome
  | [], g => (g, none)
  | p :: ps, g =>
    match g.pkgOf p with
    | .error s => (g, some (.panic s))
    | .ok plugD =>
      match plugOne ctx socketInst p (plugExports ctx plugD socketD) g none with
      | (g1, some o) => (g1, some o)
      | (g1, none) => plugAll ctx socketInst socketD ps g1

/-- the re-export loop over the socket's exports -/
def exportSocket (ctx : Ctx) (socketInst : Nat) : List Str → Graph → Graph × Option PlugOutcome
  | [], g => (g, none)
  | name :: rest, g =>
    match aliasInstanceExport ctx g socketInst name with
    | (g1, .ok (.node a)) =>
      match exportNode ctx g1 a name with
      | (g2, .ok _) => exportSocket ctx socketInst rest g2
      | (g2, .err e) => (g2, some (.graphError e))
      | (g2, .panic s) => (g2, some (.panic s))
    | (g1, .err e) => (g1, some (.graphError e))
    | (g1, .panic s) => (g1, some (.panic s))
    | (g1, .ok _) => (g1, some (.panic .invalidNodeId))

/-- `plug(graph, plugs, socket)` -/
def plug (ctx : Ctx) (g : Graph) (plugs : List PkgId) (socket : PkgId) : Graph × PlugOutcome :=
  match g.pkgOf socket with
  | .error s => (g, .panic s)
  | .ok socketD =>
    match instantiate g socket with
    | (g1, .ok (.node si)) =>
      match plugAll ctx si socketD plugs g1 with
      | (g2, some o) => (g2, o)
      | (g2, none) =>
        match getInstantiationArguments g2 si with
        | .error s => (g2, .panic s)
        | .ok [] => (g2, .noPlugHappened)
        | .ok _ =>
          match exportSocket ctx si ((ctx.pkgExports socketD).map (·.1)) g2 with
          | (g3, some o) => (g3, o)
          | (g3, none) => (g3, .ok)
    | (g1, .panic s) => (g1, .panic s)
    | (g1, _) => (g1, .panic .invalidPackageId)

end Wac.Graph
