import WacModel.Graph
import WacModel.Names
import WacModel.Generated.HashSites
/-
  C16: the places where the composition path iterates over a std `HashMap`/`HashSet`
  (`Generated/HashSites.lean`, regenerated from the source by tools/translate_hashsites.py),
  each modelled as a function that takes the iteration order `ρ` of the container as an
  explicit argument.  `ρ` is an arbitrary function on the entry list; the theorems
  (WacProofs/Props/C16.lean) assume only that it permutes the entries.

  A Lean function is deterministic by construction, so making the order a parameter is what
  allows "the result does not depend on hash iteration order" to be stated at all.
-/
namespace Wac.HashSites
open Wac Wac.Graph

/-- graph.rs `unregister_package`: `self.imports.retain(|_, n| keep(n))` -/
def retainWith {κ : Type} (ρ : List (κ × Nat) → List (κ × Nat)) (m : List (κ × Nat)) (keep : κ × Nat → Bool) :
    List (κ × Nat) :=
  (ρ m).filter keep

/-- graph.rs `encode_imports`:
    `for (name, node_index) in explicit_imports { state.node_indexes.insert(node_index, encoded[canonical(name)]) }` -/
def populateNodeIndexes (ρ : List (Str × Nat) → List (Str × Nat)) (explicit : List (Str × Nat))
    (encoded : Str → Nat) (init : List (Nat × Nat)) : List (Nat × Nat) :=
  (ρ explicit).foldl (fun acc e => alInsert acc e.2 (encoded e.1)) init

/-- two names are on one semver track (`alternate_lookup_key` equal) -/
def sameTrack (a b : Str) : Bool :=
  match altKey a, altKey b with
  | some (ka, _), some (kb, _) => ka == kb
  | _, _ => false

/-- aggregator.rs `find_semver_compatible_interface`: the first entry, in hash order, whose
    name is on the track of `name` -/
def findSemverCompatibleInterface (ρ : List (Str × Nat) → List (Str × Nat)) (interfaces : List (Str × Nat))
    (name : Str) : Option Nat :=
  ((ρ interfaces).find? (fun e => sameTrack e.1 name)).map (·.2)

/-- aggregator.rs `aggregate`:
    `for redirect in self.name_redirects.values_mut() { if *redirect == old { *redirect = new } }` -/
def updateRedirects (ρ : List (Str × Str) → List (Str × Str)) (redirects : List (Str × Str)) (old new : Str) :
    List (Str × Str) :=
  (ρ redirects).map (fun e => if e.2 = old then (e.1, new) else e)

/-- site 5 — `resolve_imports` (error path of an explicit import that cannot be merged):
`instantiations.iter().filter(|(k, _)| are_semver_compatible(k, name)).map(|(_, v)| *v).min()
 .unwrap_or(n)`: the smallest node index among the instantiations that left an import on the
track of `name` unsatisfied, `ρ` being the iteration order of the hash map. -/
def firstOnTrack (ρ : List (Str × Nat) → List (Str × Nat)) (insts : List (Str × Nat))
    (onTrack : Str → Bool) (dflt : Nat) : Nat :=
  match ((ρ insts).filter (fun e => onTrack e.1)).map (·.2) with
  | [] => dflt
  | x :: xs => xs.foldl min x

/-- the sites that are modelled above (each has a `site_…_insensitive` theorem) -/
def modelledSites : List Generated.HashSite := [
  ⟨"crates/wac-graph/src/graph.rs", "unregister_package", "self.imports", "retain", 0⟩,
  ⟨"crates/wac-graph/src/graph.rs", "encode_imports", "explicit_imports", "for", 0⟩,
  ⟨"crates/wac-graph/src/graph.rs", "resolve_imports", "instantiations", "iter", 0⟩,
  ⟨"crates/wac-types/src/aggregator.rs", "find_semver_compatible_interface", "self.interfaces", "for", 0⟩,
  ⟨"crates/wac-types/src/aggregator.rs", "aggregate", "self.name_redirects", "values_mut", 0⟩
]

end Wac.HashSites
