import WacModel.EncProto
import WacModel.Spec.EncodeWF
import WacModel.Spec.WiringMatch
import WacModel.Spec.Foreign
/-
  Driver for C02.  Case kind:
    enc <gen> <define 0|1> <graph> <real toposort> <result>
  `result` = `ok <wiring read from the real bytes>` | `err cycle n` | `err implicit name inst imp`
           | `err merge name first second` | `err validation` | `panic` | `unreadable`.

  SPEC  (implementation vs specification): the wiring read from the real bytes, in canonical
        form, must equal the wiring the dumped graph designates (`Spec.specWiring`) for some
        emission order of the non-import nodes (tried: the order the real toposort reports, then
        the order found by matching the instantiate items to instantiation nodes).
  MODEL (implementation vs model): the real toposort must equal the model's; the model
        skeleton's wiring must equal the real one item for item (imports are C03's); error
        variants and the ids they carry must agree (merge conflicts raised for *type* reasons
        are outside the name-level model and are accepted).
-/
namespace Wac.EncJudge
open Wac Wac.Proto Wac.EncProto Wac.Spec

inductive RealRes where
  | ok (w : Wiring)
  | cycle (n : Nat)
  | implicit (name : Str) (inst imp : Nat)
  | merge (name : Str) (first second : Nat)
  | validation
  | panic
  | unreadable

def realRes : P RealRes := do
  let t ← str
  if t == "ok".toList then do
    let w ← wiringP
    pure (.ok w)
  else if t == "err".toList then do
    let k ← str
    if k == "cycle".toList then do let n ← nat; pure (.cycle n)
    else if k == "implicit".toList then do
      let nm ← str; let i ← nat; let m ← nat; pure (.implicit nm i m)
    else if k == "merge".toList then do
      let nm ← str; let a ← nat; let b ← nat; pure (.merge nm a b)
    else if k == "validation".toList then pure .validation
    else fail
  else if t == "panic".toList then pure .panic
  else if t == "unreadable".toList then pure .unreadable
  else fail

def topoP : P (Except Nat (List Nat)) := do
  let t ← str
  if t == "ok".toList then do
    let l ← counted nat
    pure (.ok l)
  else if t == "err".toList then do
    let n ← nat
    pure (.error n)
  else fail

def showTopo : TopoRes → String
  | .ok l => s!"ok{l}"
  | .cycle n => s!"cycle({n})"
  | .fuel => "fuel"

def noImports (w : Wiring) : Wiring := { w with imports := [] }

/-- explicit instance imports whose type is a named interface: `(import name, interface id)` -/
def ifaceImports (g : GraphVal) : List (Str × Str) :=
  g.nodes.filterMap fun n =>
    match n.kind, n.ty.iface with
    | .import nm, some i => if n.ty.kind = .instance ∧ nm ≠ i then some (nm, i) else none
    | _, _ => none

def mergedImports (g : GraphVal) : String :=
  ", ".intercalate ((ifaceImports g).map fun (n, i) => s!"import `{showStr n}` : interface `{showStr i}`")

/-- the semver track of an interface id (the id itself when it has none) -/
def trackRep (i : Str) : Str := match altKey i with | some (k, _) => k | none => i

def collapseTerm (m : List (Str × Str)) : Term → Term
  | .imp n => .imp (trackRep ((amGet m n).getD n))
  | .aliasOf t n => .aliasOf (collapseTerm m t) n
  | .exported n t => .exported n (collapseTerm m t)
  | t => t

/-- identify every explicit import of a named interface with the import of that interface -/
def collapseIface (g : GraphVal) (w : Wiring) : Wiring := mapW (collapseTerm (ifaceImports g)) w

def judgeEnc (define : Bool) (g : GraphVal) (topo : Except Nat (List Nat)) (r : RealRes) : String :=
  let o : Opts := { define := define }
  -- SPEC first
  let spec : Option String :=
    match r, topo with
    | .ok w, .ok ord =>
      let rw := normW w
      -- the emission order: the one the real toposort reports; if the wiring is not the
      -- designated one under it, any other order under which it is (the property does not
      -- fix the order of independent nodes)
      let others0 := ord.filter fun id => !isImportNode g id
      let others :=
        if normW (specWiring g define others0) == rw then others0
        else match findOrder g (canon g) id define w with
          | some o' => if normW (specWiring g define o') == rw then o' else others0
          | none => others0
      let sw := normW (specWiring g define others)
      if sw != rw then
        -- recognise the known shape "explicit import of a named interface realised by the
        -- import of that interface" so that it can be told apart from any other mis-wiring
        let cw := normW (collapseIface g w)
        let ct := collapseTerm (ifaceImports g)
        let kf : Bool :=
          normW (collapseIface g (specWiring g define others)) == cw ||
          (match findOrder g (canon g) ct define w with
           | some o' => normW (collapseIface g (specWiring g define o')) == cw
           | none => false)
        -- recognise the known shape "definition renamed by a later export()": the output is the
        -- designated one of the graph without the stale names of definitions
        let g' := dropRenamedDefs g
        let kfDef : Bool := !(renamedDefExports g).isEmpty &&
          (normW (specWiring g' define others) == rw ||
           (match findOrder g' (canon g') id define w with
            | some o' => normW (specWiring g' define o') == rw
            | none => false))
        if kfDef then
          some ("KF-definition-renamed-by-export: export-map names " ++
            ", ".intercalate ((renamedDefExports g).map fun e => showStr e.1) ++
            " of definitions are not exported :: " ++ diffWiring rw sw "impl" "spec")
        else if kf then
          some ("KF-explicit-interface-import-merged: " ++ mergedImports g ++ " :: " ++ diffWiring rw sw "impl" "spec")
        else some ("wiring differs from the graph: " ++ diffWiring rw sw "impl" "spec")
      else none
    | .ok _, .error n => some s!"encoded although the toposort reports a cycle at {n}"
    | _, _ => none
  match spec with
  | some d => "SPEC\t" ++ d
  | none =>
    -- MODEL
    let mt := toposort g
    let topoOk : Bool := match mt, topo with
      | .ok l, .ok l' => l == l'
      | .cycle n, .error n' => n == n'
      | _, _ => false
    if !topoOk then
      "MODEL\ttoposort model=" ++ showTopo mt ++ " impl=" ++
        (match topo with | .ok l => s!"ok{l}" | .error n => s!"cycle({n})")
    else
      if !wfCheck (dropRenamedDefs g) then "MODEL\tthe dumped graph is not well-formed (WF): satisfied sets / kinds / ids"
      else
      match encode g o, r with
      | .ok sk, .ok w =>
        let mw := noImports (wiring sk)
        let rw := noImports w
        if mw != rw then
          -- The encoder model is claimed faithful (and `wiring_encode_graph` proved) for graph values
          -- satisfying `ForeignSingle`; outside it (an interface that an import provides or depends on
          -- sits on the semver track of another implied version: the known finding
          -- `enc-foreign-named-interface-shadows-implied-import`) the real naming is creation-order
          -- dependent and the model is not tied to it.  The specification monitor above and the
          -- validator oracle still judge such cases; only the model comparison is suspended.
          if foreignSingleCheck g then "MODEL\twiring " ++ diffWiring rw mw "impl" "model"
          else "ok\t0:outside-ForeignSingle"
        else
          -- third field (ignored by the runner): are the hypotheses of `wiring_encode_partial` met?
          let hyp : String := if !wfCheck g then "0:renamed-definition" else match mt with
            | .ok ord => match aggOf g (ord.filter (isImportNode g)) with
              | some agg =>
                if aggOkCheck g agg then "1"
                else if !((fixedImports agg).all (ifaceEntryOk (fixedImports agg)))
                then "0:iface-named" else "0:other"
              | none => "0:no-agg"
            | _ => "0:no-order"
          "ok\thyp=" ++ hyp
      | .error (.cycle n), .cycle n' => if n == n' then "ok" else s!"MODEL\tcycle node model={n} impl={n'}"
      | .error (.implicitConflict nm i m), .implicit nm' i' m' =>
        if nm == nm' && i == i' && m == m' then "ok"
        else s!"MODEL\timplicit conflict model=({showStr nm},{i},{m}) impl=({showStr nm'},{i'},{m'})"
      | .error (.mergeConflict nm a b), .merge nm' a' b' =>
        if nm == nm' && a == a' && b == b' then "ok"
        else s!"MODEL\tmerge conflict model=({showStr nm},{a},{b}) impl=({showStr nm'},{a'},{b'})"
      -- a merge conflict for type reasons: outside the name-level model
      | .ok _, .merge _ _ _ => "ok"
      -- ... also when the model goes on to a later error of its own
      | .error (.implicitConflict _ _ _), .merge _ _ _ => "ok"
      | .ok _, .validation => "MODEL\timpl=ValidationFailure model=ok"
      | .panic _, .panic => "ok"
      | .panic s, _ => s!"MODEL\tmodel panics at {s}, impl does not"
      | _, .panic => "MODEL\timpl panics, model does not"
      | .ok _, _ => "MODEL\tmodel=ok impl=error"
      | .error _, _ => "MODEL\tmodel=error, impl differs"

def judge (fs : List (List Char)) : String :=
  match fs with
  | [k, _gen, define, gf, tf, rf] =>
    if k != "enc".toList then "BAD\tunknown kind"
    else
      match run graph gf, run topoP tf, run realRes rf with
      | some g, some topo, some r => judgeEnc (define == ['1']) g topo r
      | none, _, _ => "BAD\tgraph"
      | _, none, _ => "BAD\ttoposort"
      | _, _, none => "BAD\tresult"
  | _ => "BAD\tfields"


end Wac.EncJudge
