import WacModel.Proto
import WacModel.Parser
/-
  Canonical text form of syntax trees and parse errors, used by the drivers of C12/C13/C14 to
  compare the model with what the harness observed.

  The harness serialises the real AST with `serde_json` (the AST types derive `Serialize`) and
  re-renders the JSON value canonically: object keys sorted, no white space, strings written as
  `"` + protocol escape (`Wac.Proto.escape`) + `"`.  `Document.toJ` builds the same value from the
  model tree, following the `#[serde(...)]` attributes of `ast/*.rs` (camelCase field and variant
  names except `Statement`, `targets` skipped when `None`, `SourceSpan` as
  `{"length":n,"offset":n}`, `semver::Version` as its `Display` string).

  `J.strip` gives the span-free, comment-free form (every span object becomes `null`, the keys
  `docs` and `span` are removed) used for the comparison with the grammar specification.
-/
namespace Wac.Json
open Wac Wac.Ast Wac.Lex Wac.Parse

inductive J where
  | null
  | bool (b : Bool)
  | num (n : Nat)
  | str (s : Str)
  | arr (xs : List J)
  | obj (fields : List (String × J))
deriving Inhabited

def insertField (f : String × J) : List (String × J) → List (String × J)
  | [] => [f]
  | g :: r => if f.1 < g.1 then f :: g :: r else g :: insertField f r

def sortFields (fs : List (String × J)) : List (String × J) := fs.foldl (fun acc f => insertField f acc) []

mutual
def J.render : J → String
  | .null => "null"
  | .bool b => if b then "true" else "false"
  | .num n => toString n
  | .str s => "\"" ++ Wac.Proto.escape s ++ "\""
  | .arr xs => "[" ++ renderList xs ++ "]"
  | .obj fs => "{" ++ renderFields fs ++ "}"
def renderList : List J → String
  | [] => ""
  | [x] => x.render
  | x :: r => x.render ++ "," ++ renderList r
def renderFields : List (String × J) → String
  | [] => ""
  | [(k, v)] => k ++ ":" ++ v.render
  | (k, v) :: r => k ++ ":" ++ v.render ++ "," ++ renderFields r
end

def isSpanObj : List (String × J) → Bool
  | [(a, .num _), (b, .num _)] => (a == "length" && b == "offset") || (a == "offset" && b == "length")
  | _ => false

mutual
/-- span objects become `null`; the keys `docs` and `span` disappear -/
def J.strip : J → J
  | .arr xs => .arr (stripList xs)
  | .obj fs => if isSpanObj fs then .null else .obj (stripFields fs)
  | j => j
def stripList : List J → List J
  | [] => []
  | x :: r => x.strip :: stripList r
def stripFields : List (String × J) → List (String × J)
  | [] => []
  | (k, v) :: r => if k == "docs" || k == "span" then stripFields r else (k, v.strip) :: stripFields r
end

def mkObj (fs : List (String × J)) : J := .obj (sortFields fs)
/-- externally tagged enum variant with a payload -/
def tag (name : String) (v : J) : J := .obj [(name, v)]

def spanJ (s : Span) : J := mkObj [("offset", .num s.offset), ("length", .num s.len)]
def optJ {α} (f : α → J) : Option α → J
  | none => .null
  | some a => f a
def listJ {α} (f : α → J) (xs : List α) : J := .arr (xs.map f)

def natStr (n : Nat) : Str := (toString n).toList

/-- `impl Display for semver::Version` -/
def versionStr (v : Version) : Str :=
  natStr v.major ++ ['.'] ++ natStr v.minor ++ ['.'] ++ natStr v.patch ++
    (if v.pre.isEmpty then [] else '-' :: v.pre) ++ (if v.build.isEmpty then [] else '+' :: v.build)

def identJ (i : Ident) : J := mkObj [("string", .str i.string), ("span", spanJ i.span)]
def stringJ (s : StringLit) : J := mkObj [("value", .str s.value), ("span", spanJ s.span)]
def docJ (d : DocComment) : J := mkObj [("comment", .str d.comment), ("span", spanJ d.span)]
def docsJ (ds : List DocComment) : J := listJ docJ ds
def packageNameJ (p : PackageName) : J :=
  mkObj [("string", .str p.string), ("name", .str p.name),
         ("version", optJ (fun v => .str (versionStr v)) p.version), ("span", spanJ p.span)]
def packagePathJ (p : PackagePath) : J :=
  mkObj [("span", spanJ p.span), ("string", .str p.string), ("name", .str p.name),
         ("segments", .str p.segments), ("version", optJ (fun v => .str (versionStr v)) p.version)]

mutual
def tyJ : Ty → J
  | .U8 s => tag "u8" (spanJ s) | .S8 s => tag "s8" (spanJ s)
  | .U16 s => tag "u16" (spanJ s) | .S16 s => tag "s16" (spanJ s)
  | .U32 s => tag "u32" (spanJ s) | .S32 s => tag "s32" (spanJ s)
  | .U64 s => tag "u64" (spanJ s) | .S64 s => tag "s64" (spanJ s)
  | .F32 s => tag "f32" (spanJ s) | .F64 s => tag "f64" (spanJ s)
  | .Char s => tag "char" (spanJ s) | .Bool s => tag "bool" (spanJ s)
  | .String s => tag "string" (spanJ s)
  | .Tuple ts s => tag "tuple" (.arr [.arr (tysJ ts), spanJ s])
  | .List t s => tag "list" (.arr [tyJ t, spanJ s])
  | .Option t s => tag "option" (.arr [tyJ t, spanJ s])
  | .Result ok err s => tag "result" (mkObj [("ok", tyOptJ ok), ("err", tyOptJ err), ("span", spanJ s)])
  | .Borrow id s => tag "borrow" (.arr [identJ id, spanJ s])
  | .Ident id => tag "ident" (identJ id)
def tysJ : List Ty → List J
  | [] => []
  | t :: r => tyJ t :: tysJ r
def tyOptJ : Option Ty → J
  | none => .null
  | some t => tyJ t
end

def namedTypeJ (n : NamedType) : J := mkObj [("id", identJ n.id), ("ty", tyJ n.ty)]
def resultListJ : ResultList → J
  | .Empty => .str "empty".toList
  | .Scalar t => tag "scalar" (tyJ t)
def funcTypeJ (f : FuncType) : J := mkObj [("params", listJ namedTypeJ f.params), ("results", resultListJ f.results)]
def funcTypeRefJ : FuncTypeRef → J
  | .Func f => tag "func" (funcTypeJ f)
  | .Ident id => tag "ident" (identJ id)
def resourceMethodJ : ResourceMethod → J
  | .Constructor c => tag "constructor" (mkObj [("docs", docsJ c.docs), ("span", spanJ c.span), ("params", listJ namedTypeJ c.params)])
  | .Method m => tag "method" (mkObj [("docs", docsJ m.docs), ("id", identJ m.id), ("isStatic", .bool m.isStatic), ("ty", funcTypeJ m.ty)])
def resourceDeclJ (d : ResourceDecl) : J :=
  mkObj [("docs", docsJ d.docs), ("id", identJ d.id), ("methods", listJ resourceMethodJ d.methods)]
def variantDeclJ (d : VariantDecl) : J :=
  mkObj [("docs", docsJ d.docs), ("id", identJ d.id),
    ("cases", listJ (fun (c : VariantCase) => mkObj [("docs", docsJ c.docs), ("id", identJ c.id), ("ty", optJ tyJ c.ty)]) d.cases)]
def recordDeclJ (d : RecordDecl) : J :=
  mkObj [("docs", docsJ d.docs), ("id", identJ d.id),
    ("fields", listJ (fun (f : Field) => mkObj [("docs", docsJ f.docs), ("id", identJ f.id), ("ty", tyJ f.ty)]) d.fields)]
def flagsDeclJ (d : FlagsDecl) : J :=
  mkObj [("docs", docsJ d.docs), ("id", identJ d.id),
    ("flags", listJ (fun (f : Flag) => mkObj [("docs", docsJ f.docs), ("id", identJ f.id)]) d.flags)]
def enumDeclJ (d : EnumDecl) : J :=
  mkObj [("docs", docsJ d.docs), ("id", identJ d.id),
    ("cases", listJ (fun (c : EnumCase) => mkObj [("docs", docsJ c.docs), ("id", identJ c.id)]) d.cases)]
def typeAliasJ (d : TypeAlias) : J :=
  mkObj [("docs", docsJ d.docs), ("id", identJ d.id),
    ("kind", match d.kind with
      | .Func f => tag "func" (funcTypeJ f)
      | .Type' t => tag "type" (tyJ t))]
def typeDeclJ : TypeDecl → J
  | .Variant d => tag "variant" (variantDeclJ d)
  | .Record d => tag "record" (recordDeclJ d)
  | .Flags d => tag "flags" (flagsDeclJ d)
  | .Enum d => tag "enum" (enumDeclJ d)
  | .Alias d => tag "alias" (typeAliasJ d)
def itemTypeDeclJ : ItemTypeDecl → J
  | .Resource d => tag "resource" (resourceDeclJ d)
  | .Variant d => tag "variant" (variantDeclJ d)
  | .Record d => tag "record" (recordDeclJ d)
  | .Flags d => tag "flags" (flagsDeclJ d)
  | .Enum d => tag "enum" (enumDeclJ d)
  | .Alias d => tag "alias" (typeAliasJ d)
def usePathJ : UsePath → J
  | .Package p => tag "package" (packagePathJ p)
  | .Ident id => tag "ident" (identJ id)
def useJ (u : Use) : J :=
  mkObj [("docs", docsJ u.docs), ("path", usePathJ u.path),
    ("items", listJ (fun (i : UseItem) => mkObj [("id", identJ i.id), ("asId", optJ identJ i.asId)]) u.items)]
def interfaceItemJ : InterfaceItem → J
  | .Use u => tag "use" (useJ u)
  | .Type' d => tag "type" (itemTypeDeclJ d)
  | .Export e => tag "export" (mkObj [("docs", docsJ e.docs), ("id", identJ e.id), ("ty", funcTypeRefJ e.ty)])
def inlineInterfaceJ (i : InlineInterface) : J := mkObj [("items", listJ interfaceItemJ i.items)]
def externTypeJ : ExternType → J
  | .Ident id => tag "ident" (identJ id)
  | .Func f => tag "func" (funcTypeJ f)
  | .Interface i => tag "interface" (inlineInterfaceJ i)
def worldItemPathJ : WorldItemPath → J
  | .Named n => tag "named" (mkObj [("id", identJ n.id), ("ty", externTypeJ n.ty)])
  | .Package p => tag "package" (packagePathJ p)
  | .Ident id => tag "ident" (identJ id)
def worldRefJ : WorldRef → J
  | .Ident id => tag "ident" (identJ id)
  | .Package p => tag "package" (packagePathJ p)
def worldItemJ : WorldItem → J
  | .Use u => tag "use" (useJ u)
  | .Type' d => tag "type" (itemTypeDeclJ d)
  | .Import i => tag "import" (mkObj [("docs", docsJ i.docs), ("path", worldItemPathJ i.path)])
  | .Export e => tag "export" (mkObj [("docs", docsJ e.docs), ("path", worldItemPathJ e.path)])
  | .Include i => tag "include" (mkObj [("docs", docsJ i.docs), ("world", worldRefJ i.world),
      ("with", listJ (fun (w : WorldIncludeItem) => mkObj [("from", identJ w.fromId), ("to", identJ w.toId)]) i.withItems)])
def typeStatementJ : TypeStatement → J
  | .Interface d => tag "interface" (mkObj [("docs", docsJ d.docs), ("id", identJ d.id), ("items", listJ interfaceItemJ d.items)])
  | .World d => tag "world" (mkObj [("docs", docsJ d.docs), ("id", identJ d.id), ("items", listJ worldItemJ d.items)])
  | .Type' d => tag "type" (typeDeclJ d)
def externNameJ : ExternName → J
  | .Ident id => tag "ident" (identJ id)
  | .String s => tag "string" (stringJ s)
def importTypeJ : ImportType → J
  | .Package p => tag "package" (packagePathJ p)
  | .Func f => tag "func" (funcTypeJ f)
  | .Interface i => tag "interface" (inlineInterfaceJ i)
  | .Ident id => tag "ident" (identJ id)
def postfixJ : PostfixExpr → J
  | .Access a => tag "access" (mkObj [("span", spanJ a.span), ("id", identJ a.id)])
  | .NamedAccess a => tag "namedAccess" (mkObj [("span", spanJ a.span), ("string", stringJ a.string)])
def argNameJ : InstantiationArgumentName → J
  | .Ident id => tag "ident" (identJ id)
  | .String s => tag "string" (stringJ s)

mutual
def exprJ : Expr → J
  | .mk span primary post => mkObj [("span", spanJ span), ("primary", primaryJ primary), ("postfix", listJ postfixJ post)]
def primaryJ : PrimaryExpr → J
  | .New (.mk span package args) => tag "new" (mkObj [("span", spanJ span), ("package", packageNameJ package), ("arguments", .arr (argsJ args))])
  | .Nested (.mk span inner) => tag "nested" (mkObj [("span", spanJ span), ("inner", exprJ inner)])
  | .Ident id => tag "ident" (identJ id)
def argsJ : List InstantiationArgument → List J
  | [] => []
  | a :: r => argJ a :: argsJ r
def argJ : InstantiationArgument → J
  | .Inferred id => tag "inferred" (identJ id)
  | .Spread id => tag "spread" (identJ id)
  | .Named (.mk name expr) => tag "named" (mkObj [("name", argNameJ name), ("expr", exprJ expr)])
  | .Fill span => tag "fill" (spanJ span)
end

def exportOptionsJ : ExportOptions → J
  | .None => .str "none".toList
  | .Spread s => tag "spread" (spanJ s)
  | .Rename n => tag "rename" (externNameJ n)

/-- `Statement` has no `rename_all`: variant names stay capitalised -/
def statementJ : Statement → J
  | .Import s => tag "Import" (mkObj [("docs", docsJ s.docs), ("id", identJ s.id), ("name", optJ externNameJ s.name), ("ty", importTypeJ s.ty)])
  | .Type' s => tag "Type" (typeStatementJ s)
  | .Let s => tag "Let" (mkObj [("docs", docsJ s.docs), ("id", identJ s.id), ("expr", exprJ s.expr)])
  | .Export s => tag "Export" (mkObj [("docs", docsJ s.docs), ("expr", exprJ s.expr), ("options", exportOptionsJ s.options)])

def directiveJ (d : PackageDirective) : J :=
  mkObj ([("package", packageNameJ d.package)] ++
    (match d.targets with
     | some t => [("targets", packagePathJ t)]
     | none => []))

def documentJ (d : Document) : J :=
  mkObj [("docs", docsJ d.docs), ("directive", directiveJ d.directive), ("statements", listJ statementJ d.statements)]

/-! ### errors -/

def tokStr (t : Token) : String := t.name
def foundStr : Option Token → String
  | none => "none"
  | some t => t.name

def lexErrStr : LexError → String
  | .UnexpectedToken => "UnexpectedToken"
  | .UnterminatedString => "UnterminatedString"
  | .UnterminatedComment => "UnterminatedComment"
  | .DisallowedBidirectionalOverride c => s!"DisallowedBidirectionalOverride:{c.toNat}"
  | .DiscouragedUnicodeCodepoint c => s!"DiscouragedUnicodeCodepoint:{c.toNat}"
  | .DisallowedControlCode c => s!"DisallowedControlCode:{c.toNat}"
  | .NestingTooDeep => "NestingTooDeep"

def spanStr (s : Span) : String := s!"{s.offset}|{s.len}"

def errorStr : ParseError → String
  | .Lexer e s => s!"Lexer|{lexErrStr e}|{spanStr s}"
  | .Expected e f s => s!"Expected|{tokStr e}|{foundStr f}|{spanStr s}"
  | .ExpectedEither a b f s => s!"ExpectedEither|{tokStr a}|{tokStr b}|{foundStr f}|{spanStr s}"
  | .ExpectedMultiple es n f s => s!"ExpectedMultiple|{",".intercalate (es.map tokStr)}|{n}|{foundStr f}|{spanStr s}"
  | .EmptyType ty kind s => s!"EmptyType|{ty}|{kind}|{spanStr s}"
  | .InvalidVersion v s => s!"InvalidVersion|{Wac.Proto.escape v}|{spanStr s}"
  | .Panic site => s!"Panic|{site}"
  | .OutOfFuel => "OutOfFuel"

/-- the span carried by a diagnostic -/
def errorSpan : ParseError → Option Span
  | .Lexer _ s | .Expected _ _ s | .ExpectedEither _ _ _ s | .ExpectedMultiple _ _ _ s
  | .EmptyType _ _ s | .InvalidVersion _ s => some s
  | _ => none

end Wac.Json
