import WacModel.Tree
/-
  Model of `crates/wac-types/src/checker.rs` (`SubtypeChecker`), function for function, with the
  memo (`cache`) and the variance stack (`kinds`).  Error *messages* are modelled too (the text of
  `format!("{:#}", err)`: contexts joined by ": "), because the variance stack only ever selects
  wording — that is a theorem (`variance_only_messages`) and the C11 check observes it.

  Ids: an id of the Rust code is (arena id, index).  Here an `ItemKind` carries indices only and
  the collection it belongs to is passed next to it; `a == b` on ids is
  `at.uid == bt.uid && index equal`.  Loops over `IndexMap`s are structural recursions over the
  association lists; the recursion through ids is fuelled (`none` of a lookup = the Rust code
  would panic on an out-of-bounds index: `R.panic`).
-/
namespace Wac

/-- `SubtypeCheck` -/
inductive Variance
  | covariant
  | contravariant
deriving DecidableEq, Repr, Inhabited

/-- result of a check: `Ok(())`, `Err(msg)` or a panic -/
inductive R
  | ok
  | err (msg : String)
  | panic (site : String)
deriving DecidableEq, Repr, Inhabited

def R.isOk : R → Bool
  | .ok => true
  | _ => false

/-- `.with_context(|| c)` / `.context(c)` -/
def R.ctx (r : R) (c : String) : R :=
  match r with
  | .err m => .err (c ++ ": " ++ m)
  | r => r

/-- a memo key: `(ItemKind, ItemKind)` in Rust, where ids carry their arena id.  Kinds without
an id (primitive values / primitive value types) are collection-independent: uid 0. -/
def ItemKind.hasId : ItemKind → Bool
  | .value (.prim _) => false
  | .type (.value (.prim _)) => false
  | _ => true

structure GKind where
  uid : Nat
  kind : ItemKind
deriving DecidableEq, Repr, Inhabited

def GKind.mk' (t : Types) (k : ItemKind) : GKind := ⟨if k.hasId then t.uid else 0, k⟩

/-- `SubtypeChecker` -/
structure Checker where
  kinds : List Variance := []
  cache : List (GKind × GKind) := []
deriving Repr, Inhabited

/-- `SubtypeChecker::kind` -/
def Checker.kind (c : Checker) : Variance := c.kinds.getLast?.getD .covariant

def Variance.flip : Variance → Variance
  | .covariant => .contravariant
  | .contravariant => .covariant

/-- `SubtypeChecker::invert`; returns the previous kind -/
def Checker.invert (c : Checker) : Variance × Checker :=
  (c.kind, { c with kinds := c.kinds ++ [c.kind.flip] })

/-- `SubtypeChecker::revert` (`expect("mismatched stack")`: `none` = panic) -/
def Checker.revert (c : Checker) : Option Checker :=
  if c.kinds.isEmpty then none else some { c with kinds := c.kinds.dropLast }

/-- `expected_found`: covariant ⇒ (b, a); contravariant ⇒ (a, b) -/
def expFound {α : Type} (v : Variance) (a b : α) : α × α :=
  match v with
  | .covariant => (b, a)
  | .contravariant => (a, b)

/-! ### descriptions (`desc`) and `Display` impls used in messages -/

def Prim.desc : Prim → String
  | .u8 => "u8" | .s8 => "s8" | .u16 => "u16" | .s16 => "s16" | .u32 => "u32" | .s32 => "s32"
  | .u64 => "u64" | .s64 => "s64" | .f32 => "f32" | .f64 => "f64" | .char => "char"
  | .bool => "bool" | .string => "string" | .errorContext => "error-context"

/-- `ValueType::desc` / `DefinedType::desc` (recursive through aliases: fuelled) -/
def Types.descVT (t : Types) : Nat → ValueType → String
  | _, .prim p => p.desc
  | _, .borrow _ => "borrow"
  | _, .own _ => "own"
  | 0, .defined _ => "?"
  | fuel + 1, .defined d =>
    match t.defined[d]? with
    | none => "?"
    | some (.tuple _) => "tuple"
    | some (.list _) => "list"
    | some (.fixedSizeList _ _) => "list<,N>"
    | some (.option _) => "option"
    | some (.result _ _) => "result"
    | some (.variant _) => "variant"
    | some (.record _) => "record"
    | some (.flags _) => "flags"
    | some (.enum _) => "enum"
    | some (.alias a) => t.descVT fuel a
    | some (.stream _) => "stream"
    | some (.future _) => "future"

def Types.descValue (t : Types) (v : ValueType) : String := t.descVT (t.defined.length + 1) v

/-- `Type::desc` -/
def Types.descTy (t : Types) : Ty → String
  | .resource _ => "resource"
  | .func _ => "function type"
  | .value v => t.descValue v
  | .interface _ => "interface"
  | .world _ => "world"
  | .module _ => "module type"

/-- `ItemKind::desc` -/
def Types.descKind (t : Types) : ItemKind → String
  | .func _ => "function"
  | .type ty => t.descTy ty
  | .instance _ => "instance"
  | .component _ => "component"
  | .module _ => "module"
  | .value _ => "value"

def HeapType.name : HeapType → String
  | .concrete _ => "" | .func => "func" | .extern => "extern" | .any => "any" | .none => "none"
  | .noExtern => "noextern" | .noFunc => "nofunc" | .eq => "eq" | .struct => "struct"
  | .array => "array" | .i31 => "i31" | .exn => "exn" | .noExn => "noexn" | .cont => "cont"
  | .noCont => "nocont"

/-- `impl Display for CoreRefType` -/
def CoreRefType.show (r : CoreRefType) : String :=
  match r.nullable, r.heap with
  | true, .concrete i => s!"(ref null {i})"
  | false, .concrete i => s!"(ref {i})"
  | true, .func => "funcref"
  | true, .extern => "externref"
  | true, .any => "anyref"
  | true, .none => "nullref"
  | true, .noExtern => "nullexternref"
  | true, .noFunc => "nullfuncref"
  | true, .eq => "eqref"
  | true, .struct => "structref"
  | true, .array => "arrayref"
  | true, .i31 => "i31ref"
  | true, .exn => "exnref"
  | true, .noExn => "nullexnref"
  | true, .cont => "contref"
  | true, .noCont => "nullcontref"
  | false, h => "(ref " ++ h.name ++ ")"

/-- `impl Display for CoreType` -/
def CoreType.show : CoreType → String
  | .i32 => "i32" | .i64 => "i64" | .f32 => "f32" | .f64 => "f64" | .v128 => "v128"
  | .ref r => r.show

/-- `impl Display for CoreFuncType` -/
def CoreFuncType.show (f : CoreFuncType) : String :=
  "[" ++ ", ".intercalate (f.params.map CoreType.show) ++ "] -> [" ++
    ", ".intercalate (f.results.map CoreType.show) ++ "]"

/-- `impl Display for CoreExtern` -/
def CoreExtern.show : CoreExtern → String
  | .func _ => "function"
  | .table .. => "table"
  | .memory .. => "memory"
  | .global .. => "global"
  | .tag _ => "tag"

def mismatch (v : Variance) (da db : String) : R :=
  let (e, f) := expFound v da db
  .err s!"expected {e}, found {f}"

/-! ### the `&self` part: resources, values, defined types, functions, core externs -/

/-- `SubtypeChecker::resource` -/
def checkResource (v : Variance) (at_ : Types) (a : Nat) (bt : Types) (b : Nat) : R :=
  if at_.uid == bt.uid && a == b then .ok
  else
    match at_.resolveResource (at_.resources.length + 1) a, bt.resolveResource (bt.resources.length + 1) b with
    | some ra, some rb =>
      match at_.resources[ra]?, bt.resources[rb]? with
      | some x, some y =>
        if x.name != y.name then
          let (e, f) := expFound v x.name y.name
          .err s!"expected resource `{String.ofList e}`, found resource `{String.ofList f}`"
        else .ok
      | _, _ => .panic "resource index"
    | _, _ => .panic "resource index"

/-- `SubtypeChecker::primitive` -/
def checkPrimitive (v : Variance) (a b : Prim) : R :=
  if a != b then mismatch v a.desc b.desc else .ok

/-- `SubtypeChecker::payload` (stream / future) -/
def checkPayload (f : ValueType → ValueType → R) : Option ValueType → Option ValueType → R
  | some a, some b => f a b
  | none, none => .ok
  | some _, none => .err "expected a type payload, found none"
  | none, some _ => .err "expected no type payload, found one"

/-- `SubtypeChecker::result` (one arm of a `result` type) -/
def checkResultArm (v : Variance) (f : ValueType → ValueType → R) (desc : String) :
    Option ValueType → Option ValueType → R
  | none, none => .ok
  | some a, some b => (f a b).ctx s!"mismatched type for result `{desc}`"
  | a, b =>
    let (e, _) := expFound v a b
    match e with
    | some _ => .err s!"expected an `{desc}` for result type"
    | none => .err s!"expected no `{desc}` for result type"

/-- the zip loop of `SubtypeChecker::tuple` -/
def checkTupleItems (f : ValueType → ValueType → R) : Nat → List ValueType → List ValueType → R
  | i, a :: as, b :: bs =>
    match (f a b).ctx s!"mismatched type for tuple item {i}" with
    | .ok => checkTupleItems f (i + 1) as bs
    | r => r
  | _, _, _ => .ok

/-- `SubtypeChecker::tuple` -/
def checkTuple (v : Variance) (f : ValueType → ValueType → R) (a b : List ValueType) : R :=
  if a.length != b.length then
    let (e, g) := expFound v a.length b.length
    .err s!"expected a tuple of size {e}, found a tuple of size {g}"
  else checkTupleItems f 0 a b

/-- the zip loop of `SubtypeChecker::record` -/
def checkRecordFields (v : Variance) (f : ValueType → ValueType → R) :
    Nat → List (Str × ValueType) → List (Str × ValueType) → R
  | i, (an, a) :: as, (bn, b) :: bs =>
    if an != bn then
      let (e, g) := expFound v an bn
      .err s!"expected record field {i} to be named `{String.ofList e}`, found a field named `{String.ofList g}`"
    else
      match (f a b).ctx s!"mismatched type for record field `{String.ofList bn}`" with
      | .ok => checkRecordFields v f (i + 1) as bs
      | r => r
  | _, _, _ => .ok

/-- `SubtypeChecker::record` -/
def checkRecord (v : Variance) (f : ValueType → ValueType → R) (a b : List (Str × ValueType)) : R :=
  if a.length != b.length then
    let (e, g) := expFound v a.length b.length
    .err s!"expected a record field count of {e}, found a count of {g}"
  else checkRecordFields v f 0 a b

/-- the zip loop of `SubtypeChecker::variant` -/
def checkVariantCases (v : Variance) (f : ValueType → ValueType → R) :
    Nat → List (Str × Option ValueType) → List (Str × Option ValueType) → R
  | i, (an, a) :: as, (bn, b) :: bs =>
    if an != bn then
      let (e, g) := expFound v an bn
      .err s!"expected variant case {i} to be named `{String.ofList e}`, found a case named `{String.ofList g}`"
    else
      let r : R :=
        match a, b with
        | none, none => .ok
        | some a, some b => (f a b).ctx s!"mismatched type for variant case `{String.ofList bn}`"
        | a, b =>
          let (e, _) := expFound v a b
          match e with
          | none => .err s!"expected variant case `{String.ofList bn}` to be untyped, found a typed case"
          | some _ => .err s!"expected variant case `{String.ofList bn}` to be typed, found an untyped case"
      match r with
      | .ok => checkVariantCases v f (i + 1) as bs
      | r => r
  | _, _, _ => .ok

/-- `SubtypeChecker::variant` -/
def checkVariant (v : Variance) (f : ValueType → ValueType → R) (a b : List (Str × Option ValueType)) : R :=
  if a.length != b.length then
    let (e, g) := expFound v a.length b.length
    .err s!"expected a variant case count of {e}, found a count of {g}"
  else checkVariantCases v f 0 a b

/-- first index at which two name lists differ (`zip … enumerate … find`) -/
def firstDiff : Nat → List Str → List Str → Option (Nat × Str × Str)
  | i, a :: as, b :: bs => if a != b then some (i, a, b) else firstDiff (i + 1) as bs
  | _, _, _ => none

/-- `SubtypeChecker::flags` -/
def checkFlags (v : Variance) (a b : List Str) : R :=
  if a.length != b.length then
    let (e, g) := expFound v a.length b.length
    .err s!"expected a flags type flag count of {e}, found a count of {g}"
  else
    match firstDiff 0 a b with
    | some (i, x, y) =>
      let (e, g) := expFound v x y
      .err s!"expected flag {i} to be named `{String.ofList e}`, found a flag named `{String.ofList g}`"
    | none => .ok

/-- `SubtypeChecker::enum_type` -/
def checkEnum (v : Variance) (a b : List Str) : R :=
  if a.length != b.length then
    let (e, g) := expFound v a.length b.length
    .err s!"expected an enum type case count of {e}, found a count of {g}"
  else
    match firstDiff 0 a b with
    | some (i, x, y) =>
      let (e, g) := expFound v x y
      .err s!"expected enum case {i} to be named `{String.ofList e}`, found an enum case named `{String.ofList g}`"
    | none => .ok

def DefinedType.descTop : DefinedType → String
  | .tuple _ => "tuple" | .list _ => "list" | .fixedSizeList _ _ => "list<,N>" | .option _ => "option"
  | .result _ _ => "result" | .variant _ => "variant" | .record _ => "record" | .flags _ => "flags"
  | .enum _ => "enum" | .alias _ => "alias" | .stream _ => "stream" | .future _ => "future"

/-- the constructor dispatch of `SubtypeChecker::defined_type` (after the id shortcut);
`rec_` is `value_type` on the component types -/
def checkDefined (v : Variance) (rec_ : ValueType → ValueType → R) : DefinedType → DefinedType → R
  | .tuple a, .tuple b => checkTuple v rec_ a b
  | .list a, .list b => (rec_ a b).ctx "mismatched type for list element"
  | .fixedSizeList a n, .fixedSizeList b m =>
    if n != m then .err "mismatched size for fixed size list element"
    else (rec_ a b).ctx "mismatched type for fixed size list element"
  | .future a, .future b => (checkPayload rec_ a b).ctx "mismatched type for future payload"
  | .stream a, .stream b => (checkPayload rec_ a b).ctx "mismatched type for stream payload"
  | .option a, .option b => (rec_ a b).ctx "mismatched type for option"
  | .result aok aerr, .result bok berr =>
    match checkResultArm v rec_ "ok" aok bok with
    | .ok => checkResultArm v rec_ "err" aerr berr
    | r => r
  | .variant a, .variant b => checkVariant v rec_ a b
  | .record a, .record b => checkRecord v rec_ a b
  | .flags a, .flags b => checkFlags v a b
  | .enum a, .enum b => checkEnum v a b
  | .alias _, _ => .panic "aliases should have been resolved"
  | _, .alias _ => .panic "aliases should have been resolved"
  | x, y => mismatch v x.descTop y.descTop

/-- `SubtypeChecker::value_type` and `defined_type`.  One fuel parameter bounds both the
`resolve_value_type` loop and the recursion through defined-type ids (one unit per dereference). -/
def checkValueType (v : Variance) (at_ bt : Types) : Nat → ValueType → ValueType → R
  | 0, _, _ => .panic "fuel"
  | fuel + 1, a, b =>
    match at_.resolveValueType (fuel + 1) a, bt.resolveValueType (fuel + 1) b with
    | some a, some b =>
      match a, b with
      | .prim a, .prim b => checkPrimitive v a b
      | .borrow a, .borrow b => checkResource v at_ a bt b
      | .own a, .own b => checkResource v at_ a bt b
      | .defined da, .defined db =>
        -- defined_type
        if at_.uid == bt.uid && da == db then .ok
        else
          match at_.defined[da]?, bt.defined[db]? with
          | some x, some y => checkDefined v (checkValueType v at_ bt fuel) x y
          | _, _ => .panic "defined type index"
      | a, b => mismatch v (at_.descValue a) (bt.descValue b)
    | _, _ => .panic "resolve_value_type"

/-- the zip loop over parameters of `SubtypeChecker::func` -/
def checkParams (v : Variance) (f : ValueType → ValueType → R) :
    Nat → List (Str × ValueType) → List (Str × ValueType) → R
  | i, (an, a) :: as, (bn, b) :: bs =>
    if an != bn then
      let (e, g) := expFound v an bn
      .err s!"expected function parameter {i} to be named `{String.ofList e}`, found name `{String.ofList g}`"
    else
      match (f a b).ctx s!"mismatched type for function parameter `{String.ofList bn}`" with
      | .ok => checkParams v f (i + 1) as bs
      | r => r
  | _, _, _ => .ok

/-- `SubtypeChecker::func` -/
def checkFunc (v : Variance) (fuel : Nat) (at_ : Types) (a : Nat) (bt : Types) (b : Nat) : R :=
  if at_.uid == bt.uid && a == b then .ok
  else
    match at_.funcs[a]?, bt.funcs[b]? with
    | some fa, some fb =>
      if fa.isAsync != fb.isAsync then
        let (e, g) := expFound v fa.isAsync fb.isAsync
        let w (x : Bool) := if x then "async" else "sync"
        .err s!"expected {w e} function, found {w g} function"
      else if fa.params.length != fb.params.length then
        let (e, g) := expFound v fa.params.length fb.params.length
        .err s!"expected function with parameter count {e}, found parameter count {g}"
      else
        match checkParams v (checkValueType v at_ bt fuel) 0 fa.params fb.params with
        | .ok =>
          match fa.result, fb.result with
          | none, none => .ok
          | some ra, some rb => (checkValueType v at_ bt fuel ra rb).ctx "mismatched type for function result"
          | ra, rb =>
            let (e, _) := expFound v ra rb
            match e with
            | some _ => .err "expected function with a result, found function without a result"
            | none => .err "expected function without a result, found function with a result"
        | r => r
    | _, _ => .panic "func index"

/-- `limits_match!` -/
def limitsMatchImpl (ai : Nat) (am : Option Nat) (bi : Nat) (bm : Option Nat) : Bool :=
  decide (ai ≥ bi) &&
    match am, bm with
    | some am, some bm => decide (am ≤ bm)
    | none, some _ => false
    | _, _ => true

/-- `SubtypeChecker::core_func` -/
def checkCoreFunc (v : Variance) (a b : CoreFuncType) : R :=
  if a != b then mismatch v a.show b.show else .ok

/-- `SubtypeChecker::core_extern` -/
def checkCoreExtern (v : Variance) (a b : CoreExtern) : R :=
  match a, b with
  | .func a, .func b => checkCoreFunc v a b
  | .table ae ai am a64 ash, .table be bi bm b64 bsh =>
    if ae != be then
      let (e, g) := expFound v ae be
      .err s!"expected table element type {e.show}, found {g.show}"
    else if !limitsMatchImpl ai am bi bm then .err "mismatched table limits"
    else if a64 != b64 then .err "mismatched table64 flag for tables"
    else if ash != bsh then .err "mismatched shared flag for tables"
    else .ok
  | .memory a64 ash ai am ap, .memory b64 bsh bi bm bp =>
    if ash != bsh then .err "mismatched shared flag for memories"
    else if a64 != b64 then .err "mismatched memory64 flag for memories"
    else if !limitsMatchImpl ai am bi bm then .err "mismatched memory limits"
    else if ap.getD 16 != bp.getD 16 then .err "mismatched page_size_log2 for memories"
    else .ok
  | .global avt am ash, .global bvt bm bsh =>
    if am != bm then .err "mismatched mutable flag for globals"
    else if avt != bvt then
      let (e, g) := expFound v avt bvt
      .err s!"expected global type {e.show}, found {g.show}"
    else if ash != bsh then .err "mismatched shared flag for globals"
    else .ok
  | .tag a, .tag b => checkCoreFunc v a b
  | a, b => mismatch v a.show b.show

/-! ### the `&mut self` part -/

/-- the import loop of `SubtypeChecker::module` (after `invert`; `prev` = kind before it) -/
def moduleImports (prev cur : Variance) (bImports : List ((Str × Str) × CoreExtern)) :
    List ((Str × Str) × CoreExtern) → R
  | [] => .ok
  | (k, a) :: rest =>
    match alGet bImports k with
    | some b =>
      match (checkCoreExtern cur b a).ctx s!"mismatched type for import `{String.ofList k.1}::{String.ofList k.2}`" with
      | .ok => moduleImports prev cur bImports rest
      | r => r
    | none =>
      match prev with
      | .covariant => .err s!"module is missing expected {a.show} import `{String.ofList k.1}::{String.ofList k.2}`"
      | .contravariant => .err s!"module has unexpected {a.show} import `{String.ofList k.1}::{String.ofList k.2}`"

/-- the export loop of `SubtypeChecker::module` (`kinds.push(Covariant)` around `core_extern`) -/
def moduleExports (cur : Variance) (aExports : List (Str × CoreExtern)) : List (Str × CoreExtern) → R
  | [] => .ok
  | (k, b) :: rest =>
    match alGet aExports k with
    | some a =>
      match (checkCoreExtern .covariant a b).ctx s!"mismatched type for export `{String.ofList k}`" with
      | .ok => moduleExports cur aExports rest
      | r => r
    | none =>
      match cur with
      | .covariant => .err s!"module is missing expected {b.show} export `{String.ofList k}`"
      | .contravariant => .err s!"module has unexpected {b.show} export `{String.ofList k}`"

/-- `SubtypeChecker::module`; an error inside the import loop returns with the stack still inverted -/
def checkModule (c : Checker) (at_ : Types) (a : Nat) (bt : Types) (b : Nat) : R × Checker :=
  if at_.uid == bt.uid && a == b then (.ok, c)
  else
    match at_.modules[a]?, bt.modules[b]? with
    | some ma, some mb =>
      let (prev, c1) := c.invert
      match moduleImports prev c1.kind mb.imports ma.imports with
      | .ok =>
        match c1.revert with
        | none => (.panic "mismatched stack", c1)
        | some c2 => (moduleExports c2.kind ma.exports mb.exports, c2)
      | r => (r, c1)
    | _, _ => (.panic "module index", c)

/-- `SubtypeChecker::instance_exports`: for each export of `b` in order -/
def instanceExports (f : Checker → ItemKind → ItemKind → R × Checker) (bt : Types)
    (aExports : List (Str × ItemKind)) : Checker → List (Str × ItemKind) → R × Checker
  | c, [] => (.ok, c)
  | c, (k, b) :: rest =>
    match alGet aExports k with
    | some a =>
      match f c a b with
      | (.ok, c') => instanceExports f bt aExports c' rest
      | (r, c') => (r.ctx s!"mismatched type for export `{String.ofList k}`", c')
    | none =>
      match c.kind with
      | .covariant => (.err s!"instance is missing expected {bt.descKind b} export `{String.ofList k}`", c)
      | .contravariant => (.err s!"instance has unexpected {bt.descKind b} export `{String.ofList k}`", c)

/-- the import loop of `SubtypeChecker::world`: for each import of `a`, `b`'s import of that
name must be a subtype of it (`g c b a` runs `is_subtype(b, bt, a, at)`) -/
def worldImports (g : Checker → ItemKind → ItemKind → R × Checker) (at_ : Types) (prev : Variance)
    (bImports : List (Str × ItemKind)) : Checker → List (Str × ItemKind) → R × Checker
  | c, [] => (.ok, c)
  | c, (k, a) :: rest =>
    match alGet bImports k with
    | some b =>
      match g c b a with
      | (.ok, c') => worldImports g at_ prev bImports c' rest
      | (r, c') => (r.ctx s!"mismatched type for import `{String.ofList k}`", c')
    | none =>
      match prev with
      | .covariant => (.err s!"component is missing expected {at_.descKind a} import `{String.ofList k}`", c)
      | .contravariant => (.err s!"component has unexpected import {at_.descKind a} `{String.ofList k}`", c)

/-- the export loop of `SubtypeChecker::world` -/
def worldExports (f : Checker → ItemKind → ItemKind → R × Checker) (bt : Types)
    (aExports : List (Str × ItemKind)) : Checker → List (Str × ItemKind) → R × Checker
  | c, [] => (.ok, c)
  | c, (k, b) :: rest =>
    match alGet aExports k with
    | some a =>
      match f c a b with
      | (.ok, c') => worldExports f bt aExports c' rest
      | (r, c') => (r.ctx s!"mismatched type for export `{String.ofList k}`", c')
    | none =>
      match c.kind with
      | .covariant => (.err s!"component is missing expected {bt.descKind b} export `{String.ofList k}`", c)
      | .contravariant => (.err s!"component has unexpected {bt.descKind b} export `{String.ofList k}`", c)

/-- `SubtypeChecker::interface`; `fwd c x y` runs `is_subtype(x, at, y, bt)` -/
def checkInterface (fwd : Checker → ItemKind → ItemKind → R × Checker) (c : Checker)
    (at_ : Types) (ia : Nat) (bt : Types) (ib : Nat) : R × Checker :=
  if at_.uid == bt.uid && ia == ib then (.ok, c)
  else
    match at_.interfaces[ia]?, bt.interfaces[ib]? with
    | some x, some y => instanceExports fwd bt x.exports c y.exports
    | _, _ => (.panic "interface index", c)

/-- `SubtypeChecker::world` (no id shortcut); `bwd c y x` runs `is_subtype(y, bt, x, at)`.
An error inside the import loop returns with the variance stack still inverted. -/
def checkWorld (fwd bwd : Checker → ItemKind → ItemKind → R × Checker) (c : Checker)
    (at_ : Types) (wa : Nat) (bt : Types) (wb : Nat) : R × Checker :=
  match at_.worlds[wa]?, bt.worlds[wb]? with
  | some x, some y =>
    let (prev, c1) := c.invert
    match worldImports bwd at_ prev y.imports c1 x.imports with
    | (.ok, c2) =>
      match c2.revert with
      | none => (.panic "mismatched stack", c2)
      | some c3 => worldExports fwd bt x.exports c3 y.exports
    | r => r
  | _, _ => (.panic "world index", c)

/-- `SubtypeChecker::is_subtype_` and `ty`: dispatch on the two kinds; `fuel` bounds the value level -/
def isSubtypeInner (fwd bwd : Checker → ItemKind → ItemKind → R × Checker) (fuel : Nat) (c : Checker)
    (at_ : Types) (a : ItemKind) (bt : Types) (b : ItemKind) : R × Checker :=
  let v := c.kind
  match a, b with
  | .type ta, .type tb =>
    match ta, tb with
    | .resource ra, .resource rb => (checkResource v at_ ra bt rb, c)
    | .func fa, .func fb => (checkFunc v fuel at_ fa bt fb, c)
    | .value va, .value vb => (checkValueType v at_ bt fuel va vb, c)
    | .interface ia, .interface ib => checkInterface fwd c at_ ia bt ib
    | .world wa, .world wb => checkWorld fwd bwd c at_ wa bt wb
    | .module ma, .module mb => checkModule c at_ ma bt mb
    | ta, tb => (mismatch v (at_.descTy ta) (bt.descTy tb), c)
  | .func fa, .func fb => (checkFunc v fuel at_ fa bt fb, c)
  | .instance ia, .instance ib => checkInterface fwd c at_ ia bt ib
  | .component wa, .component wb => checkWorld fwd bwd c at_ wa bt wb
  | .module ma, .module mb => checkModule c at_ ma bt mb
  | .value va, .value vb => (checkValueType v at_ bt fuel va vb, c)
  | a, b => (mismatch v (at_.descKind a) (bt.descKind b), c)

/-- `SubtypeChecker::is_subtype`: memo lookup, `is_subtype_`, memo insert on success.
`isSubtype fuel c at a bt b`; one unit of fuel per nesting level of item kinds. -/
def isSubtype : Nat → Checker → Types → ItemKind → Types → ItemKind → R × Checker
  | 0, c, _, _, _, _ => (.panic "fuel", c)
  | fuel + 1, c, at_, a, bt, b =>
    let key := (GKind.mk' at_ a, GKind.mk' bt b)
    if c.cache.contains key then (.ok, c)
    else
      match isSubtypeInner (fun c x y => isSubtype fuel c at_ x bt y) (fun c y x => isSubtype fuel c bt y at_ x)
          fuel c at_ a bt b with
      | (.ok, c') => (.ok, { c' with cache := key :: c'.cache })
      | r => r

/-- fuel that suffices for acyclic collections -/
def checkFuel (at_ bt : Types) : Nat := at_.fuel + bt.fuel

/-- a check with a fresh checker (as `set_instantiation_argument` / `plug` / `validate_target` do
with an empty cache) -/
def checkFresh (at_ : Types) (a : ItemKind) (bt : Types) (b : ItemKind) : R :=
  (isSubtype (checkFuel at_ bt) {} at_ a bt b).1

end Wac
