import WacModel.Proto
import WacModel.Spec.Graph
/-
  Reading the graph-family protocol (C06, C16, C10): the static context, operations, results
  and the observation after a step, as written by harness/src/graph_util.rs.

  A case is a flat token stream; structure is given by counts.
-/
namespace Wac.GraphProto
open Wac Wac.Graph

abbrev Tok := List Char
abbrev P := StateT (List Tok) Option

def tok : P Tok := fun s => match s with
  | [] => none
  | t :: r => some (t, r)

def natOfTok (t : Tok) : Option Nat :=
  if t.isEmpty then none
  else if t.all Char.isDigit then some (t.foldl (fun a c => 10 * a + (c.toNat - '0'.toNat)) 0) else none

def nat : P Nat := do
  let t ← tok
  match natOfTok t with
  | some n => pure n
  | none => failure

/-- a number or `-1` (= none) -/
def optNat : P (Option Nat) := do
  let t ← tok
  match t with
  | '-' :: _ => pure none
  | _ => match natOfTok t with
    | some n => pure (some n)
    | none => failure

def many {α} (p : P α) : Nat → P (List α)
  | 0 => pure []
  | n + 1 => do
    let a ← p
    let r ← many p n
    pure (a :: r)

def counted {α} (p : P α) : P (List α) := do
  let n ← nat
  many p n

/-- the tables of the static context -/
structure Tables where
  names : Array (Str × Bool × Bool)
  kinds : Array (Option (List (Str × Kind)))
  sub   : Array (Array Bool)
  types : Array (Bool × Kind × List Ty)
  pkgs  : Array PkgDef
  /-- `Ctx.exportRenamesDefinition`, probed from the implementation -/
  renames : Bool

def Tables.name (t : Tables) (i : Nat) : Str := (t.names[i]?.map (·.1)).getD ['?']

def Tables.nameIx (t : Tables) (s : Str) : Option Nat :=
  (t.names.toList.zipIdx.find? (fun p => p.1.1 == s)).map (·.2)

def Tables.ctx (t : Tables) : Ctx where
  kindExports k := (t.kinds[k]?).join
  sub a b := ((t.sub[a]?).bind (·[b]?)).getD false
  tyVisits ty := (t.types[ty]?.map (·.2.2)).getD []
  tyIsResource ty := (t.types[ty]?.map (·.1)).getD false
  tyKind ty := (t.types[ty]?.map (·.2.1)).getD 0
  validExtern s := ((t.names.toList.find? (fun p => p.1 == s)).map (·.2.1)).getD false
  validExport s := ((t.names.toList.find? (fun p => p.1 == s)).map (·.2.2)).getD false
  exportRenamesDefinition := t.renames

def pTables : P Tables := do
  let names ← counted (do
    let n ← tok
    let a ← nat
    let b ← nat
    pure (n, a == 1, b == 1))
  let names := names.toArray
  let nm (i : Nat) : Str := (names[i]?.map (·.1)).getD ['?']
  let kinds ← counted (do
    let n ← optNat
    match n with
    | none => pure none
    | some n =>
      let ex ← many (do
        let a ← nat
        let k ← nat
        pure (nm a, k)) n
      pure (some ex))
  let sub ← many (do
    let t ← tok
    pure (t.map (· == '1')).toArray) kinds.length
  let types ← counted (do
    let r ← nat
    let k ← nat
    let vs ← counted nat
    pure (r == 1, k, vs))
  let pkgs ← counted (do
    let n ← nat
    let v ← optNat
    let ik ← nat
    let im ← counted (do
      let a ← nat
      let k ← nat
      pure (nm a, k))
    pure ({ name := nm n, version := v.map nm, imports := im, instKind := ik } : PkgDef))
  let renames ← nat
  pure { names := names, kinds := kinds.toArray, sub := sub.toArray, types := types.toArray, pkgs := pkgs.toArray,
         renames := renames == 1 }

def pOp (t : Tables) : P Op := do
  let c ← tok
  let s := String.ofList c
  if s == "reg" then do
    let d ← nat
    match t.pkgs[d]? with
    | some pd => pure (.register pd)
    | none => failure
  else if s == "unreg" then do
    let a ← nat; let b ← nat
    pure (.unregister ⟨a, b⟩)
  else if s == "def" then do
    let a ← nat; let b ← nat
    pure (.defineType (t.name a) b)
  else if s == "imp" then do
    let a ← nat; let b ← nat
    pure (.importItem (t.name a) b)
  else if s == "inst" then do
    let a ← nat; let b ← nat
    pure (.instantiate ⟨a, b⟩)
  else if s == "alias" then do
    let a ← nat; let b ← nat
    pure (.alias a (t.name b))
  else if s == "set" then do
    let a ← nat; let b ← nat; let c ← nat
    pure (.setArg a (t.name b) c)
  else if s == "unset" then do
    let a ← nat; let b ← nat; let c ← nat
    pure (.unsetArg a (t.name b) c)
  else if s == "exp" then do
    let a ← nat; let b ← nat
    pure (.exportNode a (t.name b))
  else if s == "unexp" then do
    let a ← nat
    pure (.unexport a)
  else if s == "name" then do
    let a ← nat; let b ← nat
    pure (.setName a (t.name b))
  else if s == "rm" then do
    let a ← nat
    pure (.removeNode a)
  else failure

/-- what the implementation answered; a panic carries its message -/
inductive ImplRes where
  | out (o : Outcome)
  | panic (msg : String)
  | unknownErr (v : String)

def pRes (t : Tables) : P ImplRes := do
  let c ← tok
  let s := String.ofList c
  if s == "ok" then pure (.out (.ok .unit))
  else if s == "okn" then do
    let n ← nat
    pure (.out (.ok (.node n)))
  else if s == "okp" then do
    let a ← nat; let b ← nat
    pure (.out (.ok (.pkg ⟨a, b⟩)))
  else if s == "panic" then do
    let m ← tok
    pure (.panic (String.ofList m))
  else if s == "err" then do
    let v ← tok
    let args ← counted optNat
    let v := String.ofList v
    let n (i : Nat) : Nat := ((args[i]?).join).getD 0
    let nm (i : Nat) : Str := t.name (n i)
    let e : Option Err :=
      if v == "PackageAlreadyRegistered" then some (.packageAlreadyRegistered (nm 0, ((args[1]?).join).map t.name))
      else if v == "TypeAlreadyDefined" then some .typeAlreadyDefined
      else if v == "CannotDefineResource" then some .cannotDefineResource
      else if v == "ExportConflict" then some (.exportConflict (nm 0))
      else if v == "InvalidExternName" then some (.invalidExternName (nm 0))
      else if v == "ImportAlreadyExists" then some (.importAlreadyExists (nm 0) (n 1))
      else if v == "InvalidImportName" then some (.invalidImportName (nm 0))
      else if v == "NodeIsNotAnInstance" then some (.nodeIsNotAnInstance (n 0))
      else if v == "InstanceMissingExport" then some (.instanceMissingExport (n 0) (nm 1))
      else if v == "ExportAlreadyExists" then some (.exportAlreadyExists (nm 0) (n 1))
      else if v == "InvalidExportName" then some (.invalidExportName (nm 0))
      else if v == "MustExportDefinition" then some .mustExportDefinition
      else if v == "NodeIsNotAnInstantiation" then some (.nodeIsNotAnInstantiation (n 0))
      else if v == "InvalidArgumentName" then some (.invalidArgumentName (n 0) (nm 1) (nm 2))
      else if v == "ArgumentTypeMismatch" then some (.argumentTypeMismatch (nm 0))
      else if v == "ArgumentAlreadyPassed" then some (.argumentAlreadyPassed (n 0) (nm 1))
      else none
    match e with
    | some e => pure (.out (.err e))
    | none => pure (.unknownErr v)
  else failure

/-- one node as dumped: the node, its index, outgoing and incoming adjacency -/
structure ObsNode where
  idx  : Nat
  node : Node
  outs : List (Nat × EdgeKind)
  ins  : List (Nat × EdgeKind)

structure Queries where
  nodeIds  : List Nat
  accessorMismatch : Bool
  imports  : List (Str × Kind × Option Nat)
  exports  : List (Option Nat)              -- `get_export` for every name of the table
  args     : List (List (Str × Nat) × Option (Nat × Str))   -- per slot below the bound
  pkgByName : List (Option PkgId)
  pkgCount : Nat

structure Obs where
  bound    : Nat
  nodes    : List ObsNode
  imports  : List (Str × Nat)
  exports  : List (Str × Nat)
  defined  : List (Ty × Nat)
  pkgs     : List PkgSlot
  pkgMap   : List (PkgKey × PkgId)
  freePkgs : List Nat          -- bottom … top of the `free_packages` stack
  queries  : Option Queries    -- none = a query panicked
  queryPanic : String
  inv      : List String
  encode   : Nat

def pEdgeEnd : P (Nat × EdgeKind) := do
  let o ← nat; let k ← nat; let i ← nat
  pure (o, if k == 0 then .alias i else if k == 1 then .arg i else .dep)

def pObs (t : Tables) : P Obs := do
  let bound ← nat
  let nodes ← counted (do
    let idx ← nat
    let kc ← nat
    let item ← nat
    let ps ← optNat
    let pg ← nat
    let nameIx ← optNat
    let expIx ← optNat
    let impIx ← optNat
    let ty ← optNat
    let sat ← counted nat
    let outs ← counted pEdgeEnd
    let ins ← counted pEdgeEnd
    let kind : NodeKind :=
      if kc == 0 then .definition (ty.getD 0)
      else if kc == 1 then .import ((impIx.map t.name).getD [])
      else if kc == 2 then .instantiation sat
      else .alias
    pure { idx := idx, outs := outs, ins := ins,
           node := { kind := kind, pkg := ps.map (fun s => ⟨s, pg⟩), item := item,
                     name := nameIx.map t.name, exp := expIx.map t.name } })
  let pair : P (Str × Nat) := do
    let a ← nat; let b ← nat
    pure (t.name a, b)
  let imports ← counted pair
  let exports ← counted pair
  let defined ← counted (do
    let a ← nat; let b ← nat
    pure (a, b))
  let pkgs ← counted (do
    let g ← nat
    let d ← optNat
    pure ({ pkg := d.bind (fun i => t.pkgs[i]?), gen := g } : PkgSlot))
  let pkgMap ← counted (do
    let n ← nat; let v ← optNat; let s ← nat; let g ← nat
    pure (((t.name n, v.map t.name), ⟨s, g⟩) : PkgKey × PkgId))
  let free ← counted nat
  let qt ← tok
  let (queries, qp) ← (if String.ofList qt == "Q" then do
      let ids ← counted nat
      -- accessor mismatch markers
      let rec skipMarks (fuel : Nat) (seen : Bool) : P Bool := fun s =>
        match fuel, s with
        | fuel + 1, m :: r => if String.ofList m == "ACCESSOR-MISMATCH" then skipMarks fuel true r else some (seen, s)
        | _, s => some (seen, s)
      let mism ← skipMarks (nodes.length + 1) false
      let imps ← counted (do
        let a ← nat; let k ← nat; let n ← optNat
        pure (t.name a, k, n))
      let exps ← many optNat t.names.size
      let args ← many (do
        let a ← counted pair
        let s ← optNat
        let n ← optNat
        pure (a, match s, n with
          | some s, some n => some (s, t.name n)
          | _, _ => none)) bound
      let byName ← many (do
        let s ← optNat; let g ← nat
        pure (s.map (fun s => (⟨s, g⟩ : PkgId)))) t.pkgs.size
      let cnt ← nat
      pure (some { nodeIds := ids, accessorMismatch := mism, imports := imps, exports := exps, args := args,
                   pkgByName := byName, pkgCount := cnt : Queries }, "")
    else do
      let m ← tok
      pure (none, String.ofList m))
  let inv ← counted tok
  let enc ← nat
  pure { bound := bound, nodes := nodes, imports := imports, exports := exports, defined := defined, pkgs := pkgs,
         pkgMap := pkgMap, freePkgs := free, queries := queries, queryPanic := qp,
         inv := inv.map String.ofList, encode := enc }

/-- a global newest-first edge order consistent with every outgoing and incoming adjacency
    list: repeatedly take an edge that heads both its source's outgoing and its target's
    incoming list (the newest remaining edge does) -/
def mergeEdges : Nat → List (Nat × List (Nat × EdgeKind)) → List (Nat × List (Nat × EdgeKind)) → List Edge
  | 0, outs, _ => outs.flatMap fun (n, l) => l.map fun (d, k) => ⟨n, d, k⟩
  | fuel + 1, outs, ins =>
    let pick := outs.findSome? fun (n, l) =>
      match l with
      | (d, k) :: _ =>
        match (ins.find? (fun p => p.1 == d)).map (·.2) with
        | some ((s, k') :: _) => if s == n && k' == k then some (⟨n, d, k⟩ : Edge) else none
        | _ => none
      | [] => none
    match pick with
    | none => outs.flatMap fun (n, l) => l.map fun (d, k) => ⟨n, d, k⟩
    | some e =>
      let outs' := outs.map fun (n, l) => if n == e.src then (n, l.drop 1) else (n, l)
      let ins' := ins.map fun (n, l) => if n == e.dst then (n, l.drop 1) else (n, l)
      e :: mergeEdges fuel outs' ins'

/-- the graph the implementation reports, as a model state (free node list = the vacant
    slots in increasing order) -/
def Obs.toGraph (o : Obs) : Graph :=
  let slots : List (Option Node) := (List.range o.bound).map fun i =>
    (o.nodes.find? (fun n => n.idx == i)).map (·.node)
  let nEdges := (o.nodes.map (·.outs.length)).foldl (· + ·) 0
  { nodes := slots
    freeNodes := (List.range o.bound).filter fun i => !(o.nodes.any (fun n => n.idx == i))
    edges := mergeEdges (nEdges + 1) (o.nodes.map fun n => (n.idx, n.outs)) (o.nodes.map fun n => (n.idx, n.ins))
    imports := o.imports, exports := o.exports, defined := o.defined
    pkgMap := o.pkgMap, pkgs := o.pkgs, freePkgs := o.freePkgs.reverse }

end Wac.GraphProto
