import WacModel.Program
/-
  C04 model: `crates/wac-parser/src/resolution.rs` restricted to the statement sublanguage of
  `WacModel/Program.lean`, function for function (DESIGN.md Appendix A.8), over an abstract
  composition graph (the part of `wac_graph::CompositionGraph` the resolver uses: nodes =
  import / instantiation / alias, argument edges, the import and export tables, the registered
  packages).  `wiring` reads the composition off the final graph the way `CompositionGraph::encode`
  emits it (instantiations in node order, implicit imports for unsatisfied arguments).

  Not modelled (outside the sublanguage): type statements and scopes other than the root, spans,
  extern-name validation (`ComponentName::new`; the generator only produces valid names), package
  paths into the package being defined, target validation, type merging of implicit imports (the
  generated libraries give one kind to one import name).
-/
namespace Wac.Lang.Model
open Wac.Lang

/-! ## the graph (wac-graph) -/

inductive NodeKind where
  /-- `NodeKind::Import(name)` -/
  | imp (name : Str)
  /-- `NodeKind::Instantiation`, of the registered package with this id -/
  | inst (pkg : Nat)
  /-- `NodeKind::Alias`; the `Edge::Alias(index)` from `src` is kept in the node -/
  | alias (src : Nat) (index : Nat)
  /-- `NodeKind::Definition` (a type declared in the document, exported under `name`) -/
  | defn (name : Str)

structure Node where
  kind : NodeKind
  /-- `Node::item_kind` -/
  item : Kind
  /-- ghost: where the item comes from, fixed when the node is created (an import by its name, the
      `k`-th instantiation, the named export of the source's provenance); it is what
      `CompositionGraph::encode` realises for the node and never influences resolution -/
  prov : Prov

/-- `Edge::Argument(index)` from `src` to the instantiation `dst` -/
structure ArgEdge where
  src : Nat
  dst : Nat
  index : Nat

structure Graph where
  nodes : List Node := []
  edges : List ArgEdge := []
  /-- `imports: HashMap<String, NodeIndex>` (only looked up by key) -/
  imports : List (Str × Nat) := []
  /-- `exports: IndexMap<String, NodeIndex>` -/
  exports : List (Str × Nat) := []
  /-- registered packages; `PackageId` = position -/
  packages : List Package := []

structure State where
  /-- `State::current` (the root scope; every item of the sublanguage is `Item::Node`) -/
  scope : List (Str × Nat) := []
  graph : Graph := {}
  /-- the caller-supplied package table, consumed on first use -/
  pending : List Package := []

def Graph.node? (g : Graph) (n : Nat) : Option Node := g.nodes[n]?

def Graph.kindOf (g : Graph) (n : Nat) : Kind :=
  match g.node? n with
  | some nd => nd.item
  | none => default

def Graph.provOf (g : Graph) (n : Nat) : Prov :=
  match g.node? n with
  | some nd => nd.prov
  | none => .imp []

def NodeKind.isInst : NodeKind → Bool
  | .inst _ => true
  | _ => false

/-- number of instantiation nodes -/
def Graph.instCount (g : Graph) : Nat := (g.nodes.filter (·.kind.isInst)).length

/-- `Exports.get_full`: index and kind -/
def exportsIndex (n : Str) : Exports → Nat → Option (Nat × Kind)
  | .nil, _ => none
  | .cons m k r, i => if m == n then some (i, k) else exportsIndex n r (i + 1)

/-- `IndexMap::get_index(i)` -/
def exportsAt : Exports → Nat → Option (Str × Kind)
  | .nil, _ => none
  | .cons m k _, 0 => some (m, k)
  | .cons _ _ r, i + 1 => exportsAt r i

/-- `CompositionGraph::import` (name validity is not modelled) -/
def Graph.import (g : Graph) (name : Str) (kind : Kind) : Except Diag (Graph × Nat) :=
  if alHas name g.imports then .error (.duplicateImport name)
  else
    let id := g.nodes.length
    .ok ({ g with nodes := g.nodes ++ [{ kind := .imp name, item := kind, prov := .imp name }], imports := g.imports ++ [(name, id)] }, id)

/-- `CompositionGraph::get_import_name` -/
def Graph.getImportName (g : Graph) (n : Nat) : Option Str :=
  match g.node? n with
  | some { kind := .imp name, .. } => some name
  | _ => none

/-- `CompositionGraph::instantiate` -/
def Graph.instantiate (g : Graph) (pkg : Nat) : Graph × Nat :=
  let exports := match g.packages[pkg]? with
    | some p => p.exports
    | none => .nil
  let id := g.nodes.length
  ({ g with nodes := g.nodes ++ [{ kind := .inst pkg, item := .inst none exports, prov := .inst g.instCount }] }, id)

/-- the existing alias node for `(src, index)`, if any (scan of the outgoing alias edges) -/
def findAlias (src index : Nat) : List Node → Nat → Option Nat
  | [], _ => none
  | nd :: r, i =>
    match nd.kind with
    | .alias s j => if s == src && j == index then some i else findAlias src index r (i + 1)
    | _ => findAlias src index r (i + 1)

/-- `CompositionGraph::alias_instance_export`; `none` = `AliasError` (the resolver `expect`s success) -/
def Graph.aliasInstanceExport (g : Graph) (inst : Nat) (name : Str) : Option (Graph × Nat) :=
  match (g.kindOf inst).instExports with
  | none => none
  | some es =>
    match exportsIndex name es 0 with
    | none => none
    | some (index, kind) =>
      match findAlias inst index g.nodes 0 with
      | some n => some (g, n)
      | none =>
        let id := g.nodes.length
        some ({ g with nodes := g.nodes ++ [{ kind := .alias inst index, item := kind, prov := .exportOf (g.provOf inst) name }] }, id)

/-- `CompositionGraph::get_alias_source`: source node and export name -/
def Graph.getAliasSource (g : Graph) (n : Nat) : Option (Nat × Str) :=
  match g.node? n with
  | some { kind := .alias src index, .. } =>
    match (g.kindOf src).instExports with
    | some es => (exportsAt es index).map fun (name, _) => (src, name)
    | none => none
  | _ => none

inductive ArgError where
  | invalidArgumentName
  | argumentAlreadyPassed
  | argumentTypeMismatch

/-- the imports of the package an instantiation node instantiates -/
def Graph.instImports (g : Graph) (inst : Nat) : Exports :=
  match g.node? inst with
  | some { kind := .inst pkg, .. } => (match g.packages[pkg]? with | some p => p.imports | none => .nil)
  | _ => .nil

/-- `CompositionGraph::set_instantiation_argument` -/
def Graph.setInstantiationArgument (g : Graph) (inst : Nat) (name : Str) (arg : Nat) : Except ArgError Graph :=
  match exportsIndex name (g.instImports inst) 0 with
  | none => .error .invalidArgumentName
  | some (index, expected) =>
    match g.edges.find? (fun e => e.dst == inst && e.index == index) with
    | some e => if e.src == arg then .ok g else .error .argumentAlreadyPassed
    | none =>
      if (g.kindOf arg).sub expected then
        .ok { g with edges := g.edges ++ [{ src := arg, dst := inst, index := index }] }
      else .error .argumentTypeMismatch

/-- `CompositionGraph::define_type` (for a fresh type; name validity is not modelled):
    `DefineTypeError::ExportConflict` becomes `Error::DeclarationConflict` -/
def Graph.defineType (g : Graph) (name : Str) (kind : Kind) : Except Diag (Graph × Nat) :=
  if alHas name g.exports then .error (.declarationConflict name)
  else
    let id := g.nodes.length
    .ok ({ g with nodes := g.nodes ++ [{ kind := .defn name, item := kind, prov := .defn name }],
                  exports := g.exports ++ [(name, id)] }, id)

/-- `CompositionGraph::get_export` -/
def Graph.getExport (g : Graph) (name : Str) : Option Nat := alGet name g.exports

/-- `CompositionGraph::export` (name validity is not modelled) -/
def Graph.export (g : Graph) (node : Nat) (name : Str) : Except Diag Graph :=
  if alHas name g.exports then .error (.duplicateExport name)
  else .ok { g with exports := g.exports ++ [(name, node)] }

/-! ## resolution.rs -/

/-- `State::register_name` -/
def State.registerName (st : State) (id : Str) (node : Nat) : Except Diag State :=
  if alHas id st.scope then .error (.duplicateName id)
  else .ok { st with scope := st.scope ++ [(id, node)] }

/-- `State::local_item` -/
def State.localItem (st : State) (id : Str) : Except Diag Nat :=
  match alGet id st.scope with
  | some n => .ok n
  | none => .error (.undefinedName id)

/-- position of the registered package with this key -/
def findPackage (name : Str) (ver : Option Str) : List Package → Nat → Option Nat
  | [], _ => none
  | p :: r, i => if p.name == name && p.version == ver then some i else findPackage name ver r (i + 1)

/-- `AstResolver::resolve_package`: registered already, else taken out of the supplied table -/
def resolvePackage (st : State) (name : Str) (ver : Option Str) : Except Diag (State × Nat) :=
  match findPackage name ver st.graph.packages 0 with
  | some id => .ok (st, id)
  | none =>
    match st.pending.find? (fun p => p.name == name && p.version == ver) with
    | none => .error (.unknownPackage name)
    | some p =>
      let id := st.graph.packages.length
      .ok ({ st with
              pending := st.pending.filter (fun q => !(q.name == name && q.version == ver)),
              graph := { st.graph with packages := st.graph.packages ++ [p] } }, id)

/-- `str::rfind('/')` -/
def rfindSlash (s : Str) : Option Nat :=
  let rec go (s : Str) (i : Nat) (last : Option Nat) : Option Nat :=
    match s with
    | [] => last
    | c :: r => go r (i + 1) (if c == '/' then some i else last)
  go s 0 none

/-- `str::find('@')` -/
def findAt : Str → Option Nat
  | [] => none
  | c :: r => if c == '@' then some 0 else (findAt r).map (· + 1)

/-- `if let Some(index) = n.find('@') { n = &n[..index]; }` -/
def stripVersion (n : Str) : Str :=
  match findAt n with
  | some index => n.take index
  | none => n

/-- the closure of `find_matching_interface_name`'s filter -/
def matchesInterfaceName (name : Str) (n : Str) : Bool :=
  match rfindSlash n with
  | some start => stripVersion (n.drop (start + 1)) == name
  | none => false

/-- `AstResolver::find_matching_interface_name` -/
def findMatchingInterfaceName (name : Str) (externs : List Str) : Option Str :=
  if externs.contains name then none
  else
    match externs.filter (matchesInterfaceName name) with
    | [] => none
    | [n] => some n
    | _ :: _ :: _ => none

/-- `AstResolver::alias_export` -/
def aliasExport (st : State) (item : Nat) (name : Str) (op : InstOp) : Except Diag (State × Option Nat) :=
  match (st.graph.kindOf item).instExports with
  | none => .error (.notInstance op)
  | some es =>
    if !es.has name then .ok (st, none)
    else
      match st.graph.aliasInstanceExport item name with
      | some (g, n) => .ok ({ st with graph := g }, some n)
      | none => .ok (st, none)   -- unreachable: `expect("alias should be created")`

/-- `.ok_or_else(|| Error::MissingInstanceExport { name, .. })` on the result of `alias_export` -/
def orMissingExport (name : Str) : Except Diag (State × Option Nat) → Except Diag (State × Nat)
  | .error e => .error e
  | .ok (_, none) => .error (.missingExport name)
  | .ok (st, some n) => .ok (st, n)

/-- `AstResolver::postfix_expr` -/
def postfixExpr (st : State) (item : Nat) (named : Bool) (id : Str) : Except Diag (State × Nat) :=
  if named then orMissingExport id (aliasExport st item id .access)
  else
    match (st.graph.kindOf item).instExports with
    | none => .error (.notInstance .access)
    | some es =>
      let name := (findMatchingInterfaceName id es.names).getD id
      orMissingExport name (aliasExport st item name .access)

/-- `AstResolver::inferred_instantiation_arg` -/
def inferredInstantiationArg (st : State) (ident : Str) (imports : List Str) : Except Diag (Str × Nat) :=
  match st.localItem ident with
  | .error e => .error e
  | .ok item =>
    let kind := st.graph.kindOf item
    let byId : Option Str := match kind.instId with
      | some id => if imports.contains id then some id else none
      | none => none
    match byId with
    | some id => .ok (id, item)
    | none =>
      let byName : Option Str := match st.graph.getImportName item with
        | some name => if imports.contains name then some name else none
        | none =>
          match st.graph.getAliasSource item with
          | some (_, name) => if imports.contains name then some name else none
          | none => none
      match byName with
      | some name => .ok (name, item)
      | none =>
        match findMatchingInterfaceName ident imports with
        | some name => .ok (name, item)
        | none => .ok (ident, item)

/-- the `for name in expected` loop of `spread_instantiation_arg` -/
def spreadLoop (item : Nat) (st : State) (arguments : List (Str × Nat)) (spread : Bool) :
    List Str → Except Diag (State × List (Str × Nat) × Bool)
  | [] => .ok (st, arguments, spread)
  | name :: rest =>
    if alHas name arguments then spreadLoop item st arguments spread rest
    else
      match aliasExport st item name .spread with
      | .error e => .error e
      | .ok (st, some aliased) => spreadLoop item st (arguments ++ [(name, aliased)]) true rest
      | .ok (st, none) => spreadLoop item st arguments spread rest

/-- `AstResolver::spread_instantiation_arg`; `expected` = the import names in world order -/
def spreadInstantiationArg (st : State) (id : Str) (expected : List Str) (arguments : List (Str × Nat)) :
    Except Diag (State × List (Str × Nat)) :=
  match st.localItem id with
  | .error e => .error e
  | .ok item =>
    if !(st.graph.kindOf item).isInstance then .error (.notInstance .spread)
    else
      match spreadLoop item st arguments false expected with
      | .error e => .error e
      | .ok (st, arguments, spread) =>
        if !spread then .error .spreadNoMatch else .ok (st, arguments)

/-- second loop of `new_expr`: "Process the spread arguments" -/
def newExprSpreads (expected : List Str) : State → List (Str × Nat) → Args → Except Diag (State × List (Str × Nat))
  | st, arguments, .nil => .ok (st, arguments)
  | st, arguments, .cons (.spread id) rest =>
    match spreadInstantiationArg st id expected arguments with
    | .error e => .error e
    | .ok (st, arguments) => newExprSpreads expected st arguments rest
  | st, arguments, .cons _ rest => newExprSpreads expected st arguments rest

/-- third loop of `new_expr`: "Set the arguments on the instantiation" -/
def newExprSetArgs (inst : Nat) : Graph → List (Str × Nat) → Except Diag Graph
  | g, [] => .ok g
  | g, (name, argument) :: rest =>
    match g.setInstantiationArgument inst name argument with
    | .error .invalidArgumentName => .error (.unknownArg name)
    | .error .argumentTypeMismatch => .error (.mismatchedArg name)
    | .error .argumentAlreadyPassed => .error (.duplicateArg name)   -- `panic!` in the code; unreachable
    | .ok g => newExprSetArgs inst g rest

/-- the name computed by `named_instantiation_arg`: the suffix rule for identifiers, strings verbatim -/
def namedArgumentName (argName : ArgName) (expected : List Str) : Str :=
  match argName with
  | .id ident => (findMatchingInterfaceName ident expected).getD ident
  | .str s => s

/-- the tail of `new_expr`: create the instantiation node, set the arguments, check for missing ones -/
def newExprFinish (st : State) (pkg : Nat) (expected : List Str) (arguments : List (Str × Nat))
    (requireAll : Bool) : Except Diag (State × Nat) :=
  let (g, instantiation) := st.graph.instantiate pkg
  match newExprSetArgs instantiation g arguments with
  | .error e => .error e
  | .ok g =>
    let st := { st with graph := g }
    if requireAll then
      match expected.find? (fun n => !alHas n arguments) with
      | some name => .error (.missingArg name)
      | none => .ok (st, instantiation)
    else .ok (st, instantiation)

/-- the import names (world order) of a registered package -/
def Graph.expectedOf (g : Graph) (pkg : Nat) : List Str :=
  match g.packages[pkg]? with
  | some p => p.imports.names
  | none => []

mutual
/-- `AstResolver::expr` + `primary_expr` (the postfix list is the spine of `access`/`namedAccess`) -/
def expr (self : Str) (st : State) : Expr → Except Diag (State × Nat)
  | .ident x =>
    match st.localItem x with
    | .error e => .error e
    | .ok n => .ok (st, n)
  | .nested e => expr self st e
  | .access e id =>
    match expr self st e with
    | .error e => .error e
    | .ok (st, item) => postfixExpr st item false id
  | .namedAccess e s =>
    match expr self st e with
    | .error e => .error e
    | .ok (st, item) => postfixExpr st item true s
  /- `AstResolver::new_expr` -/
  | .new pkgName ver args =>
    if pkgName == self then .error (.unknownPackage pkgName) else
    match resolvePackage st pkgName ver with
    | .error e => .error e
    | .ok (st, pkg) =>
      let expected := st.graph.expectedOf pkg
      match newExprArgs self expected st [] true args with
      | .error e => .error e
      | .ok (st, arguments, requireAll) =>
        match newExprSpreads expected st arguments args with
        | .error e => .error e
        | .ok (st, arguments) => newExprFinish st pkg expected arguments requireAll
/-- first loop of `new_expr` (with `named_instantiation_arg` inlined for the recursion) -/
def newExprArgs (self : Str) (expected : List Str) (st : State) (arguments : List (Str × Nat)) (requireAll : Bool) :
    Args → Except Diag (State × List (Str × Nat) × Bool)
  | .nil => .ok (st, arguments, requireAll)
  | .cons (.inferred id) rest =>
    match inferredInstantiationArg st id expected with
    | .error e => .error e
    | .ok (name, item) =>
      if alHas name arguments then .error (.duplicateArg name)
      else newExprArgs self expected st (arguments ++ [(name, item)]) requireAll rest
  | .cons (.spread _) rest => newExprArgs self expected st arguments requireAll rest
  /- `AstResolver::named_instantiation_arg` -/
  | .cons (.named argName e) rest =>
    match expr self st e with
    | .error e => .error e
    | .ok (st, item) =>
      let name := namedArgumentName argName expected
      if alHas name arguments then .error (.duplicateArg name)
      else newExprArgs self expected st (arguments ++ [(name, item)]) requireAll rest
  | .cons .fill rest =>
    match rest with
    | .nil => newExprArgs self expected st arguments false rest
    | .cons _ _ => .error .fillNotLast
end

/-- the projection loop of `resolve_package_path`: each further segment selects an export -/
def walkPath (pkg : Str) (found : Kind) : List Str → Except Diag Kind
  | [] => .ok found
  | segment :: rest =>
    match found.instExports.bind (·.get segment) with
    | none => .error (.packageMissingExport pkg segment)
    | some k => walkPath pkg k rest

/-- `AstResolver::resolve_package_path` (paths into other packages) -/
def resolvePackagePath (st : State) (pkg : Str) (ver : Option Str) (segs : List Str) : Except Diag (State × Kind) :=
  match resolvePackage st pkg ver with
  | .error e => .error e
  | .ok (st, id) =>
    match segs with
    | [] => .error (.unknownPackage pkg)   -- unreachable: a path has at least one segment
    | first :: rest =>
      match (st.graph.packages[id]?).bind (·.definition first) with
      | none => .error (.packageMissingExport pkg first)
      | some k =>
        match walkPath pkg k rest with
        | .error e => .error e
        | .ok k => .ok (st, k)

/-- `import_statement`: "Determine the import name to use" -/
def importStatementName (st : State) (id : Str) (as : Option Str) (ty : ImportTy) : Except Diag Str :=
  match as with
  | some name => .ok name
  | none =>
    match ty with
    | .path pkg ver segs => .ok (pathString pkg ver segs)
    | .func _ => .ok id
    | .iface _ => .ok id
    | .ident x =>
      match st.localItem x with
      | .error e => .error e
      | .ok item => .ok ((st.graph.kindOf item).importNameOr id)

/-- `import_statement`: "Determine the kind for the item to import" -/
def importStatementKind (st : State) (ty : ImportTy) : Except Diag (State × Kind) :=
  match ty with
  | .path pkg ver segs => resolvePackagePath st pkg ver segs
  | .func sig => .ok (st, .func sig)
  | .iface fs => .ok (st, .inst none (funcsKind fs))
  | .ident x =>
    match st.localItem x with
    | .error e => .error e
    | .ok item => .ok (st, (st.graph.kindOf item).promote)

/-- `AstResolver::import_statement` -/
def importStatement (st : State) (id : Str) (as : Option Str) (ty : ImportTy) : Except Diag State :=
  match importStatementName st id as ty with
  | .error e => .error e
  | .ok name =>
    match importStatementKind st ty with
    | .error e => .error e
    | .ok (st, kind) =>
      match st.graph.import name kind with
      | .error e => .error e
      | .ok (g, node) => State.registerName { st with graph := g } id node

/-- `AstResolver::type_statement` for `interface id { name: func(…); … }` (`interface_decl` +
    `define_type` + `register_name`) -/
def typeStatement (self : Str) (st : State) (id : Str) (funcs : List (Str × Nat)) : Except Diag State :=
  match st.graph.defineType id (.ifaceTy (some (declId self id)) (funcsKind funcs)) with
  | .error e => .error e
  | .ok (g, node) => State.registerName { st with graph := g } id node

/-- `AstResolver::let_statement` -/
def letStatement (self : Str) (st : State) (id : Str) (e : Expr) : Except Diag State :=
  match expr self st e with
  | .error e => .error e
  | .ok (st, item) => st.registerName id item

/-- `AstResolver::infer_export_name` -/
def inferExportName (st : State) (item : Nat) : Option Str :=
  match (st.graph.kindOf item).instId with
  | some id => some id
  | none =>
    match st.graph.getImportName item with
    | some name => some name
    | none =>
      match st.graph.getAliasSource item with
      | some (_, name) => some name
      | none => none

/-- is the node a `NodeKind::Definition`? -/
def Graph.isDefinition (g : Graph) (n : Nat) : Bool :=
  match g.node? n with
  | some { kind := .defn _, .. } => true
  | _ => false

/-- the first check of `export_item`: the name is bound (root scope) to a definition -/
def State.exportConflict (st : State) (name : Str) : Bool :=
  match alGet name st.scope with
  | some n => st.graph.isDefinition n
  | none => false

/-- `AstResolver::export_item`: `ExportConflict` when the name is bound (root scope) to a definition -/
def exportItem (st : State) (item : Nat) (name : Str) : Except Diag State :=
  if st.exportConflict name then .error (.exportConflict name)
  else
    match st.graph.export item name with
    | .error e => .error e
    | .ok g => .ok { st with graph := g }

/-- the `for name in exports` loop of the spread arm of `export_statement` -/
def spreadExportLoop (item : Nat) (st : State) (exported : Bool) : List Str → Except Diag (State × Bool)
  | [] => .ok (st, exported)
  | name :: rest =>
    if (st.graph.getExport name).isSome then spreadExportLoop item st exported rest
    else
      match aliasExport st item name .spread with
      | .error e => .error e
      | .ok (_, none) => .error (.missingExport name)   -- `expect("expected a matching export name")`; unreachable
      | .ok (st, some aliased) =>
        match exportItem st aliased name with
        | .error e => .error e
        | .ok st => spreadExportLoop item st true rest

/-- `AstResolver::export_statement` -/
def exportStatement (self : Str) (st : State) (e : Expr) (opt : ExportOpt) : Except Diag State :=
  match expr self st e with
  | .error e => .error e
  | .ok (st, item) =>
    match opt with
    | .none =>
      match inferExportName st item with
      | none => .error .exportRequiresAs
      | some name => exportItem st item name
    | .as name => exportItem st item name
    | .spread =>
      match (st.graph.kindOf item).instExports with
      | none => .error (.notInstance .spread)
      | some es =>
        match spreadExportLoop item st false es.names with
        | .error e => .error e
        | .ok (st, exported) => if !exported then .error .spreadExportNoEffect else .ok st

/-- the statement loop of `AstResolver::resolve` -/
def resolveStmts (self : Str) : State → List Stmt → Except Diag State
  | st, [] => .ok st
  | st, .imp id as ty :: rest =>
    match importStatement st id as ty with
    | .error e => .error e
    | .ok st => resolveStmts self st rest
  | st, .bind id e :: rest =>
    match letStatement self st id e with
    | .error e => .error e
    | .ok st => resolveStmts self st rest
  | st, .exp e opt :: rest =>
    match exportStatement self st e opt with
    | .error e => .error e
    | .ok st => resolveStmts self st rest
  | st, .iface id funcs :: rest =>
    match typeStatement self st id funcs with
    | .error e => .error e
    | .ok st => resolveStmts self st rest

/-- `AstResolver::resolve` (no `targets` clause) -/
def resolve (p : Program) (lib : Lib) : Except Diag Graph :=
  match resolveStmts p.self { pending := lib } p.stmts with
  | .error e => .error e
  | .ok st => .ok st.graph

/-! ## reading the wiring off the graph (what `CompositionGraph::encode` emits) -/

def indexedFrom {α} (i : Nat) : List α → List (Nat × α)
  | [] => []
  | a :: r => (i, a) :: indexedFrom (i + 1) r

def indexed {α} (l : List α) : List (Nat × α) := indexedFrom 0 l

/-- unsatisfied imports of an instantiation node, in world order -/
def unsatisfied (g : Graph) (node : Nat) (p : Package) : List (Str × Kind) :=
  (indexed p.imports.toList).filterMap fun (i, (n, k)) =>
    if g.edges.any (fun e => e.dst == node && e.index == i) then none else some (n, k)

def dedupNames {α} (l : List (Str × α)) : List (Str × α) :=
  l.foldl (fun acc (n, a) => if alHas n acc then acc else acc ++ [(n, a)]) []

/-- the instantiation nodes (node id, package), in node order -/
def instNodes (g : Graph) : List (Nat × Package) :=
  (indexed g.nodes).filterMap fun (i, nd) =>
    match nd.kind with
    | .inst pkg => (g.packages[pkg]?).map fun p => (i, p)
    | _ => none

/-- the implicit imports `resolve_imports` creates: unsatisfied arguments, instantiation by instantiation -/
def implicitOf (g : Graph) : List (Str × Kind) :=
  (instNodes g).flatMap fun (i, p) => unsatisfied g i p

/-- the explicit import nodes, in node order -/
def explicitOf (g : Graph) : List (Str × Kind) :=
  g.nodes.filterMap fun nd =>
    match nd.kind with
    | .imp name => some (name, nd.item)
    | _ => none

/-- name of the import with this index -/
def argName (p : Package) (index : Nat) : Str :=
  match exportsAt p.imports index with
  | some (n, _) => n
  | none => []

/-- the `instantiate` item emitted for an instantiation node: argument edges, then implicit arguments -/
def instRecord (g : Graph) (ip : Nat × Package) : Instantiation :=
  { pkg := ip.2.name, ver := ip.2.version,
    args := (g.edges.filter (·.dst == ip.1)).map (fun e => (argName ip.2 e.index, g.provOf e.src))
            ++ (unsatisfied g ip.1 ip.2).map fun (n, _) => (n, Prov.imp n) }

def instsOf (g : Graph) : List Instantiation := (instNodes g).map (instRecord g)

def exportsOf (g : Graph) : List (Str × Prov × Kind) :=
  g.exports.map fun (name, node) => (name, g.provOf node, g.kindOf node)

/-- `CompositionGraphEncoder::encode` at the level of wiring (`resolve_imports`: an unsatisfied
    argument whose name is an explicit import is `ImplicitImportConflict`) -/
def wiring (g : Graph) : Except Diag Composition :=
  match (implicitOf g).find? (fun (n, _) => alHas n g.imports) with
  | some (n, _) => .error (.importConflict n)
  | none =>
    .ok { imports := explicitOf g ++ dedupNames (implicitOf g)
          instantiations := instsOf g
          exports := exportsOf g }

/-- resolve, then encode -/
def resolveModel (p : Program) (lib : Lib) : Except Diag Composition :=
  match resolve p lib with
  | .error e => .error e
  | .ok g => wiring g

end Wac.Lang.Model
