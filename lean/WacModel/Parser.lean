import WacModel.Lexer
/-
  Model of the recursive-descent parser of `crates/wac-parser/src/ast.rs` and
  `ast/{type,expr,import,export,let}.rs`: one Lean function per `impl Parse for …`, named
  `parseXxx` after the Rust type, with the same order of token tests.

  `Lookahead`: the Rust parser records every token kind it tested (`Lookahead::peek`) and, when
  all tests failed, `Lookahead::error` builds the diagnostic from the recorded list.  At every
  site the tests are made in a fixed order and the error is only built when all of them failed,
  so the recorded list is a constant of the site; the model passes that constant to
  `lookaheadError`.  `peekTok` is `Some((Ok(t), _))` of `Lexer::peek`.

  Loops and recursion use fuel (structural recursion on it); `fuelFor` is enough for every input
  (`Wac.Props.C14.fuel_sufficient`), so `ParseError.OutOfFuel` is never returned by `parseDocument`.
  Panic sites of the Rust code (`unwrap`, `assert!`, `unreachable!`) are `ParseError.Panic site`.

  Core Lean only.
-/
namespace Wac.Parse
open Wac Wac.Ast Wac.Lex

/-- `ast::Error` (+ the two outcomes that are not Rust values) -/
inductive ParseError where
  | Lexer (error : LexError) (span : Span)
  | Expected (expected : Token) (found : Option Token) (span : Span)
  | ExpectedEither (first second : Token) (found : Option Token) (span : Span)
  /-- `expected`: the first (at most 10) attempted tokens, `count`: how many were attempted -/
  | ExpectedMultiple (expected : List Token) (count : Nat) (found : Option Token) (span : Span)
  | EmptyType (ty kind : String) (span : Span)
  | InvalidVersion (version : Str) (span : Span)
  /-- the Rust code would panic at this site -/
  | Panic (site : String)
  /-- the model ran out of fuel (never happens with `fuelFor`) -/
  | OutOfFuel
deriving Repr, Inhabited, DecidableEq

/-- result of a parse function: the value and the lexer after it -/
macro "PR " t:term:max : term => `(Except ParseError ($t × PState))

/-- the next token kind if the next item is a token (`Some((Ok(t), _))`) -/
def peekTok (st : PState) : Option Token := st.peek.bind LTok.tok?

def peekIs (st : PState) (t : Token) : Bool := peekTok st == some t

def peekIn (st : PState) (ts : List Token) : Bool :=
  match peekTok st with
  | some t => ts.contains t
  | none => false

/-- `Some((Ok(t), _))` of `Lexer::peek2` -/
def peek2Tok (st : PState) : Option Token := st.peek2.bind LTok.tok?

/-- `Lookahead::error` after the tests `attempts` all failed (`Lookahead::new` was taken at `st`) -/
def lookaheadError (st : PState) (attempts : List Token) : ParseError :=
  let mk (found : Option Token) (span : Span) : ParseError :=
    match attempts with
    | [] => .Panic "lookahead had no attempts"
    | [a] => .Expected a found span
    | [a, b] => .ExpectedEither a b found span
    | _ => .ExpectedMultiple (attempts.take 10) attempts.length found span
  match st.peek with
  | some t =>
    match t.res with
    | .ok k => mk (some k) t.span
    | .error e => .Lexer e t.span
  | none => mk none st.span

/-- `parse_token` -/
def parseToken (st : PState) (expected : Token) : PR LTok :=
  match st.next with
  | (none, st') => .error (.Expected expected none st'.span)
  | (some t, st') =>
    match t.res with
    | .ok found => if found = expected then .ok (t, st') else .error (.Expected expected (some found) t.span)
    | .error e => .error (.Lexer e t.span)

/-- `parse_optional` -/
def parseOptional {α : Type} (st : PState) (expected : Token) (cb : PState → PR α) : PR (Option α) :=
  match st.peek with
  | some t =>
    match t.res with
    | .ok k =>
      if k = expected then
        match parseToken st expected with
        | .error e => .error e
        | .ok (_, st1) =>
          match cb st1 with
          | .ok (a, st') => .ok (some a, st')
          | .error e => .error e
      else .ok (none, st)
    | .error e => .error (.Lexer e t.span)
  | none => .ok (none, st)

/-- `impl Parse for Vec<DocComment>`: `Lexer::comments` at the current position -/
def parseDocs (st : PState) : List DocComment :=
  match st.peek with
  | some t => t.docs
  | none => []

/-- `parse_delimited::<T>(lexer, until, with_commas)`; `peeks` is the list of tokens `T::peek`
tests, `item` is `T::parse` -/
def parseDelimited {α : Type} (stop : Token) (withCommas : Bool) (peeks : List Token)
    (item : PState → PR α) : Nat → PState → PR (List α)
  | 0, _ => .error .OutOfFuel
  | fuel + 1, st =>
    if peekIs st stop then .ok ([], st)
    else if !peekIn st peeks then .error (lookaheadError st (stop :: peeks))
    else
      match item st with
      | .error e => .error e
      | .ok (x, st) =>
        match peekTok st with
        | some next =>
          if next = stop then .ok ([x], st)
          else if withCommas then
            match parseToken st .Comma with
            | .error e => .error e
            | .ok (_, st) =>
              match parseDelimited stop withCommas peeks item fuel st with
              | .error e => .error e
              | .ok (xs, st) => .ok (x :: xs, st)
          else
            match parseDelimited stop withCommas peeks item fuel st with
            | .error e => .error e
            | .ok (xs, st) => .ok (x :: xs, st)
        | none =>
          -- next iteration: `peek(until)` and `T::peek` fail on an error item / end of input
          .error (lookaheadError st (stop :: peeks))

/-! ### leaves -/

/-- `impl Parse for Ident` -/
def parseIdent (st : PState) : PR Ident := do
  let (t, st) ← parseToken st .Ident
  match t.text with
  | '%' :: r => .ok (⟨r, true, t.span⟩, st)
  | s => .ok (⟨s, false, t.span⟩, st)

/-- `impl Parse for String` -/
def parseString (st : PState) : PR StringLit := do
  let (t, st) ← parseToken st .String
  .ok (⟨(t.text.drop 1).take (t.text.length - 2), t.span⟩, st)

def findIdx (s : Str) (c : Char) : Option Nat :=
  let i := (s.takeWhile (· != c)).length
  if i < s.length then some i else none

/-- the `version.parse()` step shared by `PackageName` and `PackagePath` -/
def parseVersionAt (s : Str) (span : Span) (at? : Option Nat) : Except ParseError (Option Version) :=
  match at? with
  | none => .ok none
  | some i =>
    let v := s.drop (i + 1)
    match parseVersion v with
    | some ver => .ok (some ver)
    | none =>
      let start := span.offset + i + 1
      .error (.InvalidVersion v ⟨start, (span.offset + span.len) - start⟩)

/-- `impl Parse for PackageName` -/
def parsePackageName (st : PState) : PR PackageName := do
  let (t, st) ← parseToken st .PackageName
  let s := t.text
  let at? := findIdx s '@'
  let name := match at? with
    | some i => s.take i
    | none => s
  let version ← parseVersionAt s t.span at?
  .ok (⟨s, name, version, t.span⟩, st)

/-- `impl Parse for PackagePath` -/
def parsePackagePath (st : PState) : PR PackagePath := do
  let (t, st) ← parseToken st .PackagePath
  let s := t.text
  match findIdx s '/' with
  | none => .error (.Panic "PackagePath: no slash")
  | some slash =>
    let at? := findIdx s '@'
    let name := s.take slash
    let segEnd := at?.getD s.length
    let segments := (s.take segEnd).drop (slash + 1)
    let version ← parseVersionAt s t.span at?
    .ok (⟨t.span, s, name, segments, version⟩, st)

/-! ### types (`ast/type.rs`) -/

/-- the tokens tested by `Type::peek`, in order -/
def typePeeks : List Token := [
  .U8Keyword, .S8Keyword, .U16Keyword, .S16Keyword, .U32Keyword, .S32Keyword, .U64Keyword,
  .S64Keyword, .F32Keyword, .F64Keyword, .CharKeyword, .BoolKeyword, .StringKeyword,
  .TupleKeyword, .ListKeyword, .OptionKeyword, .ResultKeyword, .BorrowKeyword, .Ident]

/-- `impl Parse for Type` -/
def parseType : Nat → PState → PR Ty
  | 0, _ => .error .OutOfFuel
  | fuel + 1, st =>
    let prim (mk : Span → Ty) : PR Ty :=
      match st.next with
      | (some t, st') => .ok (mk t.span, st')
      | (none, _) => .error (.Panic "Type: next().unwrap()")
    match peekTok st with
    | some .U8Keyword => prim .U8
    | some .S8Keyword => prim .S8
    | some .U16Keyword => prim .U16
    | some .S16Keyword => prim .S16
    | some .U32Keyword => prim .U32
    | some .S32Keyword => prim .S32
    | some .U64Keyword => prim .U64
    | some .S64Keyword => prim .S64
    | some .F32Keyword => prim .F32
    | some .F64Keyword => prim .F64
    | some .CharKeyword => prim .Char
    | some .BoolKeyword => prim .Bool
    | some .StringKeyword => prim .String
    | some .TupleKeyword => do
      let (kw, st) ← parseToken st .TupleKeyword
      let (_, st) ← parseToken st .OpenAngle
      -- "There must be at least one type in the tuple."
      if !peekIn st typePeeks then .error (lookaheadError st typePeeks) else
      let (types, st) ← parseDelimited .CloseAngle true typePeeks (parseType fuel) fuel st
      if types.isEmpty then .error (.Panic "assert!(!types.is_empty())") else
      let (close, st) ← parseToken st .CloseAngle
      .ok (.Tuple types (kw.span.cover close.span), st)
    | some .ListKeyword => do
      let (kw, st) ← parseToken st .ListKeyword
      let (_, st) ← parseToken st .OpenAngle
      let (ty, st) ← parseType fuel st
      let (close, st) ← parseToken st .CloseAngle
      .ok (.List ty (kw.span.cover close.span), st)
    | some .OptionKeyword => do
      let (kw, st) ← parseToken st .OptionKeyword
      let (_, st) ← parseToken st .OpenAngle
      let (ty, st) ← parseType fuel st
      let (close, st) ← parseToken st .CloseAngle
      .ok (.Option ty (kw.span.cover close.span), st)
    | some .ResultKeyword => do
      let (kw, st) ← parseToken st .ResultKeyword
      -- `parse_optional(lexer, Token::OpenAngle, parse)`
      let inner (st : PState) : PR (Option Ty × Option Ty × Span) := do
        let (ok, st) ←
          (if peekIs st .Underscore then (.ok (none, st.next.2) : PR (Option Ty))
           else if peekIn st typePeeks then do
             let (t, st) ← parseType fuel st
             .ok (some t, st)
           else .error (lookaheadError st (.Underscore :: typePeeks)))
        let (err, st) ← parseOptional st .Comma fun st =>
          (if peekIs st .Underscore then (.ok (none, st.next.2) : PR (Option Ty))
           else if peekIn st typePeeks then do
             let (t, st) ← parseType fuel st
             .ok (some t, st)
           else .error (lookaheadError st (.Underscore :: typePeeks)))
        let (close, st) ← parseToken st .CloseAngle
        .ok ((ok, err.getD none, kw.span.cover close.span), st)
      let (r, st) ← parseOptional st .OpenAngle inner
      match r with
      | some (ok, err, span) => .ok (.Result ok err span, st)
      | none => .ok (.Result none none kw.span, st)
    | some .BorrowKeyword => do
      let (kw, st) ← parseToken st .BorrowKeyword
      let (_, st) ← parseToken st .OpenAngle
      let (id, st) ← parseIdent st
      let (close, st) ← parseToken st .CloseAngle
      .ok (.Borrow id (kw.span.cover close.span), st)
    | some .Ident => do
      let (id, st) ← parseIdent st
      .ok (.Ident id, st)
    | _ => .error (lookaheadError st typePeeks)

/-- `impl Parse for NamedType` -/
def parseNamedType (fuel : Nat) (st : PState) : PR NamedType := do
  let (id, st) ← parseIdent st
  let (_, st) ← parseToken st .Colon
  let (ty, st) ← parseType fuel st
  .ok (⟨id, ty⟩, st)

/-- `impl Parse for ResultList` -/
def parseResultList (fuel : Nat) (st : PState) : PR ResultList :=
  if peekIn st typePeeks then do
    let (ty, st) ← parseType fuel st
    .ok (.Scalar ty, st)
  else .error (lookaheadError st typePeeks)

/-- `impl Parse for FuncType` -/
def parseFuncType (fuel : Nat) (st : PState) : PR FuncType := do
  let (_, st) ← parseToken st .FuncKeyword
  let (_, st) ← parseToken st .OpenParen
  let (params, st) ← parseDelimited .CloseParen true [.Ident] (parseNamedType fuel) fuel st
  let (_, st) ← parseToken st .CloseParen
  let (results, st) ← parseOptional st .Arrow (parseResultList fuel)
  .ok (⟨params, results.getD .Empty⟩, st)

/-- `impl Parse for FuncTypeRef` -/
def parseFuncTypeRef (fuel : Nat) (st : PState) : PR FuncTypeRef :=
  match peekTok st with
  | some .FuncKeyword => do
    let (f, st) ← parseFuncType fuel st
    .ok (.Func f, st)
  | some .Ident => do
    let (id, st) ← parseIdent st
    .ok (.Ident id, st)
  | _ => .error (lookaheadError st [.FuncKeyword, .Ident])

/-- `impl Parse for Constructor` -/
def parseConstructor (fuel : Nat) (st : PState) : PR Constructor := do
  let docs := parseDocs st
  let (kw, st) ← parseToken st .ConstructorKeyword
  let (_, st) ← parseToken st .OpenParen
  let (params, st) ← parseDelimited .CloseParen true [.Ident] (parseNamedType fuel) fuel st
  let (_, st) ← parseToken st .CloseParen
  let (_, st) ← parseToken st .Semicolon
  .ok (⟨docs, kw.span, params⟩, st)

/-- `impl Parse for Method` -/
def parseMethod (fuel : Nat) (st : PState) : PR Method := do
  let docs := parseDocs st
  let (id, st) ← parseIdent st
  let (_, st) ← parseToken st .Colon
  let isStatic := peekIs st .StaticKeyword
  let st := if isStatic then st.next.2 else st
  let (ty, st) ← parseFuncType fuel st
  let (_, st) ← parseToken st .Semicolon
  .ok (⟨docs, id, isStatic, ty⟩, st)

/-- `impl Parse for ResourceMethod` -/
def parseResourceMethod (fuel : Nat) (st : PState) : PR ResourceMethod :=
  match peekTok st with
  | some .ConstructorKeyword => do
    let (c, st) ← parseConstructor fuel st
    .ok (.Constructor c, st)
  | some .Ident => do
    let (m, st) ← parseMethod fuel st
    .ok (.Method m, st)
  | _ => .error (lookaheadError st [.ConstructorKeyword, .Ident])

/-- `impl Parse for ResourceDecl` -/
def parseResourceDecl (fuel : Nat) (st : PState) : PR ResourceDecl := do
  let docs := parseDocs st
  let (_, st) ← parseToken st .ResourceKeyword
  let (id, st) ← parseIdent st
  match peekTok st with
  | some .Semicolon => .ok (⟨docs, id, []⟩, st.next.2)
  | some .OpenBrace => do
    let (_, st) ← parseToken st .OpenBrace
    let (methods, st) ← parseDelimited .CloseBrace false [.ConstructorKeyword, .Ident] (parseResourceMethod fuel) fuel st
    let (_, st) ← parseToken st .CloseBrace
    .ok (⟨docs, id, methods⟩, st)
  | _ => .error (lookaheadError st [.Semicolon, .OpenBrace])

/-- `impl Parse for VariantCase` -/
def parseVariantCase (fuel : Nat) (st : PState) : PR VariantCase := do
  let docs := parseDocs st
  let (id, st) ← parseIdent st
  let (ty, st) ← parseOptional st .OpenParen fun st => do
    let (ty, st) ← parseType fuel st
    let (_, st) ← parseToken st .CloseParen
    .ok (ty, st)
  .ok (⟨docs, id, ty⟩, st)

/-- `impl Parse for VariantDecl` -/
def parseVariantDecl (fuel : Nat) (st : PState) : PR VariantDecl := do
  let docs := parseDocs st
  let (_, st) ← parseToken st .VariantKeyword
  let (id, st) ← parseIdent st
  let (_, st) ← parseToken st .OpenBrace
  let (cases, st) ← parseDelimited .CloseBrace true [.Ident] (parseVariantCase fuel) fuel st
  let (close, st) ← parseToken st .CloseBrace
  if cases.isEmpty then .error (.EmptyType "variant" "case" close.span)
  else .ok (⟨docs, id, cases⟩, st)

/-- `impl Parse for Field` -/
def parseField (fuel : Nat) (st : PState) : PR Field := do
  let docs := parseDocs st
  let (named, st) ← parseNamedType fuel st
  .ok (⟨docs, named.id, named.ty⟩, st)

/-- `impl Parse for RecordDecl` -/
def parseRecordDecl (fuel : Nat) (st : PState) : PR RecordDecl := do
  let docs := parseDocs st
  let (_, st) ← parseToken st .RecordKeyword
  let (id, st) ← parseIdent st
  let (_, st) ← parseToken st .OpenBrace
  let (fields, st) ← parseDelimited .CloseBrace true [.Ident] (parseField fuel) fuel st
  let (close, st) ← parseToken st .CloseBrace
  if fields.isEmpty then .error (.EmptyType "record" "field" close.span)
  else .ok (⟨docs, id, fields⟩, st)

/-- `impl Parse for Flag` -/
def parseFlag (st : PState) : PR Flag := do
  let docs := parseDocs st
  let (id, st) ← parseIdent st
  .ok (⟨docs, id⟩, st)

/-- `impl Parse for FlagsDecl` -/
def parseFlagsDecl (fuel : Nat) (st : PState) : PR FlagsDecl := do
  let docs := parseDocs st
  let (_, st) ← parseToken st .FlagsKeyword
  let (id, st) ← parseIdent st
  let (_, st) ← parseToken st .OpenBrace
  let (flags, st) ← parseDelimited .CloseBrace true [.Ident] parseFlag fuel st
  let (close, st) ← parseToken st .CloseBrace
  if flags.isEmpty then .error (.EmptyType "flags" "flag" close.span)
  else .ok (⟨docs, id, flags⟩, st)

/-- `impl Parse for EnumCase` -/
def parseEnumCase (st : PState) : PR EnumCase := do
  let docs := parseDocs st
  let (id, st) ← parseIdent st
  .ok (⟨docs, id⟩, st)

/-- `impl Parse for EnumDecl` -/
def parseEnumDecl (fuel : Nat) (st : PState) : PR EnumDecl := do
  let docs := parseDocs st
  let (_, st) ← parseToken st .EnumKeyword
  let (id, st) ← parseIdent st
  let (_, st) ← parseToken st .OpenBrace
  let (cases, st) ← parseDelimited .CloseBrace true [.Ident] parseEnumCase fuel st
  let (close, st) ← parseToken st .CloseBrace
  if cases.isEmpty then .error (.EmptyType "enum" "case" close.span)
  else .ok (⟨docs, id, cases⟩, st)

/-- `impl Parse for TypeAliasKind` -/
def parseTypeAliasKind (fuel : Nat) (st : PState) : PR TypeAliasKind :=
  if peekIs st .FuncKeyword then do
    let (f, st) ← parseFuncType fuel st
    .ok (.Func f, st)
  else if peekIn st typePeeks then do
    let (t, st) ← parseType fuel st
    .ok (.Type' t, st)
  else .error (lookaheadError st (.FuncKeyword :: typePeeks))

/-- `impl Parse for TypeAlias` -/
def parseTypeAlias (fuel : Nat) (st : PState) : PR TypeAlias := do
  let docs := parseDocs st
  let (_, st) ← parseToken st .TypeKeyword
  let (id, st) ← parseIdent st
  let (_, st) ← parseToken st .Equals
  let (kind, st) ← parseTypeAliasKind fuel st
  let (_, st) ← parseToken st .Semicolon
  .ok (⟨docs, id, kind⟩, st)

/-- the tokens tested by `TypeDecl::peek` -/
def typeDeclPeeks : List Token := [.VariantKeyword, .RecordKeyword, .FlagsKeyword, .EnumKeyword, .TypeKeyword]

/-- `impl Parse for TypeDecl` -/
def parseTypeDecl (fuel : Nat) (st : PState) : PR TypeDecl :=
  match peekTok st with
  | some .VariantKeyword => do let (d, st) ← parseVariantDecl fuel st; .ok (.Variant d, st)
  | some .RecordKeyword => do let (d, st) ← parseRecordDecl fuel st; .ok (.Record d, st)
  | some .FlagsKeyword => do let (d, st) ← parseFlagsDecl fuel st; .ok (.Flags d, st)
  | some .EnumKeyword => do let (d, st) ← parseEnumDecl fuel st; .ok (.Enum d, st)
  | some .TypeKeyword => do let (d, st) ← parseTypeAlias fuel st; .ok (.Alias d, st)
  | _ => .error (lookaheadError st typeDeclPeeks)

/-- the tokens tested by `ItemTypeDecl::peek` -/
def itemTypeDeclPeeks : List Token := .ResourceKeyword :: typeDeclPeeks

/-- `impl Parse for ItemTypeDecl` -/
def parseItemTypeDecl (fuel : Nat) (st : PState) : PR ItemTypeDecl :=
  match peekTok st with
  | some .ResourceKeyword => do let (d, st) ← parseResourceDecl fuel st; .ok (.Resource d, st)
  | some .VariantKeyword => do let (d, st) ← parseVariantDecl fuel st; .ok (.Variant d, st)
  | some .RecordKeyword => do let (d, st) ← parseRecordDecl fuel st; .ok (.Record d, st)
  | some .FlagsKeyword => do let (d, st) ← parseFlagsDecl fuel st; .ok (.Flags d, st)
  | some .EnumKeyword => do let (d, st) ← parseEnumDecl fuel st; .ok (.Enum d, st)
  | some .TypeKeyword => do let (d, st) ← parseTypeAlias fuel st; .ok (.Alias d, st)
  | _ => .error (lookaheadError st itemTypeDeclPeeks)

/-- `impl Parse for UsePath` -/
def parseUsePath (st : PState) : PR UsePath :=
  match peekTok st with
  | some .PackagePath => do let (p, st) ← parsePackagePath st; .ok (.Package p, st)
  | some .Ident => do let (id, st) ← parseIdent st; .ok (.Ident id, st)
  | _ => .error (lookaheadError st [.PackagePath, .Ident])

/-- `impl Parse for UseItem` -/
def parseUseItem (st : PState) : PR UseItem := do
  let (id, st) ← parseIdent st
  let (asId, st) ← parseOptional st .AsKeyword parseIdent
  .ok (⟨id, asId⟩, st)

/-- `impl Parse for Use` -/
def parseUse (fuel : Nat) (st : PState) : PR Use := do
  let docs := parseDocs st
  let (_, st) ← parseToken st .UseKeyword
  let (path, st) ← parseUsePath st
  let (_, st) ← parseToken st .Dot
  let (_, st) ← parseToken st .OpenBrace
  let (items, st) ← parseDelimited .CloseBrace true [.Ident] parseUseItem fuel st
  let (_, st) ← parseToken st .CloseBrace
  let (_, st) ← parseToken st .Semicolon
  .ok (⟨docs, path, items⟩, st)

/-- `impl Parse for InterfaceExport` -/
def parseInterfaceExport (fuel : Nat) (st : PState) : PR InterfaceExport := do
  let docs := parseDocs st
  let (id, st) ← parseIdent st
  let (_, st) ← parseToken st .Colon
  let (ty, st) ← parseFuncTypeRef fuel st
  let (_, st) ← parseToken st .Semicolon
  .ok (⟨docs, id, ty⟩, st)

/-- the tokens tested by `InterfaceItem::peek` -/
def interfaceItemPeeks : List Token := .UseKeyword :: .Ident :: itemTypeDeclPeeks

/-- `impl Parse for InterfaceItem` -/
def parseInterfaceItem (fuel : Nat) (st : PState) : PR InterfaceItem :=
  if peekIs st .UseKeyword then do let (u, st) ← parseUse fuel st; .ok (.Use u, st)
  else if peekIs st .Ident then do let (e, st) ← parseInterfaceExport fuel st; .ok (.Export e, st)
  else if peekIn st itemTypeDeclPeeks then do let (d, st) ← parseItemTypeDecl fuel st; .ok (.Type' d, st)
  else .error (lookaheadError st interfaceItemPeeks)

/-- `impl Parse for InterfaceDecl` -/
def parseInterfaceDecl (fuel : Nat) (st : PState) : PR InterfaceDecl := do
  let docs := parseDocs st
  let (_, st) ← parseToken st .InterfaceKeyword
  let (id, st) ← parseIdent st
  let (_, st) ← parseToken st .OpenBrace
  let (items, st) ← parseDelimited .CloseBrace false interfaceItemPeeks (parseInterfaceItem fuel) fuel st
  let (_, st) ← parseToken st .CloseBrace
  .ok (⟨docs, id, items⟩, st)

/-- `impl Parse for InlineInterface` -/
def parseInlineInterface (fuel : Nat) (st : PState) : PR InlineInterface := do
  let (_, st) ← parseToken st .InterfaceKeyword
  let (_, st) ← parseToken st .OpenBrace
  let (items, st) ← parseDelimited .CloseBrace false interfaceItemPeeks (parseInterfaceItem fuel) fuel st
  let (_, st) ← parseToken st .CloseBrace
  .ok (⟨items⟩, st)

/-- `impl Parse for ExternType` -/
def parseExternType (fuel : Nat) (st : PState) : PR ExternType :=
  match peekTok st with
  | some .Ident => do let (id, st) ← parseIdent st; .ok (.Ident id, st)
  | some .FuncKeyword => do let (f, st) ← parseFuncType fuel st; .ok (.Func f, st)
  | some .InterfaceKeyword => do let (i, st) ← parseInlineInterface fuel st; .ok (.Interface i, st)
  | _ => .error (lookaheadError st [.Ident, .FuncKeyword, .InterfaceKeyword])

/-- `impl Parse for NamedWorldItem` -/
def parseNamedWorldItem (fuel : Nat) (st : PState) : PR NamedWorldItem := do
  let (id, st) ← parseIdent st
  let (_, st) ← parseToken st .Colon
  let (ty, st) ← parseExternType fuel st
  .ok (⟨id, ty⟩, st)

/-- `impl Parse for WorldItemPath` -/
def parseWorldItemPath (fuel : Nat) (st : PState) : PR WorldItemPath :=
  match peekTok st with
  | some .PackagePath => do let (p, st) ← parsePackagePath st; .ok (.Package p, st)
  | some .Ident =>
    -- "Peek again to see if this is a named item or an interface reference"
    if peek2Tok st == some .Colon then do let (n, st) ← parseNamedWorldItem fuel st; .ok (.Named n, st)
    else do let (id, st) ← parseIdent st; .ok (.Ident id, st)
  | _ => .error (lookaheadError st [.PackagePath, .Ident])

/-- `impl Parse for WorldImport` -/
def parseWorldImport (fuel : Nat) (st : PState) : PR WorldImport := do
  let docs := parseDocs st
  let (_, st) ← parseToken st .ImportKeyword
  let (path, st) ← parseWorldItemPath fuel st
  let (_, st) ← parseToken st .Semicolon
  .ok (⟨docs, path⟩, st)

/-- `impl Parse for WorldExport` -/
def parseWorldExport (fuel : Nat) (st : PState) : PR WorldExport := do
  let docs := parseDocs st
  let (_, st) ← parseToken st .ExportKeyword
  let (path, st) ← parseWorldItemPath fuel st
  let (_, st) ← parseToken st .Semicolon
  .ok (⟨docs, path⟩, st)

/-- `impl Parse for WorldRef` -/
def parseWorldRef (st : PState) : PR WorldRef :=
  match peekTok st with
  | some .PackagePath => do let (p, st) ← parsePackagePath st; .ok (.Package p, st)
  | some .Ident => do let (id, st) ← parseIdent st; .ok (.Ident id, st)
  | _ => .error (lookaheadError st [.PackagePath, .Ident])

/-- `impl Parse for WorldIncludeItem` -/
def parseWorldIncludeItem (st : PState) : PR WorldIncludeItem := do
  let (fromId, st) ← parseIdent st
  let (_, st) ← parseToken st .AsKeyword
  let (toId, st) ← parseIdent st
  .ok (⟨fromId, toId⟩, st)

/-- `impl Parse for WorldInclude` -/
def parseWorldInclude (fuel : Nat) (st : PState) : PR WorldInclude := do
  let docs := parseDocs st
  let (_, st) ← parseToken st .IncludeKeyword
  let (world, st) ← parseWorldRef st
  let (w, st) ← parseOptional st .WithKeyword fun st => do
    let (_, st) ← parseToken st .OpenBrace
    let (items, st) ← parseDelimited .CloseBrace true [.Ident] parseWorldIncludeItem fuel st
    let (_, st) ← parseToken st .CloseBrace
    .ok (items, st)
  let (_, st) ← parseToken st .Semicolon
  .ok (⟨docs, world, w.getD []⟩, st)

/-- the tokens tested by `WorldItem::peek` -/
def worldItemPeeks : List Token :=
  .UseKeyword :: .ImportKeyword :: .ExportKeyword :: .IncludeKeyword :: itemTypeDeclPeeks

/-- `impl Parse for WorldItem` -/
def parseWorldItem (fuel : Nat) (st : PState) : PR WorldItem :=
  if peekIs st .UseKeyword then do let (u, st) ← parseUse fuel st; .ok (.Use u, st)
  else if peekIs st .ImportKeyword then do let (i, st) ← parseWorldImport fuel st; .ok (.Import i, st)
  else if peekIs st .ExportKeyword then do let (e, st) ← parseWorldExport fuel st; .ok (.Export e, st)
  else if peekIs st .IncludeKeyword then do let (i, st) ← parseWorldInclude fuel st; .ok (.Include i, st)
  else if peekIn st itemTypeDeclPeeks then do let (d, st) ← parseItemTypeDecl fuel st; .ok (.Type' d, st)
  else .error (lookaheadError st worldItemPeeks)

/-- `impl Parse for WorldDecl` -/
def parseWorldDecl (fuel : Nat) (st : PState) : PR WorldDecl := do
  let docs := parseDocs st
  let (_, st) ← parseToken st .WorldKeyword
  let (id, st) ← parseIdent st
  let (_, st) ← parseToken st .OpenBrace
  let (items, st) ← parseDelimited .CloseBrace false worldItemPeeks (parseWorldItem fuel) fuel st
  let (_, st) ← parseToken st .CloseBrace
  .ok (⟨docs, id, items⟩, st)

/-- the tokens tested by `TypeStatement::peek` -/
def typeStatementPeeks : List Token := .InterfaceKeyword :: .WorldKeyword :: typeDeclPeeks

/-- `impl Parse for TypeStatement` -/
def parseTypeStatement (fuel : Nat) (st : PState) : PR TypeStatement :=
  if peekIs st .InterfaceKeyword then do let (d, st) ← parseInterfaceDecl fuel st; .ok (.Interface d, st)
  else if peekIs st .WorldKeyword then do let (d, st) ← parseWorldDecl fuel st; .ok (.World d, st)
  else if peekIn st typeDeclPeeks then do let (d, st) ← parseTypeDecl fuel st; .ok (.Type' d, st)
  else .error (lookaheadError st typeStatementPeeks)

/-! ### imports (`ast/import.rs`) -/

/-- `impl Parse for ExternName` -/
def parseExternName (st : PState) : PR ExternName :=
  match peekTok st with
  | some .Ident => do let (id, st) ← parseIdent st; .ok (.Ident id, st)
  | some .String => do let (s, st) ← parseString st; .ok (.String s, st)
  | _ => .error (lookaheadError st [.Ident, .String])

/-- `impl Parse for ImportType` -/
def parseImportType (fuel : Nat) (st : PState) : PR ImportType :=
  match peekTok st with
  | some .FuncKeyword => do let (f, st) ← parseFuncType fuel st; .ok (.Func f, st)
  | some .InterfaceKeyword => do let (i, st) ← parseInlineInterface fuel st; .ok (.Interface i, st)
  | some .PackagePath => do let (p, st) ← parsePackagePath st; .ok (.Package p, st)
  | some .Ident => do let (id, st) ← parseIdent st; .ok (.Ident id, st)
  | _ => .error (lookaheadError st [.FuncKeyword, .InterfaceKeyword, .PackagePath, .Ident])

/-- `impl Parse for ImportStatement` -/
def parseImportStatement (fuel : Nat) (st : PState) : PR ImportStatement := do
  let docs := parseDocs st
  let (_, st) ← parseToken st .ImportKeyword
  let (id, st) ← parseIdent st
  let (name, st) ← parseOptional st .AsKeyword parseExternName
  let (_, st) ← parseToken st .Colon
  let (ty, st) ← parseImportType fuel st
  let (_, st) ← parseToken st .Semicolon
  .ok (⟨docs, id, name, ty⟩, st)

/-! ### expressions (`ast/expr.rs`) -/

/-- `impl Parse for InstantiationArgumentName` -/
def parseInstantiationArgumentName (st : PState) : PR InstantiationArgumentName :=
  match peekTok st with
  | some .Ident => do let (id, st) ← parseIdent st; .ok (.Ident id, st)
  | some .String => do let (s, st) ← parseString st; .ok (.String s, st)
  | _ => .error (lookaheadError st [.Ident, .String])

/-- `impl Parse for AccessExpr` -/
def parseAccessExpr (st : PState) : PR AccessExpr := do
  let (start, st) ← parseToken st .Dot
  let (id, st) ← parseIdent st
  .ok (⟨⟨start.span.offset, id.span.offset - start.span.offset + id.span.len⟩, id⟩, st)

/-- `impl Parse for NamedAccessExpr` -/
def parseNamedAccessExpr (st : PState) : PR NamedAccessExpr := do
  let (opening, st) ← parseToken st .OpenBracket
  let (string, st) ← parseString st
  let (closing, st) ← parseToken st .CloseBracket
  .ok (⟨opening.span.cover closing.span, string⟩, st)

/-- the `while let` loop of `Expr::parse` -/
def parsePostfix : Nat → PState → PR (List PostfixExpr)
  | 0, _ => .error .OutOfFuel
  | fuel + 1, st =>
    match peekTok st with
    | some .Dot => do
      let (a, st) ← parseAccessExpr st
      let (rest, st) ← parsePostfix fuel st
      .ok (.Access a :: rest, st)
    | some .OpenBracket => do
      let (a, st) ← parseNamedAccessExpr st
      let (rest, st) ← parsePostfix fuel st
      .ok (.NamedAccess a :: rest, st)
    | _ => .ok ([], st)

/-- the tokens tested by `InstantiationArgument::peek` -/
def instantiationArgumentPeeks : List Token := [.Ellipsis, .Ident, .String]

mutual
/-- `impl Parse for Expr` -/
def parseExpr : Nat → PState → PR Expr
  | 0, _ => .error .OutOfFuel
  | fuel + 1, st => do
    let (primary, st) ← parsePrimaryExpr fuel st
    let (post, st) ← parsePostfix (st.toks.length + 1) st
    let start := primary.span
    let len := match post.getLast? with
      | some p => p.span.offset + p.span.len - start.offset
      | none => start.len
    .ok (.mk ⟨start.offset, len⟩ primary post, st)

/-- `impl Parse for PrimaryExpr` (with `NewExpr::parse` and `NestedExpr::parse`) -/
def parsePrimaryExpr : Nat → PState → PR PrimaryExpr
  | 0, _ => .error .OutOfFuel
  | fuel + 1, st =>
    match peekTok st with
    | some .NewKeyword => do
      -- `NewExpr::parse`
      let (start, st) ← parseToken st .NewKeyword
      let (package, st) ← parsePackageName st
      let (_, st) ← parseToken st .OpenBrace
      let (arguments, st) ← parseDelimited .CloseBrace true instantiationArgumentPeeks
        (parseInstantiationArgument fuel) (st.toks.length + 1) st
      let (stop, st) ← parseToken st .CloseBrace
      .ok (.New (.mk (start.span.cover stop.span) package arguments), st)
    | some .OpenParen => do
      -- `NestedExpr::parse`
      let (start, st) ← parseToken st .OpenParen
      let (inner, st) ← parseExpr fuel st
      let (stop, st) ← parseToken st .CloseParen
      .ok (.Nested (.mk (start.span.cover stop.span) inner), st)
    | some .Ident => do
      let (id, st) ← parseIdent st
      .ok (.Ident id, st)
    | _ => .error (lookaheadError st [.NewKeyword, .OpenParen, .Ident])

/-- `impl Parse for InstantiationArgument` (with `NamedInstantiationArgument::parse`) -/
def parseInstantiationArgument : Nat → PState → PR InstantiationArgument
  | 0, _ => .error .OutOfFuel
  | fuel + 1, st =>
    match peekTok st with
    | some .Ellipsis => do
      -- "This is a spread of an instance or a fill."
      let (e, st) ← parseToken st .Ellipsis
      if peekIs st .Comma || peekIs st .CloseBrace then .ok (.Fill e.span, st)
      else do
        let (id, st) ← parseIdent st
        .ok (.Spread id, st)
    | some k =>
      if k = .Ident || k = .String then
        if peek2Tok st == some .Colon then do
          -- `NamedInstantiationArgument::parse`
          let (name, st) ← parseInstantiationArgumentName st
          let (_, st) ← parseToken st .Colon
          let (expr, st) ← parseExpr fuel st
          .ok (.Named (.mk name expr), st)
        else do
          let (id, st) ← parseIdent st
          .ok (.Inferred id, st)
      else .error (lookaheadError st instantiationArgumentPeeks)
    | none => .error (lookaheadError st instantiationArgumentPeeks)
end

/-! ### statements -/

/-- `impl Parse for LetStatement` -/
def parseLetStatement (fuel : Nat) (st : PState) : PR LetStatement := do
  let docs := parseDocs st
  let (_, st) ← parseToken st .LetKeyword
  let (id, st) ← parseIdent st
  let (_, st) ← parseToken st .Equals
  let (expr, st) ← parseExpr fuel st
  let (_, st) ← parseToken st .Semicolon
  .ok (⟨docs, id, expr⟩, st)

/-- `impl Parse for ExportOptions` -/
def parseExportOptions (st : PState) : PR ExportOptions :=
  if peekIs st .Ellipsis then do
    let (e, st) ← parseToken st .Ellipsis
    .ok (.Spread e.span, st)
  else if peekIs st .AsKeyword then do
    let (_, st) ← parseToken st .AsKeyword
    let (n, st) ← parseExternName st
    .ok (.Rename n, st)
  else .ok (.None, st)

/-- `impl Parse for ExportStatement` -/
def parseExportStatement (fuel : Nat) (st : PState) : PR ExportStatement := do
  let docs := parseDocs st
  let (_, st) ← parseToken st .ExportKeyword
  let (expr, st) ← parseExpr fuel st
  let (options, st) ← parseExportOptions st
  let (_, st) ← parseToken st .Semicolon
  .ok (⟨docs, expr, options⟩, st)

/-- the tokens tested by `Statement::parse` -/
def statementPeeks : List Token := .ImportKeyword :: .LetKeyword :: .ExportKeyword :: typeStatementPeeks

/-- `impl Parse for Statement` -/
def parseStatement (fuel : Nat) (st : PState) : PR Statement :=
  if peekIs st .ImportKeyword then do let (s, st) ← parseImportStatement fuel st; .ok (.Import s, st)
  else if peekIs st .LetKeyword then do let (s, st) ← parseLetStatement fuel st; .ok (.Let s, st)
  else if peekIs st .ExportKeyword then do let (s, st) ← parseExportStatement fuel st; .ok (.Export s, st)
  else if peekIn st typeStatementPeeks then do let (s, st) ← parseTypeStatement fuel st; .ok (.Type' s, st)
  else .error (lookaheadError st statementPeeks)

/-- `impl Parse for PackageDirective` -/
def parsePackageDirective (st : PState) : PR PackageDirective := do
  let (_, st) ← parseToken st .PackageKeyword
  let (package, st) ← parsePackageName st
  let (targets, st) ← parseOptional st .TargetsKeyword parsePackagePath
  let (_, st) ← parseToken st .Semicolon
  .ok (⟨package, targets⟩, st)

/-- the `while lexer.peek().is_some()` loop of `Document::parse` -/
def parseStatements (fuel : Nat) : Nat → PState → PR (List Statement)
  | 0, _ => .error .OutOfFuel
  | n + 1, st =>
    match st.peek with
    | none => .ok ([], st)
    | some _ => do
      let (s, st) ← parseStatement fuel st
      let (rest, st) ← parseStatements fuel n st
      .ok (s :: rest, st)

/-- enough fuel for a token list of this length -/
def fuelFor (n : Nat) : Nat := 3 * n + 8

/-- `Document::parse` after `Lexer::new` succeeded -/
def parseTokens (st : PState) : Except ParseError Document := do
  let fuel := fuelFor st.toks.length
  let docs := parseDocs st
  let (directive, st) ← parsePackageDirective st
  let (statements, _) ← parseStatements fuel (st.toks.length + 1) st
  .ok ⟨docs, directive, statements⟩

/-- `Document::parse` -/
def parseDocument (src : Str) : Except ParseError Document :=
  match detectInvalidInput src with
  | some (e, span) => .error (.Lexer e span)
  | none => parseTokens (PState.init src)

end Wac.Parse
