import WacModel.Semver
/-
  Model of `crates/wac-types/src/names.rs`: `alternate_lookup_key`, `are_semver_compatible`,
  `NameMap::{insert, get}` (with `NameMapNoIntern`, the only interner wac uses).
  `IndexMap` is modelled as an association list with "insert keeps the position of an
  existing key" semantics; only lookups are observable through `NameMap`'s API plus
  `raw_iter` order (which is the order of first insertion).
-/
namespace Wac

/-- index of the first occurrence of `c` (Rust `str::find(char)`), in characters -/
def findChar (c : Char) : Str → Option Nat
  | [] => none
  | x :: r => if x == c then some 0 else (findChar c r).map (· + 1)

/-- `alternate_lookup_key(name)`: the *sliced key string* and the parsed version. -/
def altKey (name : Str) : Option (Str × Version) :=
  match findChar '@' name with
  | none => none
  | some at_ =>
    let vs := name.drop (at_ + 1)
    match parseVersion vs with
    | none => none
    | some v =>
      if !v.pre.isEmpty then none
      else if v.major != 0 then
        match findChar '.' vs with
        | none => none
        | some d => some (name.take (d + at_ + 1), v)
      else if v.minor != 0 then
        match findChar '.' vs with
        | none => none
        | some d =>
          let firstDot := d + at_ + 1
          match findChar '.' (name.drop (firstDot + 1)) with
          | none => none
          | some d2 => some (name.take (d2 + firstDot + 1), v)
      else none

/-- `are_semver_compatible(a, b)` -/
def compat (a b : Str) : Bool :=
  if a == b then true
  else match altKey a, altKey b with
    | some (ka, _), some (kb, _) => ka == kb
    | _, _ => false

/-! ### IndexMap as an association list -/

def amGet {β : Type} (m : List (Str × β)) (k : Str) : Option β :=
  match m with
  | [] => none
  | (k', v) :: r => if k' == k then some v else amGet r k

/-- `IndexMap::insert`: overwrite in place, else append -/
def amInsert {β : Type} (m : List (Str × β)) (k : Str) (v : β) : List (Str × β) :=
  match m with
  | [] => [(k, v)]
  | (k', v') :: r => if k' == k then (k, v) :: r else (k', v') :: amInsert r k v

structure NameMap (β : Type) where
  definitions : List (Str × β) := []
  alternate   : List (Str × (Str × Version)) := []

/-- `NameMap::insert`; `none` = the "defined twice" error (map unchanged). -/
def NameMap.insert {β : Type} (m : NameMap β) (name : Str) (allowShadowing : Bool) (item : β) :
    Option (NameMap β) :=
  if (amGet m.definitions name).isSome && !allowShadowing then none
  else
    let defs := amInsert m.definitions name item
    match altKey name with
    | none => some { m with definitions := defs }
    | some (k, v) =>
      match amGet m.alternate k with
      | none => some { definitions := defs, alternate := amInsert m.alternate k (name, v) }
      | some (_, pv) =>
        if v.lt pv then some { m with definitions := defs }
        else some { definitions := defs, alternate := amInsert m.alternate k (name, v) }

/-- `NameMap::get` -/
def NameMap.get {β : Type} (m : NameMap β) (name : Str) : Option β :=
  match amGet m.definitions name with
  | some d => some d
  | none =>
    match altKey name with
    | none => none
    | some (k, _) =>
      match amGet m.alternate k with
      | none => none
      | some (exact, _) => amGet m.definitions exact

end Wac

namespace Wac

/-- insert the entries in order, shadowing off (the only way wac populates a `NameMap`);
`none` = some insertion was rejected -/
def NameMap.insertAll {β : Type} (m : NameMap β) : List (Str × β) → Option (NameMap β)
  | [] => some m
  | (n, x) :: r =>
    match m.insert n false x with
    | none => none
    | some m' => m'.insertAll r

end Wac
