import WacModel.Ast
import WacModel.Lexer
import WacModel.Printer
/-
  The equivalence "equal up to source positions and doc-comment line splitting" of C13, as a
  normal-form function: `x.erase` replaces every span of a tree by `⟨0, 0⟩` and every list of doc
  comments by the list of its *trimmed lines* (one comment per line, an empty comment counting as
  one empty line — `docLines`).  Two trees are equivalent iff their erasures are equal.

  Everything the printer reads is kept: the cooked identifier and its `%` flag, the text of
  strings, the whole token of package names and package paths with their parsed fields.

  Core Lean only.
-/
namespace Wac.Ast
open Wac

/-- the erased span -/
def zspan : Span := ⟨0, 0⟩

/-- the lines `DocumentPrinter::docs` prints for a list of doc comments: every comment split with
`str::lines`, every line trimmed, an empty comment counting as one empty line -/
def docLines (ds : List DocComment) : List Str :=
  ds.flatMap fun d =>
    (Wac.Print.rustLines (if d.comment.isEmpty then ['\n'] else d.comment)).map Wac.Lex.rustTrim

/-- doc comments up to line splitting: one comment per printed line, no spans -/
def eraseDocs (ds : List DocComment) : List DocComment := (docLines ds).map fun l => ⟨l, zspan⟩

def Ident.erase (i : Ident) : Ident := { i with span := zspan }
def StringLit.erase (s : StringLit) : StringLit := { s with span := zspan }
def PackageName.erase (p : PackageName) : PackageName := { p with span := zspan }
def PackagePath.erase (p : PackagePath) : PackagePath := { p with span := zspan }

mutual
def Ty.erase : Ty → Ty
  | .U8 _ => .U8 zspan | .S8 _ => .S8 zspan | .U16 _ => .U16 zspan | .S16 _ => .S16 zspan
  | .U32 _ => .U32 zspan | .S32 _ => .S32 zspan | .U64 _ => .U64 zspan | .S64 _ => .S64 zspan
  | .F32 _ => .F32 zspan | .F64 _ => .F64 zspan | .Char _ => .Char zspan | .Bool _ => .Bool zspan
  | .String _ => .String zspan
  | .Tuple types _ => .Tuple (eraseTys types) zspan
  | .List t _ => .List t.erase zspan
  | .Option t _ => .Option t.erase zspan
  | .Result none none _ => .Result none none zspan
  | .Result none (some err) _ => .Result none (some err.erase) zspan
  | .Result (some ok) none _ => .Result (some ok.erase) none zspan
  | .Result (some ok) (some err) _ => .Result (some ok.erase) (some err.erase) zspan
  | .Borrow id _ => .Borrow id.erase zspan
  | .Ident id => .Ident id.erase
def eraseTys : List Ty → List Ty
  | [] => []
  | t :: r => t.erase :: eraseTys r
end

def NamedType.erase (n : NamedType) : NamedType := ⟨n.id.erase, n.ty.erase⟩

def ResultList.erase : ResultList → ResultList
  | .Empty => .Empty
  | .Scalar t => .Scalar t.erase

def FuncType.erase (f : FuncType) : FuncType := ⟨f.params.map NamedType.erase, f.results.erase⟩

def FuncTypeRef.erase : FuncTypeRef → FuncTypeRef
  | .Func f => .Func f.erase
  | .Ident id => .Ident id.erase

def Constructor.erase (c : Constructor) : Constructor :=
  ⟨eraseDocs c.docs, zspan, c.params.map NamedType.erase⟩

def Method.erase (m : Method) : Method := ⟨eraseDocs m.docs, m.id.erase, m.isStatic, m.ty.erase⟩

def ResourceMethod.erase : ResourceMethod → ResourceMethod
  | .Constructor c => .Constructor c.erase
  | .Method m => .Method m.erase

def ResourceDecl.erase (d : ResourceDecl) : ResourceDecl :=
  ⟨eraseDocs d.docs, d.id.erase, d.methods.map ResourceMethod.erase⟩

def VariantCase.erase (c : VariantCase) : VariantCase :=
  ⟨eraseDocs c.docs, c.id.erase, c.ty.map Ty.erase⟩

def VariantDecl.erase (d : VariantDecl) : VariantDecl :=
  ⟨eraseDocs d.docs, d.id.erase, d.cases.map VariantCase.erase⟩

def Field.erase (f : Field) : Field := ⟨eraseDocs f.docs, f.id.erase, f.ty.erase⟩

def RecordDecl.erase (d : RecordDecl) : RecordDecl :=
  ⟨eraseDocs d.docs, d.id.erase, d.fields.map Field.erase⟩

def Flag.erase (f : Flag) : Flag := ⟨eraseDocs f.docs, f.id.erase⟩

def FlagsDecl.erase (d : FlagsDecl) : FlagsDecl :=
  ⟨eraseDocs d.docs, d.id.erase, d.flags.map Flag.erase⟩

def EnumCase.erase (c : EnumCase) : EnumCase := ⟨eraseDocs c.docs, c.id.erase⟩

def EnumDecl.erase (d : EnumDecl) : EnumDecl :=
  ⟨eraseDocs d.docs, d.id.erase, d.cases.map EnumCase.erase⟩

def TypeAliasKind.erase : TypeAliasKind → TypeAliasKind
  | .Func f => .Func f.erase
  | .Type' t => .Type' t.erase

def TypeAlias.erase (a : TypeAlias) : TypeAlias := ⟨eraseDocs a.docs, a.id.erase, a.kind.erase⟩

def TypeDecl.erase : TypeDecl → TypeDecl
  | .Variant d => .Variant d.erase
  | .Record d => .Record d.erase
  | .Flags d => .Flags d.erase
  | .Enum d => .Enum d.erase
  | .Alias d => .Alias d.erase

def ItemTypeDecl.erase : ItemTypeDecl → ItemTypeDecl
  | .Resource d => .Resource d.erase
  | .Variant d => .Variant d.erase
  | .Record d => .Record d.erase
  | .Flags d => .Flags d.erase
  | .Enum d => .Enum d.erase
  | .Alias d => .Alias d.erase

def UseItem.erase (u : UseItem) : UseItem := ⟨u.id.erase, u.asId.map Ident.erase⟩

def UsePath.erase : UsePath → UsePath
  | .Package p => .Package p.erase
  | .Ident id => .Ident id.erase

def Use.erase (u : Use) : Use := ⟨eraseDocs u.docs, u.path.erase, u.items.map UseItem.erase⟩

def InterfaceExport.erase (e : InterfaceExport) : InterfaceExport :=
  ⟨eraseDocs e.docs, e.id.erase, e.ty.erase⟩

def InterfaceItem.erase : InterfaceItem → InterfaceItem
  | .Use u => .Use u.erase
  | .Type' d => .Type' d.erase
  | .Export e => .Export e.erase

def InterfaceDecl.erase (d : InterfaceDecl) : InterfaceDecl :=
  ⟨eraseDocs d.docs, d.id.erase, d.items.map InterfaceItem.erase⟩

def InlineInterface.erase (i : InlineInterface) : InlineInterface :=
  ⟨i.items.map InterfaceItem.erase⟩

def ExternType.erase : ExternType → ExternType
  | .Ident id => .Ident id.erase
  | .Func f => .Func f.erase
  | .Interface i => .Interface i.erase

def NamedWorldItem.erase (n : NamedWorldItem) : NamedWorldItem := ⟨n.id.erase, n.ty.erase⟩

def WorldItemPath.erase : WorldItemPath → WorldItemPath
  | .Named n => .Named n.erase
  | .Package p => .Package p.erase
  | .Ident id => .Ident id.erase

def WorldImport.erase (i : WorldImport) : WorldImport := ⟨eraseDocs i.docs, i.path.erase⟩
def WorldExport.erase (e : WorldExport) : WorldExport := ⟨eraseDocs e.docs, e.path.erase⟩

def WorldRef.erase : WorldRef → WorldRef
  | .Ident id => .Ident id.erase
  | .Package p => .Package p.erase

def WorldIncludeItem.erase (i : WorldIncludeItem) : WorldIncludeItem := ⟨i.fromId.erase, i.toId.erase⟩

def WorldInclude.erase (i : WorldInclude) : WorldInclude :=
  ⟨eraseDocs i.docs, i.world.erase, i.withItems.map WorldIncludeItem.erase⟩

def WorldItem.erase : WorldItem → WorldItem
  | .Use u => .Use u.erase
  | .Type' d => .Type' d.erase
  | .Import i => .Import i.erase
  | .Export e => .Export e.erase
  | .Include i => .Include i.erase

def WorldDecl.erase (d : WorldDecl) : WorldDecl :=
  ⟨eraseDocs d.docs, d.id.erase, d.items.map WorldItem.erase⟩

def TypeStatement.erase : TypeStatement → TypeStatement
  | .Interface d => .Interface d.erase
  | .World d => .World d.erase
  | .Type' d => .Type' d.erase

def ExternName.erase : ExternName → ExternName
  | .Ident id => .Ident id.erase
  | .String s => .String s.erase

def ImportType.erase : ImportType → ImportType
  | .Package p => .Package p.erase
  | .Func f => .Func f.erase
  | .Interface i => .Interface i.erase
  | .Ident id => .Ident id.erase

def ImportStatement.erase (s : ImportStatement) : ImportStatement :=
  ⟨eraseDocs s.docs, s.id.erase, s.name.map ExternName.erase, s.ty.erase⟩

def InstantiationArgumentName.erase : InstantiationArgumentName → InstantiationArgumentName
  | .Ident id => .Ident id.erase
  | .String s => .String s.erase

def PostfixExpr.erase : PostfixExpr → PostfixExpr
  | .Access a => .Access ⟨zspan, a.id.erase⟩
  | .NamedAccess a => .NamedAccess ⟨zspan, a.string.erase⟩

mutual
def Expr.erase : Expr → Expr
  | .mk _ primary post => .mk zspan primary.erase (post.map PostfixExpr.erase)
def PrimaryExpr.erase : PrimaryExpr → PrimaryExpr
  | .New (.mk _ package arguments) => .New (.mk zspan package.erase (eraseArgs arguments))
  | .Nested (.mk _ inner) => .Nested (.mk zspan inner.erase)
  | .Ident id => .Ident id.erase
def eraseArgs : List InstantiationArgument → List InstantiationArgument
  | [] => []
  | a :: r =>
    (match a with
      | .Inferred id => .Inferred id.erase
      | .Spread id => .Spread id.erase
      | .Named (.mk name e) => .Named (.mk name.erase e.erase)
      | .Fill _ => .Fill zspan) :: eraseArgs r
end

def LetStatement.erase (s : LetStatement) : LetStatement := ⟨eraseDocs s.docs, s.id.erase, s.expr.erase⟩

def ExportOptions.erase : ExportOptions → ExportOptions
  | .None => .None
  | .Spread _ => .Spread zspan
  | .Rename n => .Rename n.erase

def ExportStatement.erase (s : ExportStatement) : ExportStatement :=
  ⟨eraseDocs s.docs, s.expr.erase, s.options.erase⟩

def Statement.erase : Statement → Statement
  | .Import s => .Import s.erase
  | .Type' s => .Type' s.erase
  | .Let s => .Let s.erase
  | .Export s => .Export s.erase

def PackageDirective.erase (d : PackageDirective) : PackageDirective :=
  ⟨d.package.erase, d.targets.map PackagePath.erase⟩

/-- the document up to source positions and doc-comment line splitting -/
def Document.erase (d : Document) : Document :=
  ⟨eraseDocs d.docs, d.directive.erase, d.statements.map Statement.erase⟩

end Wac.Ast
