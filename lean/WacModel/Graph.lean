import WacModel.Semver
/-
  Model of `crates/wac-graph/src/graph.rs` (state and every public mutating method of
  `CompositionGraph`, plus the public queries), function for function.

  * petgraph `StableDiGraph` (0.6.4): node slots `List (Option Node)` with a LIFO free list
    (`add_node` pops the most recently vacated slot, else appends).  Every new edge is linked at
    the head of both endpoints' adjacency lists and removing an edge keeps the relative order of
    the others, so ONE global edge list ordered newest-first represents all adjacency lists at
    once: `edges_directed(n, Outgoing)` = the sublist with `src = n`, `Incoming` = the sublist
    with `dst = n`.  Edge indices are not observable through wac's API and are not modelled.
  * `IndexMap` (`exports`) = association list, `insert` appends / overwrites in place,
    `swap_remove` moves the last entry into the hole, `retain` filters.
  * `HashMap` (`imports`, `defined`, `package_map`) = association lists in insertion order; only
    order-free observations of them are compared (the harness sorts).  `defined` is iterated
    by `define_type` — see `defineType` and C16.
  * Packages, item kinds and types are abstract (`Ctx`): a package is its key, its ordered
    import list (name, kind) and the kind of its instances; a kind is a number, instance kinds
    have an ordered export list; the subtype verdict is a parameter (`Ctx.sub`); a type is a
    number with the list of defined-type ids `visit_defined_types` yields for it.
  * Panics are values (`Outcome.panic site`).

  `Legacy` selects the behaviour of the code before the three C06 repairs (DESIGN §10 rows
  1–3); the drivers and all property theorems use `Legacy.fixed`, the `_counterexample`
  theorems use `Legacy.pinned`.

  Core Lean only: this file is linked into the drivers.
-/
namespace Wac.Graph
open Wac

abbrev Kind := Nat
abbrev Ty := Nat

/-- `PackageId { index, generation }` -/
structure PkgId where
  index : Nat
  gen   : Nat
deriving DecidableEq, Repr, BEq

/-- what the graph can see of a `wac_types::Package` -/
structure PkgDef where
  name     : Str
  version  : Option Str
  imports  : List (Str × Kind)
  instKind : Kind
deriving DecidableEq, Repr

abbrev PkgKey := Str × Option Str
def PkgDef.key (d : PkgDef) : PkgKey := (d.name, d.version)

/-- the static context: `Types`, subtype verdicts, name validity -/
structure Ctx where
  /-- `Some exports` iff the kind is `ItemKind::Instance(id)`; `types[id].exports` in order -/
  kindExports : Kind → Option (List (Str × Kind))
  /-- verdict of `SubtypeChecker::is_subtype(a, b)` -/
  sub : Kind → Kind → Bool
  /-- ids passed to the visitor by `Type::visit_defined_types`, in order -/
  tyVisits : Ty → List Ty
  tyIsResource : Ty → Bool
  /-- `ItemKind::Type(ty)` -/
  tyKind : Ty → Kind
  /-- `ComponentName::new(name, 0).is_ok()` -/
  validExtern : Str → Bool
  /-- … and the kind is not hash / url / dependency -/
  validExport : Str → Bool
  /-- which of the two behaviours `export` has on a *definition* node: `true` = the node's
      export name is overwritten (the definition is renamed; pinned behaviour, DESIGN §10 row 4,
      owned by C02/C03), `false` = the definition keeps its defining name and the further name
      is only an entry of the export map.  Probed from the implementation by the harness. -/
  exportRenamesDefinition : Bool := true

inductive NodeKind where
  /-- `NodeKind::Definition` with `item_kind = ItemKind::Type(ty)` -/
  | definition (ty : Ty)
  | import (name : Str)
  /-- the satisfied-argument set (no order: compared sorted) -/
  | instantiation (sat : List Nat)
  | alias
deriving DecidableEq, Repr

structure Node where
  kind   : NodeKind
  pkg    : Option PkgId
  item   : Kind
  name   : Option Str
  exp    : Option Str
deriving DecidableEq, Repr

inductive EdgeKind where
  | alias (exportIdx : Nat)
  | arg (importIdx : Nat)
  | dep
deriving DecidableEq, Repr

structure Edge where
  src  : Nat
  dst  : Nat
  kind : EdgeKind
deriving DecidableEq, Repr

/-- `RegisteredPackage { package, generation }` -/
structure PkgSlot where
  pkg : Option PkgDef
  gen : Nat
deriving DecidableEq, Repr

structure Graph where
  nodes     : List (Option Node) := []
  /-- head = next slot handed out -/
  freeNodes : List Nat := []
  /-- newest first -/
  edges     : List Edge := []
  imports   : List (Str × Nat) := []
  exports   : List (Str × Nat) := []
  defined   : List (Ty × Nat) := []
  pkgMap    : List (PkgKey × PkgId) := []
  pkgs      : List PkgSlot := []
  /-- head = top of the `free_packages` stack -/
  freePkgs  : List Nat := []
deriving DecidableEq, Repr

inductive Site where
  | invalidPackageId | invalidNodeId | pkgMissing
  | satInsert | satRemove | notInstantiation | unexpectedEdge
  | importsRemove | exportsRemove | definedRemove | pkgMapRemove | pkgMapInsert
  | aliasSource | allocOccupied | fuel
deriving DecidableEq, Repr

inductive Err where
  | packageAlreadyRegistered (key : PkgKey)
  | typeAlreadyDefined
  | cannotDefineResource
  | exportConflict (name : Str)
  | invalidExternName (name : Str)
  | importAlreadyExists (name : Str) (node : Nat)
  | invalidImportName (name : Str)
  | nodeIsNotAnInstance (node : Nat)
  | instanceMissingExport (node : Nat) (ename : Str)
  | exportAlreadyExists (name : Str) (node : Nat)
  | invalidExportName (name : Str)
  | mustExportDefinition
  | nodeIsNotAnInstantiation (node : Nat)
  | invalidArgumentName (node : Nat) (name : Str) (package : Str)
  | argumentTypeMismatch (name : Str)
  | argumentAlreadyPassed (node : Nat) (name : Str)
deriving DecidableEq, Repr

inductive Val where
  | unit
  | node (n : Nat)
  | pkg (id : PkgId)
deriving DecidableEq, Repr

inductive Outcome where
  | ok (v : Val)
  | err (e : Err)
  | panic (s : Site)
deriving DecidableEq, Repr

def Outcome.isPanic : Outcome → Bool
  | .panic _ => true
  | _ => false

/-- behaviour switches for the three repairs (true = behaviour of the pinned tree) -/
structure Legacy where
  /-- row 1: removing an argument's source does not clear the satisfied index -/
  staleSat : Bool
  /-- row 2: unexport / remove free only the node's last export name -/
  staleExport : Bool
  /-- row 3: `remove_node` recurses into dependants that are already gone -/
  doubleRemove : Bool
deriving DecidableEq, Repr

def Legacy.fixed : Legacy := ⟨false, false, false⟩
def Legacy.pinned : Legacy := ⟨true, true, true⟩

/-! ### association lists -/

def alGet {κ β : Type} [DecidableEq κ] (m : List (κ × β)) (k : κ) : Option β :=
  match m with
  | [] => none
  | (k', v) :: r => if k' = k then some v else alGet r k

/-- `IndexMap::insert` / `HashMap::insert`: overwrite in place, else append -/
def alInsert {κ β : Type} [DecidableEq κ] (m : List (κ × β)) (k : κ) (v : β) : List (κ × β) :=
  match m with
  | [] => [(k, v)]
  | (k', v') :: r => if k' = k then (k, v) :: r else (k', v') :: alInsert r k v

/-- `HashMap::remove` / `IndexMap::shift_remove` (first entry with the key) -/
def alErase {κ β : Type} [DecidableEq κ] (m : List (κ × β)) (k : κ) : List (κ × β) :=
  match m with
  | [] => []
  | (k', v') :: r => if k' = k then r else (k', v') :: alErase r k

/-- `IndexMap::swap_remove`: the last entry takes the place of the removed one -/
def alSwapRemove {κ β : Type} [DecidableEq κ] (m : List (κ × β)) (k : κ) : List (κ × β) :=
  match m with
  | [] => []
  | (k', v') :: r =>
    if k' = k then
      match r.getLast? with
      | none => []
      | some l => l :: r.dropLast
    else (k', v') :: alSwapRemove r k

/-- index, key, value of the entry with key `k` (`IndexMap::get_full`) -/
def alFull {β : Type} (m : List (Str × β)) (k : Str) : Option (Nat × β) :=
  match m with
  | [] => none
  | (k', v) :: r => if k' = k then some (0, v) else (alFull r k).map fun (i, v) => (i + 1, v)

/-! ### petgraph -/

def Graph.node? (g : Graph) (n : Nat) : Option Node := (g.nodes[n]?).join

def Graph.live (g : Graph) (n : Nat) : Bool := (g.node? n).isSome

/-- `StableGraph::add_node` -/
def Graph.addNode (g : Graph) (nd : Node) : Graph × Nat :=
  match g.freeNodes with
  | i :: r => ({ g with nodes := g.nodes.set i (some nd), freeNodes := r }, i)
  | [] => ({ g with nodes := g.nodes ++ [some nd] }, g.nodes.length)

/-- `StableGraph::add_edge` (both endpoints live): head of both adjacency lists -/
def Graph.addEdge (g : Graph) (src dst : Nat) (k : EdgeKind) : Graph :=
  { g with edges := ⟨src, dst, k⟩ :: g.edges }

/-- `StableGraph::remove_node`: the weight, all incident edges go, slot pushed on the free list -/
def Graph.rawRemove (g : Graph) (n : Nat) : Option (Node × Graph) :=
  match g.node? n with
  | none => none
  | some nd =>
    some (nd, { g with nodes := g.nodes.set n none,
                       edges := g.edges.filter (fun e => !(e.src == n || e.dst == n)),
                       freeNodes := n :: g.freeNodes })

/-- `edges_directed(n, Outgoing)` -/
def Graph.outEdges (g : Graph) (n : Nat) : List Edge := g.edges.filter (fun e => e.src == n)
/-- `edges_directed(n, Incoming)` -/
def Graph.inEdges (g : Graph) (n : Nat) : List Edge := g.edges.filter (fun e => e.dst == n)

def Graph.setNode (g : Graph) (n : Nat) (nd : Node) : Graph :=
  { g with nodes := g.nodes.set n (some nd) }

/-- node indices in increasing order (`node_indices`) -/
def Graph.nodeIds (g : Graph) : List Nat :=
  (List.range g.nodes.length).filter (fun i => g.live i)

abbrev R := Graph × Outcome

/-! ### packages -/

/-- `Index<PackageId>`: the package, or the panic -/
def Graph.pkgOf (g : Graph) (id : PkgId) : Except Site PkgDef :=
  match g.pkgs[id.index]? with
  | none => .error .invalidPackageId
  | some slot =>
    if slot.gen ≠ id.gen then .error .invalidPackageId
    else match slot.pkg with
      | none => .error .pkgMissing
      | some d => .ok d

/-- `self.packages[id.index].package.as_ref().unwrap()` (no generation check) -/
def Graph.pkgAt (g : Graph) (id : PkgId) : Except Site PkgDef :=
  match g.pkgs[id.index]? with
  | none => .error .invalidPackageId
  | some slot =>
    match slot.pkg with
    | none => .error .pkgMissing
    | some d => .ok d

/-- `register_package` + `alloc_package` -/
def registerPackage (g : Graph) (d : PkgDef) : R :=
  if (alGet g.pkgMap d.key).isSome then (g, .err (.packageAlreadyRegistered d.key))
  else
    match g.freePkgs with
    | i :: r =>
      match g.pkgs[i]? with
      | none => (g, .panic .allocOccupied)
      | some slot =>
        if slot.pkg.isSome then (g, .panic .allocOccupied)
        else
          let id : PkgId := ⟨i, slot.gen⟩
          ({ g with pkgs := g.pkgs.set i ⟨some d, slot.gen⟩, freePkgs := r,
                    pkgMap := alInsert g.pkgMap d.key id }, .ok (.pkg id))
    | [] =>
      let id : PkgId := ⟨g.pkgs.length, 0⟩
      ({ g with pkgs := g.pkgs ++ [⟨some d, 0⟩], pkgMap := alInsert g.pkgMap d.key id }, .ok (.pkg id))

def Graph.nodePkgIs (g : Graph) (n : Nat) (id : PkgId) : Bool :=
  match g.node? n with
  | some nd => nd.pkg == some id
  | none => false

/-- `map.retain(|_, n| self.graph[*n].package != Some(package))`; `none` = indexing panic -/
def retainNotPkg {κ : Type} (g : Graph) (m : List (κ × Nat)) (id : PkgId) : Option (List (κ × Nat)) :=
  if m.all (fun e => g.live e.2) then some (m.filter (fun e => !g.nodePkgIs e.2 id)) else none

/-- remove index `i` from the satisfied set of node `n` (`remove_satisfied_arg`) -/
def Graph.clearSat (g : Graph) (n i : Nat) : Except Site Graph :=
  match g.node? n with
  | none => .error .invalidNodeId
  | some nd =>
    match nd.kind with
    | .instantiation sat =>
      if sat.contains i then .ok (g.setNode n { nd with kind := .instantiation (sat.erase i) })
      else .error .satRemove
    | _ => .error .notInstantiation

/-- clear, for every edge of `es` that is an argument edge selected by `sel`, the satisfied
    index at its target -/
def clearSatEdges (g : Graph) (sel : Edge → Bool) : List Edge → Except Site Graph
  | [] => .ok g
  | e :: r =>
    match e.kind with
    | .arg i =>
      if sel e then
        match g.clearSat e.dst i with
        | .error s => .error s
        | .ok g' => clearSatEdges g' sel r
      else clearSatEdges g sel r
    | _ => clearSatEdges g sel r

/-- `retain_nodes(|g, i| g[i].package != Some(package))`: visits indices in increasing order -/
def retainNodes (g : Graph) (id : PkgId) : Graph :=
  (List.range g.nodes.length).foldl
    (fun g i => if g.nodePkgIs i id then
                  match g.rawRemove i with
                  | some (_, g') => g'
                  | none => g
                else g) g

/-- `unregister_package` -/
def unregisterPackage (lg : Legacy) (g : Graph) (id : PkgId) : R :=
  match g.pkgs[id.index]? with
  | none => (g, .panic .invalidPackageId)
  | some slot =>
    if slot.gen ≠ id.gen then (g, .panic .invalidPackageId)
    else
      match retainNotPkg g g.exports id, retainNotPkg g g.defined id, retainNotPkg g g.imports id with
      | some ex, some de, some im =>
        -- (repair of row 1) arguments supplied by the removed nodes to surviving
        -- instantiations become unsatisfied again
        let cleared : Except Site Graph :=
          if lg.staleSat then .ok g
          else clearSatEdges g (fun e => g.nodePkgIs e.src id && !g.nodePkgIs e.dst id) g.edges
        match cleared with
        | .error s => (g, .panic s)
        | .ok g1 =>
          let g2 := retainNodes { g1 with exports := ex, defined := de, imports := im } id
          match slot.pkg with
          | none => (g, .panic .pkgMissing)
          | some d =>
            if (alGet g2.pkgMap d.key).isNone then (g, .panic .pkgMapRemove)
            else
              ({ g2 with pkgMap := alErase g2.pkgMap d.key,
                         pkgs := g2.pkgs.set id.index ⟨none, slot.gen + 1⟩,
                         freePkgs := id.index :: g2.freePkgs }, .ok .unit)
      | _, _, _ => (g, .panic .invalidNodeId)

/-! ### nodes -/

def Graph.hasDep (g : Graph) (a b : Nat) : Bool :=
  g.edges.any (fun e => e.src == a && e.dst == b && e.kind == .dep)

/-- first loop of `define_type`: edges dependency → new node -/
def defineDepsIn (g : Graph) (ty : Ty) (idx : Nat) (visits : List Ty) : Graph :=
  visits.foldl (fun g dep =>
    if dep = ty then g
    else match alGet g.defined dep with
      | none => g
      | some d => if g.hasDep d idx then g else g.addEdge d idx .dep) g

/-- second loop of `define_type`: edges new node → every defined type that references it;
    `order` is the iteration order over `self.defined` -/
def defineDepsOut (ctx : Ctx) (g : Graph) (ty : Ty) (idx : Nat) (order : List (Ty × Nat)) : Graph :=
  order.foldl (fun g e =>
    (ctx.tyVisits e.1).foldl (fun g v =>
      if v = ty && !g.hasDep idx e.2 then g.addEdge idx e.2 .dep else g) g) g

/-- `define_type`; `ρ` = iteration order of the `defined` map (C16) -/
def defineTypeWith (ρ : List (Ty × Nat) → List (Ty × Nat)) (ctx : Ctx) (g : Graph) (name : Str) (ty : Ty) : R :=
  if (alGet g.defined ty).isSome then (g, .err .typeAlreadyDefined)
  else if ctx.tyIsResource ty then (g, .err .cannotDefineResource)
  else if (alGet g.exports name).isSome then (g, .err (.exportConflict name))
  else if !ctx.validExtern name then (g, .err (.invalidExternName name))
  else
    let (g1, idx) := g.addNode ⟨.definition ty, none, ctx.tyKind ty, none, some name⟩
    let g2 := defineDepsIn g1 ty idx (ctx.tyVisits ty)
    let g3 := defineDepsOut ctx g2 ty idx (ρ g.defined)
    ({ g3 with defined := alInsert g3.defined ty idx, exports := alInsert g3.exports name idx },
     .ok (.node idx))

def defineType (ctx : Ctx) (g : Graph) (name : Str) (ty : Ty) : R :=
  defineTypeWith id ctx g name ty

/-- `import` -/
def importItem (ctx : Ctx) (g : Graph) (name : Str) (kind : Kind) : R :=
  match alGet g.imports name with
  | some n => (g, .err (.importAlreadyExists name n))
  | none =>
    if !ctx.validExtern name then (g, .err (.invalidImportName name))
    else
      let (g1, idx) := g.addNode ⟨.import name, none, kind, none, none⟩
      ({ g1 with imports := alInsert g1.imports name idx }, .ok (.node idx))

/-- `instantiate` -/
def instantiate (g : Graph) (id : PkgId) : R :=
  match g.pkgOf id with
  | .error s => (g, .panic s)
  | .ok d =>
    let (g1, idx) := g.addNode ⟨.instantiation [], some id, d.instKind, none, none⟩
    (g1, .ok (.node idx))

def findAliasEdge (es : List Edge) (i : Nat) : Option Nat :=
  match es with
  | [] => none
  | e :: r => if e.kind = .alias i then some e.dst else findAliasEdge r i

/-- `alias_instance_export` -/
def aliasInstanceExport (ctx : Ctx) (g : Graph) (inst : Nat) (ename : Str) : R :=
  match g.node? inst with
  | none => (g, .panic .invalidNodeId)
  | some nd =>
    match ctx.kindExports nd.item with
    | none => (g, .err (.nodeIsNotAnInstance inst))
    | some exps =>
      match alFull exps ename with
      | none => (g, .err (.instanceMissingExport inst ename))
      | some (i, k) =>
        match findAliasEdge (g.outEdges inst) i with
        | some t => (g, .ok (.node t))
        | none =>
          let (g1, idx) := g.addNode ⟨.alias, nd.pkg, k, none, none⟩
          (g1.addEdge inst idx (.alias i), .ok (.node idx))

/-- the scan of the incoming edges in `set_instantiation_argument`:
    `none` = no edge for the index -/
def scanArgs (es : List Edge) (i arg : Nat) : Option (Except Site Bool) :=
  match es with
  | [] => none
  | e :: r =>
    match e.kind with
    | .arg j => if j = i then some (.ok (e.src == arg)) else scanArgs r i arg
    | _ => some (.error .unexpectedEdge)

/-- `set_instantiation_argument` -/
def setArg (ctx : Ctx) (g : Graph) (inst : Nat) (name : Str) (arg : Nat) : R :=
  match g.node? inst with
  | none => (g, .panic .invalidNodeId)
  | some nd =>
    match nd.kind with
    | .instantiation sat =>
      match nd.pkg with
      | none => (g, .panic .pkgMissing)
      | some pid =>
        match g.pkgAt pid with
        | .error s => (g, .panic s)
        | .ok d =>
          match alFull d.imports name with
          | none => (g, .err (.invalidArgumentName inst name d.name))
          | some (i, expected) =>
            match scanArgs (g.inEdges inst) i arg with
            | some (.error s) => (g, .panic s)
            | some (.ok true) => (g, .ok .unit)
            | some (.ok false) => (g, .err (.argumentAlreadyPassed inst name))
            | none =>
              match g.node? arg with
              | none => (g, .panic .invalidNodeId)
              | some argNd =>
                if !ctx.sub argNd.item expected then (g, .err (.argumentTypeMismatch name))
                else if sat.contains i then (g, .panic .satInsert)
                else
                  let g1 := g.addEdge arg inst (.arg i)
                  (g1.setNode inst { nd with kind := .instantiation (i :: sat) }, .ok .unit)
    | _ => (g, .err (.nodeIsNotAnInstantiation inst))

/-- the scan of `edges_connecting(argument, instantiation)` in `unset_instantiation_argument` -/
def scanConnecting (es : List Edge) (inst i : Nat) : Except Site Bool :=
  match es with
  | [] => .ok false
  | e :: r =>
    if e.dst = inst then
      match e.kind with
      | .arg j => if j = i then .ok true else scanConnecting r inst i
      | _ => .error .unexpectedEdge
    else scanConnecting r inst i

/-- remove the first edge `arg → inst` with weight `Argument(i)` -/
def removeArgEdge (es : List Edge) (arg inst i : Nat) : List Edge :=
  match es with
  | [] => []
  | e :: r => if e = ⟨arg, inst, .arg i⟩ then r else e :: removeArgEdge r arg inst i

/-- `unset_instantiation_argument` -/
def unsetArg (g : Graph) (inst : Nat) (name : Str) (arg : Nat) : R :=
  match g.node? inst with
  | none => (g, .panic .invalidNodeId)
  | some nd =>
    match nd.kind with
    | .instantiation sat =>
      match nd.pkg with
      | none => (g, .panic .pkgMissing)
      | some pid =>
        match g.pkgAt pid with
        | .error s => (g, .panic s)
        | .ok d =>
          match alFull d.imports name with
          | none => (g, .err (.invalidArgumentName inst name d.name))
          | some (i, _) =>
            match scanConnecting (g.outEdges arg) inst i with
            | .error s => (g, .panic s)
            | .ok false => (g, .ok .unit)
            | .ok true =>
              if !sat.contains i then (g, .panic .satRemove)
              else
                let g1 := g.setNode inst { nd with kind := .instantiation (sat.erase i) }
                ({ g1 with edges := removeArgEdge g1.edges arg inst i }, .ok .unit)
    | _ => (g, .err (.nodeIsNotAnInstantiation inst))

/-- `set_node_name` -/
def setNodeName (g : Graph) (n : Nat) (name : Str) : R :=
  match g.node? n with
  | none => (g, .panic .invalidNodeId)
  | some nd => (g.setNode n { nd with name := some name }, .ok .unit)

/-- `export` -/
def exportNode (ctx : Ctx) (g : Graph) (n : Nat) (name : Str) : R :=
  match alGet g.exports name with
  | some e => (g, .err (.exportAlreadyExists name e))
  | none =>
    if !ctx.validExport name then (g, .err (.invalidExportName name))
    else
      match g.node? n with
      | none => (g, .panic .invalidNodeId)
      | some nd =>
        -- a type definition keeps the name it was defined with; a further name is only an
        -- additional entry of the export map
        let nd' : Node := match nd.kind with
          | .definition _ => if ctx.exportRenamesDefinition then { nd with exp := some name } else nd
          | _ => { nd with exp := some name }
        let g1 := g.setNode n nd'
        ({ g1 with exports := alInsert g1.exports name n }, .ok .unit)

/-- drop the export-map entries of node `n` after its own export name went
    (repair of row 2: a node may have been exported under several names) -/
def dropExportsOf (lg : Legacy) (m : List (Str × Nat)) (n : Nat) : List (Str × Nat) :=
  if lg.staleExport then m else m.filter (fun e => e.2 != n)

/-- `unexport` -/
def unexport (lg : Legacy) (g : Graph) (n : Nat) : R :=
  match g.node? n with
  | none => (g, .panic .invalidNodeId)
  | some nd =>
    match nd.kind with
    | .definition _ => (g, .err .mustExportDefinition)
    | _ =>
      match nd.exp with
      | none => (g, .ok .unit)
      | some name =>
        if (alGet g.exports name).isNone then (g, .panic .exportsRemove)
        else
          let g1 := g.setNode n { nd with exp := none }
          ({ g1 with exports := dropExportsOf lg (alSwapRemove g1.exports name) n }, .ok .unit)

/-- targets of the outgoing alias / dependency edges, adjacency order -/
def cascadeTargets (es : List Edge) : List Nat :=
  es.filterMap fun e =>
    match e.kind with
    | .alias _ => some e.dst
    | .dep => some e.dst
    | .arg _ => none

/-- `imports.remove(name)` of an import node (`assert!(removed.is_some())`) -/
def dropImport (g : Graph) (nd : Node) : Except Site Graph :=
  match nd.kind with
  | .import name =>
    if (alGet g.imports name).isNone then .error .importsRemove
    else .ok { g with imports := alErase g.imports name }
  | _ => .ok g

/-- `exports.swap_remove(name)` of an exported node, then (repair of row 2) every other name -/
def dropExport (lg : Legacy) (g : Graph) (nd : Node) (n : Nat) : Except Site Graph :=
  match nd.exp with
  | some name =>
    if (alGet g.exports name).isNone then .error .exportsRemove
    else .ok { g with exports := dropExportsOf lg (alSwapRemove g.exports name) n }
  | none => .ok g

/-- `defined.remove(ty)` of a definition node -/
def dropDefined (g : Graph) (nd : Node) : Except Site Graph :=
  match nd.kind with
  | .definition ty =>
    if (alGet g.defined ty).isNone then .error .definedRemove
    else .ok { g with defined := alErase g.defined ty }
  | _ => .ok g

/-- the bookkeeping of `remove_node` after the cascade: detach node `n` -/
def detachNode (lg : Legacy) (g : Graph) (n : Nat) : Graph × Option Site :=
  -- (repair of row 1) arguments supplied by this node become unsatisfied again
  let cleared : Except Site Graph :=
    if lg.staleSat then .ok g else clearSatEdges g (fun _ => true) (g.outEdges n)
  match cleared with
  | .error s => (g, some s)
  | .ok g0 =>
    match g0.rawRemove n with
    | none => (g, some .invalidNodeId)
    | some (nd, g1) =>
      match dropImport g1 nd with
      | .error s => (g1, some s)
      | .ok g2 =>
        match dropExport lg g2 nd n with
        | .error s => (g2, some s)
        | .ok g3 =>
          match dropDefined g3 nd with
          | .error s => (g3, some s)
          | .ok g4 => (g4, none)

/-- `remove_node` (recursive; `fuel` bounds the nesting depth, exhausted fuel = the real
    code's unbounded recursion on a cyclic graph) -/
def removeNodeAux (lg : Legacy) : Nat → Graph → Nat → Graph × Option Site
  | 0, g, _ => (g, some .fuel)
  | fuel + 1, g, n =>
    let targets := cascadeTargets (g.outEdges n)
    let r := targets.foldl (fun (acc : Graph × Option Site) t =>
      match acc with
      | (g, some s) => (g, some s)
      | (g, none) =>
        -- (repair of row 3) dependants already removed by an earlier cascade are skipped
        if lg.doubleRemove || g.live t then removeNodeAux lg fuel g t else (g, none)) (g, none)
    match r with
    | (g', some s) => (g', some s)
    | (g', none) => detachNode lg g' n

def removeNode (lg : Legacy) (g : Graph) (n : Nat) : R :=
  match removeNodeAux lg (g.nodes.length + 1) g n with
  | (_, some s) => (g, .panic s)
  | (g', none) => (g', .ok .unit)

/-! ### operations as data -/

inductive Op where
  | register (d : PkgDef)
  | unregister (id : PkgId)
  | defineType (name : Str) (ty : Ty)
  | importItem (name : Str) (kind : Kind)
  | instantiate (id : PkgId)
  | alias (inst : Nat) (ename : Str)
  | setArg (inst : Nat) (name : Str) (arg : Nat)
  | unsetArg (inst : Nat) (name : Str) (arg : Nat)
  | exportNode (n : Nat) (name : Str)
  | unexport (n : Nat)
  | setName (n : Nat) (name : Str)
  | removeNode (n : Nat)
deriving DecidableEq, Repr

def stepWith (lg : Legacy) (ctx : Ctx) (g : Graph) : Op → R
  | .register d => registerPackage g d
  | .unregister id => unregisterPackage lg g id
  | .defineType name ty => defineType ctx g name ty
  | .importItem name kind => importItem ctx g name kind
  | .instantiate id => instantiate g id
  | .alias inst ename => aliasInstanceExport ctx g inst ename
  | .setArg inst name arg => setArg ctx g inst name arg
  | .unsetArg inst name arg => unsetArg g inst name arg
  | .exportNode n name => exportNode ctx g n name
  | .unexport n => unexport lg g n
  | .setName n name => setNodeName g n name
  | .removeNode n => removeNode lg g n

/-- one API call on the repaired code -/
def step (ctx : Ctx) (g : Graph) (op : Op) : R := stepWith .fixed ctx g op

/-- a whole history; stops at the first panic (the state after a panic is unspecified) -/
def runWith (lg : Legacy) (ctx : Ctx) (g : Graph) : List Op → Graph × List Outcome
  | [] => (g, [])
  | op :: ops =>
    match stepWith lg ctx g op with
    | (g', .panic s) => (g', [.panic s])
    | (g', out) =>
      let (g'', outs) := runWith lg ctx g' ops
      (g'', out :: outs)

def run (ctx : Ctx) (g : Graph) (ops : List Op) : Graph × List Outcome := runWith .fixed ctx g ops

/-! ### queries -/

/-- `get_export` -/
def getExport (g : Graph) (name : Str) : Option Nat := alGet g.exports name

/-- `get_import_name`; `none` (outer) = panic on an invalid id -/
def getImportName (g : Graph) (n : Nat) : Option (Option Str) :=
  match g.node? n with
  | none => none
  | some nd => match nd.kind with
    | .import name => some (some name)
    | _ => some none

/-- `get_alias_source`: first incoming alias edge; `.error` = panic -/
def getAliasSource (ctx : Ctx) (g : Graph) (n : Nat) : Except Site (Option (Nat × Str)) :=
  let rec go : List Edge → Except Site (Option (Nat × Str))
    | [] => .ok none
    | e :: r =>
      match e.kind with
      | .alias i =>
        match g.node? e.src with
        | none => .error .invalidNodeId
        | some s =>
          match ctx.kindExports s.item with
          | none => .error .aliasSource
          | some exps =>
            match exps[i]? with
            | none => .error .aliasSource
            | some (nm, _) => .ok (some (e.src, nm))
      | _ => go r
  go (g.inEdges n)

/-- `get_instantiation_arguments`: incoming argument edges in adjacency order -/
def getInstantiationArguments (g : Graph) (n : Nat) : Except Site (List (Str × Nat)) :=
  match g.node? n with
  | none => .ok []     -- `edges_directed` of a vacant slot is empty
  | some nd =>
    match nd.kind with
    | .instantiation _ =>
      match nd.pkg with
      | none => .ok []
      | some pid =>
        match g.pkgs[pid.index]? with
        | none => if (g.inEdges n).isEmpty then .ok [] else .error .invalidPackageId
        | some slot =>
          match slot.pkg with
          | none => .ok []
          | some d =>
            let rec go : List Edge → Except Site (List (Str × Nat))
              | [] => .ok []
              | e :: r =>
                match e.kind with
                | .arg i =>
                  match d.imports[i]? with
                  | none => .error .pkgMissing
                  | some (nm, _) =>
                    match go r with
                    | .error s => .error s
                    | .ok l => .ok ((nm, e.src) :: l)
                | _ => go r
            go (g.inEdges n)
    | _ => .ok []

/-- `imports()`: unsatisfied arguments of the instantiations in node order, then the
    explicit imports in node order -/
def importsQuery (g : Graph) : Except Site (List (Str × Kind × Option Nat)) :=
  let rec insts : List Nat → Except Site (List (Str × Kind × Option Nat))
    | [] => .ok []
    | n :: r =>
      match g.node? n with
      | none => insts r
      | some nd =>
        match nd.kind with
        | .instantiation sat =>
          match nd.pkg with
          | none => .error .pkgMissing
          | some pid =>
            match g.pkgOf pid with
            | .error s => .error s
            | .ok d =>
              let here := (List.zip (List.range d.imports.length) d.imports).filterMap fun (i, (nm, k)) =>
                if sat.contains i then none else some (nm, k, (none : Option Nat))
              match insts r with
              | .error s => .error s
              | .ok l => .ok (here ++ l)
        | _ => insts r
  match insts g.nodeIds with
  | .error s => .error s
  | .ok l =>
    .ok (l ++ g.nodeIds.filterMap fun n =>
      match g.node? n with
      | some nd => match nd.kind with
        | .import name => some (name, nd.item, some n)
        | _ => none
      | none => none)

/-- `get_package_by_name` -/
def getPackageByName (g : Graph) (key : PkgKey) : Option PkgId := alGet g.pkgMap key

end Wac.Graph
