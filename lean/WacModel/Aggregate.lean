import WacModel.Checker
import WacModel.Names
/-
  Model of `crates/wac-types/src/aggregator.rs` (`TypeAggregator`), function for function:
  `aggregate`, `find_semver_compatible_{import,interface}`, `merge_*`, `remap_*`,
  `canonical_import_name`, with its state (`types`, ordered `imports`, `remapped`, `interfaces`,
  `name_redirects`) and the shared `SubtypeChecker` (memo + variance stack) threaded through.

  * `HashMap`s are association lists; `interfaces` is iterated by
    `find_semver_compatible_interface` in hash order in Rust — here in insertion order (all names
    of one semver track map to one id whenever that matters: `interfaces_track_functional`).
  * keys of `remapped` are foreign `Type`s; ids carry the uid of their collection (`GTy`).
  * errors are the `{:#}` text; `assert!`/`expect`/`panic!` sites are `AErr.panic`.
  * the mutual recursion `remap_* ↔ merge_*` is fuelled (one unit per call).
-/
namespace Wac

inductive AErr
  | err (msg : String)
  | panic (site : String)
deriving DecidableEq, Repr, Inhabited

/-- a foreign `Type` as a key of `remapped` -/
structure GTy where
  uid : Nat
  ty : Ty
deriving DecidableEq, Repr, Inhabited

def Ty.hasId : Ty → Bool
  | .value (.prim _) => false
  | _ => true

def GTy.mk' (t : Types) (ty : Ty) : GTy := ⟨if ty.hasId then t.uid else 0, ty⟩

/-- `TypeAggregator` -/
structure Agg where
  types : Types := {}
  imports : List (Str × ItemKind) := []
  remapped : List (GTy × Ty) := []
  interfaces : List (Str × Nat) := []
  redirects : List (Str × Str) := []
deriving Repr, Inhabited

/-- which repairs of aggregator.rs the model follows (`pinned` = the snapshot under test before
the `fix:` commits, kept so that the counterexample theorems stay about the original code) -/
structure AggCfg where
  /-- `merge_interface` merges nested instance exports recursively (fix d46aa12) -/
  nestedMerge : Bool := true
  /-- `remap_resource` skips the owner import when a semver-compatible import exists (fix 755b7a5) -/
  ownerSemver : Bool := true
  /-- `remap_value_type` uses a recorded replacement of a defined type directly, also when it is
  not a defined type (fix b2ae0a5; before: panic "expected a defined type") -/
  remapReplaced : Bool := true
  /-- `merge_interface` also merges `type` exports of interface type recursively on a copy
  (before: it kept the wider of the two, i.e. the supertype, and the merged import did not
  satisfy the contributor with the narrower type) -/
  typeMerge : Bool := true
deriving Repr, Inhabited, DecidableEq

def AggCfg.pinned : AggCfg :=
  { nestedMerge := false, ownerSemver := false, remapReplaced := false, typeMerge := false }
def AggCfg.fixed : AggCfg := {}

structure AggState where
  agg : Agg
  chk : Checker
  cfg : AggCfg := {}
deriving Repr, Inhabited

abbrev AggM := StateT AggState (Except AErr)

def bail {α : Type} (msg : String) : AggM α := throw (.err msg)
def apanic {α : Type} (site : String) : AggM α := throw (.panic site)

/-- `.with_context(|| c)` -/
def withCtx {α : Type} (c : String) (act : AggM α) : AggM α :=
  fun s => match act s with
    | .error (.err m) => .error (.err (c ++ ": " ++ m))
    | r => r

def getAgg : AggM Agg := do return (← get).agg
def modifyAgg (f : Agg → Agg) : AggM Unit := modify fun s => { s with agg := f s.agg }
def modifyTypes (f : Types → Types) : AggM Unit := modifyAgg fun a => { a with types := f a.types }

/-- `checker.is_subtype(a, at, b, bt)` as a result value (`.is_ok()` / `?`) -/
def chkSubtype (at_ : Types) (a : ItemKind) (bt : Types) (b : ItemKind) : AggM R := do
  let s ← get
  let (r, c') := isSubtype (checkFuel at_ bt) s.chk at_ a bt b
  set { s with chk := c' }
  match r with
  | .panic site => apanic site
  | r => return r

/-- `checker.is_subtype(...)?` -/
def chkSubtypeQ (at_ : Types) (a : ItemKind) (bt : Types) (b : ItemKind) : AggM Unit := do
  match ← chkSubtype at_ a bt b with
  | .err m => bail m
  | _ => return ()

def chkInvert : AggM Unit := modify fun s => { s with chk := s.chk.invert.2 }
def chkRevert : AggM Unit := do
  match (← get).chk.revert with
  | some c => modify fun s => { s with chk := c }
  | none => apanic "mismatched stack"

/-- `IndexMap::shift_remove` -/
def alRemove {κ β : Type} [BEq κ] (m : List (κ × β)) (k : κ) : List (κ × β) := m.filter fun e => !(e.1 == k)

def listSet {α : Type} : List α → Nat → α → List α
  | [], _, _ => []
  | _ :: r, 0, x => x :: r
  | a :: r, n + 1, x => a :: listSet r n x

/-- `TypeAggregator::find_semver_compatible_import` -/
def Agg.findSemverImport (a : Agg) (name : Str) : Option (Str × ItemKind) :=
  match altKey name with
  | none => none
  | some (k, _) => a.imports.find? fun e => match altKey e.1 with
    | some (k', _) => k' == k
    | none => false

/-- `TypeAggregator::find_semver_compatible_interface` -/
def Agg.findSemverInterface (a : Agg) (name : Str) : Option Nat :=
  match altKey name with
  | none => none
  | some (k, _) => (a.interfaces.find? fun e => match altKey e.1 with
    | some (k', _) => k' == k
    | none => false).map (·.2)

/-- `TypeAggregator::canonical_import_name` -/
def Agg.canonical (a : Agg) (name : Str) : Str := (amGet a.redirects name).getD name

def remappedGet (types : Types) (ty : Ty) : AggM (Option Ty) := do
  return alGet (← getAgg).remapped (GTy.mk' types ty)

/-- `remapped.insert(k, v)` with `assert!(prev.is_none())` -/
def remappedInsertNew (types : Types) (ty : Ty) (v : Ty) : AggM Unit := do
  let a ← getAgg
  let k := GTy.mk' types ty
  if (alGet a.remapped k).isSome then apanic "assertion failed: prev.is_none() (remapped)"
  else modifyAgg fun a => { a with remapped := alInsert a.remapped k v }

/-- sequential `map … collect::<Result<_>>()` -/
def mapMList {α β : Type} (f : α → AggM β) : List α → AggM (List β)
  | [] => return []
  | x :: r => do
    let y ← f x
    let ys ← mapMList f r
    return y :: ys

def forMList {α : Type} (f : α → AggM Unit) : List α → AggM Unit
  | [] => return ()
  | x :: r => do f x; forMList f r

def mapMOpt {α β : Type} (f : α → AggM β) : Option α → AggM (Option β)
  | none => return none
  | some x => do return some (← f x)

def strS (s : Str) : String := String.ofList s

/-- the used-types loop shared by `merge_interface_used_types` / `merge_world_used_types`;
`getUses`/`setUses` select the `uses` map of the existing interface or world -/
def mergeUsedTypes (remapInterface : Types → Nat → AggM Nat) (types : Types) (srcUses : List (Str × UsedType))
    (getUses : Types → Option (List (Str × UsedType))) (setUses : List (Str × UsedType) → Types → Types) : AggM Unit :=
  forMList (fun (e : Str × UsedType) => do
    let (name, used) := e
    let usedInterface ← match types.interfaces[used.interface]? with
      | none => apanic "interface index"
      | some i => match i.id with
        | none => bail "used type has no interface identifier"
        | some n => pure n
    let a ← getAgg
    let uses ← match getUses a.types with
      | none => apanic "existing index"
      | some u => pure u
    match amGet uses name with
    | some ex =>
      let existingInterface ← match a.types.interfaces[ex.interface]? with
        | none => apanic "interface index"
        | some i => match i.id with
          | none => bail "used type has no interface identifier"
          | some n => pure n
      if !compat existingInterface usedInterface then
        bail s!"cannot merge used type `{strS name}` as it is expected to be from interface `{strS existingInterface}` but it is from interface `{strS usedInterface}`"
      if ex.name != used.name then
        bail s!"cannot merge used type `{strS name}` as the export names are mismatched"
    | none => pure ()
    let remapped ← remapInterface types used.interface
    let a ← getAgg
    let uses ← match getUses a.types with
      | none => apanic "existing index"
      | some u => pure u
    match amGet uses name with
    | some ex =>
      if ex.interface != remapped then apanic "expected a merge to have occurred"
    | none =>
      modifyTypes (setUses (amInsert uses name { interface := remapped, name := used.name }))
  ) srcUses

def Types.setInterface (t : Types) (i : Nat) (f : Interface → Interface) : Types :=
  match t.interfaces[i]? with
  | none => t
  | some x => { t with interfaces := listSet t.interfaces i (f x) }

def Types.setWorld (t : Types) (i : Nat) (f : World → World) : Types :=
  match t.worlds[i]? with
  | none => t
  | some x => { t with worlds := listSet t.worlds i (f x) }

def Types.setModule (t : Types) (i : Nat) (f : ModuleType → ModuleType) : Types :=
  match t.modules[i]? with
  | none => t
  | some x => { t with modules := listSet t.modules i (f x) }

mutual

/-- `remap_resource` -/
def remapResource : Nat → Types → Nat → AggM Nat
  | 0, _, _ => apanic "fuel"
  | fuel + 1, types, id => do
    match ← remappedGet types (.resource id) with
    | some (.resource id') => return id'
    | some _ => apanic "expected a resource"
    | none =>
      let resource ← match types.resources[id]? with
        | none => apanic "resource index"
        | some r => pure r
      let alias ← mapMOpt (fun (a : ResourceAlias) => do
          let owner ← mapMOpt (fun i => remapInterface fuel types i) a.owner
          match owner with
          | some o =>
            let ag ← getAgg
            match ag.types.interfaces[o]? with
            | none => apanic "interface index"
            | some itf =>
              match itf.id with
              | none => apanic "interface has no id"
              | some name =>
                let cfg := (← get).cfg
                if (amGet ag.imports name).isNone && !(cfg.ownerSemver && (ag.findSemverImport name).isSome) then
                  modifyAgg fun ag => { ag with imports := amInsert ag.imports name (.instance o) }
          | none => pure ()
          let source ← remapResource fuel types a.source
          return ({ owner := owner, source := source } : ResourceAlias)) resource.alias
      let ag ← getAgg
      let newId := ag.types.resources.length
      modifyTypes fun t => { t with resources := t.resources ++ [{ name := resource.name, alias := alias }] }
      remappedInsertNew types (.resource id) (.resource newId)
      return newId

/-- `remap_value_type` -/
def remapValueType : Nat → Types → ValueType → AggM ValueType
  | 0, _, _ => apanic "fuel"
  | _ + 1, _, .prim p => return .prim p
  | fuel + 1, types, .borrow r => do return .borrow (← remapResource fuel types r)
  | fuel + 1, types, .own r => do return .own (← remapResource fuel types r)
  | fuel + 1, types, .defined d => do
    let cfg := (← get).cfg
    match cfg.remapReplaced, ← remappedGet types (.value (.defined d)) with
    | true, some (.value v) => return v
    | _, _ => return .defined (← remapDefined fuel types d)

/-- `remap_defined_type` -/
def remapDefined : Nat → Types → Nat → AggM Nat
  | 0, _, _ => apanic "fuel"
  | fuel + 1, types, id => do
    match ← remappedGet types (.value (.defined id)) with
    | some (.value (.defined id')) => return id'
    | some _ => apanic "expected a defined type"
    | none =>
      let dt ← match types.defined[id]? with
        | none => apanic "defined type index"
        | some d => pure d
      let rv := remapValueType fuel types
      let defined ← match dt with
        | .tuple ts => do pure (DefinedType.tuple (← mapMList rv ts))
        | .list t => do pure (DefinedType.list (← rv t))
        | .fixedSizeList t n => do pure (DefinedType.fixedSizeList (← rv t) n)
        | .option t => do pure (DefinedType.option (← rv t))
        | .result ok err => do
          let ok' ← mapMOpt rv ok
          let err' ← mapMOpt rv err
          pure (DefinedType.result ok' err')
        | .variant cs => do
          pure (DefinedType.variant (← mapMList (fun (c : Str × Option ValueType) => do
            return (c.1, ← mapMOpt rv c.2)) cs))
        | .record fs => do
          pure (DefinedType.record (← mapMList (fun (f : Str × ValueType) => do return (f.1, ← rv f.2)) fs))
        | .flags ns => pure (DefinedType.flags ns)
        | .enum ns => pure (DefinedType.enum ns)
        | .alias t => do pure (DefinedType.alias (← rv t))
        | .stream t => do pure (DefinedType.stream (← mapMOpt rv t))
        | .future t => do pure (DefinedType.future (← mapMOpt rv t))
      let ag ← getAgg
      let newId := ag.types.defined.length
      modifyTypes fun t => { t with defined := t.defined ++ [defined] }
      remappedInsertNew types (.value (.defined id)) (.value (.defined newId))
      return newId

/-- `remap_func_type` -/
def remapFunc : Nat → Types → Nat → AggM Nat
  | 0, _, _ => apanic "fuel"
  | fuel + 1, types, id => do
    match ← remappedGet types (.func id) with
    | some (.func id') => return id'
    | some _ => apanic "expected a function type"
    | none =>
      let ft ← match types.funcs[id]? with
        | none => apanic "func index"
        | some f => pure f
      let params ← mapMList (fun (p : Str × ValueType) => do return (p.1, ← remapValueType fuel types p.2)) ft.params
      let result ← mapMOpt (remapValueType fuel types) ft.result
      let ag ← getAgg
      let newId := ag.types.funcs.length
      modifyTypes fun t => { t with funcs := t.funcs ++ [{ params := params, result := result, isAsync := ft.isAsync }] }
      remappedInsertNew types (.func id) (.func newId)
      return newId

/-- `remap_module_type` -/
def remapModule : Nat → Types → Nat → AggM Nat
  | 0, _, _ => apanic "fuel"
  | _ + 1, types, id => do
    match ← remappedGet types (.module id) with
    | some (.module id') => return id'
    | some _ => apanic "expected a module type"
    | none =>
      let mt ← match types.modules[id]? with
        | none => apanic "module index"
        | some m => pure m
      let ag ← getAgg
      let newId := ag.types.modules.length
      modifyTypes fun t => { t with modules := t.modules ++ [mt] }
      remappedInsertNew types (.module id) (.module newId)
      return newId

/-- the `uses` map of `remap_interface` / `remap_world` -/
def remapUses : Nat → Types → List (Str × UsedType) → AggM (List (Str × UsedType))
  | 0, _, _ => apanic "fuel"
  | fuel + 1, types, uses =>
    mapMList (fun (e : Str × UsedType) => do
      let (n, u) := e
      match types.interfaces[u.interface]? with
      | none => apanic "interface index"
      | some i =>
        if i.id.isNone then bail s!"used type `{strS n}` is from an interface without an identifier"
        else
          let r ← remapInterface fuel types u.interface
          return (n, ({ interface := r, name := u.name } : UsedType))) uses

/-- `remap_interface` -/
def remapInterface : Nat → Types → Nat → AggM Nat
  | 0, _, _ => apanic "fuel"
  | fuel + 1, types, id => do
    let ty ← match types.interfaces[id]? with
      | none => apanic "interface index"
      | some i => pure i
    let ag ← getAgg
    let existing : Option (Str × Nat) := match ty.id with
      | none => none
      | some name => match (amGet ag.interfaces name).orElse (fun _ => ag.findSemverInterface name) with
        | some e => some (name, e)
        | none => none
    match existing with
    | some (name, e) =>
      withCtx s!"failed to merge interface `{strS name}`" (mergeInterface fuel e types id)
      modifyAgg fun ag => { ag with interfaces := amInsert ag.interfaces name e }
      return e
    | none =>
      match ← remappedGet types (.interface id) with
      | some (.interface id') => return id'
      | some _ => apanic "expected an interface"
      | none =>
        let uses ← remapUses fuel types ty.uses
        let exports ← mapMList (fun (e : Str × ItemKind) => do return (e.1, ← remapKind fuel types e.2)) ty.exports
        let ag ← getAgg
        let newId := ag.types.interfaces.length
        modifyTypes fun t => { t with interfaces := t.interfaces ++ [{ id := ty.id, uses := uses, exports := exports }] }
        remappedInsertNew types (.interface id) (.interface newId)
        match ty.id with
        | some name =>
          let ag ← getAgg
          if (amGet ag.interfaces name).isSome then apanic "assertion failed: prev.is_none() (interfaces)"
          else modifyAgg fun ag => { ag with interfaces := amInsert ag.interfaces name newId }
        | none => pure ()
        return newId

/-- `remap_world` -/
def remapWorld : Nat → Types → Nat → AggM Nat
  | 0, _, _ => apanic "fuel"
  | fuel + 1, types, id => do
    match ← remappedGet types (.world id) with
    | some (.world id') => return id'
    | some _ => apanic "expected a world"
    | none =>
      let ty ← match types.worlds[id]? with
        | none => apanic "world index"
        | some w => pure w
      let uses ← remapUses fuel types ty.uses
      let imports ← mapMList (fun (e : Str × ItemKind) => do return (e.1, ← remapKind fuel types e.2)) ty.imports
      let exports ← mapMList (fun (e : Str × ItemKind) => do return (e.1, ← remapKind fuel types e.2)) ty.exports
      let ag ← getAgg
      let newId := ag.types.worlds.length
      modifyTypes fun t => { t with worlds := t.worlds ++ [{ id := ty.id, uses := uses, imports := imports, exports := exports }] }
      remappedInsertNew types (.world id) (.world newId)
      return newId

/-- `remap_item_kind` / `remap_type` -/
def remapKind : Nat → Types → ItemKind → AggM ItemKind
  | 0, _, _ => apanic "fuel"
  | fuel + 1, types, .type (.resource r) => do return .type (.resource (← remapResource fuel types r))
  | fuel + 1, types, .type (.func f) => do return .type (.func (← remapFunc fuel types f))
  | fuel + 1, types, .type (.value v) => do return .type (.value (← remapValueType fuel types v))
  | fuel + 1, types, .type (.interface i) => do return .type (.interface (← remapInterface fuel types i))
  | fuel + 1, types, .type (.world w) => do return .type (.world (← remapWorld fuel types w))
  | fuel + 1, types, .type (.module m) => do return .type (.module (← remapModule fuel types m))
  | fuel + 1, types, .func f => do return .func (← remapFunc fuel types f)
  | fuel + 1, types, .instance i => do return .instance (← remapInterface fuel types i)
  | fuel + 1, types, .component w => do return .component (← remapWorld fuel types w)
  | fuel + 1, types, .module m => do return .module (← remapModule fuel types m)
  | fuel + 1, types, .value v => do return .value (← remapValueType fuel types v)

/-- `merge_interface` -/
def mergeInterface : Nat → Nat → Types → Nat → AggM Unit
  | 0, _, _, _ => apanic "fuel"
  | fuel + 1, existing, types, id => do
    let src ← match types.interfaces[id]? with
      | none => apanic "interface index"
      | some i => pure i
    mergeUsedTypes (remapInterface fuel) types src.uses
      (fun t => (t.interfaces[existing]?).map (·.uses))
      (fun u t => t.setInterface existing fun i => { i with uses := u })
    forMList (fun (e : Str × ItemKind) => do
      let (name, sourceKind) := e
      let ag ← getAgg
      let target ← match ag.types.interfaces[existing]? with
        | none => apanic "interface index"
        | some i => pure (amGet i.exports name)
      let cfg := (← get).cfg
      let skip ← match target with
        | some targetKind => do
          -- nested instances (and `type` exports of interface type) are merged, not chosen between
          let nested : Option (Nat × Nat × (Nat → ItemKind)) := match targetKind, sourceKind with
            | .instance t, .instance s => if cfg.nestedMerge then some (t, s, ItemKind.instance) else none
            | .type (.interface t), .type (.interface s) =>
              if cfg.typeMerge then some (t, s, fun i => ItemKind.type (.interface i)) else none
            | _, _ => none
          match nested with
          | some (t, s, wrap) =>
            -- merge into a copy of the nested instance type, then point the export at the copy
            let copy ← match ag.types.interfaces[t]? with
              | none => apanic "interface index"
              | some i => pure i
            let merged := ag.types.interfaces.length
            modifyTypes fun ty => { ty with interfaces := ty.interfaces ++ [copy] }
            withCtx s!"mismatched type for export `{strS name}`" (mergeInterface fuel merged types s)
            modifyTypes fun ty => ty.setInterface existing fun i => { i with exports := amInsert i.exports name (wrap merged) }
            pure true
          | none =>
          match ← chkSubtype types sourceKind ag.types targetKind with
          | .ok =>
            modifyAgg fun ag => { ag with remapped := alInsert ag.remapped (GTy.mk' types sourceKind.ty) targetKind.ty }
            pure true
          | _ =>
            let ag ← getAgg
            withCtx s!"mismatched type for export `{strS name}`" (chkSubtypeQ ag.types targetKind types sourceKind)
            pure false
        | none => pure false
      if !skip then
        let remapped ← remapKind fuel types sourceKind
        modifyTypes fun t => t.setInterface existing fun i => { i with exports := amInsert i.exports name remapped }
    ) src.exports

/-- `merge_world` -/
def mergeWorld : Nat → Nat → Types → Nat → AggM Unit
  | 0, _, _, _ => apanic "fuel"
  | fuel + 1, existing, types, id => do
    let src ← match types.worlds[id]? with
      | none => apanic "world index"
      | some w => pure w
    mergeUsedTypes (remapInterface fuel) types src.uses
      (fun t => (t.worlds[existing]?).map (·.uses))
      (fun u t => t.setWorld existing fun w => { w with uses := u })
    chkInvert
    forMList (fun (e : Str × ItemKind) => do
      let (name, sourceKind) := e
      let ag ← getAgg
      let target ← match ag.types.worlds[existing]? with
        | none => apanic "world index"
        | some w => pure (amGet w.imports name)
      let skip ← match target with
        | some targetKind => do
          match ← chkSubtype ag.types targetKind types sourceKind with
          | .ok => pure true
          | _ =>
            let ag ← getAgg
            withCtx s!"mismatched type for import `{strS name}`" (chkSubtypeQ types sourceKind ag.types targetKind)
            pure false
        | none => pure false
      if !skip then
        let remapped ← remapKind fuel types sourceKind
        modifyTypes fun t => t.setWorld existing fun w => { w with imports := amInsert w.imports name remapped }
    ) src.imports
    chkRevert
    forMList (fun (e : Str × ItemKind) => do
      let (name, sourceKind) := e
      let ag ← getAgg
      let target ← match ag.types.worlds[existing]? with
        | none => apanic "world index"
        | some w => pure (amGet w.exports name)
      let skip ← match target with
        | some targetKind => do
          match ← chkSubtype types sourceKind ag.types targetKind with
          | .ok => pure true
          | _ =>
            let ag ← getAgg
            withCtx s!"mismatched type for export `{strS name}`" (chkSubtypeQ ag.types targetKind types sourceKind)
            pure false
        | none => pure false
      if !skip then
        let remapped ← remapKind fuel types sourceKind
        modifyTypes fun t => t.setWorld existing fun w => { w with exports := amInsert w.exports name remapped }
    ) src.exports

end

/-- `merge_func_type` -/
def mergeFunc (existing : Nat) (types : Types) (id : Nat) : AggM Unit := do
  let ag ← getAgg
  chkSubtypeQ types (.func id) ag.types (.func existing)
  let ag ← getAgg
  chkSubtypeQ ag.types (.func existing) types (.func id)

/-- `merge_resource` -/
def mergeResource (existing : Nat) (types : Types) (id : Nat) : AggM Unit := do
  let ag ← getAgg
  chkSubtypeQ types (.type (.resource id)) ag.types (.type (.resource existing))
  let ag ← getAgg
  chkSubtypeQ ag.types (.type (.resource existing)) types (.type (.resource id))

/-- `merge_value_type` -/
def mergeValue (existing : ValueType) (types : Types) (ty : ValueType) : AggM Unit := do
  let ag ← getAgg
  chkSubtypeQ types (.value ty) ag.types (.value existing)
  let ag ← getAgg
  chkSubtypeQ ag.types (.value existing) types (.value ty)

def coreExternR (a b : CoreExtern) : AggM R := do
  return checkCoreExtern (← get).chk.kind a b

/-- `merge_module_type` -/
def mergeModule (existing : Nat) (types : Types) (id : Nat) : AggM Unit := do
  let src ← match types.modules[id]? with
    | none => apanic "module index"
    | some m => pure m
  chkInvert
  forMList (fun (e : (Str × Str) × CoreExtern) => do
    let (name, sourceExtern) := e
    let ag ← getAgg
    let target ← match ag.types.modules[existing]? with
      | none => apanic "module index"
      | some m => pure (alGet m.imports name)
    let skip ← match target with
      | some targetExtern => do
        match ← coreExternR targetExtern sourceExtern with
        | .ok => pure true
        | _ =>
          match ← coreExternR sourceExtern targetExtern with
          | .err m => bail (s!"mismatched type for import `{strS name.1}::{strS name.2}`" ++ ": " ++ m)
          | _ => pure false
      | none => pure false
    if !skip then
      modifyTypes fun t => t.setModule existing fun m => { m with imports := alInsert m.imports name sourceExtern }
  ) src.imports
  chkRevert
  forMList (fun (e : Str × CoreExtern) => do
    let (name, sourceExtern) := e
    let ag ← getAgg
    let target ← match ag.types.modules[existing]? with
      | none => apanic "module index"
      | some m => pure (alGet m.exports name)
    let skip ← match target with
      | some targetExtern => do
        match ← coreExternR sourceExtern targetExtern with
        | .ok => pure true
        | _ =>
          match ← coreExternR targetExtern sourceExtern with
          | .err m => bail (s!"mismatched type for export `{strS name}`" ++ ": " ++ m)
          | _ => pure false
      | none => pure false
    if !skip then
      modifyTypes fun t => t.setModule existing fun m => { m with exports := alInsert m.exports name sourceExtern }
  ) src.exports

/-- fuel for one `aggregate` call: the foreign collection plus everything already aggregated -/
def aggFuel (ag : Agg) (types : Types) : Nat := 2 * (types.fuel + ag.types.fuel) + 4

/-- `merge_item_kind` / `merge_type` -/
def mergeKind (existing : ItemKind) (types : Types) (kind : ItemKind) : AggM Unit := do
  let ag ← getAgg
  let fuel := aggFuel ag types
  match existing, kind with
  | .instance e, .instance i => mergeInterface fuel e types i
  | .component e, .component i => mergeWorld fuel e types i
  | .func e, .func i => mergeFunc e types i
  | .module e, .module i => mergeModule e types i
  | .value e, .value v => mergeValue e types v
  | .type te, .type ty =>
    match te, ty with
    | .resource e, .resource i => mergeResource e types i
    | .func e, .func i => mergeFunc e types i
    | .value e, .value v => mergeValue e types v
    | .interface e, .interface i => mergeInterface fuel e types i
    | .world e, .world i => mergeWorld fuel e types i
    | .module e, .module i => mergeModule e types i
    | te, ty => bail s!"{ag.types.descTy te} cannot be merged with {types.descTy ty}"
  | e, k => bail s!"{ag.types.descKind e} cannot be merged with {types.descKind k}"

/-- `TypeAggregator::aggregate` -/
def aggregate (name : Str) (types : Types) (kind : ItemKind) : AggM Unit := do
  let ag ← getAgg
  match amGet ag.imports name with
  | some existing => mergeKind existing types kind
  | none =>
    match ag.findSemverImport name with
    | some (existingName, existingKind) =>
      mergeKind existingKind types kind
      match altKey name, altKey existingName with
      | some (_, newVersion), some (_, existingVersion) =>
        if existingVersion.lt newVersion then
          modifyAgg fun ag =>
            match amGet ag.imports existingName with
            | none => ag
            | some merged =>
              { ag with
                imports := (alRemove ag.imports existingName) ++ [(name, merged)],
                redirects := amInsert (ag.redirects.map fun e => if e.2 == existingName then (e.1, name) else e)
                  existingName name }
        else
          modifyAgg fun ag => { ag with redirects := amInsert ag.redirects name existingName }
      | _, _ => apanic "alternate_lookup_key unwrap"
    | none =>
      let remapped ← remapKind (aggFuel ag types) types kind
      let ag ← getAgg
      if (amGet ag.imports name).isSome then apanic "assertion failed: prev.is_none() (imports)"
      else modifyAgg fun ag => { ag with imports := amInsert ag.imports name remapped }

/-- run a sequence of `aggregate` calls from the empty aggregator (uid 0) with one shared checker -/
def aggregateAll : List (Str × Types × ItemKind) → AggState → Except AErr AggState
  | [], s => .ok s
  | (n, t, k) :: r, s =>
    match aggregate n t k s with
    | .ok (_, s') => aggregateAll r s'
    | .error e => .error e

def Agg.empty : AggState := { agg := {}, chk := {} }
def Agg.emptyPinned : AggState := { agg := {}, chk := {}, cfg := .pinned }

end Wac
