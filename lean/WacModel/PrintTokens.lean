import WacModel.Ast
import WacModel.Lexer
import WacModel.Printer
import WacModel.AstErase
/-
  The token-level printer for C13: `printTokens d` is the token sequence the output of
  `DocumentPrinter::document` (model: `Wac.Print.document`) consists of — the same traversal as
  `WacModel/Printer.lean`, function for function, with every `write!` replaced by the tokens it
  writes and all white space / indentation dropped.  A token is what the parser sees of a lexer
  item (`Wac.Lex.LTok`) without byte offsets: the token kind, its text, and the doc-comment lines
  standing between the previous token and it.

  `Wac.Props.C13Print.layout_tokens` proves `tokenize (document d)` (spans erased) `= printTokens d`.

  Core Lean only.
-/
namespace Wac.PrintTok
open Wac Wac.Ast Wac.Lex

instance : DecidableEq (Except LexError Token)
  | .ok a, .ok b => if h : a = b then isTrue (by rw [h]) else isFalse (fun e => h (by cases e; rfl))
  | .error a, .error b => if h : a = b then isTrue (by rw [h]) else isFalse (fun e => h (by cases e; rfl))
  | .ok _, .error _ => isFalse (fun e => by cases e)
  | .error _, .ok _ => isFalse (fun e => by cases e)

/-- a lexer item without positions: `Wac.Lex.LTok` minus the spans -/
structure PTok where
  res : Except LexError Token
  text : Str
  /-- the comments `Lexer::comments` returns in front of the token (texts only) -/
  docs : List Str
deriving Repr, Inhabited, DecidableEq

end Wac.PrintTok

/-- forget the byte offsets of a lexer item -/
def Wac.Lex.LTok.erase (t : Wac.Lex.LTok) : Wac.PrintTok.PTok := ⟨t.res, t.text, t.docs.map (·.comment)⟩

namespace Wac.PrintTok
open Wac Wac.Ast Wac.Lex

/-- a keyword or punctuation token -/
def kw (k : Token) (s : String) : PTok := ⟨.ok k, s.toList, []⟩
/-- a keyword that starts an item carrying doc comments -/
def dkw (ds : List DocComment) (k : Token) (s : String) : PTok := ⟨.ok k, s.toList, docLines ds⟩
def ident (i : Ident) : PTok := ⟨.ok .Ident, Wac.Print.identSrc i, []⟩
/-- an identifier that starts an item carrying doc comments -/
def dident (ds : List DocComment) (i : Ident) : PTok := ⟨.ok .Ident, Wac.Print.identSrc i, docLines ds⟩
def string (s : StringLit) : PTok := ⟨.ok .String, Wac.Print.stringSrc s, []⟩
def packagePath (p : PackagePath) : PTok := ⟨.ok .PackagePath, p.string, []⟩
def packageName (p : PackageName) : PTok := ⟨.ok .PackageName, p.string, []⟩

def comma : PTok := kw .Comma ","
def colon : PTok := kw .Colon ":"
def semi : PTok := kw .Semicolon ";"
def obrace : PTok := kw .OpenBrace "{"
def cbrace : PTok := kw .CloseBrace "}"
def oparen : PTok := kw .OpenParen "("
def cparen : PTok := kw .CloseParen ")"
def oangle : PTok := kw .OpenAngle "<"
def cangle : PTok := kw .CloseAngle ">"
def ellipsis : PTok := kw .Ellipsis "..."

mutual
/-- tokens of `DocumentPrinter::ty` -/
def ty : Ty → List PTok
  | .U8 _ => [kw .U8Keyword "u8"] | .S8 _ => [kw .S8Keyword "s8"] | .U16 _ => [kw .U16Keyword "u16"]
  | .S16 _ => [kw .S16Keyword "s16"] | .U32 _ => [kw .U32Keyword "u32"] | .S32 _ => [kw .S32Keyword "s32"]
  | .U64 _ => [kw .U64Keyword "u64"] | .S64 _ => [kw .S64Keyword "s64"] | .F32 _ => [kw .F32Keyword "f32"]
  | .F64 _ => [kw .F64Keyword "f64"] | .Char _ => [kw .CharKeyword "char"] | .Bool _ => [kw .BoolKeyword "bool"]
  | .String _ => [kw .StringKeyword "string"]
  | .Tuple types _ => kw .TupleKeyword "tuple" :: oangle :: (tys true types ++ [cangle])
  | .List t _ => kw .ListKeyword "list" :: oangle :: (ty t ++ [cangle])
  | .Option t _ => kw .OptionKeyword "option" :: oangle :: (ty t ++ [cangle])
  | .Result none none _ => [kw .ResultKeyword "result"]
  | .Result none (some err) _ =>
    kw .ResultKeyword "result" :: oangle :: kw .Underscore "_" :: comma :: (ty err ++ [cangle])
  | .Result (some ok) none _ => kw .ResultKeyword "result" :: oangle :: (ty ok ++ [cangle])
  | .Result (some ok) (some err) _ =>
    kw .ResultKeyword "result" :: oangle :: (ty ok ++ comma :: (ty err ++ [cangle]))
  | .Borrow id _ => [kw .BorrowKeyword "borrow", oangle, ident id, cangle]
  | .Ident id => [ident id]
/-- the loop over tuple element types -/
def tys (first : Bool) : List Ty → List PTok
  | [] => []
  | t :: r => (if first then [] else [comma]) ++ ty t ++ tys false r
end

/-- tokens of `DocumentPrinter::named_types` -/
def namedTypes (first : Bool) : List NamedType → List PTok
  | [] => []
  | n :: r => (if first then [] else [comma]) ++ ident n.id :: colon :: ty n.ty ++ namedTypes false r

/-- tokens of `DocumentPrinter::func_type` -/
def funcType (f : FuncType) : List PTok :=
  kw .FuncKeyword "func" :: oparen :: namedTypes true f.params ++ cparen ::
    (match f.results with
      | .Empty => []
      | .Scalar t => kw .Arrow "->" :: ty t)

def funcTypeRef : FuncTypeRef → List PTok
  | .Func f => funcType f
  | .Ident id => [ident id]

def constructor (c : Constructor) : List PTok :=
  dkw c.docs .ConstructorKeyword "constructor" :: oparen :: namedTypes true c.params ++ [cparen, semi]

def method (m : Method) : List PTok :=
  dident m.docs m.id :: colon ::
    (if m.isStatic then [kw .StaticKeyword "static"] else []) ++ funcType m.ty ++ [semi]

def resourceMethod : ResourceMethod → List PTok
  | .Constructor c => constructor c
  | .Method m => method m

def resourceDecl (d : ResourceDecl) : List PTok :=
  dkw d.docs .ResourceKeyword "resource" :: ident d.id :: obrace ::
    d.methods.flatMap resourceMethod ++ [cbrace]

def variantCase (c : VariantCase) : List PTok :=
  dident c.docs c.id ::
    (match c.ty with
      | some t => oparen :: ty t ++ [cparen]
      | none => [])

def variantDecl (d : VariantDecl) : List PTok :=
  dkw d.docs .VariantKeyword "variant" :: ident d.id :: obrace ::
    d.cases.flatMap (fun c => variantCase c ++ [comma]) ++ [cbrace]

def recordDecl (d : RecordDecl) : List PTok :=
  dkw d.docs .RecordKeyword "record" :: ident d.id :: obrace ::
    d.fields.flatMap (fun f => dident f.docs f.id :: colon :: ty f.ty ++ [comma]) ++ [cbrace]

def flagsDecl (d : FlagsDecl) : List PTok :=
  dkw d.docs .FlagsKeyword "flags" :: ident d.id :: obrace ::
    d.flags.flatMap (fun f => [dident f.docs f.id, comma]) ++ [cbrace]

def enumDecl (d : EnumDecl) : List PTok :=
  dkw d.docs .EnumKeyword "enum" :: ident d.id :: obrace ::
    d.cases.flatMap (fun c => [dident c.docs c.id, comma]) ++ [cbrace]

def typeAlias (a : TypeAlias) : List PTok :=
  dkw a.docs .TypeKeyword "type" :: ident a.id :: kw .Equals "=" ::
    (match a.kind with
      | .Func f => funcType f
      | .Type' t => ty t) ++ [semi]

def typeDecl : TypeDecl → List PTok
  | .Variant d => variantDecl d
  | .Record d => recordDecl d
  | .Flags d => flagsDecl d
  | .Enum d => enumDecl d
  | .Alias d => typeAlias d

def itemTypeDecl : ItemTypeDecl → List PTok
  | .Resource d => resourceDecl d
  | .Variant d => variantDecl d
  | .Record d => recordDecl d
  | .Flags d => flagsDecl d
  | .Enum d => enumDecl d
  | .Alias d => typeAlias d

def usePath : UsePath → PTok
  | .Package path => packagePath path
  | .Ident id => ident id

def useItems (first : Bool) : List UseItem → List PTok
  | [] => []
  | item :: r =>
    (if first then [] else [comma]) ++ ident item.id ::
      (match item.asId with
        | some a => [kw .AsKeyword "as", ident a]
        | none => []) ++ useItems false r

def useType (u : Use) : List PTok :=
  dkw u.docs .UseKeyword "use" :: usePath u.path :: kw .Dot "." :: obrace ::
    useItems true u.items ++ [cbrace, semi]

def interfaceExport (e : InterfaceExport) : List PTok :=
  dident e.docs e.id :: colon :: funcTypeRef e.ty ++ [semi]

def interfaceItem : InterfaceItem → List PTok
  | .Use u => useType u
  | .Type' d => itemTypeDecl d
  | .Export e => interfaceExport e

def inlineInterface (i : InlineInterface) : List PTok :=
  kw .InterfaceKeyword "interface" :: obrace :: i.items.flatMap interfaceItem ++ [cbrace]

def externType : ExternType → List PTok
  | .Ident id => [ident id]
  | .Func f => funcType f
  | .Interface i => inlineInterface i

def worldItemPath : WorldItemPath → List PTok
  | .Named n => ident n.id :: colon :: externType n.ty
  | .Package path => [packagePath path]
  | .Ident id => [ident id]

def worldRef : WorldRef → PTok
  | .Ident id => ident id
  | .Package path => packagePath path

def worldInclude (i : WorldInclude) : List PTok :=
  dkw i.docs .IncludeKeyword "include" :: worldRef i.world ::
    (if i.withItems.isEmpty then []
     else kw .WithKeyword "with" :: obrace ::
       i.withItems.flatMap (fun item => [ident item.fromId, kw .AsKeyword "as", ident item.toId, comma]) ++
       [cbrace]) ++ [semi]

def worldItem : WorldItem → List PTok
  | .Use u => useType u
  | .Type' d => itemTypeDecl d
  | .Import i => dkw i.docs .ImportKeyword "import" :: worldItemPath i.path ++ [semi]
  | .Export e => dkw e.docs .ExportKeyword "export" :: worldItemPath e.path ++ [semi]
  | .Include i => worldInclude i

def interfaceDecl (d : InterfaceDecl) : List PTok :=
  dkw d.docs .InterfaceKeyword "interface" :: ident d.id :: obrace ::
    d.items.flatMap interfaceItem ++ [cbrace]

def worldDecl (d : WorldDecl) : List PTok :=
  dkw d.docs .WorldKeyword "world" :: ident d.id :: obrace :: d.items.flatMap worldItem ++ [cbrace]

def typeStatement : TypeStatement → List PTok
  | .Interface d => interfaceDecl d
  | .World d => worldDecl d
  | .Type' d => typeDecl d

def externName : ExternName → PTok
  | .Ident id => ident id
  | .String s => string s

def importType : ImportType → List PTok
  | .Package path => [packagePath path]
  | .Func f => funcType f
  | .Interface i => inlineInterface i
  | .Ident id => [ident id]

def importStatement (s : ImportStatement) : List PTok :=
  dkw s.docs .ImportKeyword "import" :: ident s.id ::
    (match s.name with
      | some n => [kw .AsKeyword "as", externName n]
      | none => []) ++ colon :: importType s.ty ++ [semi]

def postfixExpr : PostfixExpr → List PTok
  | .Access a => [kw .Dot ".", ident a.id]
  | .NamedAccess a => [kw .OpenBracket "[", string a.string, kw .CloseBracket "]"]

def argName : InstantiationArgumentName → PTok
  | .Ident id => ident id
  | .String s => string s

mutual
/-- tokens of `DocumentPrinter::expr` -/
def expr : Expr → List PTok
  | .mk _ primary post => primaryExpr primary ++ post.flatMap postfixExpr
/-- tokens of `DocumentPrinter::primary_expr` (with `new_expr`) -/
def primaryExpr : PrimaryExpr → List PTok
  | .New (.mk _ package arguments) =>
    kw .NewKeyword "new" :: packageName package :: obrace :: (exprArgs arguments ++ [cbrace])
  | .Nested (.mk _ inner) => oparen :: (expr inner ++ [cparen])
  | .Ident id => [ident id]
/-- the loop over instantiation arguments: a trailing comma after every argument except a final `...` -/
def exprArgs : List InstantiationArgument → List PTok
  | [] => []
  | a :: r =>
    (match a with
      | .Inferred id => [ident id, comma]
      | .Spread id => [ellipsis, ident id, comma]
      | .Named (.mk name e) => argName name :: colon :: (expr e ++ [comma])
      | .Fill _ => if r.isEmpty then [ellipsis] else [ellipsis, comma]) ++ exprArgs r
end

def letStatement (s : LetStatement) : List PTok :=
  dkw s.docs .LetKeyword "let" :: ident s.id :: kw .Equals "=" :: expr s.expr ++ [semi]

def exportStatement (s : ExportStatement) : List PTok :=
  dkw s.docs .ExportKeyword "export" :: expr s.expr ++
    (match s.options with
      | .None => []
      | .Spread _ => [ellipsis]
      | .Rename n => [kw .AsKeyword "as", externName n]) ++ [semi]

def statement : Statement → List PTok
  | .Import s => importStatement s
  | .Type' s => typeStatement s
  | .Let s => letStatement s
  | .Export s => exportStatement s

/-- tokens of `DocumentPrinter::package_directive`; `ds` are the document's doc comments -/
def packageDirective (ds : List DocComment) (d : PackageDirective) : List PTok :=
  dkw ds .PackageKeyword "package" :: packageName d.package ::
    (match d.targets with
      | some t => [kw .TargetsKeyword "targets", packagePath t]
      | none => []) ++ [semi]

/-- the token sequence of `DocumentPrinter::document` -/
def printTokens (d : Document) : List PTok :=
  packageDirective d.docs d.directive ++ d.statements.flatMap statement

/-- the lexer of the parser on a text, without positions -/
def tokenizeE (src : Str) : List PTok := (tokenize src).map LTok.erase

end Wac.PrintTok
