import WacModel.Ast
/-
  C17 model.
  * `visit` / `discover`: `crates/wac-resolver/src/visitor.rs` (`PackageVisitor`, function for
    function) driven by the callback of `wac_resolver::packages` (`crates/wac-resolver/src/lib.rs`):
    the callback never stops the walk, skips the document's own package name and collects keys
    in an `IndexMap` (first occurrence keeps its position).
  * `requests`: every `resolve_package` / `resolve_package_path` call site of
    `crates/wac-parser/src/resolution.rs`, followed along the same functions (`resolve`,
    `import_statement`, `type_statement`, `interface_items`, `use_type`, `world_items`,
    `world_item_path`, `world_include`, `inline_interface`, `let_statement`, `export_statement`,
    `expr`, `primary_expr`, `new_expr`, `named_instantiation_arg`); a *syntactic upper bound*:
    it ignores that an earlier error stops resolution.  `resolve_package_path` asks for a package
    only when the path's package name is not the document's own (`resolve_local_path` otherwise);
    `new_expr` fails with `UnknownPackage` before asking when the name is the document's own.
-/
namespace Wac.Discover
open Wac Wac.Ast

/-- `BorrowedPackageKey` -/
structure Key where
  name : Str
  version : Option Version
deriving DecidableEq, Repr

inductive Err where
  /-- `wac_resolver::Error::CannotInstantiateSelf` -/
  | cannotInstantiateSelf
deriving DecidableEq, Repr

def pathKey (p : PackagePath) : Key := ⟨p.name, p.version⟩
def nameKey (p : PackageName) : Key := ⟨p.name, p.version⟩

/-! ## visitor.rs (with a callback that always returns `true`) -/

/-- `PackageVisitor::interface_item` -/
def interfaceItem : InterfaceItem → List Key
  | .Use u =>
    match u.path with
    | .Package p => [pathKey p]
    | .Ident _ => []
  | .Type' _ => []
  | .Export _ => []

/-- the loops over `i.items` -/
def interfaceItems (items : List InterfaceItem) : List Key := items.flatMap interfaceItem

/-- `PackageVisitor::world_item_path` -/
def worldItemPath : WorldItemPath → List Key
  | .Named n =>
    match n.ty with
    | .Interface i => interfaceItems i.items
    | .Ident _ => []
    | .Func _ => []
  | .Package p => [pathKey p]
  | .Ident _ => []

/-- `PackageVisitor::world_item` -/
def worldItem : WorldItem → List Key
  | .Use u =>
    match u.path with
    | .Package p => [pathKey p]
    | .Ident _ => []
  | .Type' _ => []
  | .Import i => worldItemPath i.path
  | .Export e => worldItemPath e.path
  | .Include i =>
    match i.world with
    | .Package p => [pathKey p]
    | .Ident _ => []

/-- `PackageVisitor::import_statement` -/
def importStatement (s : ImportStatement) : List Key :=
  match s.ty with
  | .Package p => [pathKey p]
  | .Interface i => interfaceItems i.items
  | .Func _ => []
  | .Ident _ => []

/-- `PackageVisitor::type_statement` -/
def typeStatement : TypeStatement → List Key
  | .Interface i => interfaceItems i.items
  | .World w => w.items.flatMap worldItem
  | .Type' _ => []

mutual
/-- `PackageVisitor::expr` (only the primary expression can mention a package) -/
def expr (this : Str) : Expr → Except Err (List Key)
  | .mk _ primary _ => primaryExpr this primary
def primaryExpr (this : Str) : PrimaryExpr → Except Err (List Key)
  | .New (.mk _ package arguments) =>
    if package.name == this then .error .cannotInstantiateSelf
    else
      match exprArgs this arguments with
      | .error e => .error e
      | .ok ks => .ok (nameKey package :: ks)
  | .Nested (.mk _ inner) => expr this inner
  | .Ident _ => .ok []
/-- `for arg in &e.arguments` -/
def exprArgs (this : Str) : List InstantiationArgument → Except Err (List Key)
  | [] => .ok []
  | .Named (.mk _ e) :: rest =>
    match expr this e with
    | .error e => .error e
    | .ok a =>
      match exprArgs this rest with
      | .error e => .error e
      | .ok b => .ok (a ++ b)
  | .Inferred _ :: rest => exprArgs this rest
  | .Spread _ :: rest => exprArgs this rest
  | .Fill _ :: rest => exprArgs this rest
end

/-- one arm of the statement loop of `PackageVisitor::visit` -/
def visitStatement (this : Str) : Statement → Except Err (List Key)
  | .Import i => .ok (importStatement i)
  | .Type' t => .ok (typeStatement t)
  | .Let l => expr this l.expr
  | .Export e => expr this e.expr

/-- the statement loop of `PackageVisitor::visit` -/
def visitStatements (this : Str) : List Statement → Except Err (List Key)
  | [] => .ok []
  | s :: rest =>
    match visitStatement this s with
    | .error e => .error e
    | .ok a =>
      match visitStatements this rest with
      | .error e => .error e
      | .ok b => .ok (a ++ b)

/-- `PackageVisitor::visit`: the keys the callback is called with, in order -/
def visit (d : Document) : Except Err (List Key) :=
  let targets := match d.directive.targets with
    | some t => [pathKey t]
    | none => []
  match visitStatements d.directive.package.name d.statements with
  | .error e => .error e
  | .ok ks => .ok (targets ++ ks)

/-- `IndexMap::insert` on keys only -/
def insertKey (ks : List Key) (k : Key) : List Key := if ks.contains k then ks else ks ++ [k]

/-- the callback of `wac_resolver::packages` folded over the visited keys -/
def collect (self : Str) (visited : List Key) : List Key :=
  visited.foldl (fun ks k => if k.name == self then ks else insertKey ks k) []

/-- `wac_resolver::packages(document)`: the keys of the returned map, in order -/
def discover (d : Document) : Except Err (List Key) :=
  match visit d with
  | .error e => .error e
  | .ok ks => .ok (collect d.directive.package.name ks)

/-! ## resolution.rs: where packages are asked for -/

/-- `AstResolver::resolve_package_path` -/
def reqPath (self : Str) (p : PackagePath) : List Key :=
  if p.name == self then [] else [pathKey p]

/-- `AstResolver::use_type` -/
def reqUse (self : Str) (u : Use) : List Key :=
  match u.path with
  | .Package p => reqPath self p
  | .Ident _ => []

/-- `AstResolver::interface_items` (`inline_interface`, `interface_decl`) -/
def reqInterfaceItems (self : Str) (items : List InterfaceItem) : List Key :=
  items.flatMap fun
    | .Use u => reqUse self u
    | .Type' _ => []
    | .Export _ => []

/-- `AstResolver::world_item_path` -/
def reqWorldItemPath (self : Str) : WorldItemPath → List Key
  | .Named n =>
    match n.ty with
    | .Interface i => reqInterfaceItems self i.items
    | .Ident _ => []
    | .Func _ => []
  | .Ident _ => []
  | .Package p => reqPath self p

/-- `AstResolver::world_include` -/
def reqWorldInclude (self : Str) (i : WorldInclude) : List Key :=
  match i.world with
  | .Ident _ => []
  | .Package p => reqPath self p

/-- `AstResolver::world_items`: uses, imports and exports in order, the includes afterwards -/
def reqWorldItems (self : Str) (items : List WorldItem) : List Key :=
  (items.flatMap fun
    | .Use u => reqUse self u
    | .Type' _ => []
    | .Import i => reqWorldItemPath self i.path
    | .Export e => reqWorldItemPath self e.path
    | .Include _ => [])
  ++ items.flatMap fun
    | .Include i => reqWorldInclude self i
    | _ => []

mutual
/-- `AstResolver::expr` (postfix expressions ask for nothing) -/
def reqExpr (self : Str) : Expr → List Key
  | .mk _ primary _ => reqPrimary self primary
/-- `AstResolver::primary_expr` / `new_expr` -/
def reqPrimary (self : Str) : PrimaryExpr → List Key
  | .New (.mk _ package arguments) =>
    (if package.name == self then [] else [nameKey package]) ++ reqArgs self arguments
  | .Nested (.mk _ inner) => reqExpr self inner
  | .Ident _ => []
/-- the argument loop of `new_expr` (`named_instantiation_arg` evaluates its expression) -/
def reqArgs (self : Str) : List InstantiationArgument → List Key
  | [] => []
  | .Named (.mk _ e) :: rest => reqExpr self e ++ reqArgs self rest
  | .Inferred _ :: rest => reqArgs self rest
  | .Spread _ :: rest => reqArgs self rest
  | .Fill _ :: rest => reqArgs self rest
end

/-- one statement of `AstResolver::resolve` -/
def reqStatement (self : Str) : Statement → List Key
  | .Import i =>
    match i.ty with
    | .Package p => reqPath self p
    | .Func _ => []
    | .Interface iface => reqInterfaceItems self iface.items
    | .Ident _ => []
  | .Type' t =>
    match t with
    | .Interface i => reqInterfaceItems self i.items
    | .World w => reqWorldItems self w.items
    | .Type' _ => []
  | .Let l => reqExpr self l.expr
  | .Export e => reqExpr self e.expr

/-- `AstResolver::resolve`: the statements, then the `targets` path -/
def requests (d : Document) : List Key :=
  let self := d.directive.package.name
  d.statements.flatMap (reqStatement self) ++
    (match d.directive.targets with
     | some t => reqPath self t
     | none => [])

end Wac.Discover
