import WacModel.Spec.Wit
/-
  C05 model: the declaration elaboration of crates/wac-parser/src/resolution.rs
  (`AstResolver::{interface_decl, world_decl, world_items, world_item_path, world_include,
  inline_interface, interface_items, use_type, item_type_decl, resource_decl, variant_decl,
  record_decl, flags_decl, enum_decl, type_alias, func_type, ty}`) into the arena model
  `Wac.Types` of WacModel/Tree.lean, function for function, for documents that consist of type
  declarations of one package (the syntax tree is the one of Spec/Wit.lean; package paths into
  other packages are not modelled: the driver skips the MODEL comparison for such sources).

  Errors of the resolver are `Except.error` with the variant name.  Allocation order in the six
  arenas follows the Rust code exactly; the correspondence compares the arenas index by index.
-/
namespace Wac.Elab
open Wac Wac.Spec.Wit

/-- `Item` of a scope, reduced to what declarations can refer to -/
inductive Bound
  | ty (t : Ty)                 -- `Item::Type` / `Item::Use`: a value type or a resource
  | iface (i : Nat)             -- a declared interface (root scope)
  | world (w : Nat)             -- a declared world (root scope)
deriving Repr, Inhabited

structure St where
  types : Types := {}
  /-- root scope -/
  root : List (Str × Bound) := []
  /-- current (interface/world body) scope -/
  scope : List (Str × Bound) := []
deriving Repr, Inhabited

abbrev M := Except String

def addDefined (st : St) (d : DefinedType) : St × Nat :=
  ({ st with types := { st.types with defined := st.types.defined ++ [d] } }, st.types.defined.length)

def addResource (st : St) (r : Resource) : St × Nat :=
  ({ st with types := { st.types with resources := st.types.resources ++ [r] } }, st.types.resources.length)

def addFunc (st : St) (f : FuncType) : St × Nat :=
  ({ st with types := { st.types with funcs := st.types.funcs ++ [f] } }, st.types.funcs.length)

def addInterface (st : St) (i : Interface) : St × Nat :=
  ({ st with types := { st.types with interfaces := st.types.interfaces ++ [i] } }, st.types.interfaces.length)

def addWorld (st : St) (w : World) : St × Nat :=
  ({ st with types := { st.types with worlds := st.types.worlds ++ [w] } }, st.types.worlds.length)

/-- `State::register_name` in the current scope -/
def register (st : St) (n : Str) (b : Bound) : M St :=
  if (alGet st.scope n).isSome then .error "DuplicateName" else .ok { st with scope := st.scope ++ [(n, b)] }

/-- `State::local_item` -/
def localItem (st : St) (n : Str) : M Bound :=
  match alGet st.scope n with
  | some b => .ok b
  | none => .error "UndefinedName"

/-- `AstResolver::ty` -/
def ty : Nat → St → WTy → M (St × ValueType)
  | 0, _, _ => .error "fuel"
  | _ + 1, st, .prim p => .ok (st, .prim p)
  | fuel + 1, st, .tuple ts =>
    let rec go (st : St) : List WTy → M (St × List ValueType)
      | [] => .ok (st, [])
      | t :: r =>
        match ty fuel st t with
        | .ok (st, v) =>
          match go st r with
          | .ok (st, vs) => .ok (st, v :: vs)
          | .error e => .error e
        | .error e => .error e
    match go st ts with
    | .ok (st, vs) => let (st, id) := addDefined st (.tuple vs); .ok (st, .defined id)
    | .error e => .error e
  | fuel + 1, st, .list t =>
    match ty fuel st t with
    | .ok (st, v) => let (st, id) := addDefined st (.list v); .ok (st, .defined id)
    | .error e => .error e
  | fuel + 1, st, .option t =>
    match ty fuel st t with
    | .ok (st, v) => let (st, id) := addDefined st (.option v); .ok (st, .defined id)
    | .error e => .error e
  | fuel + 1, st, .result a b =>
    let f (st : St) : Option WTy → M (St × Option ValueType)
      | none => .ok (st, none)
      | some t => match ty fuel st t with
        | .ok (st, v) => .ok (st, some v)
        | .error e => .error e
    match f st a with
    | .ok (st, a) =>
      match f st b with
      | .ok (st, b) => let (st, id) := addDefined st (.result a b); .ok (st, .defined id)
      | .error e => .error e
    | .error e => .error e
  | _ + 1, st, .borrow n =>
    match localItem st n with
    | .ok (.ty (.resource r)) => .ok (st, .borrow r)
    | .ok _ => .error "NotResourceType"
    | .error e => .error e
  | _ + 1, st, .id n =>
    match localItem st n with
    | .ok (.ty (.resource r)) => .ok (st, .own r)
    | .ok (.ty (.value v)) => .ok (st, v)
    | .ok _ => .error "NotValueType"
    | .error e => .error e

/-- named types in order, duplicate name = error `dup` -/
def namedTys (dup : String) : St → List (Str × WTy) → List (Str × ValueType) → M (St × List (Str × ValueType))
  | st, [], acc => .ok (st, acc)
  | st, (n, t) :: r, acc =>
    match ty 64 st t with
    | .ok (st, v) => if (alGet acc n).isSome then .error dup else namedTys dup st r (acc ++ [(n, v)])
    | .error e => .error e

/-- `FuncKind` -/
inductive FuncKind | free | method | static | constructor
deriving DecidableEq, Repr

/-- `AstResolver::func_type` -/
def funcType (st : St) (params : List (Str × WTy)) (result : Option WTy) (kind : FuncKind) (resource : Option Nat) :
    M (St × Nat) :=
  let self : List (Str × ValueType) :=
    match kind, resource with
    | .method, some r => [("self".toList, .borrow r)]
    | _, _ => []
  match namedTys "DuplicateParameter" st params self with
  | .error e => .error e
  | .ok (st, ps) =>
    let res : M (St × Option ValueType) :=
      match result with
      | none =>
        match kind, resource with
        | .constructor, some r => .ok (st, some (.own r))
        | _, _ => .ok (st, none)
      | some t =>
        match ty 64 st t with
        | .ok (st, v) => .ok (st, some v)   -- `BorrowInResult` cannot occur in WIT-valid sources
        | .error e => .error e
    match res with
    | .error e => .error e
    | .ok (st, r) =>
      let (st, id) := addFunc st { params := ps, result := r, isAsync := false }
      .ok (st, id)

/-- `method_extern_name` -/
def methodExternName (resource method : Str) : FuncKind → Str
  | .free => method
  | .method => "[method]".toList ++ resource ++ ['.'] ++ method
  | .static => "[static]".toList ++ resource ++ ['.'] ++ method
  | .constructor => "[constructor]".toList ++ resource

/-- `AstResolver::resource_decl` -/
def resourceDecl (st : St) (n : Str) (items : List ResItem) (externs : List (Str × ItemKind)) :
    M (St × List (Str × ItemKind)) :=
  let (st, id) := addResource st { name := n, alias := none }
  match register st n (.ty (.resource id)) with
  | .error e => .error e
  | .ok st =>
    let externs := alInsert externs n (.type (.resource id))
    let rec go (st : St) (externs : List (Str × ItemKind)) : List ResItem → M (St × List (Str × ItemKind))
      | [] => .ok (st, externs)
      | .ctor ps :: r =>
        match funcType st ps none .constructor (some id) with
        | .ok (st, f) => go st (alInsert externs (methodExternName n [] .constructor) (.func f)) r
        | .error e => .error e
      | .method m isStatic sg :: r =>
        let kind := if isStatic then FuncKind.static else FuncKind.method
        match funcType st sg.params sg.result kind (some id) with
        | .ok (st, f) => go st (alInsert externs (methodExternName n m kind) (.func f)) r
        | .error e => .error e
    go st externs items

/-- `AstResolver::type_alias` (register_name = true) -/
def typeAlias (st : St) (n : Str) (t : WTy) : M (St × Ty) :=
  let fin (st : St) (t : Ty) : M (St × Ty) :=
    match register st n (.ty t) with
    | .ok st => .ok (st, t)
    | .error e => .error e
  match t with
  | .id m =>
    match localItem st m with
    | .ok (.ty (.resource r)) =>
      let owner := match st.types.resources[r]? with
        | some res => res.alias.bind (·.owner)
        | none => none
      let (st, id) := addResource st { name := n, alias := some { owner := owner, source := r } }
      fin st (.resource id)
    | .ok (.ty (.value v)) =>
      let (st, id) := addDefined st (.alias v)
      fin st (.value (.defined id))
    | .ok _ => .error "InvalidAliasType"
    | .error e => .error e
  | _ =>
    match ty 64 st t with
    | .ok (st, v) =>
      let (st, id) := addDefined st (.alias v)
      fin st (.value (.defined id))
    | .error e => .error e

/-- `AstResolver::use_type` (the interface is looked up in the root scope) -/
def useType (st : St) (path : Str) (items : List (Str × Option Str))
    (uses : List (Str × UsedType)) (externs : List (Str × ItemKind)) :
    M (St × List (Str × UsedType) × List (Str × ItemKind)) :=
  match alGet st.root path with
  | some (.iface i) =>
    match st.types.interfaces[i]? with
    | none => .error "dangling interface"
    | some itf =>
      let rec go (st : St) (uses : List (Str × UsedType)) (externs : List (Str × ItemKind)) :
          List (Str × Option Str) → M (St × List (Str × UsedType) × List (Str × ItemKind))
        | [] => .ok (st, uses, externs)
        | (n, as_) :: r =>
          let ident := as_.getD n
          match alGet itf.exports n with
          | none => .error "UndefinedInterfaceType"
          | some kind =>
            match kind with
            | .type t =>
              match t with
              | .resource _ | .value _ =>
                if (alGet externs ident).isSome then .error "UseConflict"
                else
                  let uses := alInsert uses ident { interface := i, name := as_.map fun _ => n }
                  let externs := alInsert externs ident kind
                  match register st ident (.ty t) with
                  | .ok st => go st uses externs r
                  | .error e => .error e
              | _ => .error "NotInterfaceValueType"
            | _ => .error "NotInterfaceValueType"
      go st uses externs items
  | some _ => .error "NotInterface"
  | none => .error "UndefinedName"

/-- `AstResolver::item_type_decl` + the declaration functions (`register_name = true`) -/
def itemTypeDecl (st : St) (i : Item) (externs : List (Str × ItemKind)) : M (St × List (Str × ItemKind)) :=
  let fin (st : St) (n : Str) (t : Ty) : M (St × List (Str × ItemKind)) :=
    match register st n (.ty t) with
    | .ok st => .ok (st, alInsert externs n (.type t))
    | .error e => .error e
  match i with
  | .resource n items => resourceDecl st n items externs
  | .variant n cs =>
    let rec go (st : St) (acc : List (Str × Option ValueType)) : List (Str × Option WTy) → M (St × List (Str × Option ValueType))
      | [] => .ok (st, acc)
      | (c, none) :: r => if (alGet acc c).isSome then .error "DuplicateVariantCase" else go st (acc ++ [(c, none)]) r
      | (c, some t) :: r =>
        match ty 64 st t with
        | .ok (st, v) => if (alGet acc c).isSome then .error "DuplicateVariantCase" else go st (acc ++ [(c, some v)]) r
        | .error e => .error e
    match go st [] cs with
    | .ok (st, cases) => let (st, id) := addDefined st (.variant cases); fin st n (.value (.defined id))
    | .error e => .error e
  | .record n fs =>
    match namedTys "DuplicateRecordField" st fs [] with
    | .ok (st, fields) => let (st, id) := addDefined st (.record fields); fin st n (.value (.defined id))
    | .error e => .error e
  | .flags n ns =>
    if ns.eraseDups.length != ns.length then .error "DuplicateFlag"
    else let (st, id) := addDefined st (.flags ns); fin st n (.value (.defined id))
  | .enum n ns =>
    if ns.eraseDups.length != ns.length then .error "DuplicateEnumCase"
    else let (st, id) := addDefined st (.enum ns); fin st n (.value (.defined id))
  | .alias n t =>
    match typeAlias st n t with
    | .ok (st, t) => .ok (st, alInsert externs n (.type t))
    | .error e => .error e
  | _ => .error "not a type declaration"

/-- `AstResolver::interface_items` -/
def interfaceItems : St → List Item → Interface → M (St × Interface)
  | st, [], itf => .ok (st, itf)
  | st, i :: r, itf =>
    match i with
    | .use path items =>
      match useType st path items itf.uses itf.exports with
      | .ok (st, uses, exports) => interfaceItems st r { itf with uses := uses, exports := exports }
      | .error e => .error e
    | .func n sg =>
      match funcType st sg.params sg.result .free none with
      | .ok (st, f) =>
        if (alGet itf.exports n).isSome then .error "DuplicateInterfaceExport"
        else interfaceItems st r { itf with exports := alInsert itf.exports n (.func f) }
      | .error e => .error e
    | decl =>
      match itemTypeDecl st decl itf.exports with
      | .ok (st, exports) => interfaceItems st r { itf with exports := exports }
      | .error e => .error e

/-- `AstResolver::id` -/
def idOf (p : Pkg) (n : Str) : Str := p.idOf n

/-- `AstResolver::interface_decl` / `inline_interface`: a fresh scope for the body -/
def interfaceDecl (st : St) (id : Option Str) (items : List Item) : M (St × Nat) :=
  let saved := st.scope
  match interfaceItems { st with scope := [] } items { id := id, uses := [], exports := [] } with
  | .ok (st, itf) =>
    let (st, i) := addInterface { st with scope := saved } itf
    .ok (st, i)
  | .error e => .error e

/-- `replace_name` of `world_include` (without the conflict error: conflicts are errors) -/
def replaceName (withs : List (Str × Str)) (existing : List (Str × ItemKind)) (n : Str) : M Str :=
  if n.contains ':' then .ok n
  else
    let n' := (alGet withs n).getD n
    if (alGet existing n').isSome then .error "WorldIncludeConflict" else .ok n'

/-- `AstResolver::world_include` -/
def worldInclude (st : St) (wn : Str) (withs : List (Str × Str)) (wd : World) : M World :=
  match alGet st.root wn with
  | some (.world o) =>
    match st.types.worlds[o]? with
    | none => .error "dangling world"
    | some other =>
      let imp : M World := other.imports.foldlM (fun (wd : World) (nk : Str × ItemKind) =>
        match replaceName withs wd.imports nk.1 with
        | .error e => (.error e : M World)
        | .ok name =>
          -- a used type of the included world stays a used type
          let uses :=
            match alGet other.uses nk.1 with
            | some used =>
              if (alGet wd.imports name).isNone && (alGet wd.uses name).isNone then
                wd.uses ++ [(name, ({ interface := used.interface,
                                      name := match used.name with
                                        | some o => some o
                                        | none => if name != nk.1 then some nk.1 else none } : UsedType))]
              else wd.uses
            | none => wd.uses
          .ok { wd with uses := uses,
                        imports := if (alGet wd.imports name).isSome then wd.imports else wd.imports ++ [(name, nk.2)] }) wd
      match imp with
      | .error e => .error e
      | .ok wd =>
        other.exports.foldlM (fun (wd : World) (nk : Str × ItemKind) =>
          match replaceName withs wd.exports nk.1 with
          | .error e => (.error e : M World)
          | .ok name =>
            .ok { wd with exports := if (alGet wd.exports name).isSome then wd.exports else wd.exports ++ [(name, nk.2)] }) wd
  | some _ => .error "NotWorld"
  | none => .error "UndefinedName"

/-- `AstResolver::world_items`: everything but includes first, then the includes -/
def worldItems : St → List WItem → World → M (St × World)
  | st, [], wd => .ok (st, wd)
  | st, i :: r, wd =>
    match i with
    | .item (.use path items) =>
      match useType st path items wd.uses wd.imports with
      | .ok (st, uses, imports) => worldItems st r { wd with uses := uses, imports := imports }
      | .error e => .error e
    | .item decl =>
      match itemTypeDecl st decl wd.imports with
      | .ok (st, imports) => worldItems st r { wd with imports := imports }
      | .error e => .error e
    | .externPath imp path =>
      -- `WorldItemPath::Ident`: an interface of the root scope, keyed by its id
      match alGet st.root path with
      | some (.iface i) =>
        match st.types.interfaces[i]? with
        | some itf =>
          match itf.id with
          | some id =>
            let m := if imp then wd.imports else wd.exports
            if (alGet m id).isSome then .error "DuplicateWorldItem"
            else if imp then worldItems st r { wd with imports := alInsert wd.imports id (.instance i) }
            else worldItems st r { wd with exports := alInsert wd.exports id (.instance i) }
          | none => .error "expected an interface id"
        | none => .error "dangling interface"
      | some _ => .error "NotInterface"
      | none => .error "UndefinedName"
    | .externFunc imp n sg =>
      let m := if imp then wd.imports else wd.exports
      if (alGet m n).isSome then .error "DuplicateWorldItem"
      else
        match funcType st sg.params sg.result .free none with
        | .ok (st, f) =>
          if imp then worldItems st r { wd with imports := alInsert wd.imports n (.func f) }
          else worldItems st r { wd with exports := alInsert wd.exports n (.func f) }
        | .error e => .error e
    | .externIface imp n items =>
      let m := if imp then wd.imports else wd.exports
      if (alGet m n).isSome then .error "DuplicateWorldItem"
      else
        match interfaceDecl st none items with
        | .ok (st, i) =>
          if imp then worldItems st r { wd with imports := alInsert wd.imports n (.instance i) }
          else worldItems st r { wd with exports := alInsert wd.exports n (.instance i) }
        | .error e => .error e
    | .include _ _ => worldItems st r wd

/-- `AstResolver::world_decl` -/
def worldDecl (st : St) (id : Str) (items : List WItem) : M (St × Nat) :=
  let saved := st.scope
  match worldItems { st with scope := [] } items { id := some id, uses := [], imports := [], exports := [] } with
  | .error e => .error e
  | .ok (st, wd) =>
    let inc : M World := items.foldlM (fun (wd : World) (i : WItem) =>
      match i with
      | .include wn withs => worldInclude st wn withs wd
      | _ => .ok wd) wd
    match inc with
    | .error e => .error e
    | .ok wd =>
      let (st, w) := addWorld { st with scope := saved } wd
      .ok (st, w)

/-- the type statements of a document, in order (interfaces and worlds are written in the order
the generator emits them: interfaces first) -/
def elabPkg (p : Pkg) : M Types :=
  let ifs : M St := p.ifaces.foldlM (fun (st : St) (ni : Str × List Item) =>
    match interfaceDecl st (some (idOf p ni.1)) ni.2 with
    | .ok (st, i) => (.ok { st with root := st.root ++ [(ni.1, .iface i)] } : M St)
    | .error e => .error e) ({} : St)
  match ifs with
  | .error e => .error e
  | .ok st =>
    match (p.worlds.foldlM (fun (st : St) (nw : Str × List WItem) =>
      match worldDecl st (idOf p nw.1) nw.2 with
      | .ok (st, w) => (.ok { st with root := st.root ++ [(nw.1, .world w)] } : M St)
      | .error e => .error e) st : M St) with
    | .ok st => .ok st.types
    | .error e => .error e

end Wac.Elab
