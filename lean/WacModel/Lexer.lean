import WacModel.Semver
import WacModel.Ast
import WacModel.Generated.Tokens
import WacModel.Generated.InvalidChars
/-
  Model of `crates/wac-parser/src/lexer.rs`.

  * `detectInvalidInput`  = `detect_invalid_input` (the up-front code-point screen; the lists are
    the generated ones, `Generated/InvalidChars.lean`);
  * `lexStep`/`lexAll`    = `Token::lex` as documented by logos 0.14: at every position the
    longest match over all patterns wins, a `#[token]` beats a `#[regex]` of the same length,
    the callbacks `helpers::string` / `helpers::skip_block_comment` extend the match, skipped
    patterns restart the token, and a position where nothing matches yields
    `Err(UnexpectedToken)` spanning one character.  Keywords and symbols are looked up in the
    *generated* tables (`Generated/Tokens.lean`); the four regexes are the hand-written
    recognisers `idLen`, `packageNameLen`, `semverLen`, `packagePathLen` below, tied to the
    generated regex strings by `Wac.Props.C12.tokens_eq_spec`.
  * `commentsAt`          = `Lexer::comments` (the doc-comment lexer `CommentToken`);
  * `PState`, `PState.next/peek/peek2/span` = `struct Lexer` and its methods as the parser uses
    them.  The whole source is tokenised up front; every token carries its byte span, its text
    and the doc comments found between the end of the previous token and itself (what
    `Lexer::comments` returns when the parser calls it at that point).

  Offsets are UTF-8 byte offsets (`Char.utf8Size`), sources are `List Char`.
  Core Lean only.
-/
namespace Wac.Lex
open Wac Wac.Ast

/-- `enum Token` (same variant names, same order) -/
inductive Token where
  | Comment | BlockComment | Ident | String | PackageName | PackagePath
  | ImportKeyword | WithKeyword | TypeKeyword | TupleKeyword | ListKeyword | OptionKeyword
  | ResultKeyword | BorrowKeyword | ResourceKeyword | VariantKeyword | RecordKeyword
  | FlagsKeyword | EnumKeyword | FuncKeyword | StaticKeyword | ConstructorKeyword
  | U8Keyword | S8Keyword | U16Keyword | S16Keyword | U32Keyword | S32Keyword | U64Keyword
  | S64Keyword | F32Keyword | F64Keyword | CharKeyword | BoolKeyword | StringKeyword
  | InterfaceKeyword | WorldKeyword | ExportKeyword | NewKeyword | LetKeyword | UseKeyword
  | IncludeKeyword | AsKeyword | PackageKeyword | TargetsKeyword
  | Semicolon | OpenBrace | CloseBrace | Colon | Equals | OpenParen | CloseParen | Arrow
  | OpenAngle | CloseAngle | Underscore | OpenBracket | CloseBracket | Dot | Ellipsis | Comma
  | Slash | At
deriving DecidableEq, Repr, Inhabited

def Token.all : List Token := [
  .Comment, .BlockComment, .Ident, .String, .PackageName, .PackagePath,
  .ImportKeyword, .WithKeyword, .TypeKeyword, .TupleKeyword, .ListKeyword, .OptionKeyword,
  .ResultKeyword, .BorrowKeyword, .ResourceKeyword, .VariantKeyword, .RecordKeyword,
  .FlagsKeyword, .EnumKeyword, .FuncKeyword, .StaticKeyword, .ConstructorKeyword,
  .U8Keyword, .S8Keyword, .U16Keyword, .S16Keyword, .U32Keyword, .S32Keyword, .U64Keyword,
  .S64Keyword, .F32Keyword, .F64Keyword, .CharKeyword, .BoolKeyword, .StringKeyword,
  .InterfaceKeyword, .WorldKeyword, .ExportKeyword, .NewKeyword, .LetKeyword, .UseKeyword,
  .IncludeKeyword, .AsKeyword, .PackageKeyword, .TargetsKeyword,
  .Semicolon, .OpenBrace, .CloseBrace, .Colon, .Equals, .OpenParen, .CloseParen, .Arrow,
  .OpenAngle, .CloseAngle, .Underscore, .OpenBracket, .CloseBracket, .Dot, .Ellipsis, .Comma,
  .Slash, .At]

/-- the Rust variant name -/
def Token.name : Token → _root_.String
  | .Comment => "Comment" | .BlockComment => "BlockComment" | .Ident => "Ident"
  | .String => "String" | .PackageName => "PackageName" | .PackagePath => "PackagePath"
  | .ImportKeyword => "ImportKeyword" | .WithKeyword => "WithKeyword"
  | .TypeKeyword => "TypeKeyword" | .TupleKeyword => "TupleKeyword"
  | .ListKeyword => "ListKeyword" | .OptionKeyword => "OptionKeyword"
  | .ResultKeyword => "ResultKeyword" | .BorrowKeyword => "BorrowKeyword"
  | .ResourceKeyword => "ResourceKeyword" | .VariantKeyword => "VariantKeyword"
  | .RecordKeyword => "RecordKeyword" | .FlagsKeyword => "FlagsKeyword"
  | .EnumKeyword => "EnumKeyword" | .FuncKeyword => "FuncKeyword"
  | .StaticKeyword => "StaticKeyword" | .ConstructorKeyword => "ConstructorKeyword"
  | .U8Keyword => "U8Keyword" | .S8Keyword => "S8Keyword" | .U16Keyword => "U16Keyword"
  | .S16Keyword => "S16Keyword" | .U32Keyword => "U32Keyword" | .S32Keyword => "S32Keyword"
  | .U64Keyword => "U64Keyword" | .S64Keyword => "S64Keyword" | .F32Keyword => "F32Keyword"
  | .F64Keyword => "F64Keyword" | .CharKeyword => "CharKeyword" | .BoolKeyword => "BoolKeyword"
  | .StringKeyword => "StringKeyword" | .InterfaceKeyword => "InterfaceKeyword"
  | .WorldKeyword => "WorldKeyword" | .ExportKeyword => "ExportKeyword"
  | .NewKeyword => "NewKeyword" | .LetKeyword => "LetKeyword" | .UseKeyword => "UseKeyword"
  | .IncludeKeyword => "IncludeKeyword" | .AsKeyword => "AsKeyword"
  | .PackageKeyword => "PackageKeyword" | .TargetsKeyword => "TargetsKeyword"
  | .Semicolon => "Semicolon" | .OpenBrace => "OpenBrace" | .CloseBrace => "CloseBrace"
  | .Colon => "Colon" | .Equals => "Equals" | .OpenParen => "OpenParen"
  | .CloseParen => "CloseParen" | .Arrow => "Arrow" | .OpenAngle => "OpenAngle"
  | .CloseAngle => "CloseAngle" | .Underscore => "Underscore" | .OpenBracket => "OpenBracket"
  | .CloseBracket => "CloseBracket" | .Dot => "Dot" | .Ellipsis => "Ellipsis"
  | .Comma => "Comma" | .Slash => "Slash" | .At => "At"

def Token.ofName? (s : _root_.String) : Option Token := Token.all.find? (fun t => t.name == s)

/-- `lexer::Error` -/
inductive LexError where
  | UnexpectedToken
  | UnterminatedString
  | UnterminatedComment
  | DisallowedBidirectionalOverride (c : Char)
  | DiscouragedUnicodeCodepoint (c : Char)
  | DisallowedControlCode (c : Char)
  | NestingTooDeep
deriving DecidableEq, Repr, Inhabited

/-! ### tables (from the generated file) -/

def tableOf (xs : List (String × String)) : List (Str × Token) :=
  xs.filterMap fun (v, text) => (Token.ofName? v).map fun t => (text.toList, t)

/-- keyword text ↦ token, from `Generated.keywords` -/
def keywordTable : List (Str × Token) := tableOf Generated.keywords
/-- symbol text ↦ token, from `Generated.symbols` -/
def symbolTable : List (Str × Token) := tableOf Generated.symbols

def lookupKeyword (s : Str) : Option Token := (keywordTable.find? (·.1 == s)).map (·.2)

/-! ### byte offsets -/

def utf8Len (s : Str) : Nat := s.foldl (fun n c => n + c.utf8Size) 0

/-! ### `detect_invalid_input` -/

/-- Rust `char::is_control` (general category Cc) -/
def isControl (c : Char) : Bool := c.toNat ≤ 0x1f || (0x7f ≤ c.toNat && c.toNat ≤ 0x9f)

/-- classification of one code point by the `match ch` of `detect_invalid_input`
(arms in source order: allowed, bidi, discouraged, control guard, default) -/
def screenChar (c : Char) : Option LexError :=
  if Generated.allowedControls.contains c.toNat then none
  else if Generated.bidiOverrides.contains c.toNat then some (.DisallowedBidirectionalOverride c)
  else if Generated.discouraged.contains c.toNat then some (.DiscouragedUnicodeCodepoint c)
  else if Generated.controlGuard && isControl c then some (.DisallowedControlCode c)
  else none

/-- `detect_invalid_input`: the first offending code point with its span -/
def detectInvalidInput (src : Str) : Option (LexError × Span) :=
  let rec go (pos : Nat) : Str → Option (LexError × Span)
    | [] => none
    | c :: r =>
      match screenChar c with
      | some e => some (e, ⟨pos, c.utf8Size⟩)
      | none => go (pos + c.utf8Size) r
  go 0 src

/-! ### the regexes -/

def isLower (c : Char) : Bool := 'a' ≤ c && c ≤ 'z'
def isUpper (c : Char) : Bool := 'A' ≤ c && c ≤ 'Z'

/-- `[a-z0-9]*` resp. `[A-Z0-9]*` -/
def wordTailLen (upper : Bool) : Str → Nat
  | [] => 0
  | c :: r => if (if upper then isUpper c else isLower c) || isDigit c then wordTailLen upper r + 1 else 0

/-- subpattern `word = [a-z][a-z0-9]*|[A-Z][A-Z0-9]*`: length of the longest match at the start
of `s`, 0 if there is none -/
def wordLen : Str → Nat
  | [] => 0
  | c :: r =>
    if isLower c then wordTailLen false r + 1
    else if isUpper c then wordTailLen true r + 1
    else 0

/-- `(-(?&word))*` -/
def dashWordsLen : Nat → Str → Nat
  | 0, _ => 0
  | fuel + 1, s =>
    match s with
    | '-' :: r =>
      let w := wordLen r
      if w = 0 then 0 else 1 + w + dashWordsLen fuel (r.drop w)
    | _ => 0

/-- subpattern `id = %?(?&word)(-(?&word))*` -/
def idLen (s : Str) : Nat :=
  let (p, s') := match s with
    | '%' :: r => (1, r)
    | _ => (0, s)
  let w := wordLen s'
  if w = 0 then 0 else p + w + dashWordsLen s'.length (s'.drop w)

/-- `(:(?&id))*` -/
def colonIdsLen : Nat → Str → Nat
  | 0, _ => 0
  | fuel + 1, s =>
    match s with
    | ':' :: r =>
      let n := idLen r
      if n = 0 then 0 else 1 + n + colonIdsLen fuel (r.drop n)
    | _ => 0

/-- subpattern `package_name = (?&id)(:(?&id))+` -/
def packageNameLen (s : Str) : Nat :=
  let n := idLen s
  if n = 0 then 0 else
  let m := colonIdsLen s.length (s.drop n)
  if m = 0 then 0 else n + m

def isSemverChar (c : Char) : Bool :=
  isDigit c || isLower c || isUpper c || c == '-' || c == '+'

/-- `(\.[0-9a-zA-Z-\+]+)*` -/
def dotChunksLen : Nat → Str → Nat
  | 0, _ => 0
  | fuel + 1, s =>
    match s with
    | '.' :: r =>
      let n := (r.takeWhile isSemverChar).length
      if n = 0 then 0 else 1 + n + dotChunksLen fuel (r.drop n)
    | _ => 0

/-- subpattern `semver = ([0-9]+)(\.[0-9a-zA-Z-\+]+)*` -/
def semverLen (s : Str) : Nat :=
  let n := (s.takeWhile isDigit).length
  if n = 0 then 0 else n + dotChunksLen s.length (s.drop n)

/-- `(@(?&semver))?` -/
def atVersionLen (s : Str) : Nat :=
  match s with
  | '@' :: r => let n := semverLen r; if n = 0 then 0 else 1 + n
  | _ => 0

/-- `(/(?&id))*` -/
def slashIdsLen : Nat → Str → Nat
  | 0, _ => 0
  | fuel + 1, s =>
    match s with
    | '/' :: r =>
      let n := idLen r
      if n = 0 then 0 else 1 + n + slashIdsLen fuel (r.drop n)
    | _ => 0

/-- token `PackageName = (?&package_name)(@(?&semver))?` -/
def packageNameTokLen (s : Str) : Nat :=
  let n := packageNameLen s
  if n = 0 then 0 else n + atVersionLen (s.drop n)

/-- token `PackagePath = (?&package_name)(/(?&id))+(@(?&semver))?` -/
def packagePathTokLen (s : Str) : Nat :=
  let n := packageNameLen s
  if n = 0 then 0 else
  let m := slashIdsLen s.length (s.drop n)
  if m = 0 then 0 else n + m + atVersionLen (s.drop (n + m))

/-! ### one step of `Token::lex` -/

/-- the skip pattern `[ \t\r\n\f]+` -/
def isSkipChar (c : Char) : Bool := c == ' ' || c == '\t' || c == '\r' || c == '\n' || c == '\x0c'

/-- `helpers::block_comment_length` after the opening `/*`: the text after the matching `*/`,
`none` when the comment is not terminated.  `depth` counts the *additional* open comments.
(The Rust code scans bytes; `/` and `*` are ASCII, so scanning characters is the same.) -/
def skipBlock : Nat → Str → Option Str
  | _, [] => none
  | depth, '/' :: '*' :: r => skipBlock (depth + 1) r
  | depth, '*' :: '/' :: r => if depth = 0 then some r else skipBlock (depth - 1) r
  | depth, _ :: r => skipBlock depth r

/-- longest symbol of the table that is a prefix of `s` -/
def matchSymbol (s : Str) : Option (Token × Nat) :=
  symbolTable.foldl (fun best (text, t) =>
    if text.isPrefixOf s && text.length > (best.map (·.2)).getD 0 then some (t, text.length) else best) none

inductive Step where
  /-- end of input -/
  | eof
  /-- `n` characters of skipped input (white space, a comment) -/
  | skip (n : Nat)
  /-- a token or a lexical error over `n` characters -/
  | tok (res : Except LexError Token) (n : Nat)
deriving Repr, Inhabited

/-- what is matched at the start of `s` -/
def lexStep (s : Str) : Step :=
  match s with
  | [] => .eof
  | c :: r =>
    if isSkipChar c then .skip (1 + (r.takeWhile isSkipChar).length)
    else if c == '/' && r.head? == some '/' then
      -- `//[^\n]*`, skipped
      .skip (s.takeWhile (· != '\n')).length
    else if c == '/' && r.head? == some '*' then
      -- `/*` + `helpers::skip_block_comment`
      match skipBlock 0 (r.drop 1) with
      | some rest => .skip (s.length - rest.length)
      | none => .tok (.error .UnterminatedComment) s.length
    else if c == '"' then
      -- `"` + `helpers::string`
      let body := r.takeWhile (· != '"')
      if body.length < r.length then .tok (.ok .String) (body.length + 2)
      else .tok (.error .UnterminatedString) 1
    else
      let pp := packagePathTokLen s
      if pp > 0 then .tok (.ok .PackagePath) pp else
      let pn := packageNameTokLen s
      if pn > 0 then .tok (.ok .PackageName) pn else
      let n := idLen s
      if n > 0 then
        match lookupKeyword (s.take n) with
        | some kw => .tok (.ok kw) n
        | none => .tok (.ok .Ident) n
      else
        match matchSymbol s with
        | some (t, n) => .tok (.ok t) n
        | none => .tok (.error .UnexpectedToken) 1

/-! ### `Lexer::comments` -/

/-- Rust `char::is_whitespace` (Unicode `White_Space`) -/
def isRustWhitespace (c : Char) : Bool :=
  let n := c.toNat
  (0x09 ≤ n && n ≤ 0x0d) || n == 0x20 || n == 0x85 || n == 0xa0 || n == 0x1680 ||
  (0x2000 ≤ n && n ≤ 0x200a) || n == 0x2028 || n == 0x2029 || n == 0x202f || n == 0x205f || n == 0x3000

/-- `str::trim` -/
def rustTrim (s : Str) : Str :=
  ((s.dropWhile isRustWhitespace).reverse.dropWhile isRustWhitespace).reverse

/-- the skip pattern of `CommentToken`: `[ \t\n\f]+` (no `\r`) -/
def isCommentSkipChar (c : Char) : Bool := c == ' ' || c == '\t' || c == '\n' || c == '\x0c'

/-- the body of the `while let` loop of `Lexer::comments` for one comment text -/
def docText (c : Str) : Option Str :=
  if "///".toList.isPrefixOf c then some (rustTrim (c.drop 3))
  else if "/**".toList.isPrefixOf c then
    let r := c.drop 3
    if r == ['/'] then none
    else some (rustTrim (r.take (r.length - 2)))   -- `strip_suffix("*/")`
  else none

/-- `Lexer::comments` started at byte `pos` with the remaining text `s` -/
def commentsAt : Nat → Nat → Str → List DocComment
  | 0, _, _ => []
  | fuel + 1, pos, s =>
    match s with
    | [] => []
    | c :: r =>
      if isCommentSkipChar c then
        let n := 1 + (r.takeWhile isCommentSkipChar).length
        commentsAt fuel (pos + n) (s.drop n)
      else if c == '/' && r.head? == some '/' then
        let text := s.takeWhile (· != '\n')
        let rest := commentsAt fuel (pos + utf8Len text) (s.drop text.length)
        match docText text with
        | some d => ⟨d, ⟨pos, utf8Len text⟩⟩ :: rest
        | none => rest
      else if c == '/' && r.head? == some '*' then
        match skipBlock 0 (r.drop 1) with
        | some after =>
          let text := s.take (s.length - after.length)
          let rest := commentsAt fuel (pos + utf8Len text) after
          match docText text with
          | some d => ⟨d, ⟨pos, utf8Len text⟩⟩ :: rest
          | none => rest
        | none => []
      else []

/-! ### the token stream -/

/-- one item of the token stream as the parser sees it -/
structure LTok where
  res : Except LexError Token
  span : Span
  /-- the source text of the token -/
  text : Str
  /-- what `Lexer::comments` returns when called after the previous token -/
  docs : List DocComment
deriving Inhabited

/-- `Token::lexer(source).spanned()` run to the end.  `prev`/`prevPos`: the text and byte
offset just after the previous token (where `Lexer::comments` would start). -/
def lexAll : Nat → Nat → Str → Nat → Str → List LTok
  | 0, _, _, _, _ => []
  | fuel + 1, pos, s, prevPos, prev =>
    match lexStep s with
    | .eof => []
    | .skip n =>
      let n := if n = 0 then 1 else n
      lexAll fuel (pos + utf8Len (s.take n)) (s.drop n) prevPos prev
    | .tok res n =>
      let n := if n = 0 then 1 else n
      let text := s.take n
      let len := utf8Len text
      let rest := s.drop n
      ⟨res, ⟨pos, len⟩, text, commentsAt (prev.length + 1) prevPos prev⟩ ::
        lexAll fuel (pos + len) rest (pos + len) rest

/-- all tokens of a source text -/
def tokenize (src : Str) : List LTok := lexAll (src.length + 1) 0 src 0 src

/-! ### `struct Lexer` as used by the parser -/

/-- the lexer between two calls of the parser -/
structure PState where
  /-- the tokens not yet consumed -/
  toks : List LTok
  /-- `self.0.span()`: the logos span (start, end) of the last `next()` -/
  lastStart : Nat
  lastEnd : Nat
  /-- `self.0.source()` and its length in bytes -/
  src : Str
  srcLen : Nat
  /-- `self.1`: number of `(`, `<`, `{` consumed and not yet closed -/
  depth : Nat
deriving Inhabited

/-- `Lexer::new` after the screen -/
def PState.init (src : Str) : PState := ⟨tokenize src, 0, 0, src, utf8Len src, 0⟩

def isOpenBracket (t : Token) : Bool := t == .OpenParen || t == .OpenAngle || t == .OpenBrace
def isCloseBracket (t : Token) : Bool := t == .CloseParen || t == .CloseAngle || t == .CloseBrace

/-- is a nesting depth over `MAX_NESTING_DEPTH` (generated; no limit when the constant is absent) -/
def tooDeep (d : Nat) : Bool :=
  match Generated.maxNestingDepth with
  | some limit => d > limit
  | none => false

/-- the character of `s` (starting at byte `pos`) whose bytes contain byte offset `b`:
its offset and its length; `(pos, 0)` when there is none -/
def charAt (b : Nat) : Nat → Str → Nat × Nat
  | pos, [] => (pos, 0)
  | pos, c :: r => if b < pos + c.utf8Size then (pos, c.utf8Size) else charAt b (pos + c.utf8Size) r

/-- `Lexer::span`: the span of the last token, except that a span touching the end of the
source is replaced by the character that contains the byte before its start (the last
character of the source at end of input; the empty span for an empty source) -/
def PState.span (st : PState) : Span :=
  if st.lastEnd = st.srcLen then
    let (start, len) := charAt (st.lastStart - 1) 0 st.src
    ⟨start, len⟩
  else ⟨st.lastStart, st.lastEnd - st.lastStart⟩

/-- `Lexer::peek` -/
def PState.peek (st : PState) : Option LTok := st.toks.head?

/-- `Lexer::peek2` -/
def PState.peek2 (st : PState) : Option LTok := (st.toks.drop 1).head?

/-- `Iterator::next`: the next item; an opening bracket beyond the nesting limit is turned into
`Err(NestingTooDeep)` -/
def PState.next (st : PState) : Option LTok × PState :=
  match st.toks with
  | [] => (none, { st with lastStart := st.srcLen, lastEnd := st.srcLen })
  | t :: r =>
    let st' := { st with toks := r, lastStart := t.span.offset, lastEnd := t.span.offset + t.span.len }
    match t.res with
    | .ok k =>
      if isOpenBracket k then
        let d := st.depth + 1
        if tooDeep d then (some { t with res := .error .NestingTooDeep }, { st' with depth := d })
        else (some t, { st' with depth := d })
      else if isCloseBracket k then (some t, { st' with depth := st.depth - 1 })
      else (some t, st')
    | .error _ => (some t, st')

/-- the token kind of an item, `none` for a lexical error -/
def LTok.tok? (t : LTok) : Option Token :=
  match t.res with
  | .ok k => some k
  | .error _ => none

end Wac.Lex
