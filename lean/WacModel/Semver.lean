/-
  Model of `semver::Version::from_str` (semver 1.0.x, `src/parse.rs`) and of the part of
  `impl Ord for Version` that `wac_types::names` can observe (release versions only:
  `alternate_lookup_key` discards every version with a pre-release).

  Strings are `List Char`.  All byte-level tests in the Rust code are on ASCII bytes, and a
  non-ASCII character's UTF-8 bytes are all >= 0x80, so testing characters is the same as
  testing bytes.

  Core Lean only (no Mathlib): this file is linked into the drivers.
-/
namespace Wac

abbrev Str := List Char

def isDigit (c : Char) : Bool := '0' ≤ c && c ≤ '9'
def isIdentChar (c : Char) : Bool :=
  isDigit c || ('A' ≤ c && c ≤ 'Z') || ('a' ≤ c && c ≤ 'z') || c == '-'

def digitVal (c : Char) : Nat := c.toNat - '0'.toNat

/-- value of a big-endian digit string -/
def digitsVal (ds : Str) : Nat := ds.foldl (fun v d => 10 * v + digitVal d) 0

structure Version where
  major : Nat
  minor : Nat
  patch : Nat
  pre   : Str
  build : Str
deriving DecidableEq, Repr

def u64Max : Nat := 18446744073709551615

/-- `numeric_identifier`: a non-empty digit run, no leading zero unless it is "0", fits u64. -/
def numericIdent (s : Str) : Option (Nat × Str) :=
  let ds := s.takeWhile isDigit
  let rest := s.dropWhile isDigit
  if ds.isEmpty then none
  else if ds.length > 1 && ds.head? == some '0' then none
  else if digitsVal ds > u64Max then none
  else some (digitsVal ds, rest)

/-- `dot` -/
def eatDot : Str → Option Str
  | '.' :: r => some r
  | _ => none

def splitOnDot (s : Str) : List Str :=
  let rec go (acc : Str) : Str → List Str
    | [] => [acc.reverse]
    | c :: r => if c == '.' then acc.reverse :: go [] r else go (c :: acc) r
  go [] s

def segOk (isPre : Bool) (seg : Str) : Bool :=
  !seg.isEmpty &&
  !(isPre && seg.length > 1 && seg.all isDigit && seg.head? == some '0')

/-- `identifier(input, pos)`: returns (identifier, rest); `some ([], s)` when nothing starts here. -/
def identifier (isPre : Bool) (s : Str) : Option (Str × Str) :=
  let p := s.takeWhile (fun c => isIdentChar c || c == '.')
  let rest := s.dropWhile (fun c => isIdentChar c || c == '.')
  if p.isEmpty then some ([], s)
  else if (splitOnDot p).all (segOk isPre) then some (p, rest) else none

/-- the optional `-pre` part: `none` = error, `some (pre, rest)` -/
def parsePre (s : Str) : Option (Str × Str) :=
  match s with
  | '-' :: r =>
    match identifier true r with
    | none => none
    | some (pre, r) => if pre.isEmpty then none else some (pre, r)
  | _ => some ([], s)

/-- the optional `+build` part -/
def parseBuild (s : Str) : Option (Str × Str) :=
  match s with
  | '+' :: r =>
    match identifier false r with
    | none => none
    | some (b, r) => if b.isEmpty then none else some (b, r)
  | _ => some ([], s)

/-- what follows `major.minor.patch` -/
def parseTail (major minor patch : Nat) (s : Str) : Option Version :=
  match parsePre s with
  | none => none
  | some (pre, s) =>
    match parseBuild s with
    | none => none
    | some (build, s) =>
      if s.isEmpty then some ⟨major, minor, patch, pre, build⟩ else none

/-- `impl FromStr for Version` -/
def parseVersion (s : Str) : Option Version :=
  match numericIdent s with
  | none => none
  | some (major, s) =>
  match eatDot s with
  | none => none
  | some s =>
  match numericIdent s with
  | none => none
  | some (minor, s) =>
  match eatDot s with
  | none => none
  | some s =>
  match numericIdent s with
  | none => none
  | some (patch, s) => parseTail major minor patch s

/-! ### Ordering of build metadata (`impl Ord for BuildMetadata`) via an order-embedding
into `List (List Nat)` with the lexicographic order (of lexicographically ordered segments). -/

def trimZeros (s : Str) : Str := s.dropWhile (· == '0')

/-- key of one dot-separated segment.  Numeric segments (all digits) sort before the others;
two numeric segments compare by (length without leading zeros, digits, total length); two
non-numeric ones bytewise. -/
def segKey (seg : Str) : List Nat :=
  if seg.all isDigit then
    let t := trimZeros seg
    [0, t.length] ++ t.map Char.toNat ++ [seg.length]
  else
    1 :: seg.map Char.toNat

/-- no build metadata sorts first (the empty list); otherwise segment by segment, a proper
prefix first -/
def buildKey (b : Str) : List (List Nat) :=
  if b.isEmpty then [] else (splitOnDot b).map segKey

/-- the key the release-version order is the lexicographic order of -/
def Version.key (v : Version) : List (List Nat) := [[v.major], [v.minor], [v.patch]] ++ buildKey v.build

/-- `a < b` for release versions (pre-release empty on both sides) -/
def Version.lt (a b : Version) : Bool := decide (a.key < b.key)

end Wac
