import WacModel.Semver
/-
  The WAC abstract syntax tree: one Lean type per `struct`/`enum` of
  `crates/wac-parser/src/ast.rs` and `ast/{type,expr,import,export,let}.rs`, with the same
  constructor (variant) names and the same field names (snake_case -> camelCase).

  Differences from the Rust declarations, all forced by Lean's lexical rules:
    * `Type`            is called `Ty`        (type)      and `Type'` (variant name of
                        `InterfaceItem`, `WorldItem`, `TypeStatement`, `TypeAliasKind`, `Statement`);
    * `ast::String`     is called `StringLit` (it would shadow Lean's `String`);
    * `WorldIncludeItem.from/to`  are `fromId/toId`,  `WorldInclude.with` is `withItems`,
      `Expr.postfix` is `postfixes` (Lean keywords);
    * `&'a str` fields are `Str = List Char`, `SourceSpan` is `Span` (byte offset, byte length),
      `semver::Version` is `Wac.Version` (WacModel/Semver.lean), `Vec`/`Box` are `List`/the value;
    * `Ident` carries `escaped : Bool` — whether the source spelling starts with `%`.  The Rust
      `Ident` has only the cooked `string` and the span, and the printer copies the raw spelling
      out of the source text through the span; the raw spelling is always
      `(if escaped then "%" else "") ++ string`, so the tree is self-contained.

  CAUTION for code written inside `namespace Wac.Ast.Ty`: the constructors `Ty.List`,
  `Ty.Option`, `Ty.String`, `Ty.Bool`, `Ty.Char` shadow the core types there — write
  `_root_.List` etc., or define the function outside that namespace.

  Struct types that take part in the mutual recursion of expressions (`Expr`, `NewExpr`,
  `NestedExpr`, `NamedInstantiationArgument`) are one-constructor inductives with constructor
  `mk`; their field accessors are defined below the `mutual` block.

  Core Lean only (no Mathlib): imported by the lexer/parser/printer/resolver models and linked
  into the drivers.
-/
namespace Wac.Ast

/-- `miette::SourceSpan`: byte offset and byte length in the UTF-8 source. -/
structure Span where
  offset : Nat
  len : Nat
deriving DecidableEq, Repr, Inhabited

/-- one past the last byte -/
def Span.stop (s : Span) : Nat := s.offset + s.len

/-- `SourceSpan::new(a.offset, (b.offset + b.len) - a.offset)` — the span from the start of `a`
to the end of `b` (Rust `usize` subtraction: the parser only builds it with `b` after `a`). -/
def Span.cover (a b : Span) : Span := ⟨a.offset, (b.offset + b.len) - a.offset⟩

/-- `ast::Ident` -/
structure Ident where
  /-- the identifier without a leading `%` -/
  string : Str
  /-- the source spelling starts with `%` -/
  escaped : Bool
  span : Span
deriving DecidableEq, Repr, Inhabited

/-- the source spelling of an identifier -/
def Ident.raw (i : Ident) : Str := if i.escaped then '%' :: i.string else i.string

/-- `ast::String` -/
structure StringLit where
  /-- the text between the quotes -/
  value : Str
  span : Span
deriving DecidableEq, Repr, Inhabited

/-- `ast::DocComment` -/
structure DocComment where
  comment : Str
  span : Span
deriving DecidableEq, Repr, Inhabited

/-- `ast::PackageName` -/
structure PackageName where
  /-- the whole token, including the version -/
  string : Str
  /-- the part before `@` -/
  name : Str
  version : Option Version
  span : Span
deriving DecidableEq, Repr, Inhabited

/-- `ast::PackagePath` -/
structure PackagePath where
  span : Span
  /-- the whole token -/
  string : Str
  /-- the part before the first `/` -/
  name : Str
  /-- between the first `/` and `@` (or the end) -/
  segments : Str
  version : Option Version
deriving DecidableEq, Repr, Inhabited

/-! ### types (`ast/type.rs`) -/

/-- `ast::Type` -/
inductive Ty where
  | U8 (span : Span)
  | S8 (span : Span)
  | U16 (span : Span)
  | S16 (span : Span)
  | U32 (span : Span)
  | S32 (span : Span)
  | U64 (span : Span)
  | S64 (span : Span)
  | F32 (span : Span)
  | F64 (span : Span)
  | Char (span : Span)
  | Bool (span : Span)
  | String (span : Span)
  | Tuple (types : _root_.List Ty) (span : Span)
  | List (ty : Ty) (span : Span)
  | Option (ty : Ty) (span : Span)
  | Result (ok : _root_.Option Ty) (err : _root_.Option Ty) (span : Span)
  | Borrow (id : Ident) (span : Span)
  | Ident (id : Ident)
deriving Repr, Inhabited, BEq

end Wac.Ast

/-- `Type::span` -/
def Wac.Ast.Ty.span : Wac.Ast.Ty → Wac.Ast.Span
  | .U8 s | .S8 s | .U16 s | .S16 s | .U32 s | .S32 s | .U64 s | .S64 s | .F32 s | .F64 s
  | .Char s | .Bool s | .String s | .Tuple _ s | .List _ s | .Option _ s | .Result _ _ s
  | .Borrow _ s => s
  | .Ident id => id.span

namespace Wac.Ast

/-- `ast::NamedType` -/
structure NamedType where
  id : Ident
  ty : Ty
deriving Repr, Inhabited, BEq

/-- `ast::ResultList` -/
inductive ResultList where
  | Empty
  | Scalar (ty : Ty)
deriving Repr, Inhabited, BEq

/-- `ast::FuncType` -/
structure FuncType where
  params : List NamedType
  results : ResultList
deriving Repr, Inhabited, BEq

/-- `ast::FuncTypeRef` -/
inductive FuncTypeRef where
  | Func (ty : FuncType)
  | Ident (id : Ident)
deriving Repr, Inhabited, BEq

/-- `ast::Constructor` -/
structure Constructor where
  docs : List DocComment
  /-- span of the `constructor` keyword -/
  span : Span
  params : List NamedType
deriving Repr, Inhabited, BEq

/-- `ast::Method` -/
structure Method where
  docs : List DocComment
  id : Ident
  isStatic : Bool
  ty : FuncType
deriving Repr, Inhabited, BEq

/-- `ast::ResourceMethod` -/
inductive ResourceMethod where
  | Constructor (c : Constructor)
  | Method (m : Method)
deriving Repr, Inhabited, BEq

/-- `ast::ResourceDecl` -/
structure ResourceDecl where
  docs : List DocComment
  id : Ident
  methods : List ResourceMethod
deriving Repr, Inhabited, BEq

/-- `ast::VariantCase` -/
structure VariantCase where
  docs : List DocComment
  id : Ident
  ty : Option Ty
deriving Repr, Inhabited, BEq

/-- `ast::VariantDecl` -/
structure VariantDecl where
  docs : List DocComment
  id : Ident
  cases : List VariantCase
deriving Repr, Inhabited, BEq

/-- `ast::Field` -/
structure Field where
  docs : List DocComment
  id : Ident
  ty : Ty
deriving Repr, Inhabited, BEq

/-- `ast::RecordDecl` -/
structure RecordDecl where
  docs : List DocComment
  id : Ident
  fields : List Field
deriving Repr, Inhabited, BEq

/-- `ast::Flag` -/
structure Flag where
  docs : List DocComment
  id : Ident
deriving Repr, Inhabited, BEq

/-- `ast::FlagsDecl` -/
structure FlagsDecl where
  docs : List DocComment
  id : Ident
  flags : List Flag
deriving Repr, Inhabited, BEq

/-- `ast::EnumCase` -/
structure EnumCase where
  docs : List DocComment
  id : Ident
deriving Repr, Inhabited, BEq

/-- `ast::EnumDecl` -/
structure EnumDecl where
  docs : List DocComment
  id : Ident
  cases : List EnumCase
deriving Repr, Inhabited, BEq

/-- `ast::TypeAliasKind` -/
inductive TypeAliasKind where
  | Func (ty : FuncType)
  | Type' (ty : Ty)
deriving Repr, Inhabited, BEq

/-- `ast::TypeAlias` -/
structure TypeAlias where
  docs : List DocComment
  id : Ident
  kind : TypeAliasKind
deriving Repr, Inhabited, BEq

/-- `ast::TypeDecl` (top level: no resources) -/
inductive TypeDecl where
  | Variant (d : VariantDecl)
  | Record (d : RecordDecl)
  | Flags (d : FlagsDecl)
  | Enum (d : EnumDecl)
  | Alias (d : TypeAlias)
deriving Repr, Inhabited, BEq

/-- `TypeDecl::id` -/
def TypeDecl.id : TypeDecl → Ident
  | .Variant d => d.id | .Record d => d.id | .Flags d => d.id | .Enum d => d.id | .Alias d => d.id

/-- `ast::ItemTypeDecl` (inside interfaces and worlds) -/
inductive ItemTypeDecl where
  | Resource (d : ResourceDecl)
  | Variant (d : VariantDecl)
  | Record (d : RecordDecl)
  | Flags (d : FlagsDecl)
  | Enum (d : EnumDecl)
  | Alias (d : TypeAlias)
deriving Repr, Inhabited, BEq

/-- `ItemTypeDecl::id` -/
def ItemTypeDecl.id : ItemTypeDecl → Ident
  | .Resource d => d.id | .Variant d => d.id | .Record d => d.id | .Flags d => d.id
  | .Enum d => d.id | .Alias d => d.id

/-- `ast::UseItem` -/
structure UseItem where
  id : Ident
  asId : Option Ident
deriving Repr, Inhabited, BEq

/-- `ast::UsePath` -/
inductive UsePath where
  | Package (path : PackagePath)
  | Ident (id : Ident)
deriving Repr, Inhabited, BEq

/-- `ast::Use` -/
structure Use where
  docs : List DocComment
  path : UsePath
  items : List UseItem
deriving Repr, Inhabited, BEq

/-- `ast::InterfaceExport` -/
structure InterfaceExport where
  docs : List DocComment
  id : Ident
  ty : FuncTypeRef
deriving Repr, Inhabited, BEq

/-- `ast::InterfaceItem` -/
inductive InterfaceItem where
  | Use (u : Use)
  | Type' (d : ItemTypeDecl)
  | Export (e : InterfaceExport)
deriving Repr, Inhabited, BEq

/-- `ast::InterfaceDecl` -/
structure InterfaceDecl where
  docs : List DocComment
  id : Ident
  items : List InterfaceItem
deriving Repr, Inhabited, BEq

/-- `ast::InlineInterface` -/
structure InlineInterface where
  items : List InterfaceItem
deriving Repr, Inhabited, BEq

/-- `ast::ExternType` -/
inductive ExternType where
  | Ident (id : Ident)
  | Func (ty : FuncType)
  | Interface (i : InlineInterface)
deriving Repr, Inhabited, BEq

/-- `ast::NamedWorldItem` -/
structure NamedWorldItem where
  id : Ident
  ty : ExternType
deriving Repr, Inhabited, BEq

/-- `ast::WorldItemPath` -/
inductive WorldItemPath where
  | Named (item : NamedWorldItem)
  | Package (path : PackagePath)
  | Ident (id : Ident)
deriving Repr, Inhabited, BEq

/-- `ast::WorldImport` -/
structure WorldImport where
  docs : List DocComment
  path : WorldItemPath
deriving Repr, Inhabited, BEq

/-- `ast::WorldExport` -/
structure WorldExport where
  docs : List DocComment
  path : WorldItemPath
deriving Repr, Inhabited, BEq

/-- `ast::WorldRef` -/
inductive WorldRef where
  | Ident (id : Ident)
  | Package (path : PackagePath)
deriving Repr, Inhabited, BEq

/-- `WorldRef::name` -/
def WorldRef.name : WorldRef → Str
  | .Ident id => id.string
  | .Package p => p.string

/-- `WorldRef::span` -/
def WorldRef.span : WorldRef → Span
  | .Ident id => id.span
  | .Package p => p.span

/-- `ast::WorldIncludeItem` (`from`, `to`) -/
structure WorldIncludeItem where
  fromId : Ident
  toId : Ident
deriving Repr, Inhabited, BEq

/-- `ast::WorldInclude` (`with` is `withItems`) -/
structure WorldInclude where
  docs : List DocComment
  world : WorldRef
  withItems : List WorldIncludeItem
deriving Repr, Inhabited, BEq

/-- `ast::WorldItem` -/
inductive WorldItem where
  | Use (u : Use)
  | Type' (d : ItemTypeDecl)
  | Import (i : WorldImport)
  | Export (e : WorldExport)
  | Include (i : WorldInclude)
deriving Repr, Inhabited, BEq

/-- `ast::WorldDecl` -/
structure WorldDecl where
  docs : List DocComment
  id : Ident
  items : List WorldItem
deriving Repr, Inhabited, BEq

/-- `ast::TypeStatement` -/
inductive TypeStatement where
  | Interface (d : InterfaceDecl)
  | World (d : WorldDecl)
  | Type' (d : TypeDecl)
deriving Repr, Inhabited, BEq

/-! ### imports (`ast/import.rs`) -/

/-- `ast::ExternName` -/
inductive ExternName where
  | Ident (id : Ident)
  | String (s : StringLit)
deriving Repr, Inhabited, BEq

/-- `ExternName::span` -/
def ExternName.span : ExternName → Span
  | .Ident id => id.span
  | .String s => s.span

/-- `ExternName::as_str` -/
def ExternName.asStr : ExternName → Str
  | .Ident id => id.string
  | .String s => s.value

/-- `ast::ImportType` -/
inductive ImportType where
  | Package (path : PackagePath)
  | Func (ty : FuncType)
  | Interface (i : InlineInterface)
  | Ident (id : Ident)
deriving Repr, Inhabited, BEq

/-- `ast::ImportStatement` -/
structure ImportStatement where
  docs : List DocComment
  id : Ident
  name : Option ExternName
  ty : ImportType
deriving Repr, Inhabited, BEq

/-! ### expressions (`ast/expr.rs`) -/

/-- `ast::InstantiationArgumentName` -/
inductive InstantiationArgumentName where
  | Ident (id : Ident)
  | String (s : StringLit)
deriving Repr, Inhabited, BEq

/-- `InstantiationArgumentName::as_str` -/
def InstantiationArgumentName.asStr : InstantiationArgumentName → Str
  | .Ident id => id.string
  | .String s => s.value

/-- `InstantiationArgumentName::span` -/
def InstantiationArgumentName.span : InstantiationArgumentName → Span
  | .Ident id => id.span
  | .String s => s.span

/-- `ast::AccessExpr` -/
structure AccessExpr where
  span : Span
  id : Ident
deriving Repr, Inhabited, BEq

/-- `ast::NamedAccessExpr` -/
structure NamedAccessExpr where
  span : Span
  string : StringLit
deriving Repr, Inhabited, BEq

/-- `ast::PostfixExpr` -/
inductive PostfixExpr where
  | Access (a : AccessExpr)
  | NamedAccess (a : NamedAccessExpr)
deriving Repr, Inhabited, BEq

/-- `PostfixExpr::span` -/
def PostfixExpr.span : PostfixExpr → Span
  | .Access a => a.span
  | .NamedAccess a => a.span

mutual
/-- `ast::Expr` -/
inductive Expr where
  | mk (span : Span) (primary : PrimaryExpr) (postfixes : List PostfixExpr)
/-- `ast::PrimaryExpr` -/
inductive PrimaryExpr where
  | New (e : NewExpr)
  | Nested (e : NestedExpr)
  | Ident (id : Ident)
/-- `ast::NewExpr` -/
inductive NewExpr where
  | mk (span : Span) (package : PackageName) (arguments : List InstantiationArgument)
/-- `ast::NestedExpr` -/
inductive NestedExpr where
  | mk (span : Span) (inner : Expr)
/-- `ast::InstantiationArgument` -/
inductive InstantiationArgument where
  | Inferred (id : Ident)
  | Spread (id : Ident)
  | Named (arg : NamedInstantiationArgument)
  | Fill (span : Span)
/-- `ast::NamedInstantiationArgument` -/
inductive NamedInstantiationArgument where
  | mk (name : InstantiationArgumentName) (expr : Expr)
end

instance : Inhabited Expr := ⟨.mk default (.Ident default) []⟩
instance : Inhabited PrimaryExpr := ⟨.Ident default⟩
instance : Inhabited NewExpr := ⟨.mk default default []⟩
instance : Inhabited NestedExpr := ⟨.mk default default⟩
instance : Inhabited InstantiationArgument := ⟨.Fill default⟩
instance : Inhabited NamedInstantiationArgument := ⟨.mk default default⟩

def Expr.span : Expr → Span | .mk s _ _ => s
def Expr.primary : Expr → PrimaryExpr | .mk _ p _ => p
def Expr.postfixes : Expr → List PostfixExpr | .mk _ _ p => p
def NewExpr.span : NewExpr → Span | .mk s _ _ => s
def NewExpr.package : NewExpr → PackageName | .mk _ p _ => p
def NewExpr.arguments : NewExpr → List InstantiationArgument | .mk _ _ a => a
def NestedExpr.span : NestedExpr → Span | .mk s _ => s
def NestedExpr.inner : NestedExpr → Expr | .mk _ e => e
def NamedInstantiationArgument.name : NamedInstantiationArgument → InstantiationArgumentName | .mk n _ => n
def NamedInstantiationArgument.expr : NamedInstantiationArgument → Expr | .mk _ e => e

/-- `PrimaryExpr::span` -/
def PrimaryExpr.span : PrimaryExpr → Span
  | .New e => e.span
  | .Nested e => e.span
  | .Ident id => id.span

/-! ### let / export (`ast/let.rs`, `ast/export.rs`) -/

/-- `ast::LetStatement` -/
structure LetStatement where
  docs : List DocComment
  id : Ident
  expr : Expr
deriving Inhabited

/-- `ast::ExportOptions` -/
inductive ExportOptions where
  | None
  | Spread (span : Span)
  | Rename (name : ExternName)
deriving Repr, Inhabited, BEq

/-- `ast::ExportStatement` -/
structure ExportStatement where
  docs : List DocComment
  expr : Expr
  options : ExportOptions
deriving Inhabited

/-! ### document (`ast.rs`) -/

/-- `ast::Statement` -/
inductive Statement where
  | Import (s : ImportStatement)
  | Type' (s : TypeStatement)
  | Let (s : LetStatement)
  | Export (s : ExportStatement)
deriving Inhabited

/-- `ast::PackageDirective` -/
structure PackageDirective where
  package : PackageName
  targets : Option PackagePath
deriving Repr, Inhabited, BEq

/-- `ast::Document` -/
structure Document where
  docs : List DocComment
  directive : PackageDirective
  statements : List Statement
deriving Inhabited

end Wac.Ast
