import WacModel.Ast
import WacModel.Lexer
import WacModel.Parser
/-
  "Every character of every text leaf of the tree satisfies `q`" — the cooked identifiers, string
  values, package name / package path tokens and doc-comment texts.  Used for C13 with
  `q c := (screenChar c).isNone`: the printed text of a parsed document passes the code-point
  screen `detect_invalid_input` because all its characters are literals of the printer or
  characters of leaves, and the leaves of a parsed tree are pieces of a source text that passed
  the screen.

  Same traversal as `WacModel/PrintWF.lean`.  Decidable (Bool-valued), core Lean only.
-/
namespace Wac.Ast
open Wac Wac.Lex Wac.Parse

def docsChars (q : Char → Bool) (ds : List DocComment) : Bool := ds.all fun d => d.comment.all q
def Ident.chars (q : Char → Bool) (i : Ident) : Bool := i.string.all q
def StringLit.chars (q : Char → Bool) (s : StringLit) : Bool := s.value.all q
def PackageName.chars (q : Char → Bool) (p : PackageName) : Bool := p.string.all q
def PackagePath.chars (q : Char → Bool) (p : PackagePath) : Bool := p.string.all q

mutual
def Ty.chars (q : Char → Bool) : Ty → Bool
  | .Tuple types _ => charsTys q types
  | .List t _ => t.chars q
  | .Option t _ => t.chars q
  | .Result none none _ => true
  | .Result none (some err) _ => err.chars q
  | .Result (some ok) none _ => ok.chars q
  | .Result (some ok) (some err) _ => ok.chars q && err.chars q
  | .Borrow id _ => id.chars q
  | .Ident id => id.chars q
  | _ => true
def charsTys (q : Char → Bool) : List Ty → Bool
  | [] => true
  | t :: r => t.chars q && charsTys q r
end

def NamedType.chars (q : Char → Bool) (n : NamedType) : Bool := n.id.chars q && n.ty.chars q

def ResultList.chars (q : Char → Bool) : ResultList → Bool
  | .Empty => true
  | .Scalar t => t.chars q

def FuncType.chars (q : Char → Bool) (f : FuncType) : Bool :=
  f.params.all (NamedType.chars q) && f.results.chars q

def FuncTypeRef.chars (q : Char → Bool) : FuncTypeRef → Bool
  | .Func f => f.chars q
  | .Ident id => id.chars q

def Constructor.chars (q : Char → Bool) (c : Constructor) : Bool :=
  docsChars q c.docs && c.params.all (NamedType.chars q)
def Method.chars (q : Char → Bool) (m : Method) : Bool :=
  docsChars q m.docs && m.id.chars q && m.ty.chars q

def ResourceMethod.chars (q : Char → Bool) : ResourceMethod → Bool
  | .Constructor c => c.chars q
  | .Method m => m.chars q

def ResourceDecl.chars (q : Char → Bool) (d : ResourceDecl) : Bool :=
  docsChars q d.docs && d.id.chars q && d.methods.all (ResourceMethod.chars q)

def VariantCase.chars (q : Char → Bool) (c : VariantCase) : Bool :=
  docsChars q c.docs && c.id.chars q && (match c.ty with | some t => t.chars q | none => true)

def VariantDecl.chars (q : Char → Bool) (d : VariantDecl) : Bool :=
  docsChars q d.docs && d.id.chars q && d.cases.all (VariantCase.chars q)
def Field.chars (q : Char → Bool) (f : Field) : Bool := docsChars q f.docs && f.id.chars q && f.ty.chars q
def RecordDecl.chars (q : Char → Bool) (d : RecordDecl) : Bool :=
  docsChars q d.docs && d.id.chars q && d.fields.all (Field.chars q)
def Flag.chars (q : Char → Bool) (f : Flag) : Bool := docsChars q f.docs && f.id.chars q
def FlagsDecl.chars (q : Char → Bool) (d : FlagsDecl) : Bool :=
  docsChars q d.docs && d.id.chars q && d.flags.all (Flag.chars q)
def EnumCase.chars (q : Char → Bool) (c : EnumCase) : Bool := docsChars q c.docs && c.id.chars q
def EnumDecl.chars (q : Char → Bool) (d : EnumDecl) : Bool :=
  docsChars q d.docs && d.id.chars q && d.cases.all (EnumCase.chars q)

def TypeAliasKind.chars (q : Char → Bool) : TypeAliasKind → Bool
  | .Func f => f.chars q
  | .Type' t => t.chars q

def TypeAlias.chars (q : Char → Bool) (a : TypeAlias) : Bool :=
  docsChars q a.docs && a.id.chars q && a.kind.chars q

def TypeDecl.chars (q : Char → Bool) : TypeDecl → Bool
  | .Variant d => d.chars q | .Record d => d.chars q | .Flags d => d.chars q | .Enum d => d.chars q
  | .Alias d => d.chars q

def ItemTypeDecl.chars (q : Char → Bool) : ItemTypeDecl → Bool
  | .Resource d => d.chars q
  | .Variant d => d.chars q | .Record d => d.chars q | .Flags d => d.chars q | .Enum d => d.chars q
  | .Alias d => d.chars q

def UseItem.chars (q : Char → Bool) (u : UseItem) : Bool :=
  u.id.chars q && (match u.asId with | some a => a.chars q | none => true)

def UsePath.chars (q : Char → Bool) : UsePath → Bool
  | .Package p => p.chars q
  | .Ident id => id.chars q

def Use.chars (q : Char → Bool) (u : Use) : Bool :=
  docsChars q u.docs && u.path.chars q && u.items.all (UseItem.chars q)
def InterfaceExport.chars (q : Char → Bool) (e : InterfaceExport) : Bool :=
  docsChars q e.docs && e.id.chars q && e.ty.chars q

def InterfaceItem.chars (q : Char → Bool) : InterfaceItem → Bool
  | .Use u => u.chars q
  | .Type' d => d.chars q
  | .Export e => e.chars q

def InterfaceDecl.chars (q : Char → Bool) (d : InterfaceDecl) : Bool :=
  docsChars q d.docs && d.id.chars q && d.items.all (InterfaceItem.chars q)
def InlineInterface.chars (q : Char → Bool) (i : InlineInterface) : Bool :=
  i.items.all (InterfaceItem.chars q)

def ExternType.chars (q : Char → Bool) : ExternType → Bool
  | .Ident id => id.chars q
  | .Func f => f.chars q
  | .Interface i => i.chars q

def NamedWorldItem.chars (q : Char → Bool) (n : NamedWorldItem) : Bool := n.id.chars q && n.ty.chars q

def WorldItemPath.chars (q : Char → Bool) : WorldItemPath → Bool
  | .Named n => n.chars q
  | .Package p => p.chars q
  | .Ident id => id.chars q

def WorldRef.chars (q : Char → Bool) : WorldRef → Bool
  | .Ident id => id.chars q
  | .Package p => p.chars q

def WorldIncludeItem.chars (q : Char → Bool) (i : WorldIncludeItem) : Bool :=
  i.fromId.chars q && i.toId.chars q
def WorldInclude.chars (q : Char → Bool) (i : WorldInclude) : Bool :=
  docsChars q i.docs && i.world.chars q && i.withItems.all (WorldIncludeItem.chars q)

def WorldItem.chars (q : Char → Bool) : WorldItem → Bool
  | .Use u => u.chars q
  | .Type' d => d.chars q
  | .Import i => docsChars q i.docs && i.path.chars q
  | .Export e => docsChars q e.docs && e.path.chars q
  | .Include i => i.chars q

def WorldDecl.chars (q : Char → Bool) (d : WorldDecl) : Bool :=
  docsChars q d.docs && d.id.chars q && d.items.all (WorldItem.chars q)

def TypeStatement.chars (q : Char → Bool) : TypeStatement → Bool
  | .Interface d => d.chars q
  | .World d => d.chars q
  | .Type' d => d.chars q

def ExternName.chars (q : Char → Bool) : ExternName → Bool
  | .Ident id => id.chars q
  | .String s => s.chars q

def ImportType.chars (q : Char → Bool) : ImportType → Bool
  | .Package p => p.chars q
  | .Func f => f.chars q
  | .Interface i => i.chars q
  | .Ident id => id.chars q

def ImportStatement.chars (q : Char → Bool) (s : ImportStatement) : Bool :=
  docsChars q s.docs && s.id.chars q && (match s.name with | some n => n.chars q | none => true) &&
    s.ty.chars q

def InstantiationArgumentName.chars (q : Char → Bool) : InstantiationArgumentName → Bool
  | .Ident id => id.chars q
  | .String s => s.chars q

def PostfixExpr.chars (q : Char → Bool) : PostfixExpr → Bool
  | .Access a => a.id.chars q
  | .NamedAccess a => a.string.chars q

mutual
def Expr.chars (q : Char → Bool) : Expr → Bool
  | .mk _ primary post => primary.chars q && post.all (PostfixExpr.chars q)
def PrimaryExpr.chars (q : Char → Bool) : PrimaryExpr → Bool
  | .New (.mk _ package arguments) => package.chars q && charsArgs q arguments
  | .Nested (.mk _ inner) => inner.chars q
  | .Ident id => id.chars q
def charsArgs (q : Char → Bool) : List InstantiationArgument → Bool
  | [] => true
  | a :: r =>
    (match a with
      | .Inferred id => id.chars q
      | .Spread id => id.chars q
      | .Named (.mk name e) => name.chars q && e.chars q
      | .Fill _ => true) && charsArgs q r
end

def LetStatement.chars (q : Char → Bool) (s : LetStatement) : Bool :=
  docsChars q s.docs && s.id.chars q && s.expr.chars q

def ExportOptions.chars (q : Char → Bool) : ExportOptions → Bool
  | .None => true
  | .Spread _ => true
  | .Rename n => n.chars q

def ExportStatement.chars (q : Char → Bool) (s : ExportStatement) : Bool :=
  docsChars q s.docs && s.expr.chars q && s.options.chars q

def Statement.chars (q : Char → Bool) : Statement → Bool
  | .Import s => s.chars q
  | .Type' s => s.chars q
  | .Let s => s.chars q
  | .Export s => s.chars q

def PackageDirective.chars (q : Char → Bool) (d : PackageDirective) : Bool :=
  d.package.chars q && (match d.targets with | some t => t.chars q | none => true)

/-- every character of every identifier, string, package name/path and doc comment satisfies `q` -/
def Document.chars (q : Char → Bool) (d : Document) : Bool :=
  docsChars q d.docs && d.directive.chars q && d.statements.all (Statement.chars q)

/-- the code-point screen of `detect_invalid_input` accepts the character -/
def screenOk (c : Char) : Bool := (screenChar c).isNone

end Wac.Ast
