/-
  Line protocol shared by all drivers.

  harness -> driver, one case per line, TAB separated:
      <case-id> TAB <kind> TAB <field> TAB <field> ...
  Fields are escaped by the harness: every character outside printable ASCII 0x21..0x7e, and
  the characters `\` and TAB/space, are written as `\HEX;` (code point in hex).  The empty
  field is written as `\e;`.

  driver -> runner, one line per case:
      <case-id> TAB ok
      <case-id> TAB MODEL TAB <detail>     -- implementation differs from the Lean model
      <case-id> TAB SPEC  TAB <detail>     -- implementation differs from the Lean specification
      <case-id> TAB BAD   TAB <detail>     -- the driver could not read the line (harness bug)
-/
namespace Wac.Proto

def hexVal (c : Char) : Option Nat :=
  if '0' ≤ c && c ≤ '9' then some (c.toNat - '0'.toNat)
  else if 'a' ≤ c && c ≤ 'f' then some (c.toNat - 'a'.toNat + 10)
  else if 'A' ≤ c && c ≤ 'F' then some (c.toNat - 'A'.toNat + 10)
  else none

/-- unescape a field -/
def unescape (s : List Char) : List Char :=
  let rec go (fuel : Nat) (s : List Char) (acc : List Char) : List Char :=
    match fuel with
    | 0 => acc.reverse
    | fuel + 1 =>
      match s with
      | [] => acc.reverse
      | '\\' :: r =>
        let hex := r.takeWhile (· != ';')
        let rest := (r.dropWhile (· != ';')).drop 1
        if hex == ['e'] then go fuel rest acc
        else
          let v := hex.foldl (fun a c => 16 * a + (hexVal c).getD 0) 0
          go fuel rest (Char.ofNat v :: acc)
      | c :: r => go fuel r (c :: acc)
  go (s.length + 1) s []

def hexDigit (n : Nat) : Char :=
  if n < 10 then Char.ofNat (n + '0'.toNat) else Char.ofNat (n - 10 + 'a'.toNat)

def toHex (n : Nat) : List Char :=
  let rec go (fuel n : Nat) (acc : List Char) : List Char :=
    match fuel with
    | 0 => acc
    | fuel + 1 => if n < 16 then hexDigit n :: acc else go fuel (n / 16) (hexDigit (n % 16) :: acc)
  go 8 n []

/-- escape a field (inverse of `unescape`) -/
def escape (s : List Char) : String :=
  if s.isEmpty then "\\e;" else
  String.ofList (s.flatMap fun c =>
    if c.toNat > 0x20 && c.toNat < 0x7f && c != '\\' then [c]
    else ['\\'] ++ (let h := toHex c.toNat; if h.length < 2 then '0' :: h else h) ++ [';'])

def fields (line : String) : List (List Char) :=
  (line.splitOn "\t").map fun f => unescape f.toList

def showOpt {α} (f : α → String) : Option α → String
  | none => "none"
  | some a => "some(" ++ f a ++ ")"

/-- generic main loop: `judge` maps the fields after the case id to a verdict string -/
partial def loop (h : IO.FS.Stream) (out : IO.FS.Stream) (judge : List (List Char) → String) : IO Unit := do
  let line ← h.getLine
  if line.isEmpty then return ()
  let line := if line.endsWith "\n" then (line.dropEnd 1).toString else line
  match fields line with
  | id :: rest =>
    out.putStrLn (String.ofList id ++ "\t" ++ judge rest)
  | [] => pure ()
  loop h out judge

def run (judge : List (List Char) → String) : IO Unit := do
  let stdin ← IO.getStdin
  let stdout ← IO.getStdout
  loop stdin stdout judge
  stdout.flush

end Wac.Proto
