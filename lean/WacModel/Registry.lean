import WacModel.Names
/-
  Model of `crates/wac-resolver/src/registry.rs`: `RegistryPackageResolver::resolve`.

  * The registry (Warg server + client storage) is a map `package name ↦ releases`
    (`Registry`); `download_exact` is a lookup of the version, `download(…, VersionReq::STAR)` the
    non-yanked release with the highest version that is not a pre-release
    (`PackageState::find_latest_release`), `fetch_packages` fails with `PackageDoesNotExist` for
    *some* requested name that is not in the registry (which one is the server's choice: the
    parameter `σ`).
  * `PackageName::new` validity is the parameter `valid`.
  * The `FuturesUnordered` of spawned download tasks completes in an arbitrary order: the
    parameter `π`, the list of task positions in completion order.  The `while let` loop takes
    the results in that order and returns at the first error it sees.
  * `IndexMap` = association list (`amInsert`: an existing key keeps its position).
  * Versions are compared for equality only, except for "latest", which uses the release order
    of `WacModel.Semver` (`Version.key`).  Contents and spans are opaque tokens.

  Two variants of the function are modelled: `resolveOrig` is the code as pinned (one task per
  *name*, tagged with its position in the name table, result attributed to the key at that
  position of the *key list*); `resolveRegistry` is the code after `fix: one download task per
  requested key`.

  Core Lean only (linked into the driver).
-/
namespace Wac.Registry
open Wac

abbrev Content := Str
abbrev Span := Str

/-- `BorrowedPackageKey`; the version is kept both parsed (for "latest") and as written -/
structure Key where
  name : Str
  version : Option Str
deriving DecidableEq, Repr

structure Release where
  version : Str
  content : Content
deriving DecidableEq, Repr

/-- name ↦ releases; a name that is absent does not exist in the registry, a name with an empty
    release list exists but has no releases -/
abbrev Registry := List (Str × List Release)

/-- the variants of `wac_resolver::Error` produced for a key -/
inductive RegErr where
  | invalidPackageName (name : Str) (span : Span)
  | packageDoesNotExist (name : Str) (span : Span)
  | packageVersionDoesNotExist (name : Str) (version : Str) (span : Span)
  | packageNoReleases (name : Str) (span : Span)
deriving DecidableEq, Repr

/-- `Result<IndexMap<BorrowedPackageKey, Vec<u8>>, Error>` -/
inductive Outcome where
  | ok (packages : List (Key × Content))
  | error (e : RegErr)
deriving DecidableEq, Repr

/-- `PackageState::release(version)` + `content()` -/
def exactRelease (rels : List Release) (v : Str) : Option Content :=
  (rels.find? (fun r => r.version == v)).map (·.content)

/-- is `a` a strictly later release than `b` (both parse, neither is a pre-release)? -/
def laterThan (a b : Str) : Bool :=
  match parseVersion a, parseVersion b with
  | some va, some vb => vb.lt va
  | _, _ => false

/-- `VersionReq::STAR.matches`: any version that is not a pre-release -/
def starMatches (v : Str) : Bool :=
  match parseVersion v with
  | some pv => pv.pre.isEmpty
  | none => false

/-- `find_latest_release(&VersionReq::STAR)`: `max_by` version (the last maximum wins) -/
def latestRelease (rels : List Release) : Option Release :=
  (rels.filter (fun r => starMatches r.version)).foldl
    (fun best r => match best with
      | none => some r
      | some b => if laterThan b.version r.version then some b else some r) none

/-- one spawned task: `download_exact` / `download(…, STAR)` with its error mapping -/
def download (reg : Registry) (name : Str) (version : Option Str) (span : Span) : Except RegErr Content :=
  match amGet reg name with
  | none => .error (.packageDoesNotExist name span)   -- unreachable after `fetch_packages` succeeded
  | some rels =>
    match version with
    | some v =>
      match exactRelease rels v with
      | some c => .ok c
      | none => .error (.packageVersionDoesNotExist name v span)
    | none =>
      match latestRelease rels with
      | some r => .ok r.content
      | none => .error (.packageNoReleases name span)

/-! ### the code as pinned -/

/-- `package_names_with_source_span`: the name-keyed `IndexMap`, built in key order; an invalid
    name aborts with `InvalidPackageName` -/
def buildTable (valid : Str → Bool) :
    List (Key × Span) → List (Str × (Option Str × Span)) → Except RegErr (List (Str × (Option Str × Span)))
  | [], t => .ok t
  | (k, span) :: rest, t =>
    if valid k.name then buildTable valid rest (amInsert t k.name (k.version, span))
    else .error (.invalidPackageName k.name span)

/-- `fetch_packages`: `none` = ok, `some name` = `ClientError::PackageDoesNotExist { name }`;
    `σ` picks which of the missing names the registry reports -/
def fetchPackages (reg : Registry) (names : List Str) (σ : Nat) : Option Str :=
  let missing := names.filter (fun n => (amGet reg n).isNone)
  if missing.isEmpty then none else missing[σ % missing.length]?

/-- `IndexMap::insert` on `BorrowedPackageKey` -/
def amInsertKey (m : List (Key × Content)) (k : Key) (c : Content) : List (Key × Content) :=
  match m with
  | [] => [(k, c)]
  | (k', c') :: r => if k' == k then (k, c) :: r else (k', c') :: amInsertKey r k c

/-- the `while let Some(res) = tasks.next().await` loop: results are consumed in completion
    order `π`; `keyOf i` is the key a result tagged `i` is stored under -/
def drain (results : List (Except RegErr Content)) (keyOf : Nat → Option Key) :
    List Nat → List (Key × Content) → Outcome
  | [], packages => .ok packages
  | i :: rest, packages =>
    match results[i]? with
    | none => drain results keyOf rest packages          -- not a task position: ignored
    | some (.error e) => .error e
    | some (.ok c) =>
      match keyOf i with
      | none => drain results keyOf rest packages        -- `keys.get_index(index).unwrap()`
      | some key => drain results keyOf rest (amInsertKey packages key c)

/-- `RegistryPackageResolver::resolve` as pinned -/
def resolveOrig (valid : Str → Bool) (reg : Registry) (keys : List (Key × Span)) (σ : Nat) (π : List Nat) : Outcome :=
  match buildTable valid keys [] with
  | .error e => .error e
  | .ok table =>
    match fetchPackages reg (table.map (·.1)) σ with
    | some name =>
      .error (.packageDoesNotExist name (match amGet table name with | some (_, span) => span | none => []))
    | none =>
      -- one task per table entry, tagged with its position in the table
      let results := table.map fun (name, (version, span)) => download reg name version span
      -- … and attributed to the key at that position of the *requested key list*
      drain results (fun i => keys[i]?.map (·.1)) π []

/-! ### the code after the repair -/

/-- `requests`: one entry per requested key, in key order -/
def buildRequests (valid : Str → Bool) :
    List (Key × Span) → Except RegErr (List (Str × (Option Str × Span)))
  | [] => .ok []
  | (k, span) :: rest =>
    if valid k.name then
      match buildRequests valid rest with
      | .ok l => .ok ((k.name, (k.version, span)) :: l)
      | .error e => .error e
    else .error (.invalidPackageName k.name span)

/-- the distinct package names with the span of the first key that references them
    (`entry(name).or_insert(span)`) -/
def firstSpans : List (Str × (Option Str × Span)) → List (Str × Span) → List (Str × Span)
  | [], t => t
  | (name, (_, span)) :: rest, t =>
    match amGet t name with
    | some _ => firstSpans rest t
    | none => firstSpans rest (t ++ [(name, span)])

/-- `RegistryPackageResolver::resolve` after `fix: one download task per requested key` -/
def resolveRegistry (valid : Str → Bool) (reg : Registry) (keys : List (Key × Span)) (σ : Nat) (π : List Nat) : Outcome :=
  match buildRequests valid keys with
  | .error e => .error e
  | .ok requests =>
    let names := firstSpans requests []
    match fetchPackages reg (names.map (·.1)) σ with
    | some name => .error (.packageDoesNotExist name ((amGet names name).getD []))
    | none =>
      let results := requests.map fun (name, (version, span)) => download reg name version span
      drain results (fun i => keys[i]?.map (·.1)) π []

end Wac.Registry
