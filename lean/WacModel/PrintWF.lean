import WacModel.Ast
import WacModel.Lexer
import WacModel.Parser
/-
  Well-formedness of a syntax tree, for C13: the conditions under which the tree can be the result
  of parsing some text, as far as printing and re-parsing are concerned.  The round-trip theorems
  (`Wac.Props.C13Print`) are stated for well-formed trees; every tree the parser returns is
  well-formed (checked executably by the driver-side test; the printer copies the spellings of the
  leaves from the source, so what it prints for a parsed tree is what the lexer accepted).

  Leaves:
    * `Ident.wf`        the raw spelling `%`?`string` is one identifier token (the `id` regex matches
                        all of it), it is not a keyword, and an unescaped identifier does not start
                        with `%` (the escape is recorded in the flag, not in `string`);
    * `StringLit.wf`    the value contains no `"`;
    * `PackageName.wf`  the token text is one `PackageName` token and `name`/`version` are what
                        `PackageName::parse` computes from the text;
    * `PackagePath.wf`  likewise for `PackagePath`.
  Inner nodes: the lists the grammar wants non-empty (tuple types; variant cases, record fields,
  flags, enum cases) are non-empty.

  Decidable (Bool-valued), core Lean only.
-/
namespace Wac.Ast
open Wac Wac.Lex Wac.Parse

def Ident.wf (i : Ident) : Bool :=
  !i.raw.isEmpty && idLen i.raw == i.raw.length && (lookupKeyword i.raw).isNone &&
    (i.escaped || i.string.head? != some '%')

def StringLit.wf (s : StringLit) : Bool := !s.value.contains '"'

/-- the `version` field `PackageName::parse` / `PackagePath::parse` compute from the token text
(`none`: the version does not parse) -/
def versionField (s : Str) : Option (Option Version) :=
  match findIdx s '@' with
  | none => some none
  | some i => (parseVersion (s.drop (i + 1))).map some

/-- the `name` field of `PackageName::parse` -/
def packageNameField (s : Str) : Str :=
  match findIdx s '@' with
  | some i => s.take i
  | none => s

def PackageName.wf (p : PackageName) : Bool :=
  !p.string.isEmpty && packageNameTokLen p.string == p.string.length &&
    p.name == packageNameField p.string && versionField p.string == some p.version

/-- the `name` and `segments` fields of `PackagePath::parse` (`none`: no slash) -/
def packagePathFields (s : Str) : Option (Str × Str) :=
  match findIdx s '/' with
  | none => none
  | some slash =>
    let segEnd := (findIdx s '@').getD s.length
    some (s.take slash, (s.take segEnd).drop (slash + 1))

def PackagePath.wf (p : PackagePath) : Bool :=
  !p.string.isEmpty && packagePathTokLen p.string == p.string.length &&
    packagePathFields p.string == some (p.name, p.segments) && versionField p.string == some p.version

mutual
def Ty.wf : Ty → Bool
  | .Tuple types _ => !types.isEmpty && wfTys types
  | .List t _ => t.wf
  | .Option t _ => t.wf
  | .Result none none _ => true
  | .Result none (some err) _ => err.wf
  | .Result (some ok) none _ => ok.wf
  | .Result (some ok) (some err) _ => ok.wf && err.wf
  | .Borrow id _ => id.wf
  | .Ident id => id.wf
  | _ => true
def wfTys : List Ty → Bool
  | [] => true
  | t :: r => t.wf && wfTys r
end

def NamedType.wf (n : NamedType) : Bool := n.id.wf && n.ty.wf

def ResultList.wf : ResultList → Bool
  | .Empty => true
  | .Scalar t => t.wf

def FuncType.wf (f : FuncType) : Bool := f.params.all NamedType.wf && f.results.wf

def FuncTypeRef.wf : FuncTypeRef → Bool
  | .Func f => f.wf
  | .Ident id => id.wf

def Constructor.wf (c : Constructor) : Bool := c.params.all NamedType.wf
def Method.wf (m : Method) : Bool := m.id.wf && m.ty.wf

def ResourceMethod.wf : ResourceMethod → Bool
  | .Constructor c => c.wf
  | .Method m => m.wf

def ResourceDecl.wf (d : ResourceDecl) : Bool := d.id.wf && d.methods.all ResourceMethod.wf

def VariantCase.wf (c : VariantCase) : Bool :=
  c.id.wf && (match c.ty with | some t => t.wf | none => true)

def VariantDecl.wf (d : VariantDecl) : Bool := d.id.wf && !d.cases.isEmpty && d.cases.all VariantCase.wf
def Field.wf (f : Field) : Bool := f.id.wf && f.ty.wf
def RecordDecl.wf (d : RecordDecl) : Bool := d.id.wf && !d.fields.isEmpty && d.fields.all Field.wf
def Flag.wf (f : Flag) : Bool := f.id.wf
def FlagsDecl.wf (d : FlagsDecl) : Bool := d.id.wf && !d.flags.isEmpty && d.flags.all Flag.wf
def EnumCase.wf (c : EnumCase) : Bool := c.id.wf
def EnumDecl.wf (d : EnumDecl) : Bool := d.id.wf && !d.cases.isEmpty && d.cases.all EnumCase.wf

def TypeAliasKind.wf : TypeAliasKind → Bool
  | .Func f => f.wf
  | .Type' t => t.wf

def TypeAlias.wf (a : TypeAlias) : Bool := a.id.wf && a.kind.wf

def TypeDecl.wf : TypeDecl → Bool
  | .Variant d => d.wf | .Record d => d.wf | .Flags d => d.wf | .Enum d => d.wf | .Alias d => d.wf

def ItemTypeDecl.wf : ItemTypeDecl → Bool
  | .Resource d => d.wf
  | .Variant d => d.wf | .Record d => d.wf | .Flags d => d.wf | .Enum d => d.wf | .Alias d => d.wf

def UseItem.wf (u : UseItem) : Bool := u.id.wf && (match u.asId with | some a => a.wf | none => true)

def UsePath.wf : UsePath → Bool
  | .Package p => p.wf
  | .Ident id => id.wf

def Use.wf (u : Use) : Bool := u.path.wf && u.items.all UseItem.wf
def InterfaceExport.wf (e : InterfaceExport) : Bool := e.id.wf && e.ty.wf

def InterfaceItem.wf : InterfaceItem → Bool
  | .Use u => u.wf
  | .Type' d => d.wf
  | .Export e => e.wf

def InterfaceDecl.wf (d : InterfaceDecl) : Bool := d.id.wf && d.items.all InterfaceItem.wf
def InlineInterface.wf (i : InlineInterface) : Bool := i.items.all InterfaceItem.wf

def ExternType.wf : ExternType → Bool
  | .Ident id => id.wf
  | .Func f => f.wf
  | .Interface i => i.wf

def NamedWorldItem.wf (n : NamedWorldItem) : Bool := n.id.wf && n.ty.wf

def WorldItemPath.wf : WorldItemPath → Bool
  | .Named n => n.wf
  | .Package p => p.wf
  | .Ident id => id.wf

def WorldRef.wf : WorldRef → Bool
  | .Ident id => id.wf
  | .Package p => p.wf

def WorldIncludeItem.wf (i : WorldIncludeItem) : Bool := i.fromId.wf && i.toId.wf
def WorldInclude.wf (i : WorldInclude) : Bool := i.world.wf && i.withItems.all WorldIncludeItem.wf

def WorldItem.wf : WorldItem → Bool
  | .Use u => u.wf
  | .Type' d => d.wf
  | .Import i => i.path.wf
  | .Export e => e.path.wf
  | .Include i => i.wf

def WorldDecl.wf (d : WorldDecl) : Bool := d.id.wf && d.items.all WorldItem.wf

def TypeStatement.wf : TypeStatement → Bool
  | .Interface d => d.wf
  | .World d => d.wf
  | .Type' d => d.wf

def ExternName.wf : ExternName → Bool
  | .Ident id => id.wf
  | .String s => s.wf

def ImportType.wf : ImportType → Bool
  | .Package p => p.wf
  | .Func f => f.wf
  | .Interface i => i.wf
  | .Ident id => id.wf

def ImportStatement.wf (s : ImportStatement) : Bool :=
  s.id.wf && (match s.name with | some n => n.wf | none => true) && s.ty.wf

def InstantiationArgumentName.wf : InstantiationArgumentName → Bool
  | .Ident id => id.wf
  | .String s => s.wf

def PostfixExpr.wf : PostfixExpr → Bool
  | .Access a => a.id.wf
  | .NamedAccess a => a.string.wf

mutual
def Expr.wf : Expr → Bool
  | .mk _ primary post => primary.wf && post.all PostfixExpr.wf
def PrimaryExpr.wf : PrimaryExpr → Bool
  | .New (.mk _ package arguments) => package.wf && wfArgs arguments
  | .Nested (.mk _ inner) => inner.wf
  | .Ident id => id.wf
def wfArgs : List InstantiationArgument → Bool
  | [] => true
  | a :: r =>
    (match a with
      | .Inferred id => id.wf
      | .Spread id => id.wf
      | .Named (.mk name e) => name.wf && e.wf
      | .Fill _ => true) && wfArgs r
end

def LetStatement.wf (s : LetStatement) : Bool := s.id.wf && s.expr.wf

def ExportOptions.wf : ExportOptions → Bool
  | .None => true
  | .Spread _ => true
  | .Rename n => n.wf

def ExportStatement.wf (s : ExportStatement) : Bool := s.expr.wf && s.options.wf

def Statement.wf : Statement → Bool
  | .Import s => s.wf
  | .Type' s => s.wf
  | .Let s => s.wf
  | .Export s => s.wf

def PackageDirective.wf (d : PackageDirective) : Bool :=
  d.package.wf && (match d.targets with | some t => t.wf | none => true)

def Document.wf (d : Document) : Bool := d.directive.wf && d.statements.all Statement.wf

end Wac.Ast
