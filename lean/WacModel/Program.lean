/-
  C04: the statement sublanguage of WAC, the abstract package library, and the observable
  result of resolving + encoding a document (`Composition`), shared by the specification
  (`WacModel/Spec/Language.lean`) and the model of the resolver (`WacModel/Resolve.lean`).

  A *library* is abstract: a package is a name, an optional version, an ordered list of import
  names with kinds and an ordered list of export names with kinds.  The Rust harness realises
  each package as a real component (WAT) and checks, by decoding it with `wac_types::Package`,
  that the realisation has exactly the abstract shape sent to the driver.
-/
namespace Wac.Lang

abbrev Str := List Char

/-! ## kinds -/

mutual
/-- the kind of an item.  `func sig`: a function whose signature is identified by `sig`
    (realised as `sig` parameters of type `u32`; two signatures are compatible iff equal).
    `inst id exports`: an instance; `id` is the associated interface path, if any.
    `type id exports`: a component *type* exporting exactly the interface `id` — what a WIT
    package exports for an `interface`; it is what a package path (`ns:pkg/iface`) refers to. -/
inductive Kind where
  | func (sig : Nat)
  | inst (id : Option Str) (exports : Exports)
  | type (id : Option Str) (exports : Exports)
  /-- an interface *type* (what a local `interface` declaration denotes); importing it imports
      an instance of it -/
  | ifaceTy (id : Option Str) (exports : Exports)
/-- ordered name → kind list -/
inductive Exports where
  | nil
  | cons (name : Str) (kind : Kind) (rest : Exports)
end

mutual
def Kind.beq : Kind → Kind → Bool
  | .func a, .func b => a == b
  | .inst i a, .inst j b => i == j && Exports.beq a b
  | .type i a, .type j b => i == j && Exports.beq a b
  | .ifaceTy i a, .ifaceTy j b => i == j && Exports.beq a b
  | _, _ => false
def Exports.beq : Exports → Exports → Bool
  | .nil, .nil => true
  | .cons n k r, .cons n' k' r' => n == n' && Kind.beq k k' && Exports.beq r r'
  | _, _ => false
end

instance : BEq Kind := ⟨Kind.beq⟩
instance : BEq Exports := ⟨Exports.beq⟩
instance : Inhabited Kind := ⟨.func 0⟩

def Exports.toList : Exports → List (Str × Kind)
  | .nil => []
  | .cons n k r => (n, k) :: r.toList

def Exports.ofList : List (Str × Kind) → Exports
  | [] => .nil
  | (n, k) :: r => .cons n k (Exports.ofList r)

def Exports.names (e : Exports) : List Str := e.toList.map (·.1)

/-- first entry with this name (names are unique in every list the harness generates) -/
def Exports.get (n : Str) : Exports → Option Kind
  | .nil => none
  | .cons m k r => if m == n then some k else r.get n

def Exports.has (n : Str) (e : Exports) : Bool := (e.get n).isSome

def Kind.isInstance : Kind → Bool
  | .inst _ _ => true
  | _ => false

/-- exports of an instance kind -/
def Kind.instExports : Kind → Option Exports
  | .inst _ e => some e
  | _ => none

/-- `ItemKind::promote`: an interface type becomes an instance of it -/
def Kind.promote : Kind → Kind
  | .ifaceTy id e => .inst id e
  | k => k

/-- the default name of `import id: <local name>`: the interface path if the local name denotes an
    instance that has one, else the identifier being bound -/
def Kind.importNameOr (k : Kind) (id : Str) : Str :=
  match k with
  | .inst (some p) _ => p
  | _ => id

/-- the interface path associated with an instance kind -/
def Kind.instId : Kind → Option Str
  | .inst id _ => id
  | _ => none

mutual
/-- argument compatibility `a <: b` (component-model subtyping restricted to these kinds):
    functions need equal signatures; an instance must offer every export the expected instance
    type lists, each at a compatible kind; a type is never an acceptable argument here. -/
def Kind.sub (a : Kind) : Kind → Bool
  | .func s => match a with
    | .func s' => s' == s
    | _ => false
  | .inst _ eb => match a with
    | .inst _ ea => Exports.subAll ea eb
    | _ => false
  | .type _ _ => false
  | .ifaceTy _ _ => false
def Exports.subAll (ea : Exports) : Exports → Bool
  | .nil => true
  | .cons n k rest =>
    (match ea.get n with
     | some k' => Kind.sub k' k
     | none => false) && Exports.subAll ea rest
end

/-! ## library -/

structure Package where
  name : Str
  version : Option Str
  imports : Exports
  exports : Exports

abbrev Lib := List Package

def Lib.find (lib : Lib) (name : Str) (ver : Option Str) : Option Package :=
  List.find? (fun p => p.name == name && p.version == ver) lib

/-- the import names of every package are distinct (they are the keys of an `IndexMap`); the
    driver checks it for every library it is given, the refinement theorem assumes it -/
def Lib.wf (lib : Lib) : Bool := lib.all fun p => decide p.imports.names.Nodup

/-- `Package::definitions`: the type exports that define an interface, as interface (instance) kinds -/
def Package.definition (p : Package) (seg : Str) : Option Kind :=
  match p.exports.get seg with
  | some (.type id e) => some (.inst id e)
  | _ => none

/-! ## programs -/

inductive ArgName where
  | id (s : Str)
  | str (s : Str)

def ArgName.text : ArgName → Str
  | .id s => s
  | .str s => s

mutual
inductive Expr where
  | ident (x : Str)
  | new (pkg : Str) (ver : Option Str) (args : Args)
  | nested (e : Expr)
  | access (e : Expr) (id : Str)
  | namedAccess (e : Expr) (s : Str)
inductive Arg where
  | inferred (x : Str)
  | named (n : ArgName) (e : Expr)
  | spread (x : Str)
  | fill
inductive Args where
  | nil
  | cons (a : Arg) (rest : Args)
end

def Args.toList : Args → List Arg
  | .nil => []
  | .cons a r => a :: r.toList

def Args.ofList : List Arg → Args
  | [] => .nil
  | a :: r => .cons a (Args.ofList r)

inductive ImportTy where
  /-- `ns:pkg/seg(/seg)*[@ver]` -/
  | path (pkg : Str) (ver : Option Str) (segs : List Str)
  /-- `func(p0: u32, …)` with `sig` parameters -/
  | func (sig : Nat)
  /-- `interface { name: func(…); … }` -/
  | iface (funcs : List (Str × Nat))
  /-- a local name (an interface declared in the document, or any other item) -/
  | ident (id : Str)

inductive ExportOpt where
  | none
  | as (name : Str)
  | spread

inductive Stmt where
  | imp (id : Str) (as : Option Str) (ty : ImportTy)
  | bind (id : Str) (e : Expr)
  | exp (e : Expr) (opt : ExportOpt)
  /-- `interface id { name: func(…); … }` (a type statement) -/
  | iface (id : Str) (funcs : List (Str × Nat))

structure Program where
  /-- name of the package being defined (`package <name>;`) -/
  self : Str
  stmts : List Stmt

/-- the kind of an interface of functions -/
def funcsKind (fs : List (Str × Nat)) : Exports := Exports.ofList (fs.map fun (n, s) => (n, Kind.func s))

/-- `AstResolver::id`: the identifier of a type declared in the package being defined -/
def declId (self : Str) (name : Str) : Str := self ++ '/' :: name

/-- the string of a package path as written in the source -/
def pathString (pkg : Str) (ver : Option Str) (segs : List Str) : Str :=
  pkg ++ segs.flatMap (fun s => '/' :: s) ++ (match ver with | some v => '@' :: v | none => [])

/-! ## results -/

/-- where an item of the composition comes from -/
inductive Prov where
  /-- an import of the composition (explicit or implicit) with this name -/
  | imp (name : Str)
  /-- the named export of an instance -/
  | exportOf (inst : Prov) (name : Str)
  /-- the `k`-th instantiation (in evaluation order, from 0) -/
  | inst (k : Nat)
  /-- a type declared in the document -/
  | defn (name : Str)
deriving DecidableEq, Repr

def Prov.isDefn : Prov → Bool
  | .defn _ => true
  | _ => false

inductive InstOp where
  | access
  | spread
deriving DecidableEq, Repr

/-- diagnostics (variant of `resolution::Error` + the names it carries) -/
inductive Diag where
  | undefinedName (n : Str)
  | duplicateName (n : Str)
  | unknownPackage (n : Str)
  | packageMissingExport (pkg : Str) (exp : Str)
  | duplicateImport (n : Str)
  | duplicateExport (n : Str)
  | duplicateArg (n : Str)
  | fillNotLast
  | notInstance (op : InstOp)
  | spreadNoMatch
  | unknownArg (n : Str)
  | mismatchedArg (n : Str)
  | missingArg (n : Str)
  | missingExport (n : Str)
  | exportRequiresAs
  | spreadExportNoEffect
  | importConflict (n : Str)
  | exportConflict (n : Str)
  | declarationConflict (n : Str)
deriving DecidableEq, Repr

structure Instantiation where
  pkg : Str
  ver : Option Str
  /-- explicitly supplied and implicitly imported arguments, in no particular order -/
  args : List (Str × Prov)

/-- the composition a document denotes -/
structure Composition where
  /-- imports of the composition: explicit ones and the implicit ones created by `...` -/
  imports : List (Str × Kind)
  instantiations : List Instantiation
  exports : List (Str × Prov × Kind)

/-! ## canonical rendering (compared as text with what the harness decodes from the bytes) -/

def natStr (n : Nat) : Str := (toString n).toList

/-- insertion sort on the rendered key (lists are tiny) -/
def insertBy {α} (key : α → Str) (a : α) : List α → List α
  | [] => [a]
  | b :: r => if decide (String.ofList (key a) ≤ String.ofList (key b)) then a :: b :: r else b :: insertBy key a r

def sortBy {α} (key : α → Str) (l : List α) : List α := l.foldr (insertBy key) []

def joinWith (sep : Str) : List Str → Str
  | [] => []
  | [a] => a
  | a :: r => a ++ sep ++ joinWith sep r

mutual
def Kind.render : Kind → Str
  | .func s => "func".toList ++ natStr s
  | .inst _ e => "inst{".toList ++ joinWith ",".toList (sortBy id (Exports.renderEntries e)) ++ "}".toList
  | .type _ _ => "type".toList
  | .ifaceTy _ _ => "type".toList
/-- `name:kind` per entry (sorted by the caller: the order of an instance type's exports is not compared) -/
def Exports.renderEntries : Exports → List Str
  | .nil => []
  | .cons n k r => (n ++ ":".toList ++ Kind.render k) :: Exports.renderEntries r
end

def Prov.render : Prov → Str
  | .imp n => "import(".toList ++ n ++ ")".toList
  | .exportOf p n => p.render ++ "[".toList ++ n ++ "]".toList
  | .inst k => "#".toList ++ natStr k
  | .defn _ => "type".toList

def optVer : Option Str → Str
  | none => []
  | some v => '@' :: v

def Instantiation.render (i : Instantiation) : Str :=
  i.pkg ++ optVer i.ver ++ "{".toList ++
    joinWith ",".toList ((sortBy (·.1) i.args).map fun (n, p) => n ++ "=".toList ++ p.render) ++ "}".toList

def Composition.render (c : Composition) : Str :=
  "imports=[".toList ++ joinWith ",".toList ((sortBy (·.1) c.imports).map fun (n, k) => n ++ ":".toList ++ k.render) ++
  "];insts=[".toList ++ joinWith ";".toList (c.instantiations.map Instantiation.render) ++
  "];exports=[".toList ++ joinWith ",".toList ((sortBy (·.1) c.exports).map fun (n, p, k) =>
      n ++ "=".toList ++ p.render ++ ":".toList ++ k.render) ++ "]".toList

def InstOp.render : InstOp → Str
  | .access => "access".toList
  | .spread => "spread".toList

def Diag.render : Diag → Str
  | .undefinedName n => "UndefinedName ".toList ++ n
  | .duplicateName n => "DuplicateName ".toList ++ n
  | .unknownPackage n => "UnknownPackage ".toList ++ n
  | .packageMissingExport p e => "PackageMissingExport ".toList ++ p ++ " ".toList ++ e
  | .duplicateImport n => "DuplicateExternName import ".toList ++ n
  | .duplicateExport n => "DuplicateExternName export ".toList ++ n
  | .duplicateArg n => "DuplicateInstantiationArg ".toList ++ n
  | .fillNotLast => "FillArgumentNotLast".toList
  | .notInstance op => "NotAnInstance ".toList ++ op.render
  | .spreadNoMatch => "SpreadInstantiationNoMatch".toList
  | .unknownArg n => "MissingComponentImport ".toList ++ n
  | .mismatchedArg n => "MismatchedInstantiationArg ".toList ++ n
  | .missingArg n => "MissingInstantiationArg ".toList ++ n
  | .missingExport n => "MissingInstanceExport ".toList ++ n
  | .exportRequiresAs => "ExportRequiresAs".toList
  | .spreadExportNoEffect => "SpreadExportNoEffect".toList
  | .importConflict n => "ImportConflict ".toList ++ n
  | .exportConflict n => "ExportConflict ".toList ++ n
  | .declarationConflict n => "DeclarationConflict ".toList ++ n

def renderResult : Except Diag Composition → Str
  | .ok c => "ok ".toList ++ c.render
  | .error d => "err ".toList ++ d.render

/-! ## small helpers on association lists -/

def alGet {α} (n : Str) : List (Str × α) → Option α
  | [] => none
  | (m, a) :: r => if m == n then some a else alGet n r

def alHas {α} (n : Str) (l : List (Str × α)) : Bool := (alGet n l).isSome

end Wac.Lang
