import WacModel.Tree
/-
  C08 model: `Package::from_bytes` / `TypeConverter` (crates/wac-types/src/package.rs) over an
  abstract *validated component type*.

  Input `WTypes` = what the reference validator knows about a component after validation, as a
  graph: every type id the validator created — alias ids included — is a number (the harness
  interns `ComponentDefinedTypeId` / `AliasableResourceId` / func / instance / component / module
  ids in first-visit order), with its structure, its alias edge (`Types::peel_alias`) and, for
  resources, its base resource (`AliasableResourceId::resource`).  An import/exp of a type
  carries the two ids `referenced` / `created` of `ComponentEntityType::Type`.

  Output = the arena model `Wac.Types` of WacModel/Tree.lean plus the world and instance-type
  indices of the `Package`.

  Panics of the Rust code are values (`Outcome.panic site`).  HashMaps that are only looked up
  (cache, resource_map, owners) are association lists.  Recursion over the (acyclic) type graph
  is fuelled: `fuel` bounds the nesting depth; `WTypes.fuel` is enough for any acyclic graph.

  Text form of `W` (written by harness/src/decode_util.rs, S-expressions of Tree.lean):
    w     ::= (W root (D wdef*) (F wfunc*) (I winst*) (C wcomp*) (M module*) (R wres*))
    wval  ::= prim | (d n)                         owval ::= _ | wval
    wdef  ::= (opeel body)                         opeel ::= _ | n
    body  ::= (prim p) | (record ($name wval)*) | (variant ($name owval)*) | (list wval)
            | (tuple wval*) | (flags $name*) | (enum $name*) | (option wval) | (result owval owval)
            | (own r) | (borrow r) | (stream owval) | (future owval) | (flist wval n) | (map wval wval)
    wfunc ::= (async (($name wval)*) owval)
    went  ::= (module n) | (func n) | (value wval) | (type wany wany) | (instance n) | (component n)
    wany  ::= (r n) | (d n) | (f n) | (i n) | (c n)          -- (type referenced created)
    winst ::= ((($name went)*))
    wcomp ::= ((($name went)*) (($name went)*))              -- imports, exports
    wres  ::= (base opeel)
-/
namespace Wac.Decode
open Wac

/-! ## the validated component type -/

/-- `ComponentValType` -/
inductive WVal
  | prim (p : Prim)
  | ty (d : Nat)
deriving DecidableEq, Repr, Inhabited

/-- `ComponentDefinedType` -/
inductive WDef
  | prim (p : Prim)
  | record (fields : List (Str × WVal))
  | variant (cases : List (Str × Option WVal))
  | list (t : WVal)
  | tuple (ts : List WVal)
  | flags (names : List Str)
  | enum (names : List Str)
  | option (t : WVal)
  | result (ok err : Option WVal)
  | own (r : Nat)
  | borrow (r : Nat)
  | stream (t : Option WVal)
  | future (t : Option WVal)
  | fixedList (t : WVal) (n : Nat)
  | map (k v : WVal)
deriving DecidableEq, Repr, Inhabited

/-- a defined type id: its alias edge and its structure -/
structure WDefE where
  peel : Option Nat
  body : WDef
deriving DecidableEq, Repr, Inhabited

/-- `ComponentFuncType` -/
structure WFunc where
  isAsync : Bool
  params : List (Str × WVal)
  result : Option WVal
deriving DecidableEq, Repr, Inhabited

/-- `ComponentAnyTypeId` -/
inductive WAny
  | res (r : Nat)
  | defined (d : Nat)
  | func (f : Nat)
  | instance (i : Nat)
  | component (c : Nat)
deriving DecidableEq, Repr, Inhabited

/-- `ComponentEntityType` -/
inductive WEnt
  | module (m : Nat)
  | func (f : Nat)
  | value (v : WVal)
  | type (referenced created : WAny)
  | instance (i : Nat)
  | component (c : Nat)
deriving DecidableEq, Repr, Inhabited

/-- an aliasable resource id: base resource (`.resource()`) and alias edge -/
structure WRes where
  base : Nat
  peel : Option Nat
deriving DecidableEq, Repr, Inhabited

structure WComp where
  imports : List (Str × WEnt)
  exports : List (Str × WEnt)
deriving DecidableEq, Repr, Inhabited

structure WTypes where
  root : Nat := 0
  defs : List WDefE := []
  funcs : List WFunc := []
  insts : List (List (Str × WEnt)) := []
  comps : List WComp := []
  mods : List ModuleType := []
  res : List WRes := []
deriving DecidableEq, Repr, Inhabited

def WTypes.fuel (w : WTypes) : Nat :=
  w.defs.length + w.funcs.length + w.insts.length + w.comps.length + w.mods.length + w.res.length + 3

/-- `Types::peel_alias` on any id: only defined types and resources are aliasable -/
def WTypes.peel (w : WTypes) : WAny → Option WAny
  | .res r => match w.res[r]? with
    | some e => e.peel.map .res
    | none => none
  | .defined d => match w.defs[d]? with
    | some e => e.peel.map .defined
    | none => none
  | _ => none

/-! ## outcome and converter state -/

inductive Outcome (α : Type)
  | ok (a : α)
  | err (e : String)
  | panic (site : String)
deriving Repr, Inhabited

/-- `Owner` -/
inductive Owner
  | interface (i : Nat)
  | world (w : Nat)
deriving DecidableEq, Repr, Inhabited

/-- `Entity` (cache values) -/
inductive Entity
  | type (t : Ty)
  | resource (r : Nat)
deriving DecidableEq, Repr, Inhabited

/-- cache keys: `AnyTypeId` -/
inductive WKey
  | module (m : Nat)
  | any (a : WAny)
deriving DecidableEq, Repr, Inhabited

/-- `TypeConverter` -/
structure St where
  types : Types := {}
  cache : List (WKey × Entity) := []
  resourceMap : List (Nat × Nat) := []
  owners : List (WAny × (Owner × Str)) := []
deriving Repr, Inhabited

/-- `HashMap::get` -/
def lookup {κ β : Type} [DecidableEq κ] (m : List (κ × β)) (k : κ) : Option β :=
  match m with
  | [] => none
  | (k', v) :: r => if k' = k then some v else lookup r k

/-! arena pushes (`Types::add_*`): the new id is the old length -/

def addDefined (st : St) (d : DefinedType) : St × Nat :=
  ({ st with types := { st.types with defined := st.types.defined ++ [d] } }, st.types.defined.length)

def addResource (st : St) (r : Resource) : St × Nat :=
  ({ st with types := { st.types with resources := st.types.resources ++ [r] } }, st.types.resources.length)

def addFunc (st : St) (f : FuncType) : St × Nat :=
  ({ st with types := { st.types with funcs := st.types.funcs ++ [f] } }, st.types.funcs.length)

def addInterface (st : St) (i : Interface) : St × Nat :=
  ({ st with types := { st.types with interfaces := st.types.interfaces ++ [i] } }, st.types.interfaces.length)

def addWorld (st : St) (w : World) : St × Nat :=
  ({ st with types := { st.types with worlds := st.types.worlds ++ [w] } }, st.types.worlds.length)

def addModule (st : St) (m : ModuleType) : St × Nat :=
  ({ st with types := { st.types with modules := st.types.modules ++ [m] } }, st.types.modules.length)

def cacheInsert (st : St) (k : WKey) (e : Entity) : St := { st with cache := (k, e) :: st.cache }

def modifyInterface (st : St) (i : Nat) (f : Interface → Interface) : St :=
  { st with types := { st.types with interfaces := st.types.interfaces.modify i f } }

def modifyWorld (st : St) (i : Nat) (f : World → World) : St :=
  { st with types := { st.types with worlds := st.types.worlds.modify i f } }

def modifyResource (st : St) (i : Nat) (f : Resource → Resource) : St :=
  { st with types := { st.types with resources := st.types.resources.modify i f } }

/-- `TypeConverter::find_owner`: the first id on the alias chain of `id` that has an owner -/
def findOwner (w : WTypes) (owners : List (WAny × (Owner × Str))) : Nat → WAny → Option (Owner × Str)
  | 0, _ => none
  | fuel + 1, id =>
    match lookup owners id with
    | some o => some o
    | none =>
      match w.peel id with
      | some next => findOwner w owners fuel next
      | none => none

/-- `TypeConverter::use_or_own` -/
def useOrOwn (w : WTypes) (st : St) (owner : Owner) (name : Str) (referenced created : WAny) : Outcome St :=
  match findOwner w st.owners (w.res.length + w.defs.length + 1) referenced with
  | some (other, orig) =>
    let used : UsedType := { interface := 0, name := if name != orig then some orig else none }
    let st :=
      match other with
      | .interface iface =>
        if owner != other then
          match owner with
          | .interface id => modifyInterface st id fun x => { x with uses := alInsert x.uses name { used with interface := iface } }
          | .world id => modifyWorld st id fun x => { x with uses := alInsert x.uses name { used with interface := iface } }
        else st
      | .world _ => st
    -- `self.owners.entry(created).or_insert((other, orig))`
    .ok (match lookup st.owners created with
      | some _ => st
      | none => { st with owners := (created, (other, orig)) :: st.owners })
  | none =>
    -- take ownership unless it already has an owner: `owners.entry(created).or_insert(..)`
    match lookup st.owners created with
    | some _ => .ok st
    | none => .ok { st with owners := (created, (owner, name)) :: st.owners }

/-- `TypeConverter::resource` -/
def resource (w : WTypes) (st : St) (name : Str) (r : Nat) : Outcome (St × Nat) :=
  match lookup st.cache (.any (.res r)) with
  | some (.resource id) => .ok (st, id)
  | some _ => .panic "resource: invalid cached type"
  | none =>
    match w.res[r]? with
    | none => .panic "resource: dangling id"
    | some e =>
      match lookup st.resourceMap e.base with
      | some src =>
        let owner := match findOwner w st.owners (w.res.length + w.defs.length + 1) (.res r) with
          | some (.interface i, _) => some i
          | _ => none
        let (st, id) := addResource st { name := name, alias := some { owner := owner, source := src } }
        .ok (cacheInsert st (.any (.res r)) (.resource id), id)
      | none =>
        let (st, id) := addResource st { name := name, alias := none }
        let st := { st with resourceMap := (e.base, id) :: st.resourceMap }
        .ok (cacheInsert st (.any (.res r)) (.resource id), id)

/-- `TypeConverter::module_type` (the core externs are carried over unchanged: `entity_type`,
`func_type` and the `TryFrom` conversions of core.rs are the identity on the shared form) -/
def moduleType (w : WTypes) (st : St) (m : Nat) : Outcome (St × Nat) :=
  match lookup st.cache (.module m) with
  | some (.type (.module id)) => .ok (st, id)
  | some _ => .panic "module_type: invalid cached type"
  | none =>
    match w.mods[m]? with
    | none => .panic "module_type: dangling id"
    | some mt =>
      let (st, id) := addModule st mt
      .ok (cacheInsert st (.module m) (.type (.module id)), id)

/-- state-threading map over a list (`iter().map(..).collect::<Result<_>>()`) -/
def loopM {α β : Type} (f : St → α → Outcome (St × β)) : St → List α → Outcome (St × List β)
  | st, [] => .ok (st, [])
  | st, x :: xs =>
    match f st x with
    | .ok (st, y) =>
      match loopM f st xs with
      | .ok (st, ys) => .ok (st, y :: ys)
      | .err e => .err e
      | .panic p => .panic p
    | .err e => .err e
    | .panic p => .panic p

def optM {β : Type} (f : St → WVal → Outcome (St × β)) (st : St) : Option WVal → Outcome (St × Option β)
  | none => .ok (st, none)
  | some v =>
    match f st v with
    | .ok (st, y) => .ok (st, some y)
    | .err e => .err e
    | .panic p => .panic p

/-- `|(name, ty)| Ok((name, f(ty)?))` -/
def namedM {α β : Type} (g : St → α → Outcome (St × β)) (st : St) (nv : Str × α) : Outcome (St × (Str × β)) :=
  match g st nv.2 with
  | .ok (st, v) => .ok (st, (nv.1, v))
  | .err e => .err e
  | .panic p => .panic p

/-- build an `IndexMap` from pairs (a later duplicate key overwrites in place) -/
def collectMap {β : Type} (xs : List (Str × β)) : List (Str × β) :=
  xs.foldl (fun m (kv : Str × β) => alInsert m kv.1 kv.2) []

def collectSet (xs : List Str) : List Str :=
  xs.foldl (fun m x => if m.contains x then m else m ++ [x]) []

/-- `TypeConverter::component_val_type` / `component_defined_type` -/
def definedType (w : WTypes) : Nat → St → Nat → Outcome (St × ValueType)
  | 0, _, _ => .panic "fuel"
  | fuel + 1, st, d =>
    let val (st : St) (v : WVal) : Outcome (St × ValueType) :=
      match v with
      | .prim p => .ok (st, .prim p)
      | .ty d => definedType w fuel st d
    let finish (st : St) (dt : DefinedType) : Outcome (St × ValueType) :=
      let (st, id) := addDefined st dt
      .ok (cacheInsert st (.any (.defined d)) (.type (.value (.defined id))), .defined id)
    match lookup st.cache (.any (.defined d)) with
    | some (.type (.value v)) => .ok (st, v)
    | some _ => .panic "component_defined_type: invalid cached type"
    | none =>
      match w.defs[d]? with
      | none => .panic "component_defined_type: dangling id"
      | some e =>
        match e.body with
        | .prim p => finish st (.alias (.prim p))
        | .record fs =>
          match loopM (namedM val) st fs with
          | .ok (st, fs) => finish st (.record (collectMap fs))
          | .err e => .err e
          | .panic p => .panic p
        | .variant cs =>
          match loopM (namedM (optM val)) st cs with
          | .ok (st, cs) => finish st (.variant (collectMap cs))
          | .err e => .err e
          | .panic p => .panic p
        | .list t =>
          match val st t with
          | .ok (st, v) => finish st (.list v)
          | .err e => .err e
          | .panic p => .panic p
        | .tuple ts =>
          match loopM val st ts with
          | .ok (st, vs) => finish st (.tuple vs)
          | .err e => .err e
          | .panic p => .panic p
        | .flags ns => finish st (.flags (collectSet ns))
        | .enum ns => finish st (.enum (collectSet ns))
        | .option t =>
          match val st t with
          | .ok (st, v) => finish st (.option v)
          | .err e => .err e
          | .panic p => .panic p
        | .result ok err =>
          match optM val st ok with
          | .ok (st, a) =>
            match optM val st err with
            | .ok (st, b) => finish st (.result a b)
            | .err e => .err e
            | .panic p => .panic p
          | .err e => .err e
          | .panic p => .panic p
        | .borrow r =>
          match lookup st.cache (.any (.res r)) with
          | some (.resource id) =>
            .ok (cacheInsert st (.any (.defined d)) (.type (.value (.borrow id))), .borrow id)
          | _ => .panic "component_defined_type: expected a resource"
        | .own r =>
          match lookup st.cache (.any (.res r)) with
          | some (.resource id) =>
            .ok (cacheInsert st (.any (.defined d)) (.type (.value (.own id))), .own id)
          | _ => .panic "component_defined_type: expected a resource"
        | .stream t =>
          match optM val st t with
          | .ok (st, v) => finish st (.stream v)
          | .err e => .err e
          | .panic p => .panic p
        | .future t =>
          match optM val st t with
          | .ok (st, v) => finish st (.future v)
          | .err e => .err e
          | .panic p => .panic p
        | .fixedList t n =>
          match val st t with
          | .ok (st, v) => finish st (.fixedSizeList v n)
          | .err e => .err e
          | .panic p => .panic p
        | .map _ _ => .err "ComponentDefinedType::Map is not yet supported"

/-- `TypeConverter::component_val_type` -/
def valType (w : WTypes) (fuel : Nat) (st : St) : WVal → Outcome (St × ValueType)
  | .prim p => .ok (st, .prim p)
  | .ty d => definedType w fuel st d

/-- `TypeConverter::component_func_type` -/
def funcType (w : WTypes) (fuel : Nat) (st : St) (f : Nat) : Outcome (St × Nat) :=
  match lookup st.cache (.any (.func f)) with
  | some (.type (.func id)) => .ok (st, id)
  | some _ => .panic "component_func_type: invalid cached type"
  | none =>
    match w.funcs[f]? with
    | none => .panic "component_func_type: dangling id"
    | some ft =>
      match loopM (namedM (valType w fuel)) st ft.params with
      | .ok (st, ps) =>
        match optM (valType w fuel) st ft.result with
        | .ok (st, r) =>
          let (st, id) := addFunc st { params := collectMap ps, result := r, isAsync := ft.isAsync }
          .ok (cacheInsert st (.any (.func f)) (.type (.func id)), id)
        | .err e => .err e
        | .panic p => .panic p
      | .err e => .err e
      | .panic p => .panic p

/-- `name.and_then(|n| n.contains(':').then(|| n.to_owned()))` -/
def idOfName (name : Option Str) : Option Str :=
  match name with
  | some n => if n.contains ':' then some n else none
  | none => none

/-- after an interface exported an aliased resource that it owns itself: clear the owner
("Prevent self-referential ownership of any aliased resources in this interface") -/
def clearSelfOwner (st : St) (id : Nat) (exp : ItemKind) : St :=
  match exp with
  | .type (.resource res) =>
    modifyResource st res fun r =>
      match r.alias with
      | some a => if a.owner = some id then { r with alias := some { a with owner := none } } else r
      | none => r
  | _ => st

/-- state-threading loop without results (`for (name, ty) in … { … }`) -/
def forM {α : Type} (f : St → α → Outcome St) : St → List α → Outcome St
  | st, [] => .ok st
  | st, x :: xs =>
    match f st x with
    | .ok st => forM f st xs
    | .err e => .err e
    | .panic p => .panic p

/-- one iteration of the exp loop of `component_instance_type`; `ent` = `self.entity` -/
def instanceExportStep (w : WTypes) (ent : St → Str → WEnt → Outcome (St × ItemKind)) (id : Nat)
    (st : St) (ne : Str × WEnt) : Outcome St :=
  match ent st ne.1 ne.2 with
  | .ok (st, exp) =>
    let after : Outcome St :=
      match ne.2 with
      | .type referenced created =>
        match useOrOwn w st (.interface id) ne.1 referenced created with
        | .ok st => .ok (clearSelfOwner st id exp)
        | .err e => .err e
        | .panic p => .panic p
      | _ => .ok st
    match after with
    | .ok st =>
      match st.types.interfaces[id]? with
      | none => .panic "component_instance_type: dangling interface"
      | some itf =>
        if (alGet itf.exports ne.1).isSome then .panic "component_instance_type: assert!(prev.is_none())"
        else .ok (modifyInterface st id fun x => { x with exports := alInsert x.exports ne.1 exp })
    | .err e => .err e
    | .panic p => .panic p
  | .err e => .err e
  | .panic p => .panic p

/-- one iteration of the import loop of `component_type` -/
def worldImportStep (w : WTypes) (ent : St → Str → WEnt → Outcome (St × ItemKind)) (id : Nat)
    (st : St) (ne : Str × WEnt) : Outcome St :=
  match ent st ne.1 ne.2 with
  | .ok (st, import_) =>
    let after : Outcome St :=
      match ne.2 with
      | .type referenced created => useOrOwn w st (.world id) ne.1 referenced created
      | _ => .ok st
    match after with
    | .ok st =>
      match st.types.worlds[id]? with
      | none => .panic "component_type: dangling world"
      | some wd =>
        if (alGet wd.imports ne.1).isSome then .panic "component_type: assert!(prev.is_none())"
        else .ok (modifyWorld st id fun x => { x with imports := alInsert x.imports ne.1 import_ })
    | .err e => .err e
    | .panic p => .panic p
  | .err e => .err e
  | .panic p => .panic p

/-- one iteration of the exp loop of `component_type` -/
def worldExportStep (ent : St → Str → WEnt → Outcome (St × ItemKind)) (id : Nat)
    (st : St) (ne : Str × WEnt) : Outcome St :=
  match ent st ne.1 ne.2 with
  | .ok (st, exp) =>
    match st.types.worlds[id]? with
    | none => .panic "component_type: dangling world"
    | some wd =>
      if (alGet wd.exports ne.1).isSome then .panic "component_type: assert!(prev.is_none())"
      else .ok (modifyWorld st id fun x => { x with exports := alInsert x.exports ne.1 exp })
  | .err e => .err e
  | .panic p => .panic p

mutual
/-- `TypeConverter::entity` -/
def entity (w : WTypes) : Nat → St → Str → WEnt → Outcome (St × ItemKind)
  | 0, _, _, _ => .panic "fuel"
  | fuel + 1, st, name, e =>
    match e with
    | .module m =>
      match moduleType w st m with
      | .ok (st, id) => .ok (st, .module id)
      | .err e => .err e
      | .panic p => .panic p
    | .value v =>
      match valType w fuel st v with
      | .ok (st, v) => .ok (st, .value v)
      | .err e => .err e
      | .panic p => .panic p
    | .type _ created =>
      match ty w fuel st name created with
      | .ok (st, t) => .ok (st, .type t)
      | .err e => .err e
      | .panic p => .panic p
    | .func f =>
      match funcType w fuel st f with
      | .ok (st, id) => .ok (st, .func id)
      | .err e => .err e
      | .panic p => .panic p
    | .instance i =>
      match instanceType w fuel st (some name) i with
      | .ok (st, id) => .ok (st, .instance id)
      | .err e => .err e
      | .panic p => .panic p
    | .component c =>
      match componentType w fuel st (some name) c with
      | .ok (st, id) => .ok (st, .component id)
      | .err e => .err e
      | .panic p => .panic p

/-- `TypeConverter::ty` -/
def ty (w : WTypes) : Nat → St → Str → WAny → Outcome (St × Ty)
  | 0, _, _, _ => .panic "fuel"
  | fuel + 1, st, name, a =>
    match a with
    | .defined d =>
      match definedType w fuel st d with
      | .ok (st, v) => .ok (st, .value v)
      | .err e => .err e
      | .panic p => .panic p
    | .func f =>
      match funcType w fuel st f with
      | .ok (st, id) => .ok (st, .func id)
      | .err e => .err e
      | .panic p => .panic p
    | .component c =>
      match componentType w fuel st none c with
      | .ok (st, id) => .ok (st, .world id)
      | .err e => .err e
      | .panic p => .panic p
    | .instance i =>
      match instanceType w fuel st none i with
      | .ok (st, id) => .ok (st, .interface id)
      | .err e => .err e
      | .panic p => .panic p
    | .res r =>
      match resource w st name r with
      | .ok (st, id) => .ok (st, .resource id)
      | .err e => .err e
      | .panic p => .panic p

/-- `TypeConverter::component_instance_type` -/
def instanceType (w : WTypes) : Nat → St → Option Str → Nat → Outcome (St × Nat)
  | 0, _, _, _ => .panic "fuel"
  | fuel + 1, st, name, i =>
    match lookup st.cache (.any (.instance i)) with
    | some (.type (.interface id)) => .ok (st, id)
    | some _ => .panic "component_instance_type: invalid cached type"
    | none =>
      match w.insts[i]? with
      | none => .panic "component_instance_type: dangling id"
      | some exports =>
        let (st, id) := addInterface st { id := idOfName name, uses := [], exports := [] }
        match forM (instanceExportStep w (entity w fuel) id) st exports with
        | .ok st => .ok (cacheInsert st (.any (.instance i)) (.type (.interface id)), id)
        | .err e => .err e
        | .panic p => .panic p

/-- `TypeConverter::component_type` -/
def componentType (w : WTypes) : Nat → St → Option Str → Nat → Outcome (St × Nat)
  | 0, _, _, _ => .panic "fuel"
  | fuel + 1, st, name, c =>
    match lookup st.cache (.any (.component c)) with
    | some (.type (.world id)) => .ok (st, id)
    | some _ => .panic "component_type: invalid cached type"
    | none =>
      match w.comps[c]? with
      | none => .panic "component_type: dangling id"
      | some ct =>
        let (st, id) := addWorld st { id := idOfName name, uses := [], imports := [], exports := [] }
        match forM (worldImportStep w (entity w fuel) id) st ct.imports with
        | .ok st =>
          match forM (worldExportStep (entity w fuel) id) st ct.exports with
          | .ok st => .ok (cacheInsert st (.any (.component c)) (.type (.world id)), id)
          | .err e => .err e
          | .panic p => .panic p
        | .err e => .err e
        | .panic p => .panic p
end

/-- the result of `Package::from_bytes` that the property is about -/
structure Decoded where
  types : Types
  world : Nat
  instanceType : Nat
deriving Repr, Inhabited

/-- the conversion of the top-level imports resp. exports (`converter.import(i)` / `.exp(i)`
for each name in section order) -/
def topItems (w : WTypes) (fuel : Nat) (st : St) (items : List (Str × WEnt)) :
    Outcome (St × List (Str × ItemKind)) :=
  loopM (fun st (ne : Str × WEnt) =>
    match entity w fuel st ne.1 ne.2 with
    | .ok (st, k) => .ok (st, (ne.1, k))
    | .err e => .err e
    | .panic p => .panic p) st items

/-- `Package::from_bytes` after validation: convert imports, then exports, add the world and the
instance type -/
def fromBytes (w : WTypes) : Outcome Decoded :=
  match w.comps[w.root]? with
  | none => .panic "no root component"
  | some root =>
    let fuel := w.fuel
    match topItems w fuel {} root.imports with
    | .ok (st, imports) =>
      match topItems w fuel st root.exports with
      | .ok (st, exports) =>
        let exports := collectMap exports
        let (st, world) := addWorld st { id := none, uses := [], imports := collectMap imports, exports := exports }
        let (st, inst) := addInterface st { id := none, uses := [], exports := exports }
        .ok { types := st.types, world := world, instanceType := inst }
      | .err e => .err e
      | .panic p => .panic p
    | .err e => .err e
    | .panic p => .panic p

/-! ## parser of the `W` text form -/

open SExp in
def wval? (x : SExp) : Option WVal :=
  match x with
  | .atom _ => (prim? x).map .prim
  | .list [h, n] => if h.isAtom "d" then n.nat?.map .ty else none
  | _ => none

open SExp in
def wbody? (x : SExp) : Option WDef :=
  match x with
  | .list (h :: args) =>
    if h.isAtom "record" then (args.mapM (named? wval?)).map .record
    else if h.isAtom "variant" then (args.mapM (named? (opt? wval?))).map .variant
    else if h.isAtom "tuple" then (args.mapM wval?).map .tuple
    else if h.isAtom "flags" then (args.mapM str?).map .flags
    else if h.isAtom "enum" then (args.mapM str?).map .enum
    else match args with
      | [a] =>
        if h.isAtom "prim" then (prim? a).map .prim
        else if h.isAtom "list" then (wval? a).map .list
        else if h.isAtom "option" then (wval? a).map .option
        else if h.isAtom "own" then a.nat?.map .own
        else if h.isAtom "borrow" then a.nat?.map .borrow
        else if h.isAtom "stream" then (opt? wval? a).map .stream
        else if h.isAtom "future" then (opt? wval? a).map .future
        else none
      | [a, b] =>
        if h.isAtom "result" then
          match opt? wval? a, opt? wval? b with
          | some a, some b => some (.result a b)
          | _, _ => none
        else if h.isAtom "flist" then
          match wval? a, b.nat? with
          | some a, some n => some (.fixedList a n)
          | _, _ => none
        else if h.isAtom "map" then
          match wval? a, wval? b with
          | some a, some b => some (.map a b)
          | _, _ => none
        else none
      | _ => none
  | _ => none

open SExp in
def wdef? (x : SExp) : Option WDefE :=
  match x with
  | .list [p, b] =>
    match opt? nat? p, wbody? b with
    | some p, some b => some { peel := p, body := b }
    | _, _ => none
  | _ => none

open SExp in
def wfunc? (x : SExp) : Option WFunc :=
  match x with
  | .list [a, .list ps, r] =>
    match a.bool?, ps.mapM (named? wval?), opt? wval? r with
    | some a, some ps, some r => some { isAsync := a, params := ps, result := r }
    | _, _, _ => none
  | _ => none

open SExp in
def wany? (x : SExp) : Option WAny :=
  match x with
  | .list [h, n] =>
    if h.isAtom "r" then n.nat?.map .res
    else if h.isAtom "d" then n.nat?.map .defined
    else if h.isAtom "f" then n.nat?.map .func
    else if h.isAtom "i" then n.nat?.map .instance
    else if h.isAtom "c" then n.nat?.map .component
    else none
  | _ => none

open SExp in
def went? (x : SExp) : Option WEnt :=
  match x with
  | .list [h, a] =>
    if h.isAtom "module" then a.nat?.map .module
    else if h.isAtom "func" then a.nat?.map .func
    else if h.isAtom "value" then (wval? a).map .value
    else if h.isAtom "instance" then a.nat?.map .instance
    else if h.isAtom "component" then a.nat?.map .component
    else none
  | .list [h, a, b] =>
    if h.isAtom "type" then
      match wany? a, wany? b with
      | some a, some b => some (.type a b)
      | _, _ => none
    else none
  | _ => none

open SExp in
def winst? (x : SExp) : Option (List (Str × WEnt)) :=
  match x with
  | .list [.list es] => es.mapM (named? went?)
  | _ => none

open SExp in
def wcomp? (x : SExp) : Option WComp :=
  match x with
  | .list [.list is, .list es] =>
    match is.mapM (named? went?), es.mapM (named? went?) with
    | some is, some es => some { imports := is, exports := es }
    | _, _ => none
  | _ => none

open SExp in
def wres? (x : SExp) : Option WRes :=
  match x with
  | .list [b, p] =>
    match b.nat?, opt? nat? p with
    | some b, some p => some { base := b, peel := p }
    | _, _ => none
  | _ => none

open SExp in
def wtypes? (x : SExp) : Option WTypes :=
  match x with
  | .list [h, root, d, f, i, c, m, r] =>
    if h.isAtom "W" then
      match root.nat?, section? "D" wdef? d, section? "F" wfunc? f, section? "I" winst? i,
            section? "C" wcomp? c, section? "M" module? m, section? "R" wres? r with
      | some root, some d, some f, some i, some c, some m, some r =>
        some { root := root, defs := d, funcs := f, insts := i, comps := c, mods := m, res := r }
      | _, _, _, _, _, _, _ => none
    else none
  | _ => none

def parseW (s : Str) : Option WTypes := (parseSExp s).bind wtypes?

end Wac.Decode
