import WacModel.GraphVal
/-
  Model of `CompositionGraphEncoder::toposort` (graph.rs).

  Pass 1: nodes in *decreasing* index order; iterative DFS with an explicit stack pushing the
  successors in adjacency order (`graph.neighbors`), a node is appended to `finish_stack` the
  second time it is seen on top of the stack; a self loop is reported at once.  The result is
  the reversed `finish_stack`.
  Pass 2: `Dfs` over `Reversed(graph)` started from every node of the result in order; a
  second node discovered in one tree is reported as a cycle.
-/
namespace Wac

inductive TopoRes where
  | ok (order : List Nat)
  | cycle (node : Nat)
  /-- the fuel of the model ran out (never happens for well-formed input; not an outcome of
      the Rust code) -/
  | fuel
deriving DecidableEq, Repr, Inhabited

structure DfsSt where
  /-- `dfs.stack`, top first -/
  stack      : List Nat := []
  discovered : List Nat := []
  finished   : List Nat := []
  /-- `finish_stack`, newest first (= the final, reversed, order) -/
  out        : List Nat := []
deriving Repr, Inhabited

def GraphVal.succs (g : GraphVal) (n : Nat) : List Nat := ((g.node? n).map (·.succ)).getD []
def GraphVal.preds (g : GraphVal) (n : Nat) : List Nat := ((g.node? n).map fun nd => nd.inc.map (·.2)).getD []

/-- push the not yet discovered nodes of `ns`, in order, on `stack` -/
def pushUndiscovered (disc : List Nat) (ns : List Nat) (stack : List Nat) : List Nat :=
  ns.foldl (fun stk s => if disc.contains s then stk else s :: stk) stack

/-- the `while let Some(&nx) = dfs.stack.last()` loop -/
def topoInner (g : GraphVal) : Nat → DfsSt → Option (Except Nat DfsSt)
  | 0, _ => none
  | fuel + 1, st =>
    match st.stack with
    | [] => some (.ok st)
    | nx :: rest =>
      if !st.discovered.contains nx then
        let succs := g.succs nx
        if succs.contains nx then some (.error nx)
        else
          let disc := nx :: st.discovered
          topoInner g fuel { st with discovered := disc, stack := pushUndiscovered disc succs st.stack }
      else if st.finished.contains nx then
        topoInner g fuel { st with stack := rest }
      else
        topoInner g fuel { st with stack := rest, finished := nx :: st.finished, out := nx :: st.out }

/-- the `for i in graph.node_identifiers().rev()` loop; `ids` is already reversed -/
def topoOuter (g : GraphVal) (fuel : Nat) : List Nat → DfsSt → Option (Except Nat DfsSt)
  | [], st => some (.ok st)
  | i :: is, st =>
    if st.discovered.contains i then topoOuter g fuel is st
    else
      match topoInner g fuel { st with stack := i :: st.stack } with
      | none => none
      | some (.error n) => some (.error n)
      | some (.ok st') => topoOuter g fuel is st'

/-- `Dfs::next(Reversed(graph))` -/
def dfsNext (g : GraphVal) (disc : List Nat) : List Nat → Option (Nat × List Nat × List Nat)
  | [] => none
  | n :: rest =>
    if disc.contains n then dfsNext g disc rest
    else
      let disc' := n :: disc
      some (n, pushUndiscovered disc' (g.preds n) rest, disc')

/-- pass 2 -/
def cycleCheck (g : GraphVal) : List Nat → List Nat → Option Nat
  | [], _ => none
  | i :: is, disc =>
    match dfsNext g disc [i] with
    | none => cycleCheck g is disc
    | some (_, stk, disc1) =>
      match dfsNext g disc1 stk with
      | none => cycleCheck g is disc1
      | some (j, _, _) => some j

def edgeCount (g : GraphVal) : Nat := (g.nodes.map fun n => n.succ.length).sum

/-- `toposort` -/
def toposort (g : GraphVal) : TopoRes :=
  let fuel := 2 * (g.nodes.length + edgeCount g) + 2
  match topoOuter g fuel g.ids.reverse {} with
  | none => .fuel
  | some (.error n) => .cycle n
  | some (.ok st) =>
    match cycleCheck g st.out [] with
    | some j => .cycle j
    | none => .ok st.out

end Wac
