import WacModel.Graph
import WacModel.GraphVal
/-
  The graph *value* (`GraphVal`, what the encoding checks C01–C03 start from) of a state of the
  graph *model* (C06): exactly what the harness dumps from the real `CompositionGraph` through
  the public queries — node ids in index order, node kind / item kind / name / export name,
  incoming edges in adjacency order with the names `get_alias_source` and
  `get_instantiation_arguments` report, outgoing neighbours in adjacency order, the export map,
  the registered packages by slot.

  The graph model abstracts item kinds to numbers; `ValCtx` says what the encoder needs to know
  about them (`ItemTy`) and about package bytes.  `defAlias` is `none`: the graph model does not
  distinguish definitions of aliased types.
-/
namespace Wac.Graph
open Wac

structure ValCtx where
  ty : Kind → Wac.ItemTy
  bytesId : PkgDef → Nat

/-- the export name `get_alias_source` reports for export index `j` of node `src` -/
def aliasName (ctx : Ctx) (g : Graph) (src j : Nat) : Str :=
  match g.node? src with
  | some s =>
    match ctx.kindExports s.item with
    | some exps => match exps[j]? with
      | some (nm, _) => nm
      | none => []
    | none => []
  | none => []

/-- the package slot entry an instantiation node refers to -/
def instDef (g : Graph) (n : Nat) : Option PkgDef :=
  match g.node? n with
  | some nd =>
    match nd.pkg with
    | some pid => match g.pkgs[pid.index]? with
      | some slot => slot.pkg
      | none => none
    | none => none
  | none => none

/-- the import name `get_instantiation_arguments` reports for import index `i` of node `dst` -/
def argName (g : Graph) (dst i : Nat) : Str :=
  match instDef g dst with
  | some d => match d.imports[i]? with
    | some (nm, _) => nm
    | none => []
  | none => []

def edgeW (ctx : Ctx) (g : Graph) (e : Edge) : Wac.EdgeW :=
  match e.kind with
  | .alias j => .alias (aliasName ctx g e.src j)
  | .arg i => .arg i (argName g e.dst i)
  | .dep => .dep

def toNodeKind (nd : Node) : Wac.NodeKind :=
  match nd.kind with
  | .definition _ => .definition
  | .import name => .import name
  | .instantiation sat => .instantiation (match nd.pkg with | some pid => pid.index | none => 0) sat
  | .alias => .alias

def toNode (ctx : Ctx) (vc : ValCtx) (g : Graph) (n : Nat) (nd : Node) : Wac.Node where
  id := n
  kind := toNodeKind nd
  ty := vc.ty nd.item
  name := nd.name
  exportName := nd.exp
  defAlias := none
  inc := (g.inEdges n).map fun e => (edgeW ctx g e, e.src)
  succ := (g.outEdges n).map (·.dst)

def toPkgVal (vc : ValCtx) (slot : Nat) (d : PkgDef) : Wac.PkgVal where
  slot := slot
  name := d.name
  version := d.version
  bytesId := vc.bytesId d
  imports := d.imports.map fun p => ⟨p.1, vc.ty p.2⟩

/-- the registered package in slot `i` -/
def pkgEntry (vc : ValCtx) (g : Graph) (i : Nat) : Option Wac.PkgVal :=
  match g.pkgs[i]? with
  | some slot => slot.pkg.map (toPkgVal vc i)
  | none => none

def toGraphVal (ctx : Ctx) (vc : ValCtx) (g : Graph) : Wac.GraphVal where
  nodes := g.nodeIds.filterMap fun n => (g.node? n).map (toNode ctx vc g n)
  exports := g.exports
  pkgs := (List.range g.pkgs.length).filterMap (pkgEntry vc g)

end Wac.Graph
