import WacModel.Ast
import WacModel.Lexer
/-
  Model of `crates/wac-parser/src/ast/printer.rs` (`DocumentPrinter`), method for method.

  The Rust printer copies identifiers, strings, package names and package paths out of the
  *source text* through their spans (`self.source(span)`).  The model prints them from the tree:
  `Ident.raw` (the `%` is kept through `Ident.escaped`), `"` + value + `"`, `PackageName.string`,
  `PackagePath.string`.  For a tree produced by the parser these are exactly the source slices
  (`Wac.Props.C13.parse_raw_is_slice`).

  The printer state (`indent`, `indented`, the output so far) is the record `PS`; every method is
  a function `PS → PS`.  Output is a list of characters built in reverse.

  Core Lean only.
-/
namespace Wac.Print
open Wac Wac.Ast

structure PS where
  /-- output, reversed -/
  out : List Char
  indent : Nat
  indented : Bool
deriving Inhabited

/-- `write!(self.writer, "{s}")` -/
def PS.write (p : PS) (s : Str) : PS := { p with out := s.reverse ++ p.out }
def PS.writeS (p : PS) (s : String) : PS := p.write s.toList

/-- `DocumentPrinter::newline` -/
def PS.newline (p : PS) : PS := { p with out := '\n' :: p.out, indented := false }

/-- `DocumentPrinter::indent` (the default `space` of four blanks) -/
def PS.doIndent (p : PS) : PS :=
  if p.indented then p
  else { p with out := (List.replicate (4 * p.indent) ' ') ++ p.out, indented := true }

def PS.inc (p : PS) : PS := { p with indent := p.indent + 1 }
def PS.dec (p : PS) : PS := { p with indent := p.indent - 1 }

/-- `str::lines`: split at `\n`, a trailing `\r` of each line removed, no final empty line -/
def rustLines (s : Str) : List Str :=
  let rec go (acc : Str) : Str → List Str
    | [] => if acc.isEmpty then [] else [acc.reverse]
    | c :: r => if c == '\n' then acc.reverse :: go [] r else go (c :: acc) r
  (go [] s).map fun l => if l.getLast? == some '\r' then l.dropLast else l

/-- `DocumentPrinter::docs` -/
def docs (p : PS) (ds : List DocComment) : PS :=
  ds.foldl (fun p d =>
    -- "An empty comment is a single empty line"
    let comment := if d.comment.isEmpty then ['\n'] else d.comment
    (rustLines comment).foldl (fun p line =>
      let line := Wac.Lex.rustTrim line
      (if line.isEmpty then p.doIndent.writeS "///" else (p.doIndent.writeS "/// ").write line).newline) p) p

def identSrc (i : Ident) : Str := i.raw
def stringSrc (s : StringLit) : Str := ['"'] ++ s.value ++ ['"']

/-- `DocumentPrinter::package_path` -/
def packagePath (p : PS) (path : PackagePath) : PS := p.write path.string

mutual
/-- `DocumentPrinter::ty` -/
def ty (p : PS) : Ty → PS
  | .U8 _ => p.writeS "u8" | .S8 _ => p.writeS "s8" | .U16 _ => p.writeS "u16"
  | .S16 _ => p.writeS "s16" | .U32 _ => p.writeS "u32" | .S32 _ => p.writeS "s32"
  | .U64 _ => p.writeS "u64" | .S64 _ => p.writeS "s64" | .F32 _ => p.writeS "f32"
  | .F64 _ => p.writeS "f64" | .Char _ => p.writeS "char" | .Bool _ => p.writeS "bool"
  | .String _ => p.writeS "string"
  | .Tuple types _ => (tys (p.writeS "tuple<") true types).writeS ">"
  | .List t _ => (ty (p.writeS "list<") t).writeS ">"
  | .Option t _ => (ty (p.writeS "option<") t).writeS ">"
  | .Result none none _ => p.writeS "result"
  | .Result none (some err) _ => (ty (p.writeS "result<_, ") err).writeS ">"
  | .Result (some ok) none _ => (ty (p.writeS "result<") ok).writeS ">"
  | .Result (some ok) (some err) _ => (ty ((ty (p.writeS "result<") ok).writeS ", ") err).writeS ">"
  | .Borrow id _ => ((p.writeS "borrow<").write (identSrc id)).writeS ">"
  | .Ident id => p.write (identSrc id)
/-- the loop over tuple element types (`first`: no separator before the next element) -/
def tys (p : PS) (first : Bool) : List Ty → PS
  | [] => p
  | t :: r => tys (ty (if first then p else p.writeS ", ") t) false r
end

/-- `DocumentPrinter::named_types` -/
def namedTypes (p : PS) (ts : List NamedType) : PS :=
  (ts.foldl (fun (acc : PS × Bool) n =>
    let p := if acc.2 then acc.1 else acc.1.writeS ", "
    (ty ((p.write (identSrc n.id)).writeS ": ") n.ty, false)) (p, true)).1

/-- `DocumentPrinter::func_type` -/
def funcType (p : PS) (f : FuncType) : PS :=
  let p := (namedTypes (p.writeS "func(") f.params).writeS ")"
  match f.results with
  | .Empty => p
  | .Scalar t => ty (p.writeS " -> ") t

/-- `DocumentPrinter::func_type_ref` -/
def funcTypeRef (p : PS) : FuncTypeRef → PS
  | .Func f => funcType p f
  | .Ident id => p.write (identSrc id)

/-- `DocumentPrinter::constructor` -/
def constructor (p : PS) (c : Constructor) : PS :=
  (namedTypes ((docs p c.docs).doIndent.writeS "constructor(") c.params).writeS ");"

/-- `DocumentPrinter::method` -/
def method (p : PS) (m : Method) : PS :=
  let p := (((docs p m.docs).doIndent.write (identSrc m.id)).writeS ": ")
  let p := if m.isStatic then p.writeS "static " else p
  (funcType p m.ty).writeS ";"

/-- `DocumentPrinter::resource_method` -/
def resourceMethod (p : PS) : ResourceMethod → PS
  | .Constructor c => constructor p c
  | .Method m => method p m

/-- the common loop "for (i, item) in items.enumerate() { if i > 0 { newline }; item; newline }" -/
def separated {α} (p : PS) (f : PS → α → PS) (items : List α) : PS :=
  (items.foldl (fun (acc : PS × Bool) x =>
    let p := if acc.2 then acc.1 else acc.1.newline
    ((f p x).newline, false)) (p, true)).1

/-- `DocumentPrinter::resource_decl` -/
def resourceDecl (p : PS) (d : ResourceDecl) : PS :=
  let p := ((((docs p d.docs).doIndent.writeS "resource ").write (identSrc d.id)).writeS " {").newline
  let p := (separated p.inc resourceMethod d.methods).dec
  p.doIndent.writeS "}"

/-- `DocumentPrinter::variant_case` -/
def variantCase (p : PS) (c : VariantCase) : PS :=
  let p := (docs p c.docs).doIndent.write (identSrc c.id)
  match c.ty with
  | some t => (ty (p.writeS "(") t).writeS ")"
  | none => p

/-- `DocumentPrinter::variant_decl` -/
def variantDecl (p : PS) (d : VariantDecl) : PS :=
  let p := ((((docs p d.docs).doIndent.writeS "variant ").write (identSrc d.id)).writeS " {").newline
  let p := (d.cases.foldl (fun p c => ((variantCase p.doIndent c).writeS ",").newline) p.inc).dec
  p.doIndent.writeS "}"

/-- `DocumentPrinter::record_decl` -/
def recordDecl (p : PS) (d : RecordDecl) : PS :=
  let p := ((((docs p d.docs).doIndent.writeS "record ").write (identSrc d.id)).writeS " {").newline
  let p := (d.fields.foldl (fun p f =>
    ((ty (((docs p f.docs).doIndent.write (identSrc f.id)).writeS ": ") f.ty).writeS ",").newline) p.inc).dec
  p.doIndent.writeS "}"

/-- `DocumentPrinter::flags_decl` -/
def flagsDecl (p : PS) (d : FlagsDecl) : PS :=
  let p := ((((docs p d.docs).doIndent.writeS "flags ").write (identSrc d.id)).writeS " {").newline
  let p := (d.flags.foldl (fun p f => (((docs p f.docs).doIndent.write (identSrc f.id)).writeS ",").newline) p.inc).dec
  p.doIndent.writeS "}"

/-- `DocumentPrinter::enum_decl` -/
def enumDecl (p : PS) (d : EnumDecl) : PS :=
  let p := ((((docs p d.docs).doIndent.writeS "enum ").write (identSrc d.id)).writeS " {").newline
  let p := (d.cases.foldl (fun p c => (((docs p c.docs).doIndent.write (identSrc c.id)).writeS ",").newline) p.inc).dec
  p.doIndent.writeS "}"

/-- `DocumentPrinter::type_alias` -/
def typeAlias (p : PS) (a : TypeAlias) : PS :=
  let p := (((docs p a.docs).doIndent.writeS "type ").write (identSrc a.id)).writeS " = "
  let p := match a.kind with
    | .Func f => funcType p f
    | .Type' t => ty p t
  p.writeS ";"

/-- `DocumentPrinter::type_decl` -/
def typeDecl (p : PS) : TypeDecl → PS
  | .Variant d => variantDecl p d
  | .Record d => recordDecl p d
  | .Flags d => flagsDecl p d
  | .Enum d => enumDecl p d
  | .Alias d => typeAlias p d

/-- `DocumentPrinter::item_type_decl` -/
def itemTypeDecl (p : PS) : ItemTypeDecl → PS
  | .Resource d => resourceDecl p d
  | .Variant d => variantDecl p d
  | .Record d => recordDecl p d
  | .Flags d => flagsDecl p d
  | .Enum d => enumDecl p d
  | .Alias d => typeAlias p d

/-- `DocumentPrinter::use_path` -/
def usePath (p : PS) : UsePath → PS
  | .Package path => packagePath p path
  | .Ident id => p.write (identSrc id)

/-- `DocumentPrinter::use_type` -/
def useType (p : PS) (u : Use) : PS :=
  let p := (usePath ((docs p u.docs).doIndent.writeS "use ") u.path).writeS ".{ "
  let p := (u.items.foldl (fun (acc : PS × Bool) (item : UseItem) =>
    let p := if acc.2 then acc.1 else acc.1.writeS ", "
    let p := p.write (identSrc item.id)
    let p := match item.asId with
      | some a => (p.writeS " as ").write (identSrc a)
      | none => p
    (p, false)) (p, true)).1
  p.writeS " };"

/-- `DocumentPrinter::interface_export` -/
def interfaceExport (p : PS) (e : InterfaceExport) : PS :=
  (funcTypeRef (((docs p e.docs).doIndent.write (identSrc e.id)).writeS ": ") e.ty).writeS ";"

/-- `DocumentPrinter::interface_item` -/
def interfaceItem (p : PS) : InterfaceItem → PS
  | .Use u => useType p u
  | .Type' d => itemTypeDecl p d
  | .Export e => interfaceExport p e

/-- `DocumentPrinter::inline_interface` -/
def inlineInterface (p : PS) (i : InlineInterface) : PS :=
  let p := (p.writeS "interface {").newline
  let p := (separated p.inc interfaceItem i.items).dec
  p.doIndent.writeS "}"

/-- `DocumentPrinter::extern_type` -/
def externType (p : PS) : ExternType → PS
  | .Ident id => p.write (identSrc id)
  | .Func f => funcType p f
  | .Interface i => inlineInterface p i

/-- `DocumentPrinter::world_item_path` (with `named_world_item`) -/
def worldItemPath (p : PS) : WorldItemPath → PS
  | .Named n => externType ((p.write (identSrc n.id)).writeS ": ") n.ty
  | .Package path => packagePath p path
  | .Ident id => p.write (identSrc id)

/-- `DocumentPrinter::world_ref` -/
def worldRef (p : PS) : WorldRef → PS
  | .Ident id => p.write (identSrc id)
  | .Package path => packagePath p path

/-- `DocumentPrinter::world_include` -/
def worldInclude (p : PS) (i : WorldInclude) : PS :=
  let p := worldRef ((docs p i.docs).doIndent.writeS "include ") i.world
  let p :=
    if i.withItems.isEmpty then p
    else
      let p := (p.writeS " with {").newline.inc
      let p := i.withItems.foldl (fun p (item : WorldIncludeItem) =>
        ((((p.doIndent.write (identSrc item.fromId)).writeS " as ").write (identSrc item.toId)).writeS ",").newline) p
      p.dec.doIndent.writeS "}"
  p.writeS ";"

/-- `DocumentPrinter::world_item` -/
def worldItem (p : PS) : WorldItem → PS
  | .Use u => useType p u
  | .Type' d => itemTypeDecl p d
  | .Import i => (worldItemPath ((docs p i.docs).doIndent.writeS "import ") i.path).writeS ";"
  | .Export e => (worldItemPath ((docs p e.docs).doIndent.writeS "export ") e.path).writeS ";"
  | .Include i => worldInclude p i

/-- `DocumentPrinter::interface_decl` -/
def interfaceDecl (p : PS) (d : InterfaceDecl) : PS :=
  let p := ((((docs p d.docs).doIndent.writeS "interface ").write (identSrc d.id)).writeS " {").newline
  let p := (separated p.inc interfaceItem d.items).dec
  p.doIndent.writeS "}"

/-- `DocumentPrinter::world_decl` -/
def worldDecl (p : PS) (d : WorldDecl) : PS :=
  let p := ((((docs p d.docs).doIndent.writeS "world ").write (identSrc d.id)).writeS " {").newline
  let p := (separated p.inc worldItem d.items).dec
  p.doIndent.writeS "}"

/-- `DocumentPrinter::type_statement` -/
def typeStatement (p : PS) : TypeStatement → PS
  | .Interface d => interfaceDecl p d
  | .World d => worldDecl p d
  | .Type' d => typeDecl p d

/-- `name.span()` of an `ExternName`, copied from the source -/
def externNameSrc : ExternName → Str
  | .Ident id => identSrc id
  | .String s => stringSrc s

/-- `DocumentPrinter::import_type` -/
def importType (p : PS) : ImportType → PS
  | .Package path => packagePath p path
  | .Func f => funcType p f
  | .Interface i => inlineInterface p i
  | .Ident id => p.write (identSrc id)

/-- `DocumentPrinter::import_statement` -/
def importStatement (p : PS) (s : ImportStatement) : PS :=
  let p := ((docs p s.docs).doIndent.writeS "import ").write (identSrc s.id)
  let p := match s.name with
    | some n => (p.writeS " as ").write (externNameSrc n)
    | none => p
  (importType (p.writeS ": ") s.ty).writeS ";"

/-- `DocumentPrinter::postfix_expr` -/
def postfixExpr (p : PS) : PostfixExpr → PS
  | .Access a => (p.writeS ".").write (identSrc a.id)
  | .NamedAccess a => ((p.writeS "[").write (stringSrc a.string)).writeS "]"

mutual
/-- `DocumentPrinter::expr` -/
def expr (p : PS) : Expr → PS
  | .mk _ primary post => post.foldl postfixExpr (primaryExpr p primary)
/-- `DocumentPrinter::primary_expr` (with `new_expr`) -/
def primaryExpr (p : PS) : PrimaryExpr → PS
  | .New (.mk _ package arguments) =>
    let p := ((p.writeS "new ").write package.string).writeS " {"
    match arguments with
    | [] => p.writeS "}"
    | [.Fill _] => p.writeS " ... }"
    | args =>
      let p := exprArgs p.newline.inc args
      p.dec.doIndent.writeS "}"
  | .Nested (.mk _ inner) => (expr (p.writeS "(") inner).writeS ")"
  | .Ident id => p.write (identSrc id)
/-- the loop over instantiation arguments -/
def exprArgs (p : PS) : List InstantiationArgument → PS
  | [] => p
  | a :: r =>
    let p := p.doIndent
    let p := match a with
      | .Inferred id => (p.write (identSrc id)).writeS ","
      | .Spread id => ((p.writeS "...").write (identSrc id)).writeS ","
      | .Named (.mk name e) =>
        let p := match name with
          | .Ident id => (p.write (identSrc id)).writeS ": "
          | .String s => (p.write (stringSrc s)).writeS ": "
        (expr p e).writeS ","
      | .Fill _ => if r.isEmpty then p.writeS "..." else p.writeS "...,"
    exprArgs p.newline r
end

/-- `DocumentPrinter::let_statement` -/
def letStatement (p : PS) (s : LetStatement) : PS :=
  (expr ((((docs p s.docs).doIndent.writeS "let ").write (identSrc s.id)).writeS " = ") s.expr).writeS ";"

/-- `DocumentPrinter::export_statement` -/
def exportStatement (p : PS) (s : ExportStatement) : PS :=
  let p := expr ((docs p s.docs).doIndent.writeS "export ") s.expr
  let p := match s.options with
    | .None => p
    | .Spread _ => p.writeS "..."
    | .Rename n => (p.writeS " as ").write (externNameSrc n)
  p.writeS ";"

/-- `DocumentPrinter::statement` -/
def statement (p : PS) : Statement → PS
  | .Import s => importStatement p s
  | .Type' s => typeStatement p s
  | .Let s => letStatement p s
  | .Export s => exportStatement p s

/-- `DocumentPrinter::package_directive` (`writeln!` does not reset `indented`) -/
def packageDirective (p : PS) (d : PackageDirective) : PS :=
  let p := (p.doIndent.writeS "package ").write d.package.string
  let p := match d.targets with
    | some t => packagePath (p.writeS " targets ") t
    | none => p
  (p.writeS ";\n").newline

/-- `DocumentPrinter::document` -/
def document (d : Document) : Str :=
  let p : PS := ⟨[], 0, false⟩
  let p := packageDirective (docs p d.docs) d.directive
  (separated p statement d.statements).out.reverse

end Wac.Print
