import WacModel.Proto
import WacModel.Spec.Decode
import WacModel.Spec.Wit
import WacModel.Elab
/-
  Driver for C05.  Case kinds:
    wit <source> <W_wac> <W_wit> <A | _>
        the source is parsed and denoted (Spec/Wit.lean); both encodings are compared with the
        denotation per declared interface / world:
          reference (wit-component) differs from the denotation  -> BAD  (the specification is
              wrong about WIT: repair the specification; never a finding)
          WAC differs while the reference agrees                 -> SPEC (violation, the text is the replay)
    wac-rejects / wac-panics / invalid …                         (decided by the harness; answered ok)
-/
open Wac Wac.Proto Wac.Decode Wac.Spec.Wit

def firstDiff {α : Type} [BEq α] (xs ys : List α) : Nat :=
  let rec go (xs ys : List α) (i : Nat) : Nat :=
    match xs, ys with
    | x :: xr, y :: yr => if x == y then go xr yr (i + 1) else i
    | _, _ => i
  go xs ys 0

def typesDiff (m a : Types) : String :=
  if m.defined != a.defined then s!"defined[{firstDiff m.defined a.defined}]"
  else if m.resources != a.resources then s!"resources[{firstDiff m.resources a.resources}]"
  else if m.funcs != a.funcs then s!"funcs[{firstDiff m.funcs a.funcs}]"
  else if m.interfaces != a.interfaces then s!"interfaces[{firstDiff m.interfaces a.interfaces}]"
  else if m.worlds != a.worlds then s!"worlds[{firstDiff m.worlds a.worlds}]"
  else "modules/uid"

/-- MODEL: the elaboration model on the parsed source vs the resolver's arenas -/
def judgeModel (p : Pkg) (af : List Char) : String :=
  if af == ['_'] then "ok"
  else
    match parseTypes af with
    | none => "BAD\tcannot parse A"
    | some a =>
      match Wac.Elab.elabPkg p with
      | .ok m => if m == a then "ok" else "MODEL\telaboration model differs at " ++ typesDiff m a
      | .error e => "MODEL\telaboration model returns error " ++ e

def judgeWit (src wacf witf af : List Char) : String :=
  match denoteSource src with
  | none => "BAD\tcannot parse / denote the source"
  | some (p, env) =>
    match parseW witf with
    | none => "BAD\tcannot parse W_wit"
    | some wit =>
      match checkEncoding wit p env with
      | some e => "BAD\tspecification differs from the reference encoding: " ++ e
      | none =>
        match parseW wacf with
        | none => "BAD\tcannot parse W_wac"
        | some wac =>
          match checkEncoding wac p env with
          | some e => "SPEC\t" ++ e
          | none => judgeModel p af

def judge (fs : List (List Char)) : String :=
  match fs with
  | k :: rest =>
    if k == "wit".toList then
      match rest with
      | [src, wac, wit, a] => judgeWit src wac wit a
      | _ => "BAD\twit fields"
    else "ok"
  | [] => "BAD\tempty"

def main : IO Unit := Wac.Proto.run judge
