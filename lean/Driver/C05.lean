import WacModel.Proto
import WacModel.Spec.Decode
import WacModel.Spec.Wit
/-
  Driver for C05.  Case kinds:
    wit <source> <W_wac> <W_wit>
        the source is parsed and denoted (Spec/Wit.lean); both encodings are compared with the
        denotation per declared interface / world:
          reference (wit-component) differs from the denotation  -> BAD  (the specification is
              wrong about WIT: repair the specification; never a finding)
          WAC differs while the reference agrees                 -> SPEC (violation, the text is the replay)
    wac-rejects / wac-panics / invalid …                         (decided by the harness; answered ok)
-/
open Wac Wac.Proto Wac.Decode Wac.Spec.Wit

def judgeWit (src wacf witf : List Char) : String :=
  match denoteSource src with
  | none => "BAD\tcannot parse / denote the source"
  | some (p, env) =>
    match parseW witf with
    | none => "BAD\tcannot parse W_wit"
    | some wit =>
      match checkEncoding wit p env with
      | some e => "BAD\tspecification differs from the reference encoding: " ++ e
      | none =>
        match parseW wacf with
        | none => "BAD\tcannot parse W_wac"
        | some wac =>
          match checkEncoding wac p env with
          | some e => "SPEC\t" ++ e
          | none => "ok"

def judge (fs : List (List Char)) : String :=
  match fs with
  | k :: rest =>
    if k == "wit".toList then
      match rest with
      | [src, wac, wit] => judgeWit src wac wit
      | _ => "BAD\twit fields"
    else "ok"
  | [] => "BAD\tempty"

def main : IO Unit := Wac.Proto.run judge
