import WacModel.Proto
import WacModel.AstJson
import WacModel.Spec.Grammar
/-
  Driver for C12.  Case kinds:
    parse <source> ok    <full tree>  <stripped tree> <flag>
    parse <source> err   <error>      -               <flag>
    parse <source> panic <message>    -               <flag>
    lex   <source> <items | SCREEN> <flag>
  `flag`: `-`, or `shape=kw-colon`/`shape=dangling-sep`/… when the harness saw one of the known
  lexer-generator artefacts in the text (notes/C12.md).  The driver does not use it: every case is
  judged in full; the tag only lets known_findings.d/parser.json attribute the disagreement.

  Verdict order: the specification (`Spec.Grammar.verdict`, written from LANGUAGE.md) is
  evaluated on the implementation's observation first (SPEC), then the model (MODEL).
-/
open Wac Wac.Proto Wac.Json Wac.Parse Wac.Lex

def showTokItem (t : LTok) : String :=
  match t.res with
  | .ok k => s!"{k.name}:{t.span.offset}:{t.span.len}"
  | .error e => s!"!{lexErrStr e}:{t.span.offset}:{t.span.len}"

def judgeParse (src impl a b _flag : List Char) : String :=
  let implS := String.ofList impl
  -- 1. specification on the implementation's observation
  let specV := Wac.Spec.Grammar.verdictWith Wac.Generated.maxNestingDepth src
  let specMsg : Option String :=
    match specV with
    | .ambiguous n => some s!"the grammar has {n} derivations for this text"
    | .reject why =>
      if implS == "ok" then some s!"implementation accepts a text that is not derivable from the grammar ({why})"
      else none
    | .accept d =>
      if implS == "ok" then
        let want := (documentJ d).strip.render
        if want == String.ofList b then none
        else some s!"tree differs from the derivation: grammar={want} impl={String.ofList b}"
      else if implS == "err" then some s!"implementation rejects a text derivable from the grammar: {String.ofList a}"
      else none
  match specMsg with
  | some m => "SPEC\t" ++ m
  | none =>
    if implS == "panic" then "MODEL\timplementation panicked: " ++ String.ofList a else
    -- 2. model
    match parseDocument src with
    | .ok d =>
      if implS != "ok" then s!"MODEL\tmodel accepts, implementation: {String.ofList a}"
      else
        let m := (documentJ d).render
        if m == String.ofList a then "ok" else s!"MODEL\ttree: model={m} impl={String.ofList a}"
    | .error e =>
      if implS == "ok" then s!"MODEL\tmodel rejects ({errorStr e}), implementation accepts"
      else if errorStr e == String.ofList a then "ok"
      else s!"MODEL\terror: model={errorStr e} impl={String.ofList a}"

def judgeLex (src impl _flag : List Char) : String :=
  match detectInvalidInput src with
  | some _ => if impl == "SCREEN".toList then "ok" else "MODEL\tlex: model screens the text, implementation does not"
  | none =>
    if impl == "SCREEN".toList then "MODEL\tlex: implementation screens the text, model does not"
    else
      let m := ",".intercalate ((tokenize src).map showTokItem)
      if m == String.ofList impl then "ok" else s!"MODEL\tlex: model={m} impl={String.ofList impl}"

def judge (fs : List (List Char)) : String :=
  match fs with
  | [k, src, impl, a, b, flag] =>
    if k == "parse".toList then judgeParse src impl a b flag else "BAD\tunknown kind"
  | [k, src, impl, flag] =>
    if k == "lex".toList then judgeLex src impl flag else "BAD\tunknown kind"
  | _ => "BAD\tfields"

def main : IO Unit := Wac.Proto.run judge
