import WacModel.EncJudge
/-
  Driver for C02 (see `WacModel/EncJudge.lean` for the case format and the two comparisons).
-/
def main : IO Unit := Wac.Proto.run Wac.EncJudge.judge
