import WacModel.Proto
import WacModel.Spec.FsLookup
/-
  Driver for C18.  One case kind:

    fs <wat 0|1> <wit 0|1> <errorOnUnknown 0|1> <root>
       <nE> (<path> <F|D> <payload>)*nE        F: content token; D: oracle result of encoding the directory (token | ERR)
       <nC> (<content> <wat result> <wit-file result>)*nC      results: token | ERR
       <nO> (<package name> <path>)*nO         overrides
       <nK> (<name> <version or empty> <span>)*nK
       <impl>                                  "ok i=token,..." (i = index of the key) | "err <Variant> <name> <span>"

  Paths are `/`-separated and relative to the case's scratch directory.  Byte strings are opaque
  tokens interned by the harness (the resolver only copies them).
-/
open Wac Wac.Proto Wac.FsLookup Wac.Spec.FsLookup

abbrev P := StateT (List Str) Option

def next : P Str := fun s => match s with | [] => none | x :: r => some (x, r)
def natOf (s : Str) : Nat := s.foldl (fun a c => 10 * a + (c.toNat - '0'.toNat)) 0
def nextNat : P Nat := do return natOf (← next)
def nextBool : P Bool := do return (← next) == ['1']

def splitSlash (s : Str) : Path :=
  let rec go (acc : Str) : Str → List Str
    | [] => [acc.reverse]
    | c :: r => if c == '/' then acc.reverse :: go [] r else go (c :: acc) r
  (go [] s).filter (!·.isEmpty)

def nextPath : P Path := do return splitSlash (← next)

def repeatP {α} (n : Nat) (p : P α) : P (List α) :=
  match n with
  | 0 => pure []
  | n + 1 => do
    let a ← p
    let r ← repeatP n p
    return a :: r

def optTok (s : Str) : Option Bytes := if s == "ERR".toList then none else some s

structure Case where
  cfg : Config
  fs : List (Path × Entry)
  witDir : List (Path × Option Bytes)
  codec : List (Bytes × Option Bytes × Option Bytes)
  keys : List (Key × Span)
  impl : Str
  badVersion : Bool

def parseCase : P Case := do
  let wat ← nextBool
  let wit ← nextBool
  let mode ← nextBool
  let root ← nextPath
  let nE ← nextNat
  let es ← repeatP nE (do
    let p ← nextPath
    let k ← next
    let pay ← next
    return (p, k, pay))
  let nC ← nextNat
  let cs ← repeatP nC (do
    let c ← next
    let w ← next
    let i ← next
    return (c, optTok w, optTok i))
  let nO ← nextNat
  let os ← repeatP nO (do
    let n ← next
    let p ← nextPath
    return (n, p))
  let nK ← nextNat
  let ks ← repeatP nK (do
    let n ← next
    let v ← next
    let sp ← next
    return (n, v, sp))
  let impl ← next
  let keys := ks.map fun (n, v, sp) =>
    (({ name := n, version := if v.isEmpty then none else parseVersion v } : Key), sp)
  let bad := ks.any fun (_, v, _) => !v.isEmpty && (parseVersion v).isNone
  return {
    cfg := { root := root, overrides := os, errorOnUnknown := mode, featWat := wat, featWit := wit }
    fs := es.map fun (p, k, pay) => (p, if k == ['D'] then Entry.dir else Entry.file pay)
    witDir := es.filterMap fun (p, k, pay) => if k == ['D'] then some (p, optTok pay) else none
    codec := cs
    keys := keys
    impl := impl
    badVersion := bad }

def mkCodec (c : Case) : Codec where
  witDir := fun p => match c.witDir.find? (fun e => e.1 == p) with | some e => e.2 | none => none
  witFile := fun b => match c.codec.find? (fun e => e.1 == b) with | some e => e.2.2 | none => none
  wat := fun b => match c.codec.find? (fun e => e.1 == b) with | some e => e.2.1 | none => none

def keyIndex (keys : List (Key × Span)) (k : Key) : Nat := keys.findIdx (fun e => e.1 == k)

def render (keys : List (Key × Span)) : Except Err (List (Key × Bytes)) → String
  | .ok l => "ok " ++ ",".intercalate (l.map fun (k, b) => toString (keyIndex keys k) ++ "=" ++ String.ofList b)
  | .error (.unknownPackage n sp) => "err UnknownPackage " ++ String.ofList n ++ " " ++ String.ofList sp
  | .error (.resolutionFailure n sp) => "err PackageResolutionFailure " ++ String.ofList n ++ " " ++ String.ofList sp

def judge (fs : List (List Char)) : String :=
  match fs with
  | k :: rest =>
    if k != "fs".toList then "BAD\tunknown kind" else
    match parseCase.run rest with
    | none => "BAD\tfs fields"
    | some (c, _) =>
      if c.badVersion then "BAD\tversion does not parse in the model" else
      -- the hypotheses of the theorems, checked on every case
      if !(c.keys.all fun k => wellFormedName k.1.name) then "BAD\ta package name has an empty segment (outside the theorems' hypothesis)" else
      let fsys := FS.ofList c.fs
      let codec := mkCodec c
      let impl := String.ofList c.impl
      let model := render c.keys (resolve c.cfg codec fsys c.keys)
      -- diagnostic only: does the observation match the model of the code as pinned (before
      -- `fix: prefer a .wat file`)?  Then the repository under test lacks that repair.
      let orig := render c.keys (resolveOrig c.cfg codec fsys c.keys)
      let hint := if impl != model && impl == orig then " (= resolveOrig: the .wat probe is `exists`, not `is_file`)" else ""
      match specResolve c.cfg codec fsys c.keys with
      | some r =>
        let spec := render c.keys r
        if impl != spec then s!"SPEC\tspec=[{spec}] impl=[{impl}] model=[{model}]{hint}"
        else if impl != model then s!"MODEL\tmodel=[{model}] impl=[{impl}]{hint}"
        else "ok"
      | none =>
        if impl != model then s!"MODEL\t(undocumented row) model=[{model}] impl=[{impl}]{hint}" else "ok"
  | [] => "BAD\tempty"

def main : IO Unit := Wac.Proto.run judge
