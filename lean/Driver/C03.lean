import WacModel.EncProto
import WacModel.Spec.Interface
import WacModel.Spec.EncodeWF
/-
  Driver for C03.  Case kind:
    ifc <gen> <define 0|1> <graph> <imports() observation> <instance-type exports of the real imports> <result>
  (`result` as for C02.)

  SPEC: exports of the real output = the designated exports; every implied import is imported
        under its class name with its kind (and, for an instance, offers the union of its
        members' exports); every other import is a dependency interface (or, with
        dependencies imported, the component of an instantiated package); `imports()` lists
        the implied requirements.
  MODEL: the model's import list (names, kinds, order) and export list equal the real ones;
        `importsQuery` equals the observed `imports()`; error variants agree.
-/
open Wac Wac.Proto Wac.EncProto Wac.Spec

inductive RealRes where
  | ok (w : Wiring)
  | cycle (n : Nat)
  | implicit (name : Str) (inst imp : Nat)
  | merge (name : Str) (first second : Nat)
  | validation
  | panic
  | unreadable

def realRes : P RealRes := do
  let t ← str
  if t == "ok".toList then do
    let w ← wiringP
    pure (.ok w)
  else if t == "err".toList then do
    let k ← str
    if k == "cycle".toList then do let n ← nat; pure (.cycle n)
    else if k == "implicit".toList then do
      let nm ← str; let i ← nat; let m ← nat; pure (.implicit nm i m)
    else if k == "merge".toList then do
      let nm ← str; let a ← nat; let b ← nat; pure (.merge nm a b)
    else if k == "validation".toList then pure .validation
    else fail
  else if t == "panic".toList then pure .panic
  else if t == "unreadable".toList then pure .unreadable
  else fail

def queryP : P (List (Str × Kind × Option Nat)) :=
  counted (do let n ← str; let k ← kind; let i ← optNat; pure (n, k, i))

def instExportsP : P (List (Str × List Str)) :=
  counted (do let n ← str; let l ← counted str; pure (n, l))

def showNK (l : List (Str × Kind)) : String := ", ".intercalate (l.map fun (n, k) => s!"{showStr n}:{k.tag}")

def ifaceImports (g : GraphVal) : List (Str × Str) :=
  g.nodes.filterMap fun n =>
    match n.kind, n.ty.iface with
    | .import nm, some i => if n.ty.kind = .instance ∧ nm ≠ i then some (nm, i) else none
    | _, _ => none

def isUnlocked (n : Str) : Bool := "unlocked-dep=".toList.isPrefixOf n

def specCheck (define : Bool) (g : GraphVal) (w : Wiring) (iex : List (Str × List Str)) : Option String :=
  let realExports := sortBy Spec.reprStr (w.exports.map fun (n, k, _) => (n, k))
  let wantExports := sortBy Spec.reprStr (impliedExports g)
  if realExports != wantExports then
    if !(renamedDefExports g).isEmpty && realExports == sortBy Spec.reprStr (impliedExports (dropRenamedDefs g)) then
      some ("KF-definition-renamed-by-export: export-map names " ++
        ", ".intercalate ((renamedDefExports g).map fun e => showStr e.1) ++
        s!" of definitions are not exported :: exports impl={showNK realExports} spec={showNK wantExports}")
    else some s!"exports impl={showNK realExports} spec={showNK wantExports}"
  else
    let comps := w.imports.filter fun (n, _) => isUnlocked n
    let wantComps := if define then [] else (instantiatedPkgs g).map fun p => (unlockedName p, Kind.component)
    if sortBy Spec.reprStr comps != sortBy Spec.reprStr wantComps then
      some s!"component imports impl={showNK comps} spec={showNK wantComps}"
    else
      let real := w.imports.filter fun (n, _) => !isUnlocked n
      let implied := impliedImports g
      let deps := impliedDeps g
      match implied.find? fun i => !(real.contains (i.name, i.kind)) with
      | some i =>
        let merged := ifaceImports g
        -- the conflation works both ways: the explicit import `xi` of interface `I` may be the one
        -- that is dropped, or the one that stands in for the import named `I`
        let kf := (implied.filter fun i => !(real.contains (i.name, i.kind))).all fun i =>
          merged.any fun m => m.1 == i.name || compatSpec m.2 i.name
        if kf then
          some ("KF-explicit-interface-import-merged: import `" ++ showStr i.name ++ "` is not imported under its name (explicit imports of named interfaces: " ++
            ", ".intercalate (merged.map fun m => showStr m.1 ++ " : " ++ showStr m.2) ++ ") :: imports impl=" ++ showNK real)
        else some s!"implied import {showStr i.name}:{i.kind.tag} is missing; imports impl={showNK real}"
      | none =>
        match real.find? fun (n, k) => !(implied.any (·.name == n)) && !(k == .instance && deps.any fun d => compatSpec d n) with
        | some (n, k) => some s!"import {showStr n}:{k.tag} is neither implied nor a dependency interface; implied={showNK (implied.map fun i => (i.name, i.kind))} deps={deps.map showStr}"
        | none =>
          -- a dependency interface is imported under its own name (or a compatible version of
          -- it), or is provided by an explicit import of that interface under another name
          match deps.find? fun d => !(real.any fun (n, _) => compatSpec d n) &&
              !((ifaceImports g).any fun m => compatSpec m.2 d && real.any fun (n, _) => n == m.1) with
          | some d => some s!"dependency interface {showStr d} is not imported; imports impl={showNK real}"
          | none =>
            -- an implied instance import offers what its members need
            match implied.find? fun i => i.kind == .instance &&
                (match iex.find? (·.1 == i.name) with
                 | some (_, ex) => !(i.exports.all fun e => ex.contains e)
                 | none => true) with
            | some i =>
              let ex := ((iex.find? (·.1 == i.name)).map (·.2)).getD []
              some s!"instance import {showStr i.name} offers {ex.map showStr} but its sharers need {i.exports.map showStr}"
            | none => none

def judgeIfc (define : Bool) (g : GraphVal) (q : List (Str × Kind × Option Nat)) (iex : List (Str × List Str))
    (r : RealRes) : String :=
  let o : Opts := { define := define }
  let qspec := importsQuerySpec g
  let qreal := q.map fun (n, k, _) => (n, k)
  let spec : Option String :=
    if qreal != qspec then some s!"imports() impl={showNK qreal} spec={showNK qspec}"
    else match r with
      | .ok w => specCheck define g w iex
      | .merge nm first second =>
        -- whatever the type reason, the error names the import, the first instantiation that
        -- leaves an import of exactly that name unsatisfied, and a later (or the same) one
        match g.importNode? nm with
        | some imp =>
          -- an explicit import conflicting with what instantiations leave unsatisfied on its
          -- name or semver track: `second` is the import, `first` the first such instantiation
          let leaving := g.nodes.filter fun n => (reqsOfNode g n).any fun r => compatSpec r.name nm
          let want := ((leaving.map (·.id)).head?).getD imp
          if second != imp then some s!"merge conflict on explicit import {showStr nm}: second={second}, the import is node {imp}"
          else if first != want then some s!"merge conflict on explicit import {showStr nm}: first={first}, expected {want}"
          else none
        | none =>
        let leaving := g.nodes.filter fun n => (reqsOfNode g n).any (·.name == nm)
        match leaving.head? with
        | none => some s!"merge conflict names import {showStr nm} that no instantiation leaves unsatisfied"
        | some f =>
          if f.id != first then some s!"merge conflict on {showStr nm}: first={first}, but the first instantiation leaving it unsatisfied is {f.id}"
          else if !(leaving.any (·.id == second)) then some s!"merge conflict on {showStr nm}: second={second} does not leave it unsatisfied"
          else none
      | _ => none
  match spec with
  | some d => "SPEC\t" ++ d
  | none =>
    if importsQuery g != q then "MODEL\timportsQuery differs from imports()"
    else
      match encode g o, r with
      | .ok sk, .ok w =>
        let mw := wiring sk
        if mw.imports != w.imports then
          s!"MODEL\timports impl={showNK w.imports} model={showNK mw.imports}"
        else if (mw.exports.map fun (n, k, _) => (n, k)) != (w.exports.map fun (n, k, _) => (n, k)) then
          "MODEL\texports order"
        else "ok"
      | .error (.cycle _), .cycle _ => "ok"
      | .error (.implicitConflict nm i m), .implicit nm' i' m' =>
        if nm == nm' && i == i' && m == m' then "ok"
        else s!"MODEL\timplicit conflict model=({showStr nm},{i},{m}) impl=({showStr nm'},{i'},{m'})"
      | .error (.mergeConflict nm a b), .merge nm' a' b' =>
        if nm == nm' && a == a' && b == b' then "ok"
        else s!"MODEL\tmerge conflict model=({showStr nm},{a},{b}) impl=({showStr nm'},{a'},{b'})"
      | .ok _, .merge _ _ _ => "ok"
      -- ... also when the model goes on to a later error of its own
      | .error (.implicitConflict _ _ _), .merge _ _ _ => "ok"
      | .panic _, .panic => "ok"
      | .panic s, _ => s!"MODEL\tmodel panics at {s}, impl does not"
      | _, .panic => "MODEL\timpl panics, model does not"
      | .ok _, _ => "MODEL\tmodel=ok impl=error"
      | .error e, r' =>
        let me := match e with
          | .cycle n => s!"cycle({n})"
          | .implicitConflict nm i m => s!"implicit({showStr nm},{i},{m})"
          | .mergeConflict nm a b => s!"merge({showStr nm},{a},{b})"
        let ri := match r' with
          | .ok _ => "ok" | .cycle n => s!"cycle({n})" | .implicit nm i m => s!"implicit({showStr nm},{i},{m})"
          | .merge nm a b => s!"merge({showStr nm},{a},{b})" | .validation => "validation" | .panic => "panic" | .unreadable => "unreadable"
        s!"MODEL\tmodel={me} impl={ri}"

def judge (fs : List (List Char)) : String :=
  match fs with
  | [k, _gen, define, gf, qf, xf, rf] =>
    if k != "ifc".toList then "BAD\tunknown kind"
    else
      match run graph gf, run queryP qf, run instExportsP xf, run realRes rf with
      | some g, some q, some x, some r => judgeIfc (define == ['1']) g q x r
      | none, _, _, _ => "BAD\tgraph"
      | _, none, _, _ => "BAD\tquery"
      | _, _, none, _ => "BAD\tinstance exports"
      | _, _, _, none => "BAD\tresult"
  | _ => "BAD\tfields"

def main : IO Unit := Wac.Proto.run judge
