import WacModel.GraphJudge
/-
  Driver for C16.  Case kinds:
    seq  …   a graph history with the reported state (C06 format): the reported state, edge
             adjacency order included, must be the deterministic model's (MODEL), and consistent
             (SPEC)
    hist <ops-text> <digests> <number of distinct digests over clone + k processes>
    doc  <source>   <digests> <number of distinct digests over k processes>
  For `hist` / `doc` the harness itself reports differing digests (`!FAIL`); the driver
  re-states it as a SPEC verdict so that the case line is in the replay.
-/
open Wac Wac.Proto

def judge16 (fs : List (List Char)) : String :=
  match fs with
  | k :: rest =>
    let k := String.ofList k
    if k == "seq" then Wac.GraphJudge.judge fs
    else if k == "hist" || k == "doc" then
      match rest with
      | [_, d, n] =>
        if String.ofList n == "1" then "ok"
        else s!"SPEC\tone input, {String.ofList n} distinct results across clone / processes (first: {String.ofList d})"
      | _ => "BAD\tfields"
    else "BAD\tunknown kind"
  | [] => "BAD\tempty"

def main : IO Unit := Wac.Proto.run judge16
