import WacModel.Proto
import WacModel.Spec.Names
import WacModel.NameOps
import WacModel.Spec.NameOps
/-
  Driver for C15.  Case kinds:
    compat  <a> <b> <impl: 0|1>
    altkey  <name> <impl: key or \e; for none>
    ver     <s> <impl: "major.minor.patch|pre|build" or ERR>
    vlt     <a> <b> <impl: 0|1>            (a < b for two version strings that parse, no pre)
    map     <n> (<name> <shadow 0|1> <impl ok 0|1>)*n <q> (<query> <impl: index or none>)*q
  A `map` case is judged against the specification first (every call sequence, including
  shadowing re-insertions and rejected duplicates): each call's acceptance against
  `Spec.accepts` on the effective entries so far, each answer against `Spec.getSpec` on
  `Spec.effective` of the whole sequence (`Props.C15.runOps_get_eq_getSpec`); then against the
  model (`NameMap.insert` / `NameMap.get`).
-/
open Wac Wac.Proto Wac.Spec

def b2s (b : Bool) : String := if b then "1" else "0"

def showVer (v : Version) : String :=
  s!"{v.major}.{v.minor}.{v.patch}|{String.ofList v.pre}|{String.ofList v.build}"

def natOf (s : List Char) : Nat := s.foldl (fun a c => 10 * a + (c.toNat - '0'.toNat)) 0

def judgeMap (fs : List (List Char)) : String :=
  match fs with
  | n :: rest =>
    let n := natOf n
    -- inserts
    let rec ins (k : Nat) (idx : Nat) (fs : List (List Char)) (m : NameMap Nat) (es : List (Str × Nat)) :
        Option (List (List Char) × NameMap Nat × List (Str × Nat)) ⊕ String :=
      match k with
      | 0 => .inl (some (fs, m, es))
      | k + 1 =>
        match fs with
        | name :: sh :: implOk :: fs' =>
          let sh := sh == ['1']
          let io := implOk == ['1']
          -- specification first: a new name is always accepted, a present one only with shadowing
          if accepts es name sh != io then
            .inr s!"SPEC\tinsert#{idx} {escape name} shadow={b2s sh}: spec accepts={b2s (accepts es name sh)} impl={b2s io}"
          else
            let es' := effStep es (name, sh, idx)
            match m.insert name sh idx with
            | none =>
              if !io then ins k (idx + 1) fs' m es'
              else .inr s!"MODEL\tinsert#{idx}: model=err impl=ok"
            | some m' =>
              if io then ins k (idx + 1) fs' m' es'
              else .inr s!"MODEL\tinsert#{idx}: model=ok impl=err"
        | _ => .inl none
    match ins n 0 rest {} [] with
    | .inr e => e
    | .inl none => "BAD\tmap fields"
    | .inl (some (fs, m, es)) =>
      match fs with
      | _q :: qs =>
        let rec qry (fuel : Nat) (fs : List (List Char)) : String :=
          match fuel with
          | 0 => "ok"
          | fuel + 1 =>
            match fs with
            | [] => "ok"
            | q :: impl :: fs' =>
              let mo := showOpt toString (m.get q)
              let so := showOpt toString (getSpec es q)
              let io := if impl == "none".toList then "none" else "some(" ++ String.ofList impl ++ ")"
              if io != so then s!"SPEC\tget {escape q}: spec={so} impl={io} model={mo}"
              else if io != mo then s!"MODEL\tget {escape q}: model={mo} impl={io}"
              else qry fuel fs'
            | _ => "BAD\tquery fields"
        qry (qs.length + 1) qs
      | _ => "BAD\tmap tail"
  | _ => "BAD\tmap"

def judge (fs : List (List Char)) : String :=
  match fs with
  | [k, a, b, impl] =>
    if k == "compat".toList then
      let m := b2s (compat a b)
      let s := b2s (compatSpec a b)
      let i := String.ofList impl
      if i != s then s!"SPEC\tcompat spec={s} impl={i} model={m}"
      else if i != m then s!"MODEL\tcompat model={m} impl={i}"
      else "ok"
    else if k == "vlt".toList then
      match parseVersion a, parseVersion b with
      | some va, some vb =>
        let m := b2s (va.lt vb)
        if m != String.ofList impl then s!"MODEL\tvlt model={m} impl={String.ofList impl}" else "ok"
      | _, _ => "MODEL\tvlt: model fails to parse"
    else judgeMap' fs
  | [k, a, impl] =>
    if k == "altkey".toList then
      let m := match altKey a with | none => "" | some (k, _) => String.ofList k
      if m != String.ofList impl then s!"MODEL\taltkey model={m} impl={String.ofList impl}" else "ok"
    else if k == "ver".toList then
      let m := match parseVersion a with | none => "ERR" | some v => showVer v
      if m != String.ofList impl then s!"MODEL\tver model={m} impl={String.ofList impl}" else "ok"
    else judgeMap' fs
  | _ => judgeMap' fs
where
  judgeMap' (fs : List (List Char)) : String :=
    match fs with
    | k :: rest => if k == "map".toList then judgeMap rest else "BAD\tunknown kind"
    | [] => "BAD\tempty"

def main : IO Unit := Wac.Proto.run judge
