import WacModel.Proto
import WacModel.Targets
import WacModel.Spec.Targets
/-
  Driver for C11.  Case kind `tgt`:
    <graph types> <world id> <ni> (<name> <kind>)*ni <ne> (<name> <kind>)*ne
    <resolve verdict: ok | import <name> | missing <name> <kind text> | mismatch <import|export> <name> <msg> | other <text>>
    <binary types> <wit world id> <component world id>
    <binary: ok | report <a> <name>*a <b> <name>*b <c> (<name> <import|export> <msg>)*c | none>
    <oracle: 1|0|->
  SPEC: a successful resolution conforms (exact names), a failed one carries a diagnostic that
  names a real non-conformance and every non-conformance fails, the stand-alone report equals
  the semver-aware diagnosis, resolve-ok implies binary-ok, and (resource-free) conformance
  equals the reference validator's component subtyping.  MODEL: both validators' models.
-/
open Wac Wac.Proto Wac.Spec

def natOf (s : List Char) : Nat := s.foldl (fun a c => 10 * a + (c.toNat - '0'.toNat)) 0

def takePairs : Nat → List (List Char) → List (Str × ItemKind) → Option (List (Str × ItemKind) × List (List Char))
  | 0, fs, acc => some (acc.reverse, fs)
  | n + 1, nm :: k :: fs, acc =>
    match parseKind k with
    | some kd => takePairs n fs ((nm, kd) :: acc)
    | none => none
  | _ + 1, _, _ => none

def takeStrs : Nat → List (List Char) → List Str → Option (List Str × List (List Char))
  | 0, fs, acc => some (acc.reverse, fs)
  | n + 1, s :: fs, acc => takeStrs n fs (s :: acc)
  | _ + 1, [], _ => none

def takeMism : Nat → List (List Char) → List (Str × Bool × String) → Option (List (Str × Bool × String) × List (List Char))
  | 0, fs, acc => some (acc.reverse, fs)
  | n + 1, nm :: k :: m :: fs, acc => takeMism n fs ((nm, k == "import".toList, String.ofList m) :: acc)
  | _ + 1, _, _ => none

def treesOf (t : Types) (l : List (Str × ItemKind)) : Option (List (Str × Tree)) :=
  l.mapM fun e => (t.unfold e.2).map fun tr => (e.1, tr)

def showV : ResolveVerdict → String
  | .ok => "ok"
  | .importNotInTarget n => s!"import {String.ofList n}"
  | .missingTargetExport n k => s!"missing {String.ofList n} ({k})"
  | .targetMismatch i n m => s!"mismatch {if i then "import" else "export"} {String.ofList n}: {m}"
  | .panic s => s!"panic {s}"

def sortStrs (l : List Str) : List Str := l.mergeSort fun a b => decide (a ≤ b)

/-- world signature of a world of `t` as trees -/
def worldSig (t : Types) (w : World) : Option Sig :=
  match implicitImported t w, treesOf t w.imports, treesOf t w.exports with
  | some imp, some ex, some exps =>
    match treesOf t imp with
    | some impT => some { imports := worldImports ex impT, exports := exps }
    | none => none
  | _, _, _ => none

def judgeTgt (fs : List (List Char)) : String :=
  match fs with
  | gt :: wid :: ni :: rest =>
    match parseTypes gt, takePairs (natOf ni) rest [] with
    | some t, some (gimps, ne :: rest) =>
      match takePairs (natOf ne) rest [] with
      | some (gexps, rest) =>
        -- resolve verdict
        let rv? : Option (ResolveVerdict × List (List Char)) := match rest with
          | tag :: rest' =>
            if tag == "ok".toList then some (.ok, rest')
            else if tag == "import".toList then match rest' with
              | n :: r => some (.importNotInTarget n, r)
              | _ => none
            else if tag == "missing".toList then match rest' with
              | n :: k :: r => some (.missingTargetExport n (String.ofList k), r)
              | _ => none
            else if tag == "mismatch".toList then match rest' with
              | k :: n :: m :: r => some (.targetMismatch (k == "import".toList) n (String.ofList m), r)
              | _ => none
            else match rest' with
              | m :: r => some (.panic ("other: " ++ String.ofList m), r)
              | _ => none
          | [] => none
        match rv? with
        | none => "BAD\ttgt: resolve verdict"
        | some (rv, rest) =>
          match rest with
          | bt :: ww :: cw :: btag :: rest =>
            match parseTypes bt with
            | none => "BAD\ttgt: binary types"
            | some t2 =>
              let rep? : Option (Option Report × List (List Char)) :=
                if btag == "ok".toList then some (some {}, rest)
                else if btag == "none".toList then some (none, rest)
                else match rest with
                  | a :: rest =>
                    match takeStrs (natOf a) rest [] with
                    | some (xs, b :: rest) =>
                      match takeStrs (natOf b) rest [] with
                      | some (ys, c :: rest) =>
                        match takeMism (natOf c) rest [] with
                        | some (zs, rest) => some (some { importsNotInTarget := xs, missingExports := ys, mismatched := zs }, rest)
                        | none => none
                      | _ => none
                    | _ => none
                  | [] => none
              match rep? with
              | none => "BAD\ttgt: binary report"
              | some (rep, rest) =>
                let oracle := match rest with | o :: _ => String.ofList o | [] => "-"
                -- SPEC --------------------------------------------------------------------
                match t.worlds[natOf wid]? with
                | none => "BAD\ttgt: world id"
                | some w =>
                  match worldSig t w, treesOf t gimps, treesOf t gexps with
                  | some ws, some oi, some oe =>
                    let out : Sig := { imports := oi, exports := oe }
                    let d := diagnoseWith amGet amGet out ws
                    let conf := conforms out ws
                    let resFree := (oi ++ oe ++ ws.imports ++ ws.exports).all fun e => e.2.resourceFree
                    let spec1 : Option String :=
                      match rv with
                      | .ok => if conf then none else some s!"SPEC\tresolution succeeded but the composition does not conform to the target world: extra imports {d.extraImports.map String.ofList}, missing exports {d.missingExports.map String.ofList}, mismatched {(d.mismatchedImports ++ d.mismatchedExports).map String.ofList}"
                      | .importNotInTarget n => if d.extraImports.contains n then none else some s!"SPEC\tImportNotInTarget `{String.ofList n}` but the world imports it"
                      | .missingTargetExport n _ => if d.missingExports.contains n then none else some s!"SPEC\tMissingTargetExport `{String.ofList n}` but the composition exports it"
                      | .targetMismatch true n _ => if d.mismatchedImports.contains n then none else some s!"SPEC\tTargetMismatch import `{String.ofList n}` but the types conform"
                      | .targetMismatch false n _ => if d.mismatchedExports.contains n then none else some s!"SPEC\tTargetMismatch export `{String.ofList n}` but the types conform"
                      | .panic s => some s!"SPEC\tresolution failed otherwise: {s}"
                    match spec1 with
                    | some e => e
                    | none =>
                      if resFree && oracle != "-" && (oracle == "1") != conf then
                        s!"SPEC\tspecification disagrees with the wasmparser oracle: conforms={conf} oracle={oracle}"
                      else
                      -- the stand-alone check on the encoded output
                      match t2.worlds[natOf ww]?, t2.worlds[natOf cw]? with
                      | some w2, some c2 =>
                        match worldSig t2 w2, treesOf t2 c2.imports, treesOf t2 c2.exports with
                        | some ws2, some ci, some ce =>
                          let out2 : Sig := { imports := ci, exports := ce }
                          let d2 := diagnoseWith getSpec getSpec out2 ws2
                          let specBin : Option String :=
                            match rep with
                            | none => some "SPEC\tvalidate_target panicked"
                            | some r =>
                              if sortStrs r.importsNotInTarget != sortStrs d2.extraImports then
                                some s!"SPEC\tbinary check: imports_not_in_target {r.importsNotInTarget.map String.ofList} but the extra imports are {d2.extraImports.map String.ofList}"
                              else if sortStrs r.missingExports != sortStrs d2.missingExports then
                                some s!"SPEC\tbinary check: missing_exports {r.missingExports.map String.ofList} but the missing exports are {d2.missingExports.map String.ofList}"
                              else if sortStrs (r.mismatched.map (·.1)).eraseDups != sortStrs (d2.mismatchedImports ++ d2.mismatchedExports).eraseDups then
                                some s!"SPEC\tbinary check: mismatched_types {r.mismatched.map (fun x => String.ofList x.1)} but the mismatches are {(d2.mismatchedImports ++ d2.mismatchedExports).map String.ofList}"
                              else if rv == .ok && !r.isOk then
                                some "SPEC\ta successful resolution's output is rejected by the binary target check"
                              else none
                          match specBin with
                          | some e => e
                          | none =>
                            -- MODEL ------------------------------------------------------
                            let mv := resolveValidateTarget t (natOf wid) gimps gexps
                            let sameV : Bool := match mv, rv with
                              | .panic _, .panic _ => true
                              | a, b => a == b
                            if !sameV then s!"MODEL\tresolve-time check: model={showV mv} impl={showV rv}"
                            else
                              match binaryValidateTarget t2 (natOf ww) (natOf cw), rep with
                              | some mr, some r =>
                                let norm (x : Report) : List Str × List Str × List (Str × Bool × String) :=
                                  (sortStrs x.importsNotInTarget, sortStrs x.missingExports,
                                    x.mismatched.mergeSort fun a b => decide (a.1 ≤ b.1))
                                if norm mr != norm r then s!"MODEL\tbinary check: reports differ"
                                else "ok"
                              | none, none => "ok"
                              | _, _ => "MODEL\tbinary check: panic mismatch"
                        | _, _, _ => "BAD\ttgt: binary collection does not unfold"
                      | _, _ => "BAD\ttgt: binary world ids"
                  | _, _, _ => "BAD\ttgt: graph collection does not unfold"
          | _ => "BAD\ttgt: binary fields"
      | none => "BAD\ttgt: graph exports"
    | _, _ => "BAD\ttgt: graph imports"
  | _ => "BAD\ttgt: fields"

/-- parse `ok | none | report …` -/
def takeReport (btag : List Char) (rest : List (List Char)) : Option (Option Report) :=
  if btag == "ok".toList then some (some {})
  else if btag == "none".toList then some none
  else match rest with
    | a :: rest =>
      match takeStrs (natOf a) rest [] with
      | some (xs, b :: rest) =>
        match takeStrs (natOf b) rest [] with
        | some (ys, c :: rest) =>
          match takeMism (natOf c) rest [] with
          | some (zs, _) => some (some { importsNotInTarget := xs, missingExports := ys, mismatched := zs })
          | none => none
        | _ => none
      | _ => none
    | [] => none

/-- `bin <types> <wit world> <component world> <report>`: the stand-alone check alone -/
def judgeBin (fs : List (List Char)) : String :=
  match fs with
  | bt :: ww :: cw :: btag :: rest =>
    match parseTypes bt, takeReport btag rest with
    | some t2, some rep =>
      match t2.worlds[natOf ww]?, t2.worlds[natOf cw]? with
      | some w2, some c2 =>
        match worldSig t2 w2, treesOf t2 c2.imports, treesOf t2 c2.exports with
        | some ws2, some ci, some ce =>
          let out2 : Sig := { imports := ci, exports := ce }
          let d2 := diagnoseWith getSpec getSpec out2 ws2
          match rep with
          | none => "SPEC\tvalidate_target panicked"
          | some r =>
            if sortStrs r.importsNotInTarget != sortStrs d2.extraImports then
              s!"SPEC\tbinary check: imports_not_in_target {r.importsNotInTarget.map String.ofList} but the extra imports are {d2.extraImports.map String.ofList}"
            else if sortStrs r.missingExports != sortStrs d2.missingExports then
              s!"SPEC\tbinary check: missing_exports {r.missingExports.map String.ofList} but the missing exports are {d2.missingExports.map String.ofList}"
            else if sortStrs (r.mismatched.map (·.1)).eraseDups != sortStrs (d2.mismatchedImports ++ d2.mismatchedExports).eraseDups then
              s!"SPEC\tbinary check: mismatched_types {r.mismatched.map (fun x => String.ofList x.1)} but the mismatches are {(d2.mismatchedImports ++ d2.mismatchedExports).map String.ofList}"
            else
              match binaryValidateTarget t2 (natOf ww) (natOf cw) with
              | some mr =>
                let norm (x : Report) : List Str × List Str × List (Str × Bool × String) :=
                  (sortStrs x.importsNotInTarget, sortStrs x.missingExports,
                    x.mismatched.mergeSort fun a b => decide (a.1 ≤ b.1))
                if norm mr != norm r then "MODEL\tbinary check: reports differ" else "ok"
              | none => "MODEL\tbinary check: model panics"
        | _, _, _ => "BAD\tbin: collection does not unfold"
      | _, _ => "BAD\tbin: world ids"
    | _, _ => "BAD\tbin: fields"
  | _ => "BAD\tbin: field count"

def judge (fs : List (List Char)) : String :=
  match fs with
  | k :: rest =>
    if k == "tgt".toList then judgeTgt rest
    else if k == "bin".toList then judgeBin rest
    else "BAD\tunknown kind"
  | [] => "BAD\tempty"

def main : IO Unit := Wac.Proto.run judge
