import WacModel.Proto
import WacModel.Spec.Language
import WacModel.Resolve
/-
  Driver for C04.  One case kind:
    prog <wac text> <self> L <npkgs> pkg* P <nstmts> stmt* <observation>
      pkg   ::= <name> <version|\e;> <nimports> (name kind)* <nexports> (name kind)*
      kind  ::= F <sig> | I <id|\e;> <n> (name kind)* | T <id|\e;> <n> (name kind)*
      stmt  ::= imp <id> <as|\e;> ty | let <id> expr | exp expr opt | ifc <id> <n> (name sig)*
      ty    ::= path <pkg> <ver|\e;> <nsegs> seg* | func <sig> | iface <n> (name sig)* | ident <id>
      opt   ::= none | as <name> | spread
      expr  ::= id <x> | new <pkg> <ver|\e;> <nargs> arg* | par expr | acc expr <id> | nacc expr <str>
      arg   ::= inf <x> | named (I|S) <name> expr | spr <x> | fill
    observation = `ok <canonical composition>` / `err <Variant> <names…>` as rendered by
    `Wac.Lang.renderResult` (the harness renders what it decodes from the encoded bytes the same way).
  Verdict: SPEC when the observation differs from `Spec.eval`, else MODEL when it differs from
  `Model.resolveModel`.
-/
open Wac.Lang Wac.Proto

abbrev Toks := List Str

def natOf (s : Str) : Nat := s.foldl (fun a c => 10 * a + (c.toNat - '0'.toNat)) 0
def optStr (s : Str) : Option Str := if s.isEmpty then none else some s
def is (t : Str) (s : String) : Bool := t == s.toList

mutual
partial def pKind : Toks → Option (Kind × Toks)
  | t :: r =>
    if is t "F" then
      match r with
      | n :: r => some (.func (natOf n), r)
      | _ => none
    else if is t "I" || is t "T" then
      match r with
      | id :: n :: r =>
        match pExports (natOf n) r with
        | some (es, r) => some (if is t "I" then .inst (optStr id) es else .type (optStr id) es, r)
        | none => none
      | _ => none
    else none
  | [] => none
partial def pExports : Nat → Toks → Option (Exports × Toks)
  | 0, r => some (.nil, r)
  | n + 1, name :: r =>
    match pKind r with
    | some (k, r) =>
      match pExports n r with
      | some (es, r) => some (.cons name k es, r)
      | none => none
    | none => none
  | _, _ => none
end

def pPackage : Toks → Option (Package × Toks)
  | name :: ver :: ni :: r =>
    match pExports (natOf ni) r with
    | some (imports, ne :: r) =>
      match pExports (natOf ne) r with
      | some (exports, r) => some ({ name := name, version := optStr ver, imports := imports, exports := exports }, r)
      | none => none
    | _ => none
  | _ => none

partial def pMany {α} (p : Toks → Option (α × Toks)) : Nat → Toks → Option (List α × Toks)
  | 0, r => some ([], r)
  | n + 1, r =>
    match p r with
    | some (a, r) =>
      match pMany p n r with
      | some (as, r) => some (a :: as, r)
      | none => none
    | none => none

mutual
partial def pExpr : Toks → Option (Expr × Toks)
  | t :: r =>
    if is t "id" then
      match r with
      | x :: r => some (.ident x, r)
      | _ => none
    else if is t "new" then
      match r with
      | pkg :: ver :: n :: r =>
        match pArgs (natOf n) r with
        | some (args, r) => some (.new pkg (optStr ver) args, r)
        | none => none
      | _ => none
    else if is t "par" then
      match pExpr r with
      | some (e, r) => some (.nested e, r)
      | none => none
    else if is t "acc" || is t "nacc" then
      match pExpr r with
      | some (e, x :: r) => some (if is t "acc" then .access e x else .namedAccess e x, r)
      | _ => none
    else none
  | [] => none
partial def pArgs : Nat → Toks → Option (Args × Toks)
  | 0, r => some (.nil, r)
  | n + 1, t :: r =>
    let one : Option (Arg × Toks) :=
      if is t "inf" then
        match r with
        | x :: r => some (.inferred x, r)
        | _ => none
      else if is t "spr" then
        match r with
        | x :: r => some (.spread x, r)
        | _ => none
      else if is t "fill" then some (.fill, r)
      else if is t "named" then
        match r with
        | form :: name :: r =>
          match pExpr r with
          | some (e, r) => some (.named (if is form "I" then .id name else .str name) e, r)
          | none => none
        | _ => none
      else none
    match one with
    | some (a, r) =>
      match pArgs n r with
      | some (as, r) => some (.cons a as, r)
      | none => none
    | none => none
  | _, _ => none
end

def pFunc : Toks → Option ((Str × Nat) × Toks)
  | n :: s :: r => some ((n, natOf s), r)
  | _ => none

def pSeg : Toks → Option (Str × Toks)
  | s :: r => some (s, r)
  | _ => none

def pStmt : Toks → Option (Stmt × Toks)
  | t :: r =>
    if is t "imp" then
      match r with
      | id :: as :: ty :: r =>
        if is ty "path" then
          match r with
          | pkg :: ver :: n :: r =>
            match pMany pSeg (natOf n) r with
            | some (segs, r) => some (.imp id (optStr as) (.path pkg (optStr ver) segs), r)
            | none => none
          | _ => none
        else if is ty "func" then
          match r with
          | s :: r => some (.imp id (optStr as) (.func (natOf s)), r)
          | _ => none
        else if is ty "iface" then
          match r with
          | n :: r =>
            match pMany pFunc (natOf n) r with
            | some (fs, r) => some (.imp id (optStr as) (.iface fs), r)
            | none => none
          | _ => none
        else if is ty "ident" then
          match r with
          | x :: r => some (.imp id (optStr as) (.ident x), r)
          | _ => none
        else none
      | _ => none
    else if is t "ifc" then
      match r with
      | id :: n :: r =>
        match pMany pFunc (natOf n) r with
        | some (fs, r) => some (.iface id fs, r)
        | none => none
      | _ => none
    else if is t "let" then
      match r with
      | id :: r =>
        match pExpr r with
        | some (e, r) => some (.bind id e, r)
        | none => none
      | _ => none
    else if is t "exp" then
      match pExpr r with
      | some (e, o :: r) =>
        if is o "none" then some (.exp e .none, r)
        else if is o "spread" then some (.exp e .spread, r)
        else if is o "as" then
          match r with
          | n :: r => some (.exp e (.as n), r)
          | _ => none
        else none
      | _ => none
    else none
  | [] => none

def pCase : Toks → Option (Lib × Program × Str)
  | self :: l :: n :: r =>
    if !is l "L" then none else
    match pMany pPackage (natOf n) r with
    | some (lib, p :: m :: r) =>
      if !is p "P" then none else
      match pMany pStmt (natOf m) r with
      | some (stmts, [obs]) => some (lib, { self := self, stmts := stmts }, obs)
      | _ => none
    | _ => none
  | _ => none

def judge (fs : List (List Char)) : String :=
  match fs with
  | kind :: rest =>
    if is kind "prog-failed" then "ok" else   -- reported by the harness itself (`!FAIL`)
    if !is kind "prog" then "BAD\tunknown kind" else
    match rest with
    | _text :: rest =>
      match pCase rest with
      | none => "BAD\tcannot read the case"
      | some (lib, prog, obs) =>
        if !lib.wf then "BAD\tlibrary with duplicate import names (outside the refinement theorem)" else
        let spec := renderResult (Spec.eval prog lib)
        let model := renderResult (Model.resolveModel prog lib)
        if obs != spec then
          s!"SPEC\tspec={escape spec}\timpl={escape obs}\tmodel={escape model}"
        else if obs != model then
          s!"MODEL\tmodel={escape model}\timpl={escape obs}"
        else "ok"
    | [] => "BAD\tfields"
  | _ => "BAD\tfields"

def main : IO Unit := Wac.Proto.run judge
