import WacModel.Proto
import WacModel.AstJson
import WacModel.Printer
import WacModel.Spec.Grammar
/-
  Driver for C13.  Case kind:
    print <source> <printed by DocumentPrinter | PANIC>
  SPEC  (specification on the implementation's output): the printed text is a document of the
        grammar and its derivation tree (no spans, no comments) is the one of the source.
  MODEL: the model printer applied to the model parser's tree gives the same text.
  (Whether the real re-parse preserves doc comments and whether the second print is byte-equal is
  decided by the harness with the real code.)
-/
open Wac Wac.Proto Wac.Json Wac.Parse

def judge (fs : List (List Char)) : String :=
  match fs with
  | [k, src, printed] =>
    if k != "print".toList then "BAD\tunknown kind"
    else if printed == "PANIC".toList then "MODEL\timplementation panicked"
    else
      let specMsg : Option String :=
        match Wac.Spec.Grammar.verdictWith Wac.Generated.maxNestingDepth src with
        | .accept d =>
          match Wac.Spec.Grammar.verdictWith Wac.Generated.maxNestingDepth printed with
          | .accept d' =>
            let a := (documentJ d).strip.render
            let b := (documentJ d').strip.render
            if a == b then none else some s!"the printed text derives a different tree: source={a} printed={b}"
          | .reject why => some s!"the printed text is not derivable from the grammar ({why})"
          | .ambiguous n => some s!"the printed text has {n} derivations"
        | _ => none   -- the source itself is outside the specification: C12's business
      match specMsg with
      | some m => "SPEC\t" ++ m
      | none =>
        match parseDocument src with
        | .error e => s!"MODEL\tmodel rejects the source ({errorStr e})"
        | .ok d =>
          let m := Wac.Print.document d
          if m == printed then "ok"
          else s!"MODEL\tprinted text: model={escape m} impl={escape printed}"
  | _ => "BAD\tfields"

def main : IO Unit := Wac.Proto.run judge
