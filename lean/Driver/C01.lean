import WacModel.EncJudge
/-
  Driver for C01.  Case kinds:
    enc  <gen> <define> <graph> <real toposort> <result>   a composition built by graph operations
    doc  <gen>                                             a WAC document (judged by the harness alone)
    skip <gen>                                             a graph whose queries failed (harness-judged)

  SPEC  for `enc`: the real result is not a post-hoc `ValidationFailure` and not a panic, and
        every index operand of the real output is in scope (the independent reader found a
        provenance for every operand: no `BAD` term).  Validity proper is the validator's verdict,
        reported by the harness.
  MODEL for `enc`: as for C02 (toposort, wiring item for item, error variants with their ids).
-/
open Wac Wac.Proto Wac.EncProto Wac.Spec Wac.EncJudge

partial def termBad : Term → Bool
  | .bad => true
  | .aliasOf t _ => termBad t
  | .exported _ t => termBad t
  | _ => false

def wiringBad (w : Wiring) : Bool :=
  w.insts.any (fun i => termBad i.comp || i.args.any fun (a : Str × Kind × Term) => termBad a.2.2) ||
  w.aliases.any (fun (a : Term × Kind × Str) => termBad a.1) ||
  w.exports.any (fun (a : Str × Kind × Term) => termBad a.2.2) ||
  w.names.any (fun (a : Kind × Term × Str) => termBad a.2.1)

def judgeC01 (define : Bool) (g : GraphVal) (topo : Except Nat (List Nat)) (r : RealRes) : String :=
  match r with
  | .validation => "SPEC\tpost-hoc ValidationFailure for a composition whose operations were all accepted"
  | .panic => "SPEC\tencode panicked"
  | .ok w =>
    if wiringBad w then "SPEC\tan index operand of the output is out of scope: " ++ showWiring w
    else
      let v := judgeEnc define g topo r
      if v.startsWith "SPEC" then "ok" else v
  | _ =>
    let v := judgeEnc define g topo r
    if v.startsWith "SPEC" then "ok" else v

def judgeAll (fs : List (List Char)) : String :=
  match fs with
  | [k, _gen, define, gf, tf, rf] =>
    if k != "enc".toList then "BAD\tunknown kind"
    else
      match run graph gf, run topoP tf, run realRes rf with
      | some g, some topo, some r => judgeC01 (define == ['1']) g topo r
      | none, _, _ => "BAD\tgraph"
      | _, none, _ => "BAD\ttoposort"
      | _, _, none => "BAD\tresult"
  | [k, _gen] => if k == "doc".toList || k == "skip".toList then "ok" else "BAD\tunknown kind"
  | _ => "BAD\tfields"

def main : IO Unit := Wac.Proto.run judgeAll
