import WacModel.Proto
import WacModel.Spec.Discovery
/-
  Driver for C17.  One case kind:
    doc <wac text> <ast tokens…> <pk> <nkeys> key* <nhook> key*
  The AST tokens are written by the harness from the *real* parsed `wac_parser::Document`
  (everything that can mention a package; type-level leaves are elided):
      doc   ::= <pkgname> <pkgver|\e;> tgt <nstmts> stmt*
      tgt   ::= 0 | 1 path
      path  ::= <name> <ver|\e;> <segments>
      stmt  ::= SI <id> itype | ST tstmt | SL <id> expr | SE expr
      itype ::= P path | F | N <n> iitem* | X <id>
      iitem ::= U upath | T | E
      upath ::= P path | X <id>
      tstmt ::= N <id> <n> iitem* | W <id> <n> witem* | T
      witem ::= U upath | T | I wpath | E wpath | C wref
      wpath ::= M <id> etype | P path | X <id>
      etype ::= X | F | N <n> iitem*
      wref  ::= P path | X <id>
      expr  ::= prim <npostfix>
      prim  ::= N <pkgname> <ver|\e;> <nargs> arg* | P expr | X <id>
      arg   ::= I <id> | S <id> | M expr | F
  <pk> = `ok` (then the keys of `wac_resolver::packages`, in order) or `err` (CannotInstantiateSelf,
  no keys); the hook list = keys `AstResolver::resolve_package` was called with while resolving
  with every library package supplied (empty when discovery failed).  A key is `name` or `name@version`.
  Verdicts:
    SPEC   a requested key was not discovered / the own package was discovered / discovery
           failed although no `new` names the own package (or the converse);
    MODEL  `discover` ≠ the observed keys, or a requested key is not in `requests`.
-/
open Wac Wac.Ast Wac.Discover Wac.Proto

abbrev Toks := List Str

def natOf (s : Str) : Nat := s.foldl (fun a c => 10 * a + (c.toNat - '0'.toNat)) 0
def is (t : Str) (s : String) : Bool := t == s.toList

def showVersion (v : Version) : Str :=
  (toString v.major).toList ++ ['.'] ++ (toString v.minor).toList ++ ['.'] ++ (toString v.patch).toList ++
    (if v.pre.isEmpty then [] else '-' :: v.pre) ++ (if v.build.isEmpty then [] else '+' :: v.build)

def showKey (k : Key) : Str :=
  match k.version with
  | none => k.name
  | some v => k.name ++ ['@'] ++ showVersion v

def showKeys (ks : List Key) : String := String.ofList (String.intercalate "," (ks.map fun k => String.ofList (showKey k))).toList

/-- `\e;` = no version; otherwise it must parse (the real parser accepted it) -/
def pVer (s : Str) : Option (Option Version) :=
  if s.isEmpty then some none else (parseVersion s).map some

def mkIdent (s : Str) : Ident := { string := s, escaped := false, span := default }

def pPath : Toks → Option (PackagePath × Toks)
  | name :: ver :: segs :: r =>
    match pVer ver with
    | some v => some ({ span := default, string := name ++ ['/'] ++ segs, name := name, segments := segs, version := v }, r)
    | none => none
  | _ => none

partial def pMany {α} (p : Toks → Option (α × Toks)) : Nat → Toks → Option (List α × Toks)
  | 0, r => some ([], r)
  | n + 1, r =>
    match p r with
    | some (a, r) =>
      match pMany p n r with
      | some (as, r) => some (a :: as, r)
      | none => none
    | none => none

def pUsePath : Toks → Option (UsePath × Toks)
  | t :: r =>
    if is t "P" then (pPath r).map fun (p, r) => (.Package p, r)
    else if is t "X" then
      match r with
      | id :: r => some (.Ident (mkIdent id), r)
      | _ => none
    else none
  | _ => none

def pIItem : Toks → Option (InterfaceItem × Toks)
  | t :: r =>
    if is t "U" then (pUsePath r).map fun (p, r) => (.Use { docs := [], path := p, items := [] }, r)
    else if is t "T" then some (.Type' default, r)
    else if is t "E" then some (.Export default, r)
    else none
  | _ => none

def pIItems : Toks → Option (List InterfaceItem × Toks)
  | n :: r => pMany pIItem (natOf n) r
  | _ => none

def pWPath : Toks → Option (WorldItemPath × Toks)
  | t :: r =>
    if is t "P" then (pPath r).map fun (p, r) => (.Package p, r)
    else if is t "X" then
      match r with
      | id :: r => some (.Ident (mkIdent id), r)
      | _ => none
    else if is t "M" then
      match r with
      | id :: e :: r =>
        if is e "X" then some (.Named { id := mkIdent id, ty := .Ident default }, r)
        else if is e "F" then some (.Named { id := mkIdent id, ty := .Func default }, r)
        else if is e "N" then (pIItems r).map fun (items, r) => (.Named { id := mkIdent id, ty := .Interface { items := items } }, r)
        else none
      | _ => none
    else none
  | _ => none

def pWItem : Toks → Option (WorldItem × Toks)
  | t :: r =>
    if is t "U" then (pUsePath r).map fun (p, r) => (.Use { docs := [], path := p, items := [] }, r)
    else if is t "T" then some (.Type' default, r)
    else if is t "I" then (pWPath r).map fun (p, r) => (.Import { docs := [], path := p }, r)
    else if is t "E" then (pWPath r).map fun (p, r) => (.Export { docs := [], path := p }, r)
    else if is t "C" then
      match r with
      | k :: r =>
        if is k "P" then (pPath r).map fun (p, r) => (.Include { docs := [], world := .Package p, withItems := [] }, r)
        else if is k "X" then
          match r with
          | id :: r => some (.Include { docs := [], world := .Ident (mkIdent id), withItems := [] }, r)
          | _ => none
        else none
      | _ => none
    else none
  | _ => none

mutual
partial def pExpr : Toks → Option (Expr × Toks)
  | t :: r =>
    let prim : Option (PrimaryExpr × Toks) :=
      if is t "N" then
        match r with
        | name :: ver :: n :: r =>
          match pVer ver, pArgs (natOf n) r with
          | some v, some (args, r) =>
            some (.New (.mk default { string := name, name := name, version := v, span := default } args), r)
          | _, _ => none
        | _ => none
      else if is t "P" then (pExpr r).map fun (e, r) => (.Nested (.mk default e), r)
      else if is t "X" then
        match r with
        | id :: r => some (.Ident (mkIdent id), r)
        | _ => none
      else none
    match prim with
    | some (p, np :: r) =>
      some (.mk default p ((List.range (natOf np)).map fun _ => .Access { span := default, id := default }), r)
    | _ => none
  | _ => none
partial def pArgs : Nat → Toks → Option (List InstantiationArgument × Toks)
  | 0, r => some ([], r)
  | n + 1, t :: r =>
    let one : Option (InstantiationArgument × Toks) :=
      if is t "I" then
        match r with
        | id :: r => some (.Inferred (mkIdent id), r)
        | _ => none
      else if is t "S" then
        match r with
        | id :: r => some (.Spread (mkIdent id), r)
        | _ => none
      else if is t "F" then some (.Fill default, r)
      else if is t "M" then (pExpr r).map fun (e, r) => (.Named (.mk (.Ident default) e), r)
      else none
    match one with
    | some (a, r) =>
      match pArgs n r with
      | some (as, r) => some (a :: as, r)
      | none => none
    | none => none
  | _, _ => none
end

def pStmt : Toks → Option (Statement × Toks)
  | t :: r =>
    if is t "SI" then
      match r with
      | id :: k :: r =>
        let ty : Option (ImportType × Toks) :=
          if is k "P" then (pPath r).map fun (p, r) => (.Package p, r)
          else if is k "F" then some (.Func default, r)
          else if is k "N" then (pIItems r).map fun (items, r) => (.Interface { items := items }, r)
          else if is k "X" then
            match r with
            | x :: r => some (.Ident (mkIdent x), r)
            | _ => none
          else none
        ty.map fun (ty, r) => (.Import { docs := [], id := mkIdent id, name := none, ty := ty }, r)
      | _ => none
    else if is t "ST" then
      match r with
      | k :: r =>
        if is k "T" then some (.Type' (.Type' default), r)
        else if is k "N" then
          match r with
          | id :: r => (pIItems r).map fun (items, r) => (.Type' (.Interface { docs := [], id := mkIdent id, items := items }), r)
          | _ => none
        else if is k "W" then
          match r with
          | id :: n :: r => (pMany pWItem (natOf n) r).map fun (items, r) => (.Type' (.World { docs := [], id := mkIdent id, items := items }), r)
          | _ => none
        else none
      | _ => none
    else if is t "SL" then
      match r with
      | id :: r => (pExpr r).map fun (e, r) => (.Let { docs := [], id := mkIdent id, expr := e }, r)
      | _ => none
    else if is t "SE" then (pExpr r).map fun (e, r) => (.Export { docs := [], expr := e, options := .None }, r)
    else none
  | _ => none

def pDoc : Toks → Option (Document × Toks)
  | name :: ver :: tgt :: r =>
    match pVer ver with
    | none => none
    | some v =>
      let pkg : PackageName := { string := name, name := name, version := v, span := default }
      let tr : Option (Option PackagePath × Toks) :=
        if is tgt "0" then some (none, r) else (pPath r).map fun (p, r) => (some p, r)
      match tr with
      | some (t, n :: r) =>
        (pMany pStmt (natOf n) r).map fun (stmts, r) =>
          ({ docs := [], directive := { package := pkg, targets := t }, statements := stmts }, r)
      | _ => none
  | _ => none

/-- `name` or `name@version` -/
def pKey (s : Str) : Option Key :=
  match s.span (· != '@') with
  | (name, []) => some ⟨name, none⟩
  | (name, _ :: ver) => (parseVersion ver).map fun v => ⟨name, some v⟩

def pKeys : Toks → Option (List Key × Toks)
  | n :: r =>
    let n := natOf n
    if r.length < n then none
    else
      match (r.take n).mapM pKey with
      | some ks => some (ks, r.drop n)
      | none => none
  | _ => none

def judge (fs : List (List Char)) : String :=
  match fs with
  | kind :: rest =>
    if is kind "doc-failed" then "ok" else   -- reported by the harness itself (`!FAIL`)
    if !is kind "doc" then "BAD\tunknown kind" else
    match rest with
    | _text :: rest =>
      match pDoc rest with
      | none => "BAD\tcannot read the document"
      | some (d, pk :: rest) =>
        match pKeys rest with
        | none => "BAD\tcannot read the discovered keys"
        | some (found, rest) =>
          match pKeys rest with
          | some (hook, []) =>
            let self := d.directive.package.name
            let model := discover d
            if is pk "err" then
              if !Spec.instantiatesSelf d then "SPEC\tdiscovery rejected a document that does not instantiate its own package"
              else match model with
                | .error _ => "ok"
                | .ok ks => s!"MODEL\tmodel=ok [{showKeys ks}] impl=err"
            else
              if Spec.instantiatesSelf d then "SPEC\tdiscovery accepted a document that instantiates its own package"
              else if !Spec.covers self found hook then
                s!"SPEC\tdiscovered=[{showKeys found}] requested=[{showKeys hook}]"
              else match model with
                | .error _ => "MODEL\tmodel=err impl=ok"
                | .ok ks =>
                  if ks != found then s!"MODEL\tmodel=[{showKeys ks}] impl=[{showKeys found}]"
                  else if !hook.all ((requests d).contains ·) then
                    s!"MODEL\trequests=[{showKeys (requests d)}] requested=[{showKeys hook}]"
                  else "ok"
          | _ => "BAD\tcannot read the requested keys"
      | _ => "BAD\tfields"
    | [] => "BAD\tfields"
  | _ => "BAD\tfields"

def main : IO Unit := Wac.Proto.run judge
