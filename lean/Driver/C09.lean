import WacModel.Proto
import WacModel.Aggregate
import WacModel.Spec.Sub
import WacModel.Spec.Names
import WacModel.Spec.Merge
/-
  Driver for C09.  One case = one multiset of requirements with the observation of every
  permutation (see harness/src/bin/c09.rs for the field layout).

  SPEC (on the implementation's own output, per permutation): the merged import satisfies every
  contributor (`subNames merged contributor`), the canonical name of every contributor is the
  highest version on its track, instance requirements merge to the union of their export names,
  function/value/type requirements merge to themselves; across permutations: same verdict, same
  name→tree view; and the verdict is `ok` exactly when the requirements are compatible
  (`Spec.compatibleAll`).  MODEL: the aggregator model run on the same sequence.
-/
open Wac Wac.Proto Wac.Spec

def natOf (s : List Char) : Nat := s.foldl (fun a c => 10 * a + (c.toNat - '0'.toNat)) 0

structure Contrib where
  types : Types
  name : Str
  kind : ItemKind
  tree : Tree
  /-- named interfaces reached through `uses` (transitively): implicit requirements -/
  used : List (Str × Tree)

/-- the named interfaces an interface / world reaches through its `uses`, transitively -/
def usedClosure (t : Types) : Nat → List Nat → List Nat → List Nat
  | 0, _, acc => acc
  | fuel + 1, [], acc => let _ := fuel; acc
  | fuel + 1, i :: todo, acc =>
    if acc.contains i then usedClosure t fuel todo acc
    else
      let next := match t.interfaces[i]? with
        | some itf => itf.uses.map (·.2.interface)
        | none => []
      usedClosure t fuel (next ++ todo) (i :: acc)

def usedOf (t : Types) (k : ItemKind) : List (Str × Tree) :=
  let roots : List Nat := match k with
    | .instance i | .type (.interface i) => ((t.interfaces[i]?).map fun itf => itf.uses.map (·.2.interface)).getD []
    | .component w | .type (.world w) => ((t.worlds[w]?).map fun wd => wd.uses.map (·.2.interface)).getD []
    | _ => []
  (usedClosure t (t.interfaces.length * t.interfaces.length + 2) roots []).filterMap fun i =>
    match t.interfaces[i]? with
    | some itf => match itf.id, t.unfold (.instance i) with
      | some n, some tr => some (n, tr)
      | _, _ => none
    | none => none

inductive Obs
  | ok (types : Types) (imports : List (Str × ItemKind)) (canon : List Str)
  | err (step : Nat) (msg : String)
  | panic (msg : String)

structure PermObs where
  order : List Nat
  obs : Obs

def splitDots (s : List Char) : List Nat :=
  (String.ofList s).splitOn "." |>.map (fun x => natOf x.toList)

def takeContribs : Nat → List (List Char) → List Contrib → Option (List Contrib × List (List Char))
  | 0, fs, acc => some (acc.reverse, fs)
  | n + 1, t :: nm :: k :: fs, acc =>
    match parseTypes t, parseKind k with
    | some ty, some kd =>
      match ty.unfold kd with
      | some tr => takeContribs n fs ({ types := ty, name := nm, kind := kd, tree := tr, used := usedOf ty kd } :: acc)
      | none => none
    | _, _ => none
  | _ + 1, _, _ => none

def takePairs : Nat → List (List Char) → List (Str × ItemKind) → Option (List (Str × ItemKind) × List (List Char))
  | 0, fs, acc => some (acc.reverse, fs)
  | n + 1, nm :: k :: fs, acc =>
    match parseKind k with
    | some kd => takePairs n fs ((nm, kd) :: acc)
    | none => none
  | _ + 1, _, _ => none

def takePerms (ncontrib : Nat) : Nat → List (List Char) → List PermObs → Option (List PermObs)
  | 0, _, acc => some acc.reverse
  | p + 1, ord :: tag :: fs, acc =>
    let order := splitDots ord
    if tag == "ok".toList then
      match fs with
      | t :: k :: rest =>
        match parseTypes t, takePairs (natOf k) rest [] with
        | some ty, some (imps, rest') =>
          let canon := rest'.take ncontrib
          takePerms ncontrib p (rest'.drop ncontrib) ({ order := order, obs := .ok ty imps canon } :: acc)
        | _, _ => none
      | _ => none
    else if tag == "err".toList then
      match fs with
      | st :: msg :: rest => takePerms ncontrib p rest ({ order := order, obs := .err (natOf st) (String.ofList msg) } :: acc)
      | _ => none
    else
      match fs with
      | _ :: msg :: rest => takePerms ncontrib p rest ({ order := order, obs := .panic (String.ofList msg) } :: acc)
      | _ => none
  | _ + 1, _, _ => none

/-- name → normalised tree view of a successful aggregation -/
def viewOf (types : Types) (imports : List (Str × ItemKind)) : Option (List (Str × Tree)) :=
  imports.mapM fun (n, k) => (types.unfold k).map fun t => (n, normTree (eraseRes t))

def sortView (v : List (Str × Tree)) : List (Str × Tree) :=
  v.mergeSort fun a b => decide (a.1 ≤ b.1)

def showOrder (o : List Nat) : String := ".".intercalate (o.map toString)

/-- the interface an instance requirement / import is about -/
def ifaceOf : ItemKind → Option Nat
  | .instance i | .type (.interface i) => some i
  | _ => none

/-- the `uses` of interface `i`: (local name, id of the interface the type is used from, name
there when it was renamed) -/
def usesView (t : Types) (i : Nat) : List (Str × Option Str × Option Str) :=
  match t.interfaces[i]? with
  | some itf => itf.uses.map fun (u, ut) => (u, (t.interfaces[ut.interface]?).bind (·.id), ut.name)
  | none => []

/-- two interface names are versions of one interface (same semver track, or the same name) -/
def sameTrack (a b : Str) : Bool :=
  match trackOf a, trackOf b with
  | some x, some y => x == y
  | none, none => a == b
  | _, _ => false

def showOptStr (o : Option Str) : String :=
  match o with
  | some s => String.ofList s
  | none => "<anonymous>"

/-- SPEC checks on one successful permutation -/
def specOne (cs : List Contrib) (order : List Nat) (types : Types) (imports : List (Str × ItemKind)) (canon : List Str) :
    Option String :=
  let tag := s!"perm {showOrder order}"
  -- names that take part in naming: the contributors' and whatever else got imported
  -- (owner interfaces of used resources are imported implicitly under their own name)
  let names := (cs.map (·.name) ++ imports.map (·.1)).eraseDups
  let resFree := cs.all fun c => c.tree.resourceFree
  let rec go (j : Nat) (l : List Contrib) (cn : List Str) : Option String :=
    match l, cn with
    | c :: l', n :: cn' =>
      -- canonical name: the highest version on the contributor's track (or the name itself)
      let expected := canonicalSpec names c.name
      if n != expected then
        some s!"SPEC\t{tag}: canonical name of `{String.ofList c.name}` is `{String.ofList n}`, highest compatible version is `{String.ofList expected}`"
      else
        match amGet imports n with
        | none => some s!"SPEC\t{tag}: canonical name `{String.ofList n}` is not an import"
        | some k =>
          match types.unfold k with
          | none => some s!"BAD\t{tag}: merged import does not unfold"
          | some m =>
            if !subNames m c.tree then
              some s!"SPEC\t{tag}: upper bound fails: merged import `{String.ofList n}` does not satisfy contributor {j} (`{String.ofList c.name}`): {subWhy (eraseRes m) (eraseRes c.tree)}"
            else if isEqItem c.tree && eraseRes m != eraseRes c.tree then
              some s!"SPEC\t{tag}: equal requirement `{String.ofList c.name}` did not merge to itself"
            else go (j + 1) l' cn'
    | _, _ => none
  match go 0 cs canon with
  | some e => some e
  | none =>
    -- instance requirements merge to the union of their exports (top level)
    let rec uni (l : List Contrib) : Option String :=
      match l with
      | [] => none
      | c :: l' =>
        match c.tree with
        | .instance _ =>
          let cn := canonicalSpec names c.name
          let group := cs.filter fun d => canonicalSpec names d.name == cn
          -- interfaces reached through `uses` are implicit contributors of their own track
          let implicit := (cs.flatMap (·.used)).filter fun u => canonicalSpec names u.1 == cn
          if group.all (fun d => match d.tree with | .instance _ => true | _ => false) then
            match (amGet imports cn).bind types.unfold with
            | some (.instance f) =>
              let want := ((group.map (·.tree) ++ implicit.map (·.2)).flatMap fun d => match d with | .instance g => g.names | _ => []).eraseDups
              let got := f.names
              if want.all got.contains && (!resFree || got.all want.contains) then uni l'
              else some s!"SPEC\t{tag}: exports of merged instance `{String.ofList cn}` are not the union of its contributors' exports"
            | _ => some s!"SPEC\t{tag}: merged import `{String.ofList cn}` of instance requirements is not an instance"
          else uni l'
        | _ => uni l'
    match uni cs with
    | some e => some e
    | none =>
      -- the merged interface still ties every type a contributor `use`s to (a version of) the
      -- interface the contributor uses it from: without the `use` the merged import's type is a
      -- fresh one and the contributor's requirement "this is `types`'s `res`" is not satisfied
      let rec usesKept (j : Nat) (l : List Contrib) (cn : List Str) : Option String :=
        match l, cn with
        | c :: l', n :: cn' =>
          match ifaceOf c.kind, (amGet imports n).bind ifaceOf with
          | some i, some m =>
            let mv := usesView types m
            let missing := (usesView c.types i).find? fun (u, jid, nm) =>
              match jid with
              | none => false
              | some jn => !(mv.any fun (u', jid', nm') =>
                  u' == u && nm' == nm && (match jid' with | some jn' => sameTrack jn' jn | none => false))
            match missing with
            | some (u, jid, _) =>
              some s!"SPEC\t{tag}: merged import `{String.ofList n}` lost the `use` of `{String.ofList u}` from `{showOptStr jid}` that contributor {j} (`{String.ofList c.name}`) has"
            | none => usesKept (j + 1) l' cn'
          | _, _ => usesKept (j + 1) l' cn'
        | _, _ => none
      usesKept 0 cs canon

def runModel (cs : List Contrib) (order : List Nat) : Except (Nat × AErr) AggState :=
  let rec go (l : List Nat) (step : Nat) (s : AggState) : Except (Nat × AErr) AggState :=
    match l with
    | [] => .ok s
    | i :: l' =>
      match cs[i]? with
      | none => .error (step, .panic "bad index")
      | some c =>
        match aggregate c.name c.types c.kind s with
        | .ok (_, s') => go l' (step + 1) s'
        | .error e => .error (step, e)
  go order 0 Agg.empty

def modelOne (cs : List Contrib) (p : PermObs) : Option String :=
  let tag := s!"perm {showOrder p.order}"
  match runModel cs p.order, p.obs with
  | .ok s, .ok types imports canon =>
    let mnames := s.agg.imports.map (·.1)
    let inames := imports.map (·.1)
    if mnames != inames then
      some s!"MODEL\t{tag}: import names model={mnames.map String.ofList} impl={inames.map String.ofList}"
    else
      match viewOf s.agg.types s.agg.imports, viewOf types imports with
      | some mv, some iv =>
        if mv != iv then some s!"MODEL\t{tag}: merged trees differ"
        else
          let mc := cs.map fun c => s.agg.canonical c.name
          if mc != canon then some s!"MODEL\t{tag}: canonical names model={mc.map String.ofList} impl={canon.map String.ofList}"
          else
            -- the `uses` of every imported interface (by names, not by arena indices)
            let usesOf (t : Types) (imps : List (Str × ItemKind)) :=
              imps.map fun (n, k) => (n, match ifaceOf k with | some i => usesView t i | none => [])
            let mu := usesOf s.agg.types s.agg.imports
            let iu := usesOf types imports
            -- (the id of the used interface is compared up to its semver track: the repaired code
            -- renames a merged interface to the highest version seen, which the model leaves out)
            let sameUse (x y : Str × Option Str × Option Str) : Bool :=
              x.1 == y.1 && x.2.2 == y.2.2 &&
                (match x.2.1, y.2.1 with
                 | some a, some b => sameTrack a b
                 | none, none => true
                 | _, _ => false)
            let sameUses (a b : List (Str × Option Str × Option Str)) : Bool :=
              a.length == b.length && (a.zip b).all fun (x, y) => sameUse x y
            match (mu.zip iu).find? (fun (a, b) => !(a.1 == b.1 && sameUses a.2 b.2)) with
            | some (a, b) =>
              some s!"MODEL\t{tag}: uses of import `{String.ofList a.1}` model={a.2.map fun x => (String.ofList x.1, showOptStr x.2.1, showOptStr x.2.2)} impl={b.2.map fun x => (String.ofList x.1, showOptStr x.2.1, showOptStr x.2.2)}"
            | none => none
      | _, _ => some s!"BAD\t{tag}: a merged import does not unfold"
  | .error (st, .err m), .err st' m' =>
    if st != st' then some s!"MODEL\t{tag}: failing step model={st} impl={st'}"
    else if m != m' then some s!"MODEL\t{tag}: message model={m} impl={m'}"
    else none
  | .error (_, .panic _), .panic _ => none
  | .ok _, .err st m => some s!"MODEL\t{tag}: model=ok impl=err@{st} {m}"
  | .ok _, .panic m => some s!"MODEL\t{tag}: model=ok impl=panic {m}"
  | .error (st, .err m), .ok .. => some s!"MODEL\t{tag}: model=err@{st} {m} impl=ok"
  | .error (st, .err m), .panic m' => some s!"MODEL\t{tag}: model=err@{st} {m} impl=panic {m'}"
  | .error (st, .panic m), .ok .. => some s!"MODEL\t{tag}: model=panic@{st} {m} impl=ok"
  | .error (st, .panic m), .err st' m' => some s!"MODEL\t{tag}: model=panic@{st} {m} impl=err@{st'} {m'}"

def firstSome {α : Type} (f : α → Option String) : List α → Option String
  | [] => none
  | x :: r => match f x with
    | some e => some e
    | none => firstSome f r

def judgeAgg (fs : List (List Char)) : String :=
  match fs with
  | n :: rest =>
    match takeContribs (natOf n) rest [] with
    | none => "BAD\tagg: contributors"
    | some (cs, rest) =>
      match rest with
      | p :: rest =>
        match takePerms cs.length (natOf p) rest [] with
        | none => "BAD\tagg: permutations"
        | some perms =>
          -- a panic of the implementation is reported by the harness itself (!FAIL)
          let spec1 := firstSome (fun (p : PermObs) => match p.obs with
            | .ok t i c => specOne cs p.order t i c
            | _ => none) perms
          match spec1 with
          | some e => e
          | none =>
            -- same verdict in every order
            let oks := perms.filter fun p => match p.obs with | .ok .. => true | _ => false
            if !oks.isEmpty && oks.length != perms.length then
              match perms.find? (fun p => match p.obs with | .ok .. => false | _ => true) with
              | some bad => s!"SPEC\tverdict depends on the order: perm {showOrder bad.order} fails, perm {showOrder (oks.headD bad).order} succeeds"
              | none => "ok"
            else
              -- same name→tree view in every order
              let views := oks.filterMap fun p => match p.obs with
                | .ok t i _ => (viewOf t i).map fun v => (p.order, sortView v)
                | _ => none
              let viewBad : Option (List Nat × List Nat) := match views with
                | [] => none
                | (o0, v0) :: r => (r.find? fun (x : List Nat × List (Str × Tree)) => x.2 != v0).map fun x => (o0, x.1)
              match viewBad with
              | some (o0, o1) => s!"SPEC\tmerged types depend on the order: perm {showOrder o0} vs perm {showOrder o1}"
              | none =>
                -- fails exactly when incompatible
                let compatible := compatibleAll (cs.flatMap fun (c : Contrib) => (c.name, c.tree) :: c.used)
                if compatible && oks.isEmpty then
                  match perms.head? with
                  | some { obs := .err st m, order := o } => s!"SPEC\taggregation fails on compatible requirements: perm {showOrder o} step {st}: {m}"
                  | _ => "ok"
                else if !compatible && !oks.isEmpty then
                  "SPEC\taggregation succeeds on incompatible requirements"
                else
                  match firstSome (modelOne cs) perms with
                  | some e => e
                  | none => "ok"
      | [] => "BAD\tagg: no permutations"
  | [] => "BAD\tagg"

mutual
def hasComponent : Tree → Bool
  | .component .. => true
  | .instance f => hasComponentF f
  | .type t => hasComponent t
  | _ => false
termination_by structural t => t
def hasComponentF : Forest → Bool
  | .nil => false
  | .cons _ t r => hasComponent t || hasComponentF r
termination_by structural f => f
end

/-- requirements of component or core-module kind are merged with the wrong variance for their
imports (known finding): their SPEC verdicts carry a tag of their own -/
def judgeAggTagged (fs : List (List Char)) : String :=
  let r := judgeAgg fs
  if r.startsWith "SPEC\t" then
    match fs with
    | n :: rest =>
      match takeContribs (natOf n) rest [] with
      | some (cs, _) =>
        if cs.any (fun c => hasComponent c.tree) then "SPEC\t[component-typed requirement] " ++ (r.drop 5).toString else r
      | none => r
    | [] => r
  else r

def judge (fs : List (List Char)) : String :=
  match fs with
  | k :: rest => if k == "agg".toList then judgeAggTagged rest else "BAD\tunknown kind"
  | [] => "BAD\tempty"

def main : IO Unit := Wac.Proto.run judge
