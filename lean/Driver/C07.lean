import WacModel.Proto
import WacModel.Checker
import WacModel.Spec.Sub
import WacModel.Spec.SubRes
/-
  Driver for C07.  Case kinds:

    pair <typesA> <kindA> <typesB or `=`> <kindB> <impl 1|0|P> <impl message> <oracle 1|0|->
        one `is_subtype(a, at, b, bt)` with a fresh checker.  `=`: both kinds live in the first
        collection.  oracle = wasmparser's verdict on the same two types (independent encoding).
    memo <n> <types>*n <m> (<ia> <kindA> <ib> <kindB> <impl 1|0|P> <impl message>)*m
        m checks on ONE shared checker (memo), collections referred to by position.

  SPEC first: the Lean specification `sub` on the unfolded trees against the oracle (a mismatch
  means the specification is wrong) and against the implementation's verdict (a failing input) —
  for resource-free kinds, and for kinds with resources whenever the resource names of the
  collections of the check are injective (`resourceNamesInjective`; then `sub`, which compares
  resources by identity, is what the checker must decide: theorem `resource_single_provider`).
  Then MODEL: verdict and message of the checker model.

  A `pair` answer is `ok`, followed for kinds with resources by a tag field
  `res-injective` / `res-not-injective` (whether the predicate held; `grep -c` the driver output
  to count them — the runner ignores fields after `ok`).
-/
open Wac Wac.Proto Wac.Spec

def natOf (s : List Char) : Nat := s.foldl (fun a c => 10 * a + (c.toNat - '0'.toNat)) 0

def showR : R → String × String
  | .ok => ("1", "")
  | .err m => ("0", m)
  | .panic s => ("P", s)

/-- spec verdict (resources by identity), whether both trees are resource-free, and whether the
resource names of the two collections are injective -/
def specVerdict (at_ : Types) (a : ItemKind) (bt : Types) (b : ItemKind) : Option (Bool × Bool × Bool) :=
  match at_.unfold a, bt.unfold b with
  | some ta, some tb => some (sub ta tb, ta.resourceFree && tb.resourceFree, resourceNamesInjective at_ bt)
  | _, _ => none

/-- tag of an accepted `pair` case -/
def resTag (at_ : Types) (a : ItemKind) (bt : Types) (b : ItemKind) : String :=
  match specVerdict at_ a bt b with
  | some (_, false, true) => "ok\tres-injective"
  | some (_, false, false) => "ok\tres-not-injective"
  | _ => "ok"

def judgeOne (tag : String) (at_ : Types) (a : ItemKind) (bt : Types) (b : ItemKind)
    (impl msg oracle : List Char) (model : R) : Option String :=
  let impl := String.ofList impl
  let msg := String.ofList msg
  match specVerdict at_ a bt b with
  | none => some s!"BAD\t{tag}: a kind does not unfold (dangling id or cycle)"
  | some (s, rf, inj) =>
    let ss := if s then "1" else "0"
    let orc := String.ofList oracle
    if rf && orc != "-" && orc != ss then
      some s!"SPEC\t{tag}: specification disagrees with the wasmparser oracle: spec={ss} oracle={orc} impl={impl}"
    else if rf && impl != ss then
      some s!"SPEC\t{tag}: is_subtype verdict differs from the subtype relation: spec={ss} impl={impl} msg={msg}"
    else if inj && impl != ss then
      some s!"SPEC\t{tag}: is_subtype verdict differs from the subtype relation with resources compared by identity (resource names are injective): spec={ss} impl={impl} msg={msg}"
    else
      let (mv, mm) := showR model
      if mv != impl then some s!"MODEL\t{tag}: verdict model={mv} impl={impl} modelmsg={mm} implmsg={msg}"
      else if mv == "0" && mm != msg then some s!"MODEL\t{tag}: message model={mm} impl={msg}"
      else none

def judgePair (fs : List (List Char)) : String :=
  match fs with
  | [ta, ka, tb, kb, impl, msg, oracle] =>
    match parseTypes ta, parseKind ka, parseKind kb with
    | some at_, some a, some b =>
      let bt? := if tb == ['='] then some at_ else parseTypes tb
      match bt? with
      | none => "BAD\tpair: types B"
      | some bt =>
        match judgeOne "pair" at_ a bt b impl msg oracle (checkFresh at_ a bt b) with
        | some e => e
        | none => resTag at_ a bt b
    | none, _, _ => "BAD\tpair: types A"
    | _, _, _ => "BAD\tpair: kinds"
  | _ => "BAD\tpair: field count"

def takeTypes : Nat → List (List Char) → List Types → Option (List Types × List (List Char))
  | 0, fs, acc => some (acc.reverse, fs)
  | n + 1, f :: fs, acc =>
    match parseTypes f with
    | some t => takeTypes n fs (t :: acc)
    | none => none
  | _ + 1, [], _ => none

def memoLoop (colls : List Types) : Nat → Nat → Checker → List (List Char) → String
  | 0, _, _, _ => "ok"
  | fuel + 1, i, c, ia :: ka :: ib :: kb :: impl :: msg :: rest =>
    match colls[natOf ia]?, parseKind ka, colls[natOf ib]?, parseKind kb with
    | some at_, some a, some bt, some b =>
      let (r, c') := isSubtype (checkFuel at_ bt) c at_ a bt b
      match judgeOne s!"memo#{i}" at_ a bt b impl msg ['-'] r with
      | some e => e
      | none =>
        -- one SubtypeChecker object for the whole sequence: the memo *and* the variance stack
        -- (which a failed `world` check leaves inverted) carry over
        memoLoop colls fuel (i + 1) c' rest
    | _, _, _, _ => s!"BAD\tmemo#{i}: fields"
  | _ + 1, _, _, [] => "ok"
  | _ + 1, i, _, _ => s!"BAD\tmemo#{i}: field count"

def judgeMemo (fs : List (List Char)) : String :=
  match fs with
  | n :: rest =>
    match takeTypes (natOf n) rest [] with
    | none => "BAD\tmemo: collections"
    | some (colls, rest) =>
      match rest with
      | m :: checks => memoLoop colls (natOf m + 1) 0 {} checks
      | [] => "BAD\tmemo: no checks"
  | [] => "BAD\tmemo"

def judge (fs : List (List Char)) : String :=
  match fs with
  | k :: rest =>
    if k == "pair".toList then judgePair rest
    else if k == "memo".toList then judgeMemo rest
    else "BAD\tunknown kind"
  | [] => "BAD\tempty"

def main : IO Unit := Wac.Proto.run judge
