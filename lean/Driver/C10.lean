import WacModel.GraphJudge
import WacModel.Spec.Plug
/-
  Driver for C10.  One case = one call of `wac_graph::plug` on a graph that holds only the
  registered packages:

    plug <text> <ctx…> <nreg> (<op…> <result…> 0)*nreg
         <nplugs> (<slot> <gen>)* <socket slot> <socket gen>
         <result: ok | noplug | grapherr <Variant> <k> <args…> | panic <msg>>
         <1> <observation…>        (C06 observation format, with the validator verdict in
                                     the `encode` field: 1 valid, 2 encode error, 3 panic, 4 invalid)

  SPEC: the result class is the one the specification expects (`expected`: fails / noPlug /
  supplied), the post-condition `plugPost` holds on the reported graph, the reported graph is
  consistent (`Inv`, hook report), the encoding is a valid component.
  MODEL: result and reported state equal the Lean model's (`Wac.Graph.plug`).
-/
open Wac Wac.Proto Wac.Graph Wac.GraphProto Wac.GraphJudge

def showPlugOutcome : PlugOutcome → String
  | o => flat (reprStr o)

def pPlugRes (t : Tables) : P (Except String PlugOutcome) := do
  let c ← tok
  let s := String.ofList c
  if s == "ok" then pure (.ok .ok)
  else if s == "noplug" then pure (.ok .noPlugHappened)
  else if s == "panic" then do
    let m ← tok
    pure (.error (String.ofList m))
  else if s == "grapherr" then do
    -- reuse the error reader: it expects `err V k args`
    let r ← (fun toks => pRes t (("err".toList) :: toks))
    match r with
    | .out (.err e) => pure (.ok (.graphError e))
    | _ => failure
  else failure

def judgePlug : P String := do
  let _text ← tok
  let t ← pTables
  let ctx := t.ctx
  -- registrations
  let nreg ← nat
  let rec regs : Nat → Graph → P (Except String Graph)
    | 0, g => pure (.ok g)
    | n + 1, g => do
      let op ← pOp t
      let res ← pRes t
      let _flag ← nat
      let (g', mo) := step ctx g op
      match res with
      | .out io => if mo != io then pure (.error s!"registration {showOp op}: impl={showOutcome io} model={showOutcome mo}") else regs n g'
      | _ => pure (.error "registration panicked")
  let g0 ← regs nreg {}
  match g0 with
  | .error e => pure s!"MODEL\t{e}"
  | .ok g0 =>
    let plugs ← counted (do
      let a ← nat; let b ← nat
      pure (⟨a, b⟩ : PkgId))
    let ss ← nat; let sg ← nat
    let socket : PkgId := ⟨ss, sg⟩
    let res ← pPlugRes t
    let _flag ← nat
    let o ← pObs t
    let gi := o.toGraph
    let (gm, mo) := plug ctx g0 plugs socket
    -- the package definitions behind the ids
    let defOf (id : PkgId) : Option PkgDef := (g0.pkgOf id).toOption
    match defOf socket, plugs.mapM defOf with
    | some socketD, some plugDs =>
      let exp := expected ctx socketD plugDs
      match res with
      | .error msg => pure s!"SPEC\tplug panicked with registered packages: {msg}"
      | .ok io =>
        -- SPEC: result class
        let classOk : Option String :=
          match exp, io with
          | .fails, .graphError (.argumentAlreadyPassed _ _) => none
          | .noPlug, .noPlugHappened => none
          | .supplied _, .ok => none
          | e, r => some s!"specification expects {flat (reprStr e)}, implementation returned {showPlugOutcome r}"
        match classOk with
        | some v => pure s!"SPEC\t{v}"
        | none =>
          if !o.inv.isEmpty then pure s!"SPEC\thook invariant report after plug: {o.inv}"
          else
            let rep := invReport ctx gi
            if !rep.isEmpty then pure s!"SPEC\tInv false on the graph after plug: {rep}"
            else
              let post : List String :=
                match exp with
                | .supplied args => plugPost ctx gi socket socketD (plugs.zip plugDs) args
                | _ => []
              if !post.isEmpty then pure s!"SPEC\tpost-condition: {post}"
              else if io == .ok && o.encode != 1 then
                pure s!"SPEC\ta successful plug does not encode to a valid component (code {o.encode})"
              else if mo != io then pure s!"MODEL\tresult impl={showPlugOutcome io} model={showPlugOutcome mo}"
              else match cmpState gm o with
                | some d => pure s!"MODEL\tstate after plug: {d}"
                | none => pure "ok"
    | _, _ =>
      -- an id that is not registered: both must panic
      match res, mo with
      | .error _, .panic _ => pure "ok"
      | _, _ => pure s!"MODEL\tunregistered package id: model={showPlugOutcome mo}"

def judge10 (fs : List (List Char)) : String :=
  match fs with
  | k :: rest =>
    if String.ofList k == "plug" then
      match judgePlug.run rest with
      | some (v, _) => flat' v
      | none => "BAD\tcannot read the case"
    else "BAD\tunknown kind"
  | [] => "BAD\tempty"

def main : IO Unit := Wac.Proto.run judge10
