import WacModel.Proto
import WacModel.AstJson
/-
  Driver for C14.  Case kinds:
    text  <source> <status of the supervised worker> <shape flag>
    other <job kind> <origin> <status> <size> <payload a> <payload b>   (decided by the harness alone)
  For `text` the driver runs the model front end and monitors what C14's theorems state about
  it: the model returns (no `OutOfFuel`, no `Panic`), every span of the result lies inside the
  source on character boundaries (SPEC-style monitor of the model), and its accept/reject
  verdict is the implementation's (MODEL; skipped when the harness flagged a known lexer
  artefact, which C12 owns).
-/
open Wac Wac.Proto Wac.Json Wac.Parse Wac.Lex Wac.Ast

/-- byte offsets that are character boundaries of `src`, ascending (including the end) -/
def boundaries (src : List Char) : List Nat :=
  let rec go (pos : Nat) : List Char → List Nat
    | [] => [pos]
    | c :: r => pos :: go (pos + c.utf8Size) r
  go 0 src

def spanInSource (bs : List Nat) (s : Span) : Bool := bs.contains s.offset && bs.contains (s.offset + s.len)

mutual
partial def jSpans : J → List Span
  | .arr xs => xs.flatMap jSpans
  | .obj fs =>
    match fs with
    | [("length", .num l), ("offset", .num o)] => [⟨o, l⟩]
    | _ => fs.flatMap fun (_, v) => jSpans v
  | _ => []
end

def judge (fs : List (List Char)) : String :=
  match fs with
  | [k, src, status, flag] =>
    if k != "text".toList then "BAD\tunknown kind" else
    let st := String.ofList status
    let bs := boundaries src
    let r := parseDocument src
    let bad : Option String :=
      match r with
      | .error .OutOfFuel => some "model ran out of fuel"
      | .error (.Panic site) => some s!"model reaches a panic site: {site}"
      | .error e =>
        match errorSpan e with
        | some s => if spanInSource bs s then none else some s!"model diagnostic span outside the source: {errorStr e}"
        | none => none
      | .ok d =>
        match (jSpans (documentJ d)).find? (fun s => !spanInSource bs s) with
        | some s => some s!"model tree span outside the source: {s.offset}+{s.len}"
        | none => none
    match bad with
    | some m => "SPEC\t" ++ m
    | none =>
      if flag != ['-'] then "ok"
      else if st == "accept" then
        (match r with
         | .ok _ => "ok"
         | .error e => s!"MODEL\tmodel rejects ({errorStr e}), implementation accepts")
      else if st.startsWith "reject:" then
        (match r with
         | .ok _ => s!"MODEL\tmodel accepts, implementation: {st}"
         | .error e =>
           let variant := ((errorStr e).splitOn "|").headD ""
           if "reject:" ++ variant == st then "ok" else s!"MODEL\tmodel={errorStr e} implementation={st}")
      else "ok"
  | k :: _ => if k == "other".toList then "ok" else "BAD\tfields"
  | _ => "BAD\tfields"

def main : IO Unit := Wac.Proto.run judge
