import WacModel.Proto
import WacModel.Spec.Cli
/-
  Driver for C19.  Case kinds (obs = exit, stdout token, ends with newline 0|1, token of stdout
  without that newline, stderr non-empty 0|1, stderr starts with "error" 0|1, output file "-" | F<token>):

    (every kind starts with a <tag> naming the scenario; it is used by --replay only)
    compose <--deps-dir or empty> <nD> (<pkg> <path>)*nD <no-validate> <wat> <import-deps> <-o or empty> <source>
            <deps dir the harness used> <nU> (<pkg> <path>)*nU        the harness's reading of the dependency flags
            <lib TT> <lib TF> <lib FT> <lib FF>                        library result per (define_components, validate): F:<stage> | E:<binary>:<text>
            obs
    plug    <nP> <plug path>*nP <socket> <wat> <-o or empty>
            <nR> (<package name> <path>)*nR                            the harness's reading of the plug naming (first-occurrence group order)
            <nO> <lib>*nO                                              library result for every order of the groups (first = argument order)
            obs
    targets <component> <wit> <--world or empty> <loadable> <nW> (<world> <conforms 0|1>)*nW  obs
    parse   <source> <J<json token> | ->  obs

  SPEC = the documented behaviour (WacModel/Spec/Cli.lean) evaluated on the library results;
  MODEL = the plan/run model of the command (WacModel/Cli.lean, driven by the generated tables).
-/
open Wac Wac.Proto Wac.Cli Wac.Spec.Cli

abbrev P := StateT (List Str) Option

def next : P Str := fun s => match s with | [] => none | x :: r => some (x, r)
def natOf (s : Str) : Nat := s.foldl (fun a c => 10 * a + (c.toNat - '0'.toNat)) 0
def nextNat : P Nat := do return natOf (← next)
def nextBool : P Bool := do return (← next) == ['1']
def optStr (s : Str) : Option Str := if s.isEmpty then none else some s

def repeatP {α} (n : Nat) (p : P α) : P (List α) :=
  match n with
  | 0 => pure []
  | n + 1 => do
    let a ← p
    let r ← repeatP n p
    return a :: r

structure RawObs where
  exit : Str
  full : Tok
  nl : Bool
  stripped : Tok
  stderr : Bool
  stderrError : Bool
  file : Str

def nextObs : P RawObs := do
  let exit ← next
  let full ← next
  let nl ← nextBool
  let stripped ← next
  let stderr ← nextBool
  let se ← nextBool
  let file ← next
  return { exit, full, nl, stripped, stderr, stderrError := se, file }

def parseLib (s : Str) : LibResult :=
  match s with
  | 'F' :: ':' :: stage => .failed stage
  | 'E' :: ':' :: rest =>
    let b := rest.takeWhile (· != ':')
    let t := (rest.dropWhile (· != ':')).drop 1
    .encoded b t
  | _ => .failed "unreadable".toList

/-- does the raw observation show exactly `e`? -/
def shows (o : RawObs) (e : Observation) : Bool :=
  o.exit == (toString e.exit).toList &&
  (if e.stdoutNewline then o.nl && o.stripped == e.stdout else o.full == e.stdout) &&
  (match e.file with
    | none => o.file == ['-']
    | some (_, tok) => o.file == 'F' :: tok) &&
  o.stderr == e.diagnostic &&
  (!e.diagnostic || o.stderrError)

def showObs (e : Observation) : String :=
  s!"exit={e.exit} stdout={String.ofList e.stdout}{if e.stdoutNewline then "+nl" else ""} file={match e.file with | none => "-" | some (p, t) => String.ofList p ++ "=" ++ String.ofList t} diagnostic={e.diagnostic}"

def showRaw (o : RawObs) : String :=
  s!"exit={String.ofList o.exit} stdout={String.ofList o.full}{if o.nl then "(ends with newline; without it " ++ String.ofList o.stripped ++ ")" else ""} file={String.ofList o.file} stderr={o.stderr}"

def sameMap (a b : List (Str × Str)) : Bool :=
  a.all (fun e => amGet b e.1 == some e.2) && b.all (fun e => amGet a e.1 == some e.2)

def judgeCompose : P String := do
  let _tag ← next
  let depsDir ← next
  let nD ← nextNat
  let deps ← repeatP nD (do
    let k ← next
    let p ← next
    return (k, p))
  let noValidate ← nextBool
  let wat ← nextBool
  let importDeps ← nextBool
  let output ← next
  let path ← next
  let usedDir ← next
  let nU ← nextNat
  let used ← repeatP nU (do
    let k ← next
    let p ← next
    return (k, p))
  let tt ← next
  let tf ← next
  let ft ← next
  let ff ← next
  let o ← nextObs
  let f : ComposeFlags := { depsDir := optStr depsDir, deps, noValidate, wat, importDependencies := importDeps,
                            output := optStr output, path }
  let lib : Bool → Bool → LibResult := fun d v =>
    parseLib (if d then (if v then tt else tf) else (if v then ft else ff))
  let spec := documentedComposeObservation f lib
  let plan := composePlan f
  let model := composeRun generated plan lib false true
  let doc := documentedCompose f
  -- the library results were computed for the harness's reading of --deps-dir / --dep: it must
  -- be the documented one and the plan's
  if doc.depsDir != usedDir || !(used.all fun e => doc.overrideOf e.1 == some e.2) || !(deps.all fun e => (amGet used e.1).isSome) then
    return s!"BAD\tthe harness resolved dependencies differently from the documentation"
  if !shows o spec then
    return s!"SPEC\tcompose: documented=[{showObs spec}] observed=[{showRaw o}] model=[{showObs model}]"
  if plan.depsDir != usedDir || !sameMap plan.overrides used then
    return s!"MODEL\tcompose plan: depsDir={String.ofList plan.depsDir} overrides={plan.overrides.length} differ from the documented reading"
  if !shows o model then
    return s!"MODEL\tcompose: model=[{showObs model}] observed=[{showRaw o}]"
  return "ok"

def judgePlug : P String := do
  let _tag ← next
  let nP ← nextNat
  let plugs ← repeatP nP next
  let socket ← next
  let wat ← nextBool
  let output ← next
  let nR ← nextNat
  let reference ← repeatP nR (do
    let n ← next
    let p ← next
    return (n, p))
  let nO ← nextNat
  let libs ← repeatP nO next
  let o ← nextObs
  let f : PlugFlags := { plugs, socket, wat, output := optStr output }
  let plan := plugPlan f
  let results := libs.map parseLib
  -- documented: argument order; the code iterates a HashMap of groups, so any order of the
  -- groups is what "the library pipeline" may have been given
  let specs := results.map (documentedPlugObservation f)
  let models := results.map fun r => emitRun generated plan.text plan.sink r false true
  if !(specs.any (shows o)) then
    return s!"SPEC\tplug: documented (argument order)=[{showObs (specs.headD (failure generated))}] observed=[{showRaw o}]"
  if plan.packages != reference then
    return s!"MODEL\tplug naming: model={plan.packages.map fun e => String.ofList e.1} harness={reference.map fun e => String.ofList e.1}"
  if !plan.defineComponents || !plan.validate then
    return "MODEL\tplug: the plan does not use the default EncodeOptions"
  if !(models.any (shows o)) then
    return s!"MODEL\tplug: model=[{showObs (models.headD (failure generated))}] observed=[{showRaw o}]"
  return "ok"

def judgeTargets : P String := do
  let _tag ← next
  let component ← next
  let wit ← next
  let world ← next
  let loadable ← nextBool
  let nW ← nextNat
  let ws ← repeatP nW (do
    let w ← next
    let ok ← nextBool
    return (w, ok))
  let o ← nextObs
  let f : TargetsFlags := { component, wit, world := optStr world }
  let conforms : Str → Bool := fun w => (ws.find? (fun e => e.1 == w)).map (·.2) == some true
  let worlds := ws.map (·.1)
  let specOk := documentedTargetsSuccess f loadable worlds conforms
  let spec : Observation :=
    if specOk then { exit := 0, stdout := [], stdoutNewline := false, file := none, diagnostic := false }
    else { exit := 1, stdout := [], stdoutNewline := false, file := none, diagnostic := true }
  let model := targetsRun generated f loadable worlds conforms
  if !shows o spec then
    return s!"SPEC\ttargets: documented=[{showObs spec}] observed=[{showRaw o}]"
  if !shows o model then
    return s!"MODEL\ttargets: model=[{showObs model}] observed=[{showRaw o}]"
  return "ok"

def judgeParse : P String := do
  let _tag ← next
  let _path ← next
  let json ← next
  let o ← nextObs
  let j : Option Tok := match json with | 'J' :: t => some t | _ => none
  let model := parseRun generated j
  let spec : Observation := match j with
    | some t => { exit := 0, stdout := t, stdoutNewline := true, file := none, diagnostic := false }
    | none => { exit := 1, stdout := [], stdoutNewline := false, file := none, diagnostic := true }
  if !shows o spec then
    return s!"SPEC\tparse: documented=[{showObs spec}] observed=[{showRaw o}]"
  if !shows o model then
    return s!"MODEL\tparse: model=[{showObs model}] observed=[{showRaw o}]"
  return "ok"

def judge (fs : List (List Char)) : String :=
  match fs with
  | k :: rest =>
    let p : Option (P String) :=
      if k == "compose".toList then some judgeCompose
      else if k == "plug".toList then some judgePlug
      else if k == "targets".toList then some judgeTargets
      else if k == "parse".toList then some judgeParse
      else none
    match p with
    | none => "BAD\tunknown kind"
    | some p =>
      match p.run rest with
      | some (v, _) => v
      | none => "BAD\tfields"
  | [] => "BAD\tempty"

def main : IO Unit := Wac.Proto.run judge
