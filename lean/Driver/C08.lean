import WacModel.Proto
import WacModel.Spec.Decode
/-
  Driver for C08.  Case kinds:
    decode <src-kind> <source> <W> <A> <world> <instance-type> <definitions>
        SPEC  : Spec.Decode.spec W A world inst            (implementation vs specification)
        MODEL : Decode.fromBytes W = (A, world, inst)      (implementation vs model)
    decode-error / decode-panic / note …                   (decided by the harness; answered ok)
-/
open Wac Wac.Proto Wac.Decode

def natOf (s : List Char) : Nat := s.foldl (fun a c => 10 * a + (c.toNat - '0'.toNat)) 0

def firstDiff {α : Type} [BEq α] (xs ys : List α) : Nat :=
  let rec go (xs ys : List α) (i : Nat) : Nat :=
    match xs, ys with
    | x :: xr, y :: yr => if x == y then go xr yr (i + 1) else i
    | _, _ => i
  go xs ys 0

/-- where two collections differ (arena and index) -/
def typesDiff (m a : Types) : String :=
  if m.defined != a.defined then s!"defined[{firstDiff m.defined a.defined}] (model {m.defined.length} impl {a.defined.length})"
  else if m.resources != a.resources then s!"resources[{firstDiff m.resources a.resources}] (model {m.resources.length} impl {a.resources.length})"
  else if m.funcs != a.funcs then s!"funcs[{firstDiff m.funcs a.funcs}] (model {m.funcs.length} impl {a.funcs.length})"
  else if m.interfaces != a.interfaces then s!"interfaces[{firstDiff m.interfaces a.interfaces}] (model {m.interfaces.length} impl {a.interfaces.length})"
  else if m.worlds != a.worlds then s!"worlds[{firstDiff m.worlds a.worlds}] (model {m.worlds.length} impl {a.worlds.length})"
  else if m.modules != a.modules then s!"modules[{firstDiff m.modules a.modules}]"
  else "uid"

def judgeDecode (wf af worldf instf : List Char) : String :=
  match parseW wf, parseTypes af with
  | none, _ => "BAD\tcannot parse W"
  | _, none => "BAD\tcannot parse A"
  | some w, some a =>
    let world := natOf worldf
    let inst := natOf instf
    match Wac.Spec.Decode.spec w a world inst with
    | some e => "SPEC\t" ++ e
    | none =>
      match fromBytes w with
      | .ok d =>
        if d.world != world || d.instanceType != inst then
          s!"MODEL\tworld/instance index: model {d.world}/{d.instanceType} impl {world}/{inst}"
        else if d.types == a then "ok"
        else "MODEL\tarenas differ at " ++ typesDiff d.types a
      | .err e => "MODEL\tmodel returns error: " ++ e
      | .panic p => "MODEL\tmodel panics: " ++ p

def judge (fs : List (List Char)) : String :=
  match fs with
  | k :: rest =>
    if k == "decode".toList then
      match rest with
      | [_, _, w, a, world, inst, _] => judgeDecode w a world inst
      | _ => "BAD\tdecode fields"
    else "ok"
  | [] => "BAD\tempty"

def main : IO Unit := Wac.Proto.run judge
