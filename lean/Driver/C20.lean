import WacModel.Proto
import WacModel.Spec.Registry
/-
  Driver for C20.  One case kind:

    reg <nP> (<package name> <nR> (<version> <content token>)*nR)*nP        what the harness published
        <nK> (<name> <version or empty> <span> <PackageName::new ok? 0|1>)*nK   the request, in order
        ok <n> (<index of key> <content token>)*n         result map in iteration order
      | err <Variant> <name> <version or empty> <span>

  SPEC: the observation must satisfy `specResolve` (map equal up to order / admissible error).
  MODEL: a successful observation must be exactly `resolveRegistry … π` for the completion order
  `π` read off the result's iteration order; a failure must be the model's outcome for some
  server choice `σ` and some completion order.
-/
open Wac Wac.Proto Wac.Registry Wac.Spec.Registry

abbrev P := StateT (List Str) Option

def next : P Str := fun s => match s with | [] => none | x :: r => some (x, r)
def natOf (s : Str) : Nat := s.foldl (fun a c => 10 * a + (c.toNat - '0'.toNat)) 0
def nextNat : P Nat := do return natOf (← next)

def repeatP {α} (n : Nat) (p : P α) : P (List α) :=
  match n with
  | 0 => pure []
  | n + 1 => do
    let a ← p
    let r ← repeatP n p
    return a :: r

structure Case where
  reg : Registry
  keys : List (Key × Span)
  valid : List (Str × Bool)
  impl : Outcome
  order : List Nat

def optStr (s : Str) : Option Str := if s.isEmpty then none else some s

def parseCase : P Case := do
  let nP ← nextNat
  let reg ← repeatP nP (do
    let name ← next
    let nR ← nextNat
    let rels ← repeatP nR (do
      let v ← next
      let c ← next
      return ({ version := v, content := c } : Release))
    return (name, rels))
  let nK ← nextNat
  let ks ← repeatP nK (do
    let n ← next
    let v ← next
    let sp ← next
    let ok ← next
    return (n, v, sp, ok == ['1']))
  let keys := ks.map fun (n, v, sp, _) => (({ name := n, version := optStr v } : Key), sp)
  let tag ← next
  if tag == "ok".toList then
    let n ← nextNat
    let items ← repeatP n (do
      let i ← nextNat
      let c ← next
      return (i, c))
    let m := items.filterMap fun (i, c) => keys[i]?.map fun k => (k.1, c)
    return { reg, keys, valid := ks.map fun (n, _, _, ok) => (n, ok), impl := .ok m, order := items.map (·.1) }
  else
    let variant ← next
    let name ← next
    let ver ← next
    let span ← next
    let e : RegErr :=
      if variant == "InvalidPackageName".toList then .invalidPackageName name span
      else if variant == "PackageDoesNotExist".toList then .packageDoesNotExist name span
      else if variant == "PackageVersionDoesNotExist".toList then .packageVersionDoesNotExist name ver span
      else if variant == "PackageNoReleases".toList then .packageNoReleases name span
      else .invalidPackageName ("<unmodelled variant> ".toList ++ variant) span
    return { reg, keys, valid := ks.map fun (n, _, _, ok) => (n, ok), impl := .error e, order := [] }

def showKey (k : Key) : String :=
  String.ofList k.name ++ (match k.version with | some v => "@" ++ String.ofList v | none => "")

def showErr : RegErr → String
  | .invalidPackageName n sp => s!"InvalidPackageName {String.ofList n} {String.ofList sp}"
  | .packageDoesNotExist n sp => s!"PackageDoesNotExist {String.ofList n} {String.ofList sp}"
  | .packageVersionDoesNotExist n v sp => s!"PackageVersionDoesNotExist {String.ofList n}@{String.ofList v} {String.ofList sp}"
  | .packageNoReleases n sp => s!"PackageNoReleases {String.ofList n} {String.ofList sp}"

def showOutcome : Outcome → String
  | .ok m => "ok " ++ ", ".intercalate (m.map fun (k, c) => showKey k ++ "=" ++ String.ofList c)
  | .error e => "err " ++ showErr e

def showSpec : SpecOutcome → String
  | .ok m => showOutcome (.ok m)
  | .errs es => "one of {" ++ "; ".intercalate (es.map showErr) ++ "}"

/-- every outcome the model can produce for some server choice and completion order whose
    first completion is any given task -/
def modelFailures (resolveFn : Nat → List Nat → Outcome) (n : Nat) : List Outcome :=
  (List.range (n + 1)).flatMap fun σ =>
    (List.range (n + 1)).map fun i => resolveFn σ (i :: (List.range n).filter (· != i))

def judge (fs : List (List Char)) : String :=
  match fs with
  | k :: rest =>
    if k != "reg".toList then "BAD\tunknown kind" else
    match parseCase.run rest with
    | none => "BAD\treg fields"
    | some (c, _) =>
      let valid : Str → Bool := fun n => match c.valid.find? (fun e => e.1 == n) with | some e => e.2 | none => false
      let spec := specResolve valid c.reg c.keys
      let n := c.keys.length
      let agrees (f : Nat → List Nat → Outcome) (allTasks : Bool) : Bool :=
        match c.impl with
        | .ok _ => (!allTasks || c.order.isPerm (List.range n)) && f 0 c.order == c.impl
        | .error _ => (modelFailures f n).contains c.impl
      -- repaired code: one task per key, so the completion order is a permutation of all keys
      let okModel := agrees (resolveRegistry valid c.reg c.keys) true
      -- pinned code: one task per distinct name
      let okOrig := agrees (resolveOrig valid c.reg c.keys) false
      let hint := if !okModel && okOrig then " (= resolveOrig: one task per name, attributed by position in the key list)" else ""
      let model := showOutcome (resolveRegistry valid c.reg c.keys 0 (if c.order.isEmpty then List.range n else c.order))
      if !satisfies c.impl spec then
        s!"SPEC\tspec=[{showSpec spec}] impl=[{showOutcome c.impl}] model=[{model}]{hint}"
      else if !okModel then
        s!"MODEL\tmodel=[{model}] impl=[{showOutcome c.impl}]{hint}"
      else "ok"
  | [] => "BAD\tempty"

def main : IO Unit := Wac.Proto.run judge
