import WacModel.GraphJudge
/-
  Driver for C06: one case = one operation history on the real `CompositionGraph`
  (see WacModel/GraphJudge.lean for the grammar and the verdict order: SPEC before MODEL).
-/
def main : IO Unit := Wac.Proto.run Wac.GraphJudge.judge
