import WacProofs.Lemmas.Discover
import WacProofs.Lemmas.Superset04
import WacProofs.Lemmas.Stmt04
/-
  C17 — package discovery finds every package resolution will ask for.
  `discover` models `wac_resolver::packages` (visitor.rs + the callback in lib.rs);
  `requests` follows every `resolve_package` / `resolve_package_path` call site of resolution.rs;
  `Spec.instantiatesSelf` is the syntactic notion "some `new` names the document's own package".
-/
namespace Wac.Props.C17
open Wac Wac.Ast Wac.Discover Wac.Lemmas.C17

/-- Every package (name and version) that resolution can ask for is among the discovered keys. -/
theorem requests_subset_discover (d : Document) (ks : List Key) (h : discover d = .ok ks) :
    ∀ k ∈ requests d, k ∈ ks := by
  intro k hk
  unfold discover at h
  cases hv : visit d with
  | error e => rw [hv] at h; cases h
  | ok vs =>
    rw [hv] at h
    have : ks = collect d.directive.package.name vs := by cases h; rfl
    subst this
    rw [collect_mem]
    unfold visit at hv
    cases hs : visitStatements d.directive.package.name d.statements with
    | error e => rw [hs] at hv; cases hv
    | ok ss =>
      rw [hs] at hv
      have hvs : vs = (match d.directive.targets with | some t => [pathKey t] | none => []) ++ ss := by
        cases hv; rfl
      subst hvs
      unfold requests at hk
      rcases List.mem_append.mp hk with hk | hk
      · have := statements_cover _ d.statements ss hs k hk
        exact ⟨List.mem_append.mpr (Or.inr this.1), this.2⟩
      · cases ht : d.directive.targets with
        | none => rw [ht] at hk; cases hk
        | some t =>
          rw [ht] at hk
          obtain ⟨rfl, h2⟩ := reqPath_sub _ t k hk
          exact ⟨by simp, h2⟩

/- non-vacuity: a document whose requests are not empty is constructed in `examples` below -/

/-- The document's own package is never among the discovered keys. -/
theorem self_never_discovered (d : Document) (ks : List Key) (h : discover d = .ok ks) :
    ∀ k ∈ ks, k.name ≠ d.directive.package.name := by
  intro k hk
  unfold discover at h
  cases hv : visit d with
  | error e => rw [hv] at h; cases h
  | ok vs =>
    rw [hv] at h
    have : ks = collect d.directive.package.name vs := by cases h; rfl
    subst this
    exact ((collect_mem _ vs k).mp hk).2

/-- Discovery reports each key once (the keys of an `IndexMap`). -/
theorem discover_nodup (d : Document) (ks : List Key) (h : discover d = .ok ks) : ks.Nodup := by
  unfold discover at h
  cases hv : visit d with
  | error e => rw [hv] at h; cases h
  | ok vs =>
    rw [hv] at h
    have : ks = collect d.directive.package.name vs := by cases h; rfl
    subst this
    exact collect_nodup _ vs

/-- A document is rejected at discovery exactly when it instantiates its own package: some `new`
    expression of a `let` or `export` statement, at any depth of named arguments and parentheses,
    names the package being defined. -/
theorem self_instantiation_rejected_iff (d : Document) :
    discover d = .error .cannotInstantiateSelf ↔ Spec.instantiatesSelf d = true := by
  unfold discover visit Spec.instantiatesSelf Spec.news
  rw [← statements_error_iff]
  cases visitStatements d.directive.package.name d.statements with
  | error e => cases e; simp
  | ok ss => simp

/-- …and discovery has no other way to fail. -/
theorem discover_ok_iff (d : Document) :
    (∃ ks, discover d = .ok ks) ↔ Spec.instantiatesSelf d = false := by
  rw [← Bool.not_eq_true, ← self_instantiation_rejected_iff]
  cases h : discover d with
  | error e => cases e; simp
  | ok ks => simp

/-- The judgement the driver evaluates on every observed run (`Spec.covers`) holds of the model:
    whatever subset of `requests d` resolution actually asks for is covered by the discovered keys. -/
theorem covers_model (d : Document) (ks req : List Key) (h : discover d = .ok ks)
    (hreq : ∀ k ∈ req, k ∈ requests d) : Spec.covers d.directive.package.name ks req = true := by
  unfold Spec.covers
  simp only [Bool.and_eq_true, List.all_eq_true, List.contains_iff_mem, bne_iff_ne, ne_eq]
  exact ⟨fun k hk => requests_subset_discover d ks h k (hreq k hk), fun k hk => self_never_discovered d ks h k hk⟩

/-! ### "the same result as any superset" — proved for the statement sublanguage of C04

  FULL STATEMENT (not proved): for every document `d` and package tables `t ⊇ t'` with
  `discover d = .ok ks` and `t'` = `t` restricted to `ks`, `Document::resolve d t = Document::resolve d t'`.
  There is no Lean model of the whole resolver over the full AST; the harness decides this clause
  on every generated document.  What *is* proved is the same statement for the sublanguage whose
  resolver model is proved equal to the reference evaluator (C04): -/

/-- the packages of a library whose key is among `ks` -/
def restrict (lib : Wac.Lang.Lib) (ks : List (Wac.Lang.Str × Option Wac.Lang.Str)) : Wac.Lang.Lib :=
  lib.filter fun q => ks.any fun k => Wac.Lemmas.C04.keyIs k.1 k.2 q

/-- Libraries that agree on the package keys a program mentions (in `new` expressions and
    package-path imports) resolve identically — in particular a library and any superset of it. -/
theorem superset_irrelevant_sublanguage_partial (p : Wac.Lang.Program) (lib lib' : Wac.Lang.Lib)
    (hwf : lib.wf = true) (hwf' : lib'.wf = true)
    (h : Wac.Lemmas.C04.AgreeOn lib lib' (Wac.Lemmas.C04.progReqs p)) :
    Wac.Lang.Model.resolveModel p lib = Wac.Lang.Model.resolveModel p lib' := by
  rw [Wac.Lemmas.C04.resolveModel_eq_eval p lib (fun q hq => by
        have := (List.all_eq_true.mp hwf) q hq; simpa using this),
      Wac.Lemmas.C04.resolveModel_eq_eval p lib' (fun q hq => by
        have := (List.all_eq_true.mp hwf') q hq; simpa using this)]
  exact Wac.Lemmas.C04.eval_agree p lib lib' h

/-- Supplying exactly the packages the program mentions gives the same result as supplying all. -/
theorem exactly_mentioned_suffices_sublanguage_partial (p : Wac.Lang.Program) (lib : Wac.Lang.Lib) (hwf : lib.wf = true) :
    Wac.Lang.Model.resolveModel p lib = Wac.Lang.Model.resolveModel p (restrict lib (Wac.Lemmas.C04.progReqs p)) := by
  apply superset_irrelevant_sublanguage_partial p lib _ hwf
  · unfold Wac.Lang.Lib.wf restrict at *
    rw [List.all_eq_true] at hwf ⊢
    intro q hq
    exact hwf q (List.mem_filter.mp hq).1
  · intro k hk
    unfold restrict
    rw [Wac.Lemmas.C04.lib_find_eq, Wac.Lemmas.C04.lib_find_eq]
    symm
    apply Wac.Lemmas.C04.find_filter_keep
    intro q hq
    exact List.any_eq_true.mpr ⟨k, hk, hq⟩

section examples
def pkgName (n : String) : PackageName := { string := n.toList, name := n.toList, version := none, span := default }
def path (n s : String) : PackagePath := { span := default, string := (n ++ "/" ++ s).toList, name := n.toList, segments := s.toList, version := none }
def newE (n : String) (args : List InstantiationArgument) : Expr := .mk default (.New (.mk default (pkgName n) args)) []
/-- `package test:comp targets a:w/w; import i: foo:bar/baz; let x = new a:b { n: (new c:d {}) , ... };` -/
def doc1 : Document :=
  { docs := [], directive := { package := pkgName "test:comp", targets := some (path "a:w" "w") },
    statements := [
      .Import { docs := [], id := default, name := none, ty := .Package (path "foo:bar" "baz") },
      .Let { docs := [], id := default, expr := newE "a:b" [.Named (.mk (.Ident default) (.mk default (.Nested (.mk default (newE "c:d" []))) [])), .Fill default] }] }
/-- the same with the inner `new` naming the document's own package -/
def doc2 : Document :=
  { doc1 with statements := [
      .Let { docs := [], id := default, expr := newE "a:b" [.Named (.mk (.Ident default) (.mk default (.Nested (.mk default (newE "test:comp" []))) []))] }] }

def okLen : Except Err (List Key) → Option Nat
  | .ok ks => some ks.length
  | .error _ => none

example : (requests doc1).length = 4 := by decide
example : okLen (discover doc1) = some 4 := by decide
example : okLen (discover doc2) = none := by decide
example : Spec.instantiatesSelf doc2 = true ∧ Spec.instantiatesSelf doc1 = false := by decide
end examples

end Wac.Props.C17
