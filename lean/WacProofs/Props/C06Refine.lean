import WacModel.Spec.GraphAbs
import WacProofs.Props.C06
import WacProofs.Lemmas.GraphAbsDefine
import WacProofs.Lemmas.GraphAbsUnreg
import WacProofs.Lemmas.GraphAbsRemove
import WacProofs.Lemmas.GraphAbsUnique
import WacProofs.Lemmas.GraphAbsQueries
/-
  C06, second sentence — "every query (nodes, imports, exports, arguments, alias sources)
  reflects exactly the surviving items" — as a REFINEMENT of the graph model
  (WacModel/Graph.lean, function for function with graph.rs) to an abstract specification
  written from the API documentation (WacModel/Spec/GraphAbs.lean):

    abstract state `Abs`   = the surviving items only (live nodes, argument map, alias map,
                             "built from" relation, export / import / definition names, live
                             packages) — no satisfied sets, no per-node export name, no edge
                             order, no map order, no free lists;
    `specStep`             = what each operation means on surviving items;
    `abs : Graph → Abs`    = the abstraction function.

  Identifiers: the abstract state is keyed by the concrete node / package ids (they are
  visible in results), and the allocator's choice of the next vacant id is an INPUT of
  `specStep` (`Fresh`), instantiated with the model's LIFO choice `g.fresh`; `fresh_vacant`
  proves the chosen ids are vacant.  After a cascading removal the order of petgraph's free list
  depends on the adjacency order, which the abstract state has forgotten — this is the only
  thing the specification does not determine.
-/
namespace Wac.Props.C06Refine
open Wac Wac.Graph Wac.Props.C06

/-! ### a concrete non-trivial state for the examples -/

/-- two instantiations of `p`, an alias of the first's export passed to the second and
    exported, an import, three type definitions depending on each other -/
def histR : List Op :=
  [.register pkgW, .instantiate ⟨0, 0⟩, .instantiate ⟨0, 0⟩, .alias 0 ['a'], .setArg 1 ['a'] 2,
   .exportNode 2 ['x'], .importItem ['i'] 0, .defineType ['c'] 2, .defineType ['b'] 1, .defineType ['t'] 0]

def gR : Graph := (run ctxW {} histR).1

/-! ### the refinement step -/

/-- `AliasUnique` (one alias node per (instance, export)) is preserved by every call.  It is an
    invariant of the model that `Inv` does not list; the abstraction needs it because the
    abstract state records an alias edge at the alias node. -/
theorem aliasUnique_init : AliasUnique {} := by
  intro e he; cases he

/-- C06 refinement, one call: on a consistent graph, every call that does not panic does to the
    surviving items exactly what the specification says, and returns the specified result —
    for all 12 operations, all contexts, all states.

    (`specStep` is given the model's allocator choice `g.fresh`; see `fresh_vacant`.) -/
theorem abs_step (ctx : Ctx) (g g' : Graph) (op : Op) (out : Outcome)
    (h : Inv ctx g) (hu : AliasUnique g) (hs : step ctx g op = (g', out)) (hp : out.isPanic = false) :
    specStep ctx g.fresh (abs g) op = (abs g', out) := by
  unfold step stepWith at hs
  cases op with
  | register d => exact abs_registerPackage h hs hp
  | unregister id => exact abs_unregisterPackage h hs hp
  | defineType name ty => exact abs_defineType h hs
  | importItem name kind => exact abs_importItem h hs
  | instantiate id => exact abs_instantiate h hs hp
  | alias inst ename => exact abs_aliasInstanceExport h hu hs hp
  | setArg inst name arg => exact abs_setArg h hs hp
  | unsetArg inst name arg => exact abs_unsetArg h hs hp
  | exportNode n name => exact abs_exportNode hs hp
  | unexport n => exact abs_unexport h hs hp
  | setName n name => exact abs_setNodeName hs hp
  | removeNode n => exact abs_removeNode h hs hp

-- non-vacuity: the hypotheses hold of a cascading removal in the example state (node 0 is the
-- instantiation whose alias 2 is an argument of 1 and exported) …
example : Inv ctxW gR ∧ AliasUnique gR ∧ (step ctxW gR (.removeNode 0)).2 = .ok .unit ∧
    (step ctxW gR (.removeNode 0)).1.nodeIds = [1, 3, 4, 5, 6] := by decide
-- … and of a removal that cascades through two dependent definitions
example : (step ctxW gR (.removeNode 6)).2 = .ok .unit ∧ (step ctxW gR (.removeNode 6)).1.nodeIds = [0, 1, 2, 3] := by
  decide

-- the specification itself, evaluated on the surviving items of the example state: removing the
-- instantiation 0 removes its alias 2, frees the export name `x` and leaves the argument `a` of
-- instantiation 1 unsatisfied again
example : (specStep ctxW gR.fresh (abs gR) (.removeNode 0)).1.nodeIds = [1, 3, 4, 5, 6] ∧
    (specStep ctxW gR.fresh (abs gR) (.removeNode 0)).1.exports ['x'] = none ∧
    (abs gR).exports ['x'] = some 2 ∧ (abs gR).arg 1 0 = some 2 ∧
    (specStep ctxW gR.fresh (abs gR) (.removeNode 0)).1.arg 1 0 = none ∧
    (specStep ctxW gR.fresh (abs gR) (.removeNode 0)).1.importsQuery =
      [(['a'], 0, none), (['i'], 0, some 3)] := by decide

/-- a state that satisfies `Inv` but has two alias nodes for one export (not reachable:
    `aliasUnique_step`) -/
def gTwoAliases : Graph :=
  { (run ctxW {} [.register pkgW, .instantiate ⟨0, 0⟩, .alias 0 ['a']]).1 with
    nodes := [some ⟨.instantiation [], some ⟨0, 0⟩, 1, none, none⟩, some ⟨.alias, some ⟨0, 0⟩, 0, none, none⟩,
              some ⟨.alias, some ⟨0, 0⟩, 0, none, none⟩]
    edges := [⟨0, 2, .alias 0⟩, ⟨0, 1, .alias 0⟩] }

/-- why `abs_step` has the hypothesis `AliasUnique g` besides `Inv ctx g`: `Inv` (written from
    the anchors of the property) does not exclude two alias nodes for one export; in such a
    state — which no history reaches — `alias_instance_export` answers with the newest alias in
    adjacency order, which the surviving items do not determine -/
theorem inv_alone_insufficient :
    Inv ctxW gTwoAliases ∧ ¬ AliasUnique gTwoAliases ∧
    (step ctxW gTwoAliases (.alias 0 ['a'])).2 = .ok (.node 2) ∧
    (specStep ctxW gTwoAliases.fresh (abs gTwoAliases) (.alias 0 ['a'])).2 = .ok (.node 1) := by decide

/-- the identifiers the allocators choose are vacant in the abstract state -/
theorem fresh_vacant (ctx : Ctx) (g : Graph) (h : Inv ctx g) :
    (abs g).node g.fresh.node = none ∧ (abs g).pkg g.fresh.pkg = none :=
  Wac.Graph.fresh_vacant h

-- after removals the vacated slots are reused, last vacated first
example : ((run ctxW {} (histR ++ [.removeNode 6, .removeNode 3])).1).fresh.node = 3 := by decide

/-- `AliasUnique` is preserved by every call that does not panic -/
theorem aliasUnique_step (ctx : Ctx) (g g' : Graph) (op : Op) (out : Outcome)
    (h : Inv ctx g) (hw : TyWF ctx) (hu : AliasUnique g) (hs : step ctx g op = (g', out))
    (hp : out.isPanic = false) : AliasUnique g' := by
  have h' : Inv ctx g' := inv_step ctx g g' op out h hw hs hp
  have ha := abs_step ctx g g' op out h hu hs hp
  rw [aliasUnique_iff_abs h']
  have : abs g' = (specStep ctx g.fresh (abs g) op).1 := by rw [ha]
  rw [this]
  apply absAliasUnique_step ctx g.fresh (abs g) op ((aliasUnique_iff_abs h).mp hu)
  · intro t p hp'
    obtain ⟨s, j⟩ := p
    obtain ⟨_, ⟨d, hd⟩⟩ := h.edge_live (h.abs_alias.mp hp')
    exact node?_eq_some_lt hd
  · cases hq : (abs g).aliasOf g.fresh.node with
    | none => rfl
    | some p =>
      exfalso
      obtain ⟨s, j⟩ := p
      obtain ⟨_, ⟨d, hd⟩⟩ := h.edge_live (h.abs_alias.mp hq)
      have hv := (Wac.Graph.fresh_vacant h).1
      rw [abs_node_some hd] at hv
      cases hv

-- non-vacuity: the example universe satisfies `TyWF` (`ctxW_wf`), the example state the rest
example : TyWF ctxW ∧ Inv ctxW gR ∧ AliasUnique gR ∧ (step ctxW gR (.alias 1 ['a'])).2 = .ok (.node 7) :=
  ⟨ctxW_wf.2, by decide⟩

/-! ### over all histories -/

/-- the empty graph abstracts to the empty abstract state -/
theorem abs_empty : abs {} = Abs.empty := by
  refine Abs.ext' rfl ?_ rfl rfl rfl rfl rfl rfl ?_ rfl
  · funext n; simp [abs, Abs.empty, Graph.node?]
  · funext id; simp [abs, Abs.empty, Graph.pkgOf, Except.toOption]

/-- C06 refinement over histories: from any consistent state, a history that does not panic is,
    on the surviving items, the run of the specification (with the model's allocator choices),
    with the same results; the final state is consistent again. -/
theorem abs_run (ctx : Ctx) (hw : TyWF ctx) : ∀ (ops : List Op) (g : Graph), Inv ctx g → AliasUnique g →
    (∀ o ∈ (run ctx g ops).2, o.isPanic = false) →
    specRun ctx (abs g) ((freshTrace ctx g ops).zip ops) = (abs (run ctx g ops).1, (run ctx g ops).2) ∧
    Inv ctx (run ctx g ops).1 ∧ AliasUnique (run ctx g ops).1
  | [], _, h, hu, _ => ⟨rfl, h, hu⟩
  | op :: ops, g, h, hu, hnp => by
    unfold run runWith at hnp ⊢
    have hst' : step ctx g op = stepWith .fixed ctx g op := rfl
    cases hst : stepWith .fixed ctx g op with
    | mk g1 out =>
      rw [hst] at hnp
      simp only at hnp ⊢
      have hft : freshTrace ctx g (op :: ops) = g.fresh :: freshTrace ctx g1 ops := by
        show g.fresh :: freshTrace ctx (step ctx g op).1 ops = _
        rw [hst', hst]
      rw [hft, List.zip_cons_cons]
      cases out with
      | panic s =>
        exact absurd (hnp (.panic s) (by simp)) (by simp [Outcome.isPanic])
      | ok v =>
        simp only at hnp ⊢
        have h1 : Inv ctx g1 := inv_step ctx g g1 op (.ok v) h hw hst rfl
        have hu1 : AliasUnique g1 := aliasUnique_step ctx g g1 op (.ok v) h hw hu hst rfl
        have ha := abs_step ctx g g1 op (.ok v) h hu hst rfl
        obtain ⟨r1, r2, r3⟩ := abs_run ctx hw ops g1 h1 hu1 (fun o ho => hnp o (List.mem_cons_of_mem _ ho))
        unfold run at r1 r2 r3
        refine ⟨?_, r2, r3⟩
        rw [specRun, ha]
        simp only
        rw [r1]
      | err e =>
        simp only at hnp ⊢
        have h1 : Inv ctx g1 := inv_step ctx g g1 op (.err e) h hw hst rfl
        have hu1 : AliasUnique g1 := aliasUnique_step ctx g g1 op (.err e) h hw hu hst rfl
        have ha := abs_step ctx g g1 op (.err e) h hu hst rfl
        obtain ⟨r1, r2, r3⟩ := abs_run ctx hw ops g1 h1 hu1 (fun o ho => hnp o (List.mem_cons_of_mem _ ho))
        unfold run at r1 r2 r3
        refine ⟨?_, r2, r3⟩
        rw [specRun, ha]
        simp only
        rw [r1]

/-- … in particular from the empty graph: after ANY sequence of graph operations that did not
    panic, the surviving items are those the specification computes from the empty state -/
theorem abs_reachable (ctx : Ctx) (hw : TyWF ctx) (ops : List Op)
    (hnp : ∀ o ∈ (run ctx {} ops).2, o.isPanic = false) :
    specRun ctx Abs.empty ((freshTrace ctx {} ops).zip ops) = (abs (run ctx {} ops).1, (run ctx {} ops).2) := by
  have := (abs_run ctx hw ops {} (inv_init ctx) aliasUnique_init hnp).1
  rw [abs_empty] at this
  exact this

-- non-vacuity: a history using every operation, with removal and re-creation, does not panic
example : (∀ o ∈ (run ctxW {} (histR ++ [.unsetArg 1 ['a'] 2, .unexport 2, .setName 2 ['n'], .removeNode 6,
    .removeNode 0, .instantiate ⟨0, 0⟩, .unregister ⟨0, 0⟩, .register pkgW])).2, o.isPanic = false) := by decide

/-! ### every query reflects exactly the surviving items -/

/-- C06, "every query reflects exactly the surviving items": on a consistent graph every public
    query of the model is a function of `abs g` alone — the bookkeeping that is not a surviving
    item (satisfied sets, per-node export names, edge and map orders, free lists, dead package
    slots) cannot influence any answer.  `get_instantiation_arguments` yields the argument map
    of the node in adjacency order; it is a permutation of the abstract answer (import order). -/
theorem queries_reflect_survivors_abs (ctx : Ctx) (g : Graph) (h : Inv ctx g) :
    g.nodeIds = (abs g).nodeIds ∧
    importsQuery g = .ok (abs g).importsQuery ∧
    (∀ name, getExport g name = (abs g).getExport name) ∧
    (∀ n, getImportName g n = (abs g).getImportName n) ∧
    (∀ n, getAliasSource ctx g n = .ok ((abs g).getAliasSource ctx n)) ∧
    (∀ n, ∃ l, getInstantiationArguments g n = .ok l ∧ l.Perm ((abs g).instArgs n)) ∧
    (∀ key, getPackageByName g key = (abs g).getPackageByName key) :=
  ⟨nodeIds_abs g, importsQuery_abs h, getExport_abs g, getImportName_abs g, getAliasSource_abs h,
   getInstantiationArguments_abs h, getPackageByName_abs g⟩

/-- two consistent graphs with the same surviving items answer every query alike -/
theorem queries_agree (ctx : Ctx) (g₁ g₂ : Graph) (h₁ : Inv ctx g₁) (h₂ : Inv ctx g₂) (he : abs g₁ = abs g₂) :
    g₁.nodeIds = g₂.nodeIds ∧ importsQuery g₁ = importsQuery g₂ ∧
    (∀ name, getExport g₁ name = getExport g₂ name) ∧
    (∀ n, getImportName g₁ n = getImportName g₂ n) ∧
    (∀ n, getAliasSource ctx g₁ n = getAliasSource ctx g₂ n) ∧
    (∀ n l₁ l₂, getInstantiationArguments g₁ n = .ok l₁ → getInstantiationArguments g₂ n = .ok l₂ → l₁.Perm l₂) := by
  obtain ⟨a1, a2, a3, a4, a5, a6, _⟩ := queries_reflect_survivors_abs ctx g₁ h₁
  obtain ⟨b1, b2, b3, b4, b5, b6, _⟩ := queries_reflect_survivors_abs ctx g₂ h₂
  refine ⟨by rw [a1, b1, he], by rw [a2, b2, he], fun nm => by rw [a3, b3, he], fun n => by rw [a4, b4, he],
    fun n => by rw [a5, b5, he], ?_⟩
  intro n l₁ l₂ e1 e2
  obtain ⟨l, hl, hp⟩ := a6 n
  obtain ⟨l', hl', hp'⟩ := b6 n
  rw [e1] at hl; rw [e2] at hl'
  cases hl; cases hl'
  rw [he] at hp
  exact hp.trans hp'.symm

-- non-vacuity: two different concrete states with the same surviving items (the satisfied set
-- and the edge list are in another order)
example : gR ≠ (run ctxW {} (histR ++ [.unsetArg 1 ['a'] 2, .setArg 1 ['a'] 2])).1 := by decide

/-! ### what removal means, on surviving items -/

/-- `remove_node n`, abstractly: exactly the nodes reachable from `n` along "aliased from" and
    "built from" go — each of them (nothing is removed twice: `Abs.removeSet` is a set
    difference), and nothing else; the arguments they supplied are unsatisfied again and the
    names they held are free (all inside `Abs.removeSet`) -/
theorem remove_node_abs (ctx : Ctx) (g g' : Graph) (n : Nat) (h : Inv ctx g) (hu : AliasUnique g)
    (hs : step ctx g (.removeNode n) = (g', .ok .unit)) :
    abs g' = (abs g).removeSet ((abs g).reach n) ∧ IsClosure (abs g) n ((abs g).reach n) ∧
    (∀ m, (abs g').node m = if (abs g).reach n m = true then none else (abs g).node m) := by
  have ha := abs_step ctx g g' (.removeNode n) (.ok .unit) h hu hs rfl
  simp only [specStep] at ha
  cases hq : (abs g).node n with
  | none => rw [hq] at ha; simp at ha
  | some y =>
    rw [hq] at ha
    simp only [Prod.mk.injEq, and_true] at ha
    obtain ⟨x, hx, _⟩ := abs_node_eq_some hq
    refine ⟨ha.symm, h.reach_closure ⟨x, hx⟩, fun m => ?_⟩
    rw [← ha]; rfl

/-- `unregister_package id`, abstractly: exactly the nodes associated with the package go -/
theorem unregister_abs (ctx : Ctx) (g g' : Graph) (id : PkgId) (h : Inv ctx g) (hu : AliasUnique g)
    (hs : step ctx g (.unregister id) = (g', .ok .unit)) :
    (∀ m, (abs g').node m = if (abs g).ofPkg id m = true then none else (abs g).node m) ∧
    (abs g').pkg id = none ∧ ∀ pid, pid ≠ id → (abs g').pkg pid = (abs g).pkg pid := by
  have ha := abs_step ctx g g' (.unregister id) (.ok .unit) h hu hs rfl
  simp only [specStep] at ha
  cases hq : (abs g).pkg id with
  | none => rw [hq] at ha; simp at ha
  | some d =>
    rw [hq] at ha
    simp only [Prod.mk.injEq, and_true] at ha
    rw [← ha]
    refine ⟨fun m => rfl, by simp [upd], fun pid hne => by simp [upd, hne, Abs.removeSet]⟩

-- non-vacuity: unregistering `p` in the example state removes its two instantiations and the alias
example : (step ctxW gR (.unregister ⟨0, 0⟩)).2 = .ok .unit ∧
    (step ctxW gR (.unregister ⟨0, 0⟩)).1.nodeIds = [3, 4, 5, 6] ∧
    (List.range 7).filter ((abs gR).ofPkg ⟨0, 0⟩) = [0, 1, 2] := by decide

end Wac.Props.C06Refine
