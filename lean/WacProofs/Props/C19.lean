import WacProofs.Lemmas.Cli
/-
  C19 — the CLI does what the library does with the flags as documented.

  `composePlan` / `plugPlan` / `composeRun` / `emitRun` / `targetsRun` / `parseRun`: model of the
  command layer (WacModel/Cli.lean), parametrised by the tables regenerated from the clap
  attributes and the `EncodeOptions` literal (WacModel/Generated/CliFlags.lean);
  `documented…`: the README / `--help` reading (WacModel/Spec/Cli.lean).
  Library calls are inputs (`LibResult`: first failing stage, or the encoded bytes and their text).
  *Partial*: terminal detection, file-system write failures and clap's own parsing are inputs or
  observed by the harness only, not modelled.
-/
namespace Wac.Props.C19
open Wac Wac.Cli Wac.Spec.Cli Wac.Lemmas.Cli

/-! ### the command line -/

/-- the clap tables regenerated from the source are the documented command line: names,
    spellings, which options take values or repeat, defaults, feature guards; the sub-commands;
    how `EncodeOptions` is filled from the switches (polarity); the failure exit code -/
theorem flags_eq_documented :
    Generated.CliFlags.flags = documentedFlags ∧
    Generated.CliFlags.subcommands = documentedSubcommands ∧
    Generated.CliFlags.encodeOptions = documentedEncodeOptions ∧
    Generated.CliFlags.encodeDefaults = ["plug"] ∧
    Generated.CliFlags.exitCodes = [1] := by
  decide

/-! ### `wac compose`: each README sentence as an equation -/

def sinkOf (o : Option Str) : Sink := match o with | some p => .file p | none => .stdout

def exFlags : ComposeFlags :=
  { depsDir := none, deps := [("a:b".toList, "x.wasm".toList), ("a:b".toList, "y.wasm".toList)],
    noValidate := false, wat := true, importDependencies := true, output := some "o.wasm".toList, path := "in.wac".toList }

/-- "dependencies are embedded unless `--import-dependencies` is given" -/
theorem embeds_unless_import_dependencies (f : ComposeFlags) :
    (composePlan f).defineComponents = !f.importDependencies := by
  rfl

/-- "output is validated unless `--no-validate` is given" -/
theorem validates_unless_no_validate (f : ComposeFlags) :
    (composePlan f).validate = !f.noValidate := by
  rfl

/-- "`--deps-dir` … a different directory to search", default `deps` -/
theorem deps_dir_documented (f : ComposeFlags) :
    (composePlan f).depsDir = f.depsDir.getD "deps".toList := by
  cases h : f.depsDir <;> simp [composePlan, composePlanWith, h] <;> decide

/-- "`--dep PKG=PATH` … the location of specific dependencies": the last one given for a package -/
theorem dep_overrides_documented (f : ComposeFlags) (pkg : Str) :
    amGet (composePlan f).overrides pkg = lastOverride f.deps pkg :=
  collectOverrides_lookup f.deps pkg

example : amGet (composePlan exFlags).overrides "a:b".toList = some "y.wasm".toList := by decide

/-- all of the plan at once -/
theorem compose_plan_documented (f : ComposeFlags) :
    let plan := composePlan f
    let doc := documentedCompose f
    plan.source = doc.source ∧ plan.depsDir = doc.depsDir ∧
    (∀ pkg, amGet plan.overrides pkg = doc.overrideOf pkg) ∧
    plan.defineComponents = doc.embedDependencies ∧ plan.validate = doc.validate ∧
    plan.text = doc.text ∧ plan.sink = doc.sink := by
  exact ⟨rfl, deps_dir_documented f, dep_overrides_documented f, rfl, rfl, rfl, rfl⟩

/-- The command as a whole: on a non-terminal stdout and a writable output location, what
    `wac compose` shows (exit status, stdout, output file, diagnostic) is the documented function
    of the library's results — `-t` is the text of that same component, `-o` receives exactly the
    payload otherwise sent to stdout, failure at any stage gives exit 1, a diagnostic, no output. -/
theorem compose_observation_documented (f : ComposeFlags) (lib : Bool → Bool → LibResult) :
    composeRun generated (composePlan f) lib false true = documentedComposeObservation f lib := by
  obtain ⟨depsDir, deps, noValidate, wat, importDeps, output, path⟩ := f
  have hsink : (composePlan ⟨depsDir, deps, noValidate, wat, importDeps, output, path⟩).sink = sinkOf output := by
    cases output <;> rfl
  have hexit : generated.failureExit = 1 := by decide
  have hd : (composePlan ⟨depsDir, deps, noValidate, wat, importDeps, output, path⟩).defineComponents = !importDeps := rfl
  have hv : (composePlan ⟨depsDir, deps, noValidate, wat, importDeps, output, path⟩).validate = !noValidate := rfl
  have htext : (composePlan ⟨depsDir, deps, noValidate, wat, importDeps, output, path⟩).text = wat := rfl
  simp only [composeRun, documentedComposeObservation, documentedCompose, hd, hv, htext, hsink]
  cases lib (!importDeps) (!noValidate) with
  | failed s => simp [emitRun, Cli.failure, hexit]
  | encoded b t => cases output <;> cases wat <;> simp [emitRun, sinkOf]

/-! ### exit status and output -/

/-- "the process exits 0 exactly when the pipeline succeeds" (including the terminal guard and
    the write, which are inputs here) -/
theorem exit_zero_iff_success (text : Bool) (sink : Sink) (lib : LibResult) (isTerminal writable : Bool) :
    (emitRun generated text sink lib isTerminal writable).exit = 0 ↔
      (∃ b t, lib = .encoded b t) ∧ ¬ (text = false ∧ sink = .stdout ∧ isTerminal = true) ∧ writable = true := by
  have hexit : generated.failureExit = 1 := by decide
  cases lib with
  | failed s => simp [emitRun, Cli.failure, hexit]
  | encoded b t =>
    cases text <;> cases sink <;> cases isTerminal <;> cases writable <;> simp [emitRun, Cli.failure, hexit]

example : (emitRun generated false .stdout (.encoded "B".toList "T".toList) true true).exit = 1 := by decide

/-- "… and otherwise prints a diagnostic and exits non-zero without writing an output file"
    (and without writing to stdout) -/
theorem no_output_on_failure (text : Bool) (sink : Sink) (lib : LibResult) (isTerminal writable : Bool)
    (h : (emitRun generated text sink lib isTerminal writable).exit ≠ 0) :
    (emitRun generated text sink lib isTerminal writable).stdout = [] ∧
    (emitRun generated text sink lib isTerminal writable).file = none ∧
    (emitRun generated text sink lib isTerminal writable).diagnostic = true := by
  cases lib with
  | failed s => simp [emitRun, Cli.failure]
  | encoded b t =>
    cases text <;> cases sink <;> cases isTerminal <;> cases writable <;> simp_all [emitRun, Cli.failure]

example : (emitRun generated true (.file "o".toList) (.failed "encode".toList) false true).exit ≠ 0 := by decide

/-- "`-o` writes exactly the bytes otherwise sent to stdout": same flags with and without `-o`
    carry the same payload (in text mode stdout additionally gets one newline) -/
theorem output_file_is_stdout_payload (f : ComposeFlags) (lib : Bool → Bool → LibResult) (p : Str)
    (payload : Tok)
    (h : (composeRun generated (composePlan { f with output := some p }) lib false true).file = some (p, payload)) :
    (composeRun generated (composePlan { f with output := none }) lib false true).stdout = payload ∧
    (composeRun generated (composePlan { f with output := none }) lib false true).stdoutNewline = f.wat := by
  rw [compose_observation_documented] at h ⊢
  simp only [documentedComposeObservation, documentedCompose] at h ⊢
  cases hl : lib (!f.importDependencies) (!f.noValidate) with
  | failed s => simp [hl] at h
  | encoded b t => simp [hl] at h ⊢; exact h

example : (composeRun generated (composePlan { exFlags with output := some "o".toList }) (fun _ _ => .encoded "B".toList "T".toList) false true).file
    = some ("o".toList, "T".toList) := by decide

/-- "`-t` prints the text form of that same component": switching `-t` on changes neither the
    `EncodeOptions` nor the dependency lookup, only which form of the result is emitted -/
theorem text_is_print_of_same_component (f : ComposeFlags) (lib : Bool → Bool → LibResult) (b t : Tok)
    (h : lib (!f.importDependencies) (!f.noValidate) = .encoded b t) :
    (composeRun generated (composePlan { f with wat := false, output := none }) lib false true).stdout = b ∧
    (composeRun generated (composePlan { f with wat := true, output := none }) lib false true).stdout = t := by
  simp [compose_observation_documented, documentedComposeObservation, documentedCompose, h]

example : (composeRun generated (composePlan { exFlags with wat := false, output := none }) (fun d v => if d || !v then .failed [] else .encoded "B".toList "T".toList) false true).stdout
    = "B".toList := by decide

/-! ### `wac plug` -/

/-- plug uses the default encoding: dependencies embedded, output validated -/
theorem plug_uses_default_options (f : PlugFlags) :
    (plugPlan f).defineComponents = true ∧ (plugPlan f).validate = true := by
  constructor <;> rfl

/-- the plug packages are registered in argument order under the documented names
    `plug:<file stem>` when no two plugs share a file stem -/
theorem plug_order_is_argument_order (f : PlugFlags) (h : (f.plugs.map stemOf).Nodup) :
    (plugPlan f).packages = f.plugs.map (fun p => ("plug:".toList ++ stemOf p, p)) := by
  have hg : groupByStem f.plugs = f.plugs.map (fun p => (stemOf p, [p])) := by
    have := groupByStem_distinct f.plugs [] (by simpa using h)
    simpa [groupByStem] using this
  simp only [plugPlan, plugPlanWith, id, hg, List.flatMap_map]
  exact singleton_groups f.plugs

/-- (instance of the above, stated for two plugs) -/
theorem plug_order_is_argument_order_two (a b : Str) (socket : Str) (h : stemOf a ≠ stemOf b) :
    (plugPlan { plugs := [a, b], socket, wat := false, output := none }).packages =
      [("plug:".toList ++ stemOf a, a), ("plug:".toList ++ stemOf b, b)] := by
  have hne : (stemOf a == stemOf b) = false := by simp [h]
  simp [plugPlan, plugPlanWith, groupByStem, groupStep, amGet, hne, groupPackages, List.range, List.range.loop]

def exPlug : PlugFlags :=
  { plugs := ["x/name.wasm".toList, "name.wasm".toList, "other.wasm".toList]
    socket := "s.wasm".toList
    wat := false
    output := none }

example : (plugPlan exPlug).packages =
    [("plug:name0".toList, "x/name.wasm".toList), ("plug:name1".toList, "name.wasm".toList),
     ("plug:other".toList, "other.wasm".toList)] := by decide

/-- what `wac plug` shows is the documented function of the library's result -/
theorem plug_observation_documented (f : PlugFlags) (lib : LibResult) :
    emitRun generated (plugPlan f).text (plugPlan f).sink lib false true = documentedPlugObservation f lib := by
  obtain ⟨plugs, socket, wat, output⟩ := f
  have hsink : (plugPlan ⟨plugs, socket, wat, output⟩).sink = sinkOf output := by cases output <;> rfl
  have htext : (plugPlan ⟨plugs, socket, wat, output⟩).text = wat := rfl
  have hexit : generated.failureExit = 1 := by decide
  rw [hsink, htext]
  cases lib with
  | failed s => simp [emitRun, Cli.failure, hexit, documentedPlugObservation]
  | encoded b t => cases output <;> cases wat <;> simp [emitRun, documentedPlugObservation, sinkOf]

/-! ### `wac targets`, `wac parse` -/

/-- `wac targets` exits 0 exactly when the component conforms to the selected world; with several
    worlds and no `--world` it fails -/
theorem targets_success_documented (f : TargetsFlags) (loadable : Bool) (worlds : List Str) (conforms : Str → Bool) :
    (targetsRun generated f loadable worlds conforms).exit = 0 ↔
      documentedTargetsSuccess f loadable worlds conforms = true := by
  have hexit : generated.failureExit = 1 := by decide
  simp only [targetsRun, documentedTargetsSuccess, selectWorld]
  cases loadable with
  | false => simp [Cli.failure, hexit]
  | true =>
    cases hw : f.world with
    | some w =>
      by_cases hc : w ∈ worlds
      · by_cases hk : conforms w = true <;> simp [hc, hk, Cli.failure, hexit]
      · simp [hc, Cli.failure, hexit]
    | none =>
      match worlds with
      | [] => simp [Cli.failure, hexit]
      | [w] => by_cases hk : conforms w = true <;> simp [hk, Cli.failure, hexit]
      | _ :: _ :: _ => simp [Cli.failure, hexit]

example : documentedTargetsSuccess { component := [], wit := [], world := none } true ["a".toList, "b".toList] (fun _ => true) = false := by decide

/-- `wac parse`: the JSON and a newline on success, exit 1 and a diagnostic otherwise -/
theorem parse_exit_zero_iff (json : Option Tok) : (parseRun generated json).exit = 0 ↔ json.isSome = true := by
  have hexit : generated.failureExit = 1 := by decide
  cases json <;> simp [parseRun, Cli.failure, hexit]


/-! ### the package resolution pipeline (`PackageResolver::resolve`, src/lib.rs) -/

section
variable {κ σ β ε₁ ε₂ : Type} [DecidableEq κ]

/-- packages found on the file system (`--deps-dir` / `--dep`) are never asked of the registry -/
theorem registry_sees_only_missing (keys : List (κ × σ)) (found : List (κ × β)) :
    ∀ k ∈ retainMissing keys found, k.1 ∉ found.map (·.1) := by
  intro k hk hm
  simp only [retainMissing, List.mem_filter, Bool.not_eq_true', List.any_eq_false, beq_iff_eq] at hk
  obtain ⟨p, hp, hpk⟩ := List.mem_map.1 hm
  exact hk.2 p hp hpk

/-- without a registry: the result is the file-system result when every key was found, and
    otherwise `UnknownPackage` for the first key (in request order) that was not -/
theorem no_registry_unknown_package (fs : List (κ × σ) → Except ε₁ (List (κ × β))) (keys : List (κ × σ))
    (found : List (κ × β)) (hfs : fs keys = .ok found) :
    resolvePackages (ε₂ := ε₂) fs none keys =
      match retainMissing keys found with
      | [] => .ok found
      | (k, sp) :: _ => .error (.unknownPackage k sp) := by
  simp only [resolvePackages, hfs, finishResolve]
  cases retainMissing keys found with
  | nil => rfl
  | cons k _ => obtain ⟨a, b⟩ := k; rfl

/-- a registry that answers for every key it is asked about (C20 `no_key_dropped`) makes the
    pipeline complete: the result holds the file-system packages followed by the registry's -/
theorem pipeline_complete (fs : List (κ × σ) → Except ε₁ (List (κ × β)))
    (reg : List (κ × σ) → Except ε₂ (List (κ × β))) (keys : List (κ × σ))
    (found more : List (κ × β)) (hfs : fs keys = .ok found)
    (hreg : reg (retainMissing keys found) = .ok more)
    (hall : ∀ k ∈ retainMissing keys found, k.1 ∈ more.map (·.1)) :
    resolvePackages fs (some reg) keys = .ok (if (retainMissing keys found).isEmpty then found else found ++ more) := by
  simp only [resolvePackages, hfs]
  by_cases he : (retainMissing keys found).isEmpty = true
  · simp only [he, if_true]
    have : retainMissing keys found = [] := by simpa using he
    simp [this, finishResolve]
  · simp only [he, Bool.false_eq_true, if_false, hreg]
    have hnone : retainMissing (retainMissing keys found) more = [] := by
      simp only [retainMissing, List.filter_eq_nil_iff, List.mem_filter]
      intro k hk
      have := hall k (by simpa [retainMissing, List.mem_filter] using hk)
      obtain ⟨p, hp, hpk⟩ := List.mem_map.1 this
      simp only [Bool.not_eq_true', Bool.not_eq_false, List.any_eq_true, beq_iff_eq]
      exact ⟨p, hp, hpk⟩
    simp [hnone, finishResolve]

example : resolvePackages (κ := Nat) (σ := Nat) (β := Nat) (ε₁ := Unit) (ε₂ := Unit)
    (fun _ => .ok [(1, 10)]) none [(1, 0), (2, 0)] = .error (.unknownPackage 2 0) := by rfl

end

end Wac.Props.C19
