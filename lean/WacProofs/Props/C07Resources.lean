import WacProofs.Lemmas.C07Aux
import WacProofs.Lemmas.SubRes
/-
  C07, the resource clause on whole type trees.

  `SubtypeChecker::resource` compares the *names* of the alias-resolved resources; the component
  model compares resource *identities*.  `check_iff_subNames` (Props/C07.lean) says the checker
  decides `subNames` = `sub` on the name-only views, for all kinds.  Here: on collections whose
  resource names are injective (`resourceNamesInjective`, a decidable predicate on the collections
  of the check, WacModel/Spec/SubRes.lean) `subNames` IS `sub` — for every pair of types of every
  kind (own/borrow handles nested anywhere in records, variants, lists, options, results, tuples,
  streams, futures; function, instance and component types at any depth) — hence the checker
  decides the identity-based subtype relation (`check_iff_sub` without `resourceFree`).

  Hypotheses and why they are there:
  * `resourceNamesInjective at bt`: over the root (non-alias) resources of BOTH collections.  For
    `at = bt` it is "distinct resource ids have distinct names" (`namesInjective (rootResources t)`,
    `resource_single_provider_one_collection`).  Injectivity inside each collection separately is
    not enough (`resource_two_providers_counterexample`), and without injectivity the statement
    is false at any depth (`resource_nested_names_not_identity_counterexample`).
  * alias chains need no hypothesis: `unfold` resolves them (a leaf carries the resolved index),
    and only non-alias resources are constrained (the example collection has an alias that shares
    its target's name).
  * `hu`, `namesDistinct`, `unfold = some`: as in `check_iff_sub`.
-/
namespace Wac.Props.C07
open Wac Wac.Spec

/-- **name-based = identity-based subtyping on trees** (tree-level form; the induction over the
spec relation): if the leaves of both trees are drawn from a list of resource leaves whose names
are injective, the relation the checker decides is the subtype relation. -/
theorem subNames_eq_sub_of_leavesInjective (l : List Res) (ta tb : Tree)
    (h : leavesInjective l ta tb = true) : subNames ta tb = sub ta tb := by
  simp only [leavesInjective, Bool.and_eq_true] at h
  exact subNames_eq_sub_of_injOn (injOn_of_namesInjective l h.1.1) ta tb h.1.2 h.2

/-- non-vacuity: a list with two leaves, trees of different shape that use both, related by `sub` -/
example :
    let r : Res := { uid := 1, idx := 0, name := ['r'] }
    let s : Res := { uid := 1, idx := 1, name := ['s'] }
    let f : Tree := .func false (.cons ['x'] (.own r) (.cons ['y'] (.list (.borrow s)) .nil)) (.option (.own s))
    let ta : Tree := .instance (.cons ['f'] f (.cons ['t'] (.type (.resource r)) .nil))
    let tb : Tree := .instance (.cons ['f'] f .nil)
    leavesInjective [r, s] ta tb = true ∧ sub ta tb = true ∧ sub tb ta = false ∧ ta.resourceFree = false := by
  decide

/-- **Main correspondence with resources (all kinds, any sound memo, any variance stack).**
On collections with injective resource names the checker answers `Ok` exactly when the unfolded
types are in the subtype relation *with resources compared by identity*. -/
theorem check_iff_sub_resources (W : Colls) (n : Nat) (c : Checker) (at_ bt : Types) (a b : ItemKind) (ta tb : Tree)
    (hat : W.mem at_) (hbt : W.mem bt) (hm : MemoSound W c.cache)
    (ha : at_.unfoldKind n a = some ta) (hb : bt.unfoldKind n b = some tb)
    (hnda : ta.namesDistinct = true) (hndb : tb.namesDistinct = true)
    (hinj : resourceNamesInjective at_ bt = true) :
    (isSubtype n c at_ a bt b).1 = .ok ↔ sub ta tb = true := by
  have h := check_iff_subNames' W n c at_ bt a b ta tb hat hbt hm ha hb hnda hndb
  rw [← subNames_eq_sub_of_resourceNamesInjective at_ bt n n a b ta tb ha hb hinj]
  exact h.1

/-- **With resources** (`resource_single_provider`): `check_iff_sub` extended from resource-free
types to all types, under injectivity of resource names — a fresh check accepts exactly when the
unfolded types are in the component-model subtype relation with resources compared by identity. -/
theorem resource_single_provider (at_ bt : Types) (hu : at_.uid = bt.uid → at_ = bt) (a b : ItemKind) (ta tb : Tree)
    (ha : at_.unfold a = some ta) (hb : bt.unfold b = some tb)
    (hnda : ta.namesDistinct = true) (hndb : tb.namesDistinct = true)
    (hinj : resourceNamesInjective at_ bt = true) :
    checkFresh at_ a bt b = .ok ↔ sub ta tb = true := by
  have ha' := unfoldKind_mono at_ (Nat.le_add_right at_.fuel bt.fuel) a ta ha
  have hb' := unfoldKind_mono bt (Nat.le_add_left bt.fuel at_.fuel) b tb hb
  exact check_iff_sub_resources (pairColls at_ bt hu) (checkFuel at_ bt) {} at_ bt a b ta tb (Or.inl rfl) (Or.inr rfl)
    (memoSound_nil _) ha' hb' hnda hndb hinj

/-- the single-provider reading: both kinds from ONE collection in which distinct (non-alias)
resource ids have distinct names -/
theorem resource_single_provider_one_collection (t : Types) (a b : ItemKind) (ta tb : Tree)
    (ha : t.unfold a = some ta) (hb : t.unfold b = some tb)
    (hnda : ta.namesDistinct = true) (hndb : tb.namesDistinct = true)
    (hinj : namesInjective (rootResources t) = true) :
    checkFresh t a t b = .ok ↔ sub ta tb = true :=
  resource_single_provider t t (fun _ => rfl) a b ta tb ha hb hnda hndb (resourceNamesInjective_self t hinj)

/-! ### a concrete non-trivial collection with injective resource names -/

/-- one provider: resources `r`, `s`, and `r2` = an alias of `r` that keeps the name `r` (what
`use i.{r}` produces; allowed — only non-alias resources must have distinct names);
`defined`: `record { a: own<r>, b: list<borrow<s>> }`, `variant { x(own<r2>), y }`, the list,
`result<tuple<own<s>, u8>, option<own<r>>>` through an alias, …;
`funcs`: `f: func(p: rec, q: own<r2>) -> res`, `g` the same with `own<r>` for `q` (same identity
through the alias), `h` the same with `own<s>` (a different resource);
interfaces `{r, f, v}` and `{r, f}`, `{r, h}`; a component importing/exporting them. -/
def exR : Types :=
  { uid := 7,
    resources := [{ name := ['r'] }, { name := ['s'] }, { name := ['r'], alias := some { owner := some 0, source := 0 } }],
    defined := [
      .list (.borrow 1),                                        -- 0
      .record [(['a'], .own 0), (['b'], .defined 0)],           -- 1
      .variant [(['x'], some (.own 2)), (['y'], none)],         -- 2
      .tuple [.own 1, .prim .u8],                               -- 3
      .option (.own 0),                                         -- 4
      .result (some (.defined 3)) (some (.defined 4)),          -- 5
      .alias (.defined 5)],                                     -- 6
    funcs := [
      { params := [(['p'], .defined 1), (['q'], .own 2)], result := some (.defined 6) },
      { params := [(['p'], .defined 1), (['q'], .own 0)], result := some (.defined 5) },
      { params := [(['p'], .defined 1), (['q'], .own 1)], result := some (.defined 5) }],
    interfaces := [
      { exports := [(['r'], .type (.resource 0)), (['f'], .func 0), (['v'], .type (.value (.defined 2)))] },
      { exports := [(['r'], .type (.resource 2)), (['f'], .func 1)] },
      { exports := [(['r'], .type (.resource 0)), (['f'], .func 2)] }],
    worlds := [
      { imports := [(['i'], .instance 1)], exports := [(['e'], .instance 0)] },
      { imports := [(['i'], .instance 0)], exports := [(['e'], .instance 1)] }] }

def exRa : Tree := (exR.unfold (.instance 0)).getD .none
def exRb : Tree := (exR.unfold (.instance 1)).getD .none
def exRc : Tree := (exR.unfold (.instance 2)).getD .none
def exRw0 : Tree := (exR.unfold (.component 0)).getD .none
def exRw1 : Tree := (exR.unfold (.component 1)).getD .none

/-- the injectivity predicate holds of `exR` (although two of its three resource entries are
named `r`: one is an alias) and it has two distinct root resources -/
example : namesInjective (rootResources exR) = true ∧ resourceNamesInjective exR exR = true ∧
    (rootResources exR).length = 2 := by decide

/-- hypotheses of `resource_single_provider(_one_collection)` hold of instance and component
kinds of `exR` with resources nested in records, variants, lists, tuples, options, results; the
conclusion is non-trivial in both directions: `{r,f,v} <: {r,f}` (width, `own<r2>` = `own<r>`
through the alias), not conversely; `{r,f}` vs `{r,h…}` fails on the identity of `q`'s resource;
components: contravariant imports -/
example :
    exR.unfold (.instance 0) = some exRa ∧ exR.unfold (.instance 1) = some exRb ∧ exR.unfold (.instance 2) = some exRc ∧
    exR.unfold (.component 0) = some exRw0 ∧ exR.unfold (.component 1) = some exRw1 ∧
    exRa.namesDistinct = true ∧ exRb.namesDistinct = true ∧ exRc.namesDistinct = true ∧
    exRw0.namesDistinct = true ∧ exRw1.namesDistinct = true ∧
    exRa.resourceFree = false ∧ exRb.resourceFree = false ∧
    sub exRa exRb = true ∧ sub exRb exRa = false ∧ sub exRb exRc = false ∧
    sub exRw0 exRw1 = true ∧ sub exRw1 exRw0 = false := by
  decide

example : checkFresh exR (.instance 0) exR (.instance 1) = .ok ∧
    (checkFresh exR (.instance 1) exR (.instance 0)).isOk = false ∧
    (checkFresh exR (.instance 1) exR (.instance 2)).isOk = false ∧
    checkFresh exR (.component 0) exR (.component 1) = .ok ∧
    (checkFresh exR (.component 1) exR (.component 0)).isOk = false := by
  decide

/-! ### the hypotheses cannot be dropped -/

/-- without injectivity the statement is false for nested handles too: two function types of one
collection whose parameter is `own` of two *distinct* resources that share a name are accepted
(the trees have distinct names, unfold, live in one collection — only injectivity fails) -/
theorem resource_nested_names_not_identity_counterexample :
    ¬ (∀ (t : Types) (a b : ItemKind) (ta tb : Tree), t.unfold a = some ta → t.unfold b = some tb →
        ta.namesDistinct = true → tb.namesDistinct = true →
        (checkFresh t a t b = .ok ↔ sub ta tb = true)) := by
  intro h
  have := h { uid := 1, resources := [{ name := ['r'] }, { name := ['r'] }],
              defined := [.list (.own 0), .list (.own 1)],
              funcs := [{ params := [(['x'], .defined 0)] }, { params := [(['x'], .defined 1)] }] }
    (.func 0) (.func 1)
    (.func false (.cons ['x'] (.list (.own { uid := 1, idx := 0, name := ['r'] })) .nil) .none)
    (.func false (.cons ['x'] (.list (.own { uid := 1, idx := 1, name := ['r'] })) .nil) .none)
    (by decide) (by decide) (by decide) (by decide)
  revert this
  decide

/-- injectivity inside each collection separately is not enough: two providers (collections)
each with one resource `r` — every collection has injective names, the checker accepts
`own<r>` of the one for `own<r>` of the other, but they are different resources.  Hence the
predicate ranges over both collections of the check. -/
theorem resource_two_providers_counterexample :
    ¬ (∀ (at_ bt : Types), (at_.uid = bt.uid → at_ = bt) → ∀ (a b : ItemKind) (ta tb : Tree),
        at_.unfold a = some ta → bt.unfold b = some tb →
        ta.namesDistinct = true → tb.namesDistinct = true →
        namesInjective (rootResources at_) = true → namesInjective (rootResources bt) = true →
        (checkFresh at_ a bt b = .ok ↔ sub ta tb = true)) := by
  intro h
  have := h { uid := 1, resources := [{ name := ['r'] }] } { uid := 2, resources := [{ name := ['r'] }] }
    (by decide) (.value (.own 0)) (.value (.own 0))
    (.value (.own { uid := 1, idx := 0, name := ['r'] })) (.value (.own { uid := 2, idx := 0, name := ['r'] }))
    (by decide) (by decide) (by decide) (by decide) (by decide) (by decide)
  revert this
  decide

end Wac.Props.C07
