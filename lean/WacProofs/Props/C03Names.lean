import WacProofs.Props.C03
import WacProofs.Props.C02Full
import WacProofs.Lemmas.EncNames2
import WacProofs.Lemmas.EncNoPanic
/-
  C03, second layer — the names of the imports and exports of the encoded skeleton.

  * `canonical_is_highest`   : the name the aggregator resolves an implied import name to is the
    specification's class name: an implied name of the same class (equal, or same semver track)
    that no implied name of the class exceeds in version; `canonical_same_class`: names of one
    class resolve to one name.
  * `implicit_args_shared`   : two recorded implicit arguments — of one or of two instantiations —
    whose names are equal or semver-compatible carry the same kind and the same index
    (unconditional; the earlier `implicit_args_shared_partial` assumed equal canonical names);
    `implicit_args_shared_skeleton`: the same read off the instantiate items of the skeleton.
  * `encode_export_names`    : the export items of the skeleton are exactly the designated
    exports `(name, kind)` (`DefsExported g`: a definition's name is in the export map).
  * `encode_import_names`    : every implied import is imported under its class name with its
    kind (`IfaceNamed agg`), and every import item is an implied import, a dependency
    interface of one (as far as the model represents them: the dependency ids of the aggregated
    types, renamed to the merged interface of their track), or — dependencies imported — the
    `unlocked-dep` component of an instantiated package.
  * `creation_order_invariant_partial` : for two graph values that imply the same requests and
    exports (in particular: that differ by a renaming of node indices, `SameComposition`), the
    implied imports and the exports of the two skeletons coincide, and every other import of
    either is a dependency interface / package component.  The full statement ("the two
    name→sort interfaces are equal") is FALSE for the model and for the real encoder:
    `creation_order_counterexample` (finding `enc-dependency-interface-shadows-import`).
-/
namespace Wac.Props.C03
open Wac Wac.Spec

/-! ### canonical names -/

/-- `canonical_is_highest` -/
theorem canonical_is_highest {g : GraphVal} {order : List Nat} {agg : Agg} (wf : WF g) (ht : toposort g = .ok order)
    (hagg : aggOf g (C02.importsOf g order) = some agg) :
    ∀ name ∈ impliedNames g,
      agg.canonical name = className (impliedReqs g) name ∧ agg.canonical name ∈ impliedNames g ∧
      compatSpec name (agg.canonical name) = true ∧
      ∀ m ∈ impliedNames g, compatSpec m name = true → ∀ vm vc, versionOf m = some vm →
        versionOf (agg.canonical name) = some vc → vc.lt vm = false := by
  intro name hn
  rw [C02.canonical_is_canon wf ht hagg name hn]
  exact ⟨(className_eq_canon g name).symm, canon_spec hn⟩

/-- names of one class (equal, or on one semver track) resolve to one import name -/
theorem canonical_same_class {g : GraphVal} {order : List Nat} {agg : Agg} (wf : WF g) (ht : toposort g = .ok order)
    (hagg : aggOf g (C02.importsOf g order) = some agg) {a b : Str} (ha : a ∈ impliedNames g)
    (hb : b ∈ impliedNames g) (hc : compatSpec a b = true) : agg.canonical a = agg.canonical b := by
  rw [C02.canonical_is_canon wf ht hagg a ha, C02.canonical_is_canon wf ht hagg b hb]
  exact canon_class ha hc

/-! ### sharing of implicit arguments -/

theorem encodeImports_ok_agg {g : GraphVal} {importNodes : List Nat} {st1 : EncSt}
    (he : encodeImports g importNodes {} = .ok st1) : ∃ agg, aggOf g importNodes = some agg := by
  unfold encodeImports at he
  unfold aggOf
  cases hr : resolveInsts g g.nodes {} with
  | error e => simp [hr] at he
  | panic p => simp [hr] at he
  | ok r =>
    simp only [hr] at he ⊢
    cases hx : resolveExplicit g r.first importNodes r.agg [] with
    | error e => simp [hx] at he
    | panic p => simp [hx] at he
    | ok ae =>
      obtain ⟨a, ex⟩ := ae
      exact ⟨a, rfl⟩

/-- a recorded implicit argument is named like an unsatisfied import of an instantiation -/
theorem implicit_name_aggregated {g : GraphVal} {importNodes : List Nat} {st1 : EncSt}
    (he : encodeImports g importNodes {} = .ok st1) {a : Nat} {x : Str × Kind × Nat}
    (hx : x ∈ implicitList st1.implicit a) : ∃ k, (x.1, k) ∈ g.nodes.flatMap (reqPairs g) := by
  unfold encodeImports at he
  cases hr : resolveInsts g g.nodes {} with
  | error e => simp [hr] at he
  | panic s => simp [hr] at he
  | ok r =>
    simp only [hr] at he
    cases hxp : resolveExplicit g r.first importNodes r.agg [] with
    | error e => simp [hxp] at he
    | panic s => simp [hxp] at he
    | ok ae =>
      obtain ⟨agg', explicit⟩ := ae
      simp only [hxp] at he
      generalize hl : (((agg'.imports.map fun e => (e.1, agg'.fix e.2)).filter fun e => e.2.kind = .instance) ++
        ((agg'.imports.map fun e => (e.1, agg'.fix e.2)).filter fun e => ¬ (e.2.kind = .instance))) = l at he
      generalize hgen : importAll id l {} [] = res at he
      obtain ⟨stA, enc⟩ := res
      have hA0 : stA.implicit = [] := by
        have := importAll_frame id l (st := {}) (enc := [])
        rw [hgen] at this
        exact this
      cases hfi : fillImplicit agg' enc r.implicit stA with
      | error e => simp [hfi] at he
      | panic s => simp [hfi] at he
      | ok stB =>
        simp only [hfi] at he
        obtain ⟨_, _, _, _, _, himpB⟩ := fillImplicit_spec r.implicit hfi (G stA)
        obtain ⟨_, himp1, _⟩ := fillExplicit_spec explicit he
        rw [himp1] at hx
        obtain ⟨A, hA, hRA⟩ := himpB a
        have e0 : implicitList stA.implicit a = [] := by rw [hA0]; rfl
        rw [hA, e0, List.nil_append] at hx
        have hnm : x.1 ∈ (r.implicit.filter fun e => e.2 == a).map (·.1) := by
          rw [← impRel_names hRA]; exact List.mem_map_of_mem (f := (·.1)) hx
        obtain ⟨e, he', he1⟩ := List.mem_map.mp hnm
        have hmem : e ∈ r.implicit := (List.mem_filter.mp he').1
        have hrimp : r.implicit = g.nodes.flatMap (implicitOfNode g) := by
          have := resolveInsts_implicit g.nodes hr
          simpa using this
        rw [hrimp, List.mem_flatMap] at hmem
        obtain ⟨n, hn, hen⟩ := hmem
        obtain ⟨k, hk⟩ := mem_implicitOfNode hen
        exact ⟨k, List.mem_flatMap.mpr ⟨n, hn, by rw [← he1]; exact hk⟩⟩

/-- `implicit_args_shared`: two recorded implicit arguments whose names are equal or
    semver-compatible are one import: same kind, same index -/
theorem implicit_args_shared {g : GraphVal} {importNodes : List Nat} {st1 : EncSt}
    (he : encodeImports g importNodes {} = .ok st1) {a b : Nat} {x y : Str × Kind × Nat}
    (hx : x ∈ implicitList st1.implicit a) (hy : y ∈ implicitList st1.implicit b)
    (hc : compat x.1 y.1 = true) : x.2 = y.2 := by
  obtain ⟨agg, hagg⟩ := encodeImports_ok_agg he
  obtain ⟨P, inv, hP⟩ := aggOf_inv hagg
  obtain ⟨k1, h1⟩ := implicit_name_aggregated he hx
  obtain ⟨k2, h2⟩ := implicit_name_aggregated he hy
  have hcan := inv.canonical_compat (p := (x.1, k1)) (q := (y.1, k2)) ((hP _).mpr (Or.inl h1))
    ((hP _).mpr (Or.inl h2)) hc
  exact implicit_args_shared_partial hagg he hx hy hcan

/-- the same, read off the skeleton: the argument list of every instantiate item is the
    explicit arguments followed by the implicit arguments recorded for its node (named like the
    imports no argument edge provides), and any two implicit arguments — of one or of two
    instantiate items — with equal or semver-compatible names carry the same kind and index -/
theorem implicit_args_shared_skeleton {g : GraphVal} {o : Opts} {s : Skeleton} (wf : WF g) (he : encode g o = .ok s) :
    ∃ Imp : Nat → List (Str × Kind × Nat),
      (∀ c args, Item.instantiate c args ∈ s →
        ∃ n ∈ g.nodes, ∃ slot sat p, n.kind = .instantiation slot sat ∧ g.pkg? slot = some p ∧
          ∃ E, args = E ++ Imp n.id ∧ E.map (·.1) = n.args.map (·.1) ∧
            (Imp n.id).map (·.1) = (unsatisfiedByArgs n p).map (·.name)) ∧
      (∀ a b x y, x ∈ Imp a → y ∈ Imp b → compat x.1 y.1 = true → x.2 = y.2) := by
  obtain ⟨order, agg, ht, hagg⟩ := C02.encode_ok_stages he
  obtain ⟨st1, st2, st3, hs⟩ := encode_stages ht he
  obtain ⟨hnamed, _, _, h, _⟩ := encode_sinv (A := fun _ _ => True) (C := fun _ _ => True) wf ht hagg
    (fun _ _ => ⟨trivial, fun _ _ _ => trivial⟩) (fun _ _ _ _ _ _ _ _ => trivial) (fun _ _ _ _ _ => trivial)
    (fun _ _ _ _ => trivial) hs
  refine ⟨impOf st1, ?_, ?_⟩
  · intro c args hm
    obtain ⟨n, hn, slot, sat, p, hk, hp, E, hargs, hE⟩ := h c args hm
    exact ⟨n, hn, slot, sat, p, hk, hp, E, hargs, hE, by
      rw [hnamed n hn slot sat p hk hp, wf.satOk n hn slot sat p hk hp]⟩
  · intro a b x y hx hy hc
    exact implicit_args_shared hs.imports hx hy hc

/-! ### export names -/

/-- a definition's name is in the export map (`define_type` inserts it) -/
def DefsExported (g : GraphVal) : Prop :=
  ∀ n ∈ g.nodes, n.kind = .definition → ∀ name, n.exportName = some name → (name, n.id) ∈ g.exports

def defsExportedCheck (g : GraphVal) : Bool :=
  g.nodes.all fun n => match n.kind, n.exportName with
    | .definition, some name => g.exports.contains (name, n.id)
    | _, _ => true

theorem defsExportedCheck_sound {g : GraphVal} (h : defsExportedCheck g = true) : DefsExported g := by
  intro n hn hk name hx
  simp only [defsExportedCheck, List.all_eq_true] at h
  have := h n hn
  simpa [hk, hx] using this

/-- `encode_export_names`: the export items of the skeleton are exactly the designated exports -/
theorem encode_export_names {g : GraphVal} {o : Opts} {s : Skeleton} (wf : WF g) (hde : DefsExported g)
    (he : encode g o = .ok s) : ∀ x, x ∈ exportItems s ↔ x ∈ impliedExports g := by
  obtain ⟨order, agg, ht, hagg⟩ := C02.encode_ok_stages he
  obtain ⟨st1, st2, st3, hs⟩ := encode_stages ht he
  have hCd : DefExportsOk g (fun n k => (n, k) ∈ impliedExports g) := by
    intro n hn hk name hx
    simp only [impliedExports, List.mem_map]
    refine ⟨(name, n.id), hde n hn hk name hx, ?_⟩
    simp only [kindOf_of_node? (node?_of_mem wf.idsNodup hn), wf.defKind n hn hk]
  have hCe : ∀ e ∈ g.exports, ∀ n, g.node? e.2 = some n → (e.1, n.ty.kind) ∈ impliedExports g := by
    intro e he' n hn
    simp only [impliedExports, List.mem_map]
    exact ⟨e, he', by rw [kindOf_of_node? hn]⟩
  obtain ⟨_, _, _, _, hexp, l2, l3, D, hD⟩ := encode_sinv (A := fun _ _ => True)
    (C := fun n k => (n, k) ∈ impliedExports g) wf ht hagg
    (fun _ _ => ⟨trivial, fun _ _ _ => trivial⟩) (fun _ _ _ _ _ _ _ _ => trivial) hCd hCe hs
  intro x
  constructor
  · intro hx
    obtain ⟨i, hi⟩ := mem_exportItems.mp hx
    exact hexp x.1 x.2 i hi
  · intro hx
    simp only [impliedExports, List.mem_map] at hx
    obtain ⟨e, he', rfl⟩ := hx
    obtain ⟨n, hn, hemit⟩ := encExports_items g.exports hs.exports e he'
    apply mem_exportItems.mpr
    rw [kindOf_of_node? hn]
    by_cases hd : n.isDefinition = true
    · -- a definition: exported by its own node, under its (only) name
      have hk : n.kind = .definition := by
        unfold Node.isDefinition at hd
        cases hk : n.kind <;> simp [hk] at hd
        rfl
      have hx' := wf.defNames e he' n hn hd
      obtain ⟨hmem, hid⟩ := node?_mem hn
      have hin : e.2 ∈ order.filter fun id => !isImportNode g id := by
        refine List.mem_filter.mpr ⟨(toposort_complete ht).2 _ (hid ▸ List.mem_map_of_mem (f := (·.id)) hmem), ?_⟩
        simp [isImportNode, hn, Node.isImport, hk]
      obtain ⟨s1, i1⟩ := encodeImports_sinv (A := fun _ _ => True) (B := ArgsOk g (impOf st1))
        (C := fun n k => (n, k) ∈ impliedExports g) wf (toposort_imports_complete wf ht) hagg
        (fun _ _ => ⟨trivial, fun _ _ _ => trivial⟩) hs.imports
      obtain ⟨i, hi⟩ := encNodes_def_item (Imp := impOf st1) wf (fun _ _ _ _ _ _ _ _ => trivial) hCd _ s1
        (fun _ _ => rfl) hs.nodes e.2 hin n e.1 hn hk hx'
      refine ⟨i, ?_⟩
      rw [hD, wf.defKind n hmem hk]
      exact List.mem_append.mpr (Or.inl (l3.mem hi))
    · obtain ⟨i, hi⟩ := hemit (by simpa using hd)
      exact ⟨i, by rw [hD]; exact List.mem_append.mpr (Or.inl hi)⟩

/-! ### import names -/

/-- the import items the composition accounts for: an implied import under its class name with
    its kind; a dependency interface of one (renamed to the merged interface of its track); the
    `unlocked-dep` component of an instantiated package when dependencies are imported -/
def ImpAllowed (g : GraphVal) (agg : Agg) (o : Opts) (x : Str) (k : Kind) : Prop :=
  (∃ r ∈ impliedReqs g, x = canon g r.name ∧ k = r.ty.kind) ∨
  (k = .instance ∧ ∃ d ∈ impliedDeps g, x = agg.ifaceOf d) ∨
  (o.define = false ∧ k = .component ∧ ∃ p ∈ instantiatedPkgs g, x = unlockedName p)

/-- `encode_import_names`, soundness: every import item is accounted for -/
theorem encode_imports_sound {g : GraphVal} {o : Opts} {s : Skeleton} {order : List Nat} {agg : Agg} (wf : WF g)
    (ht : toposort g = .ok order) (hagg : aggOf g (C02.importsOf g order) = some agg) (he : encode g o = .ok s) :
    ∀ x ∈ importItems s, ImpAllowed g agg o x.1 x.2 := by
  obtain ⟨st1, st2, st3, hs⟩ := encode_stages ht he
  obtain ⟨P, inv, hP⟩ := aggOf_inv hagg
  have hkeys := aggOf_keysNodup hagg
  have hcan := C02.canonical_is_canon wf ht hagg
  have hA : ∀ e ∈ fixedImports agg, ImpAllowed g agg o e.1 e.2.kind ∧
      (e.2.kind = .instance → ∀ d ∈ e.2.deps, ImpAllowed g agg o d .instance) := by
    intro e he'
    obtain ⟨e0, he0, rfl⟩ := List.mem_map.mp he'
    constructor
    · left
      obtain ⟨p, hp, hp1⟩ := List.mem_map.mp (inv.keysP e0 he0)
      obtain ⟨ty, hget, hkd⟩ := inv.proc p hp
      have hkey : e0.1 ∈ agg.imports.map (·.1) := List.mem_map_of_mem (f := (·.1)) he0
      rw [hp1, inv.canonical_key hkey, amGet_of_mem_nodup hkeys he0] at hget
      injection hget with hget
      obtain ⟨r, hr, hr1, hr2⟩ := aggregated_is_req wf ((hP p).mp hp)
      refine ⟨r, hr, ?_, ?_⟩
      · show e0.1 = canon g r.name
        have hname : r.name = e0.1 := hr1.trans hp1
        have himp : e0.1 ∈ impliedNames g := hname ▸ mem_impliedReqs_name hr
        rw [hname, ← hcan e0.1 himp, canonical_eq, inv.canonical_key hkey]
      · show (agg.fix e0.2).kind = r.ty.kind
        rw [hr2, ← hkd, ← hget]; rfl
    · intro _ d hd
      right; left
      refine ⟨rfl, ?_⟩
      have : d ∈ e0.2.deps.map agg.ifaceOf := hd
      obtain ⟨d0, hd0, rfl⟩ := List.mem_map.mp this
      exact ⟨d0, aggOf_deps wf hagg e0 he0 d0 hd0, rfl⟩
  have hAp : PkgImportsOk g o (ImpAllowed g agg o) := by
    intro n hn slot sat p hk hp hd
    right; right
    refine ⟨hd, rfl, p, ?_, rfl⟩
    unfold instantiatedPkgs
    unfold GraphVal.pkg? at hp
    refine List.mem_filter.mpr ⟨List.mem_of_find?_eq_some hp, ?_⟩
    have hsl := List.find?_some hp
    simp only [beq_iff_eq] at hsl
    simp only [List.any_eq_true]
    exact ⟨n, hn, by simp [hk, hsl]⟩
  obtain ⟨_, _, himp, _⟩ := encode_sinv (A := ImpAllowed g agg o) (C := fun _ _ => True) wf ht hagg hA hAp
    (fun _ _ _ _ _ => trivial) (fun _ _ _ _ => trivial) hs
  intro x hx
  exact himp x.1 x.2 (mem_importItems.mp hx)

/-- `encode_import_names`, completeness: every implied import is imported, under the name of its
    class (the highest version) and with its kind -/
theorem encode_imports_complete {g : GraphVal} {o : Opts} {s : Skeleton} {order : List Nat} {agg : Agg} (wf : WF g)
    (ht : toposort g = .ok order) (hagg : aggOf g (C02.importsOf g order) = some agg) (hif : C02.IfaceNamed agg)
    (he : encode g o = .ok s) : ∀ r ∈ impliedReqs g, (canon g r.name, r.ty.kind) ∈ importItems s := by
  obtain ⟨st1, st2, st3, hs⟩ := encode_stages ht he
  have hcan := C02.canonical_is_canon wf ht hagg
  have hok : AggOk g agg :=
    ⟨aggOf_keysNodup hagg, hif, C02.implicit_kind hagg, C02.explicit_kind wf ht hagg⟩
  have inv := encodeImports_inv (o := o) wf _ (C02.importsOf_complete wf ht) hagg hok hs.imports
  obtain ⟨_, _, _, _, _, l2, l3, D, hD⟩ := encode_sinv (A := fun _ _ => True) (C := fun _ _ => True) wf ht hagg
    (fun _ _ => ⟨trivial, fun _ _ _ => trivial⟩) (fun _ _ _ _ _ _ _ _ => trivial) (fun _ _ _ _ _ => trivial)
    (fun _ _ _ _ => trivial) hs
  have hlift : ∀ it, it ∈ st1.items → it ∈ s := by
    intro it hit
    rw [hD]
    exact List.mem_append.mpr (Or.inl (l3.mem (l2.mem hit)))
  intro r hr
  apply mem_importItems.mpr
  rw [← hcan r.name (mem_impliedReqs_name hr)]
  apply hlift
  rcases (mem_impliedReqs g r).mp hr with ⟨n, hn, slot, sat, p, hk, hp, hrm⟩ | ⟨n, hn, nm, hk, rfl⟩
  · have hnone : natGet st1.nodeIdx n.id = none := by
      apply (inv.dom n.id).mpr
      cases hq : natGet (importTerms g agg.canonical) n.id with
      | none => rfl
      | some t =>
        exfalso
        obtain ⟨nd, hnd, hid, hisI⟩ := natGet_importTerms_some _ hq
        have h1 := node?_of_mem wf.idsNodup hnd
        have h2 := node?_of_mem wf.idsNodup hn
        rw [hid, h2] at h1
        injection h1 with h1
        subst h1
        simp [Node.isImport, hk] at hisI
    obtain ⟨i, hi⟩ := implicitOk_has (inv.implicit n hn slot sat p hk hp hnone) r hrm
    exact has_imp_item hi
  · have ht' : natGet (importTerms g agg.canonical) n.id = some (.imp (agg.canonical nm)) :=
      natGet_importTerms _ wf.idsNodup (node?_of_mem wf.idsNodup hn) hk
    cases hq : natGet st1.nodeIdx n.id with
    | none => rw [(inv.dom n.id).mp hq] at ht'; cases ht'
    | some idx =>
      have := inv.nodes n.id idx hq
      rw [kindOf_of_node? (node?_of_mem wf.idsNodup hn), term_eq_natGet] at this
      simp only [ht', Option.getD_some] at this
      exact has_imp_item this

/-- `encode_import_names` -/
theorem encode_import_names {g : GraphVal} {o : Opts} {s : Skeleton} {order : List Nat} {agg : Agg} (wf : WF g)
    (ht : toposort g = .ok order) (hagg : aggOf g (C02.importsOf g order) = some agg) (hif : C02.IfaceNamed agg)
    (he : encode g o = .ok s) :
    (∀ r ∈ impliedReqs g, (canon g r.name, r.ty.kind) ∈ importItems s) ∧
    (∀ x ∈ importItems s, ImpAllowed g agg o x.1 x.2) ∧
    importItems s = (wiring s).imports :=
  ⟨encode_imports_complete wf ht hagg hif he, encode_imports_sound wf ht hagg he, (wiring_imports s).symm⟩

/-! ### creation order -/

/-- the two graph values imply the same requests and the same exports -/
structure SameComposition (g g' : GraphVal) : Prop where
  reqs : ∀ r, r ∈ impliedReqs g ↔ r ∈ impliedReqs g'
  exports : ∀ x, x ∈ impliedExports g ↔ x ∈ impliedExports g'

/-- a node with its index and the indices it mentions renamed -/
def renameNode (ρ : Nat → Nat) (n : Node) : Node :=
  { n with id := ρ n.id, defAlias := n.defAlias.map ρ, inc := n.inc.map fun e => (e.1, ρ e.2), succ := n.succ.map ρ }

/-- `g'` is `g` with the nodes created in another order: the same packages, the same nodes up
    to the renaming `ρ` of node indices (in any list order), the same export map up to `ρ` -/
structure Reordered (ρ : Nat → Nat) (g g' : GraphVal) : Prop where
  inj : Function.Injective ρ
  pkgs : g'.pkgs = g.pkgs
  nodes : g'.nodes.Perm (g.nodes.map (renameNode ρ))
  exports : g'.exports.Perm (g.exports.map fun e => (e.1, ρ e.2))

theorem argsOf_rename (ρ : Nat → Nat) (inc : List (EdgeW × Nat)) :
    Node.argsOf (inc.map fun e => (e.1, ρ e.2)) = (Node.argsOf inc).map fun a => (a.1, ρ a.2) := by
  induction inc with
  | nil => rfl
  | cons e inc ih =>
    obtain ⟨w, s⟩ := e
    cases w <;> simp [Node.argsOf, ih]

theorem unsatisfiedByArgs_rename (ρ : Nat → Nat) (n : Node) (p : PkgVal) :
    unsatisfiedByArgs (renameNode ρ n) p = unsatisfiedByArgs n p := by
  unfold unsatisfiedByArgs
  apply List.filter_congr
  intro r _
  have : (renameNode ρ n).args = n.args.map fun a => (a.1, ρ a.2) := argsOf_rename ρ n.inc
  rw [this, List.any_map]
  rfl

theorem reordered_node? {ρ : Nat → Nat} {g g' : GraphVal} (h : Reordered ρ g g') (wf' : WF g') (id : Nat) :
    g'.node? (ρ id) = (g.node? id).map (renameNode ρ) := by
  cases hn : g.node? id with
  | some n =>
    obtain ⟨hmem, hid⟩ := node?_mem hn
    have hm' : renameNode ρ n ∈ g'.nodes := h.nodes.mem_iff.mpr (List.mem_map_of_mem hmem)
    have := node?_of_mem wf'.idsNodup hm'
    simp only [renameNode] at this
    simp only [Option.map_some]
    rw [← hid]
    exact this
  | none =>
    simp only [Option.map_none]
    cases hn' : g'.node? (ρ id) with
    | none => rfl
    | some n' =>
      exfalso
      obtain ⟨hmem', hid'⟩ := node?_mem hn'
      obtain ⟨n, hn0, rfl⟩ := List.mem_map.mp (h.nodes.mem_iff.mp hmem')
      have : n.id = id := h.inj hid'
      unfold GraphVal.node? at hn
      have := List.find?_eq_none.mp hn n hn0
      simp_all

/-- renaming the node indices does not change what the composition implies -/
theorem reordered_sameComposition {ρ : Nat → Nat} {g g' : GraphVal} (h : Reordered ρ g g') (wf' : WF g') :
    SameComposition g g' := by
  have hpk : ∀ slot, g'.pkg? slot = g.pkg? slot := by intro slot; unfold GraphVal.pkg?; rw [h.pkgs]
  have hmem : ∀ n', n' ∈ g'.nodes ↔ ∃ n ∈ g.nodes, n' = renameNode ρ n := by
    intro n'
    rw [h.nodes.mem_iff, List.mem_map]
    constructor
    · rintro ⟨n, hn, e⟩; exact ⟨n, hn, e.symm⟩
    · rintro ⟨n, hn, e⟩; exact ⟨n, hn, e.symm⟩
  constructor
  · intro r
    rw [mem_impliedReqs, mem_impliedReqs]
    constructor
    · rintro (⟨n, hn, slot, sat, p, hk, hp, hr⟩ | ⟨n, hn, nm, hk, hr⟩)
      · exact Or.inl ⟨renameNode ρ n, (hmem _).mpr ⟨n, hn, rfl⟩, slot, sat, p, hk, by rw [hpk]; exact hp,
          by rw [unsatisfiedByArgs_rename]; exact hr⟩
      · exact Or.inr ⟨renameNode ρ n, (hmem _).mpr ⟨n, hn, rfl⟩, nm, hk, hr⟩
    · rintro (⟨n', hn', slot, sat, p, hk, hp, hr⟩ | ⟨n', hn', nm, hk, hr⟩)
      · obtain ⟨n, hn, rfl⟩ := (hmem _).mp hn'
        exact Or.inl ⟨n, hn, slot, sat, p, hk, by rw [← hpk]; exact hp, by rw [← unsatisfiedByArgs_rename ρ]; exact hr⟩
      · obtain ⟨n, hn, rfl⟩ := (hmem _).mp hn'
        exact Or.inr ⟨n, hn, nm, hk, hr⟩
  · intro x
    have hkind : ∀ id, kindOf g' (ρ id) = kindOf g id := by
      intro id
      unfold kindOf
      rw [reordered_node? h wf' id]
      cases g.node? id <;> rfl
    simp only [impliedExports, List.mem_map]
    constructor
    · rintro ⟨e, he, rfl⟩
      refine ⟨(e.1, ρ e.2), h.exports.mem_iff.mpr (List.mem_map_of_mem he), ?_⟩
      simp [hkind]
    · rintro ⟨e', he', rfl⟩
      obtain ⟨e, he, rfl⟩ := List.mem_map.mp (h.exports.mem_iff.mp he')
      exact ⟨e, he, by simp [hkind]⟩

theorem sameComposition_names {g g' : GraphVal} (h : SameComposition g g') :
    ∀ x, x ∈ impliedNames g ↔ x ∈ impliedNames g' := by
  intro x
  rw [← impliedReqs_names, ← impliedReqs_names, List.mem_map, List.mem_map]
  constructor
  · rintro ⟨r, hr, rfl⟩; exact ⟨r, (h.reqs r).mp hr, rfl⟩
  · rintro ⟨r, hr, rfl⟩; exact ⟨r, (h.reqs r).mpr hr, rfl⟩

/-- `creation_order_invariant` (partial): two encodings of one composition export the same
    `(name, kind)` pairs, both import every implied import under the same class name with its
    kind, and every other import item of either is accounted for as a dependency interface or a
    package component.

    Full statement: `∀ x, x ∈ importItems s ↔ x ∈ importItems s'` as well — FALSE, see
    `creation_order_counterexample`: which version of a *dependency* interface is imported, and
    whether it swallows an implied import of its track, depends on the creation order. -/
theorem creation_order_invariant_partial {g g' : GraphVal} {o : Opts} {s s' : Skeleton} {order order' : List Nat}
    {agg agg' : Agg} (wf : WF g) (wf' : WF g') (hde : DefsExported g) (hde' : DefsExported g')
    (hsame : SameComposition g g')
    (ht : toposort g = .ok order) (ht' : toposort g' = .ok order')
    (hagg : aggOf g (C02.importsOf g order) = some agg) (hagg' : aggOf g' (C02.importsOf g' order') = some agg')
    (hif : C02.IfaceNamed agg) (hif' : C02.IfaceNamed agg')
    (he : encode g o = .ok s) (he' : encode g' o = .ok s') :
    (∀ x, x ∈ exportItems s ↔ x ∈ exportItems s') ∧
    (∀ r ∈ impliedReqs g, (canon g r.name, r.ty.kind) ∈ importItems s ∧ (canon g r.name, r.ty.kind) ∈ importItems s') ∧
    (∀ x ∈ importItems s, ImpAllowed g agg o x.1 x.2) ∧ (∀ x ∈ importItems s', ImpAllowed g' agg' o x.1 x.2) := by
  refine ⟨?_, ?_, encode_imports_sound wf ht hagg he, encode_imports_sound wf' ht' hagg' he'⟩
  · intro x
    rw [encode_export_names wf hde he x, encode_export_names wf' hde' he' x]
    exact hsame.exports x
  · intro r hr
    refine ⟨encode_imports_complete wf ht hagg hif he r hr, ?_⟩
    rw [canon_congr (sameComposition_names hsame) (mem_impliedReqs_name hr)]
    exact encode_imports_complete wf' ht' hagg' hif' he' r ((hsame.reqs r).mp hr)

/-- for a renaming of the node indices -/
theorem creation_order_invariant_renamed {ρ : Nat → Nat} {g g' : GraphVal} {o : Opts} {s s' : Skeleton}
    {order order' : List Nat} {agg agg' : Agg} (hre : Reordered ρ g g') (wf : WF g) (wf' : WF g')
    (hde : DefsExported g) (hde' : DefsExported g')
    (ht : toposort g = .ok order) (ht' : toposort g' = .ok order')
    (hagg : aggOf g (C02.importsOf g order) = some agg) (hagg' : aggOf g' (C02.importsOf g' order') = some agg')
    (hif : C02.IfaceNamed agg) (hif' : C02.IfaceNamed agg')
    (he : encode g o = .ok s) (he' : encode g' o = .ok s') :
    (∀ x, x ∈ exportItems s ↔ x ∈ exportItems s') ∧
    (∀ r ∈ impliedReqs g, (canon g r.name, r.ty.kind) ∈ importItems s ∧ (canon g r.name, r.ty.kind) ∈ importItems s') :=
  let h := creation_order_invariant_partial wf wf' hde hde' (reordered_sameComposition hre wf') ht ht' hagg hagg'
    hif hif' he he'
  ⟨h.1, h.2.1⟩

/-! ### non-vacuity, and the counterexample -/

section Examples
open Wac.Props.C02 (exDiamond exDiamondOrder exDiamondAgg exDiamondSkel exDiamond_wf exDiamond_toposort exDiamond_agg
  exDiamond_ifaceNamed exDiamond_encode dI10 dI12 exIfaceDep exIfaceDepSkel exIfaceDep_encode cD10 cD12 cU cV)

/-- the diamond: `x:y/i@1.0.0` (wanted by `right`) and `x:y/i@1.2.0` (wanted by `left`) are one class,
    named for the higher version -/
example : exDiamondAgg.canonical dI10 = dI12 ∧ className (impliedReqs exDiamond) dI10 = dI12 ∧
    dI10 ∈ impliedNames exDiamond :=
  ⟨by decide, by decide, by decide⟩

example : ∀ name ∈ impliedNames exDiamond, exDiamondAgg.canonical name = className (impliedReqs exDiamond) name :=
  fun name hn => (canonical_is_highest exDiamond_wf exDiamond_toposort exDiamond_agg name hn).1

/-- the implicit arguments recorded for the two instantiations (nodes 3 and 4): different names of
    one class, one `(kind, index)` -/
example : ∃ st1, encodeImports exDiamond [] {} = .ok st1 ∧
    implicitList st1.implicit 3 = [(dI10, .instance, 0)] ∧ implicitList st1.implicit 4 = [(dI12, .instance, 0)] := by
  refine ⟨(match encodeImports exDiamond [] {} with | .ok s => s | _ => {}), by rfl, by decide, by decide⟩

example : exportItems exDiamondSkel = [(['o', 'u', 't'], .instance)] ∧ impliedExports exDiamond = [(['o', 'u', 't'], .instance)] ∧
    DefsExported exDiamond ∧ importItems exDiamondSkel = [(dI12, .instance)] := by
  refine ⟨by decide, by decide, defsExportedCheck_sound (by decide), by decide⟩

example : ∀ x, x ∈ exportItems exDiamondSkel ↔ x ∈ impliedExports exDiamond :=
  encode_export_names exDiamond_wf (defsExportedCheck_sound (by decide)) exDiamond_encode

example : ∀ r ∈ impliedReqs exDiamond, (canon exDiamond r.name, r.ty.kind) ∈ importItems exDiamondSkel :=
  encode_imports_complete exDiamond_wf exDiamond_toposort exDiamond_agg exDiamond_ifaceNamed exDiamond_encode

/-- type definitions: `t`, and `u` defined as an alias of `t` (re-exports the index of `t`) -/
def exDefs : GraphVal :=
  { pkgs := [],
    nodes := [{ id := 0, kind := .definition, ty := { kind := .type }, exportName := some ['t'], succ := [1] },
              { id := 1, kind := .definition, ty := { kind := .type }, exportName := some ['u'], defAlias := some 0,
                inc := [(.dep, 0)] }],
    exports := [(['t'], 0), (['u'], 1)] }

example : WF exDefs ∧ DefsExported exDefs ∧
    encode exDefs {} = .ok [.typeDef, .export ['t'] .type 0, .export ['u'] .type 1] :=
  ⟨wfCheck_sound (by decide), defsExportedCheck_sound (by decide), by rfl⟩

/-- the diamond with `left` created before `right` (node indices 3 and 4 exchanged) -/
def swap34 (x : Nat) : Nat := if x = 3 then 4 else if x = 4 then 3 else x

theorem swap34_inj : Function.Injective swap34 := by
  intro a b h
  unfold swap34 at h
  split at h <;> split at h <;> (try split at h) <;> (try split at h) <;> omega

def exDiamond' : GraphVal :=
  { exDiamond with
    nodes := match exDiamond.nodes.map (renameNode swap34) with
      | [a, b, c, d, e, f] => [a, b, c, e, d, f]
      | l => l }

def exDiamondSkel' : Skeleton :=
  match encode exDiamond' { define := true } with
  | .ok s => s
  | _ => []

theorem exDiamond'_reordered : Reordered swap34 exDiamond exDiamond' :=
  ⟨swap34_inj, rfl, (((List.Perm.swap _ _ _).cons _).cons _).cons _, by decide⟩

/-- the two creation orders of the diamond emit the two instantiations in different order, and
    have the same interface -/
example : exDiamondSkel' ≠ exDiamondSkel ∧
    (∀ x, x ∈ exportItems exDiamondSkel ↔ x ∈ exportItems exDiamondSkel') ∧
    importItems exDiamondSkel' = importItems exDiamondSkel :=
  ⟨by decide,
   (creation_order_invariant_renamed (o := { define := true }) (order' := [0, 1, 2, 3, 4, 5])
      (agg' := exDiamondAgg) exDiamond'_reordered exDiamond_wf
      (wfCheck_sound (by decide)) (defsExportedCheck_sound (by decide)) (defsExportedCheck_sound (by decide))
      exDiamond_toposort (by decide) exDiamond_agg (by decide) exDiamond_ifaceNamed exDiamond_ifaceNamed
      exDiamond_encode (by rfl)).1,
   by decide⟩

/-! #### the full `creation_order_invariant` is false (finding `enc-dependency-interface-shadows-import`)

  `exIfaceDep` (`C02Full.lean`) has `newv` created before `old`; `exIfaceDepA` is the same composition
  with `old` created first.  The import of the track `dep:t/t@1` is named `dep:t/t@1.2.0` in the one
  and `dep:t/t@1.0.0` in the other.  Reproduced on the real encoder with the plan given there. -/

def swap01 (x : Nat) : Nat := if x = 0 then 1 else if x = 1 then 0 else x

theorem swap01_inj : Function.Injective swap01 := by
  intro a b h
  unfold swap01 at h
  split at h <;> split at h <;> (try split at h) <;> (try split at h) <;> omega

def exIfaceDepA : GraphVal :=
  { exIfaceDep with
    nodes := match exIfaceDep.nodes.map (renameNode swap01) with
      | [a, b, c] => [b, a, c]
      | l => l }

def exIfaceDepASkel : Skeleton :=
  match encode exIfaceDepA { define := true } with
  | .ok s => s
  | _ => []

/-- `creation_order_counterexample`: two well-formed graph values that differ by a renaming of
    node indices, both encoded successfully, with different import names -/
theorem creation_order_counterexample :
    Reordered swap01 exIfaceDep exIfaceDepA ∧ WF exIfaceDep ∧ WF exIfaceDepA ∧
    encode exIfaceDep { define := true } = .ok exIfaceDepSkel ∧
    encode exIfaceDepA { define := true } = .ok exIfaceDepASkel ∧
    (importItems exIfaceDepSkel).map (·.1) = [cD12, cV, cU, ['x', 'i', '1']] ∧
    (importItems exIfaceDepASkel).map (·.1) = [cD10, cU, cV, ['x', 'i', '1']] ∧
    ¬ (∀ x, x ∈ importItems exIfaceDepSkel ↔ x ∈ importItems exIfaceDepASkel) := by
  refine ⟨⟨swap01_inj, rfl, List.Perm.swap _ _ _, by decide⟩, wfCheck_sound (by decide), wfCheck_sound (by decide),
    exIfaceDep_encode, by rfl, by decide, by decide, ?_⟩
  intro h
  have := (h (cD12, .instance)).mp (by decide)
  revert this
  decide

end Examples

end Wac.Props.C03
