import WacModel.Encode
import WacModel.Spec.Wiring
namespace Wac.Props.C02
open Wac Wac.Spec

/-- the section reader is a left fold: reading one more item is one more step -/
theorem wiringSt_snoc (sk : Skeleton) (it : Item) : wiringSt (sk ++ [it]) = wstep (wiringSt sk) it := by
  simp [wiringSt, List.foldl_append]

end Wac.Props.C02
