import WacProofs.Lemmas.EncodeImports2
import WacProofs.Lemmas.Toposort
import WacProofs.Lemmas.SpecFold
import WacProofs.Lemmas.Aggregate
/-
  C02 — encoded wiring is exactly the composition graph (translation validation, proved once
  for all graph values).

  Objects: `encode : GraphVal → Opts → Res Skeleton` is the model of
  `CompositionGraphEncoder::encode`; `wiring : Skeleton → Wiring` is the Lean section reader
  (provenance of every index); `specWiringWith g cn define ord` is the wiring the graph
  designates (read off the public queries) for the emission order `ord` and the naming `cn` of
  shared imports.
-/
namespace Wac.Props.C02
open Wac Wac.Spec

/-- a wiring without its import list (imports/exports *names* are C03's) -/
def core (w : Wiring) : Wiring := { w with imports := [] }

/-- the non-import nodes in emission order -/
def others (g : GraphVal) (order : List Nat) : List Nat := order.filter fun id => !isImportNode g id
/-- the import nodes in emission order -/
def importsOf (g : GraphVal) (order : List Nat) : List Nat := order.filter (isImportNode g)

/-
  Full statement (C02):

    theorem wiring_encode : WF g → toposort g = .ok order → encode g o = .ok s →
        core (wiring s) = core (specWiring g o.define (others g order))

  where `specWiring` names every shared import for the highest version on its semver track
  (`Spec.canon`) and there is no hypothesis on the aggregated imports.

  Proved here (`wiring_encode_partial`): the same equation with the naming of shared imports
  taken from the model's aggregator (`agg.canonical`) and under `AggHyp g agg`.  Missing for the
  full strength: (1) `agg.canonical = Spec.canon g` and the `implicitKind / explicitKind` parts of `AggHyp` — properties of the name-level aggregation alone, the subject
  of C03 (`canonical_is_highest`, `canonical_kind`); (2) `AggHyp.ifaceNamed`, which is *false*
  for the shape of known finding `enc-explicit-interface-import-merged` (there the real
  encoder, and the model, wire a designated explicit import to another import), so the full
  statement without it does not hold for the unchanged code.
-/
theorem wiring_encode_of_aggOk {g : GraphVal} {o : Opts} {s : Skeleton} {order : List Nat} {agg : Agg}
    (wf : WF g) (ht : toposort g = .ok order)
    (hagg : aggOf g (importsOf g order) = some agg) (hok : AggOk g agg)
    (he : encode g o = .ok s) :
    core (wiring s) = core (specWiringWith g agg.canonical o.define (others g order)) := by
  unfold encode at he
  cases hst : encodeSt g o with
  | error e => simp [hst] at he
  | panic p => simp [hst] at he
  | ok st =>
    simp only [hst] at he
    injection he with he
    subst he
    unfold encodeSt at hst
    simp only [ht] at hst
    cases h1 : encodeImports g (order.filter (isImportNode g)) {} with
    | error e => simp [h1] at hst
    | panic p => simp [h1] at hst
    | ok st1 =>
      simp only [h1] at hst
      cases h2 : encNodes g o (order.filter fun id => !isImportNode g id) st1 with
      | error e => simp [h2] at hst
      | panic p => simp [h2] at hst
      | ok st2 =>
        simp only [h2] at hst
        cases h3 : encExports g g.exports st2 with
        | error e => simp [h3] at hst
        | panic p => simp [h3] at hst
        | ok st3 =>
          simp only [h3] at hst
          -- the import phase gives the loop invariant
          have hcomplete : ∀ nd ∈ g.nodes, nd.isImport = true → nd.id ∈ order.filter (isImportNode g) := by
            intro nd hnd hi
            have hin : nd.id ∈ order := (toposort_complete ht).2 _ (List.mem_map_of_mem (f := (·.id)) hnd)
            have : isImportNode g nd.id = true := by
              simp [isImportNode, node?_of_mem wf.idsNodup hnd, hi]
            exact List.mem_filter.mpr ⟨hin, this⟩
          have inv1 := encodeImports_inv (o := o) wf _ hcomplete hagg hok h1
          have inv2 := encNodes_inv wf _ inv1 h2
          generalize hss : (order.filter fun id => !isImportNode g id).foldl (specNode g agg.canonical o.define)
            { terms := importTerms g agg.canonical } = ss at inv2
          have hn2 : NodesOk g ss st2 := inv2.nodes
          obtain ⟨hs3, hext3, hni3, hw3⟩ := encExports_spec g.exports wf.defNames inv2.sync hn2 h3
          have hn3 : NodesOk g ss st3 := hn2.ext hext3 hni3
          have hw4 := encNames_spec wf hs3 hn3 hst
          show core (G st).w = _
          rw [hw4, hw3]
          simp only [core, specWiringWith, others, hss, inv2.insts, inv2.aliases, inv2.exports, inv2.comps,
            inv2.names, specExports, List.nil_append]

/-- what `wiring_encode_partial` assumes about the aggregated imports (`AggOk` without the
    distinctness of the import names, which is proved: `aggOf_keysNodup`) -/
structure AggHyp (g : GraphVal) (agg : Agg) : Prop where
  ifaceNamed : ∀ e ∈ fixedImports agg, e.2.kind = .instance → e.2.iface = none ∨ e.2.iface = some e.1 ∨
    ∃ i, e.2.iface = some i ∧ (providesIface e.1 i = false ∨
      (privIn (fixedImports agg) i ∧ ∀ e' ∈ fixedImports agg, e'.1 ≠ e.1 → e'.2.iface ≠ some i))
  implicitKind : ∀ n ∈ g.nodes, ∀ slot sat p, n.kind = .instantiation slot sat → g.pkg? slot = some p →
    ∀ r ∈ unsatisfied p sat, aggKind agg r.name = some r.ty.kind
  explicitKind : ∀ n ∈ g.nodes, ∀ nm, n.kind = .import nm → aggKind agg nm = some n.ty.kind

theorem aggHyp_of_aggOk {g : GraphVal} {agg : Agg} (h : AggOk g agg) : AggHyp g agg :=
  ⟨h.ifaceNamed, h.implicitKind, h.explicitKind⟩

theorem wiring_encode_partial {g : GraphVal} {o : Opts} {s : Skeleton} {order : List Nat} {agg : Agg}
    (wf : WF g) (ht : toposort g = .ok order)
    (hagg : aggOf g (importsOf g order) = some agg) (hok : AggHyp g agg)
    (he : encode g o = .ok s) :
    core (wiring s) = core (specWiringWith g agg.canonical o.define (others g order)) :=
  wiring_encode_of_aggOk wf ht hagg ⟨aggOf_keysNodup hagg, hok.ifaceNamed, hok.implicitKind, hok.explicitKind⟩ he

/-! ### consequences, stated separately (each is a reading of the equation above) -/

/-- the specification's state after the fold: the designated term of every node -/
def specState (g : GraphVal) (cn : Str → Str) (define : Bool) (ord : List Nat) : SpecSt :=
  ord.foldl (specNode g cn define) { terms := importTerms g cn }

/-- the item the composition designates for node `n` -/
def designated (g : GraphVal) (cn : Str → Str) (define : Bool) (ord : List Nat) (n : Nat) : Term :=
  (specState g cn define ord).term n

section
variable {g : GraphVal} {o : Opts} {s : Skeleton} {order : List Nat} {agg : Agg}
  (wf : WF g) (ht : toposort g = .ok order) (hagg : aggOf g (importsOf g order) = some agg) (hok : AggHyp g agg)
  (he : encode g o = .ok s)
include wf ht hagg hok he

/-- `one_instantiate_per_node`: the skeleton has exactly one instantiate item per instantiation
    node of the emission order (which lists every node once, `toposort_sound`) -/
theorem one_instantiate_per_node :
    (wiring s).insts.length = ((others g order).filter (isInstOf g)).length := by
  have h := congrArg Wiring.insts (wiring_encode_partial wf ht hagg hok he)
  simp only [core, specWiringWith] at h
  rw [h, fold_insts_length]
  simp

/-- `each_package_embedded_once`: with dependencies embedded, the embedded components are the
    instantiated packages, each once, in order of first instantiation; with dependencies imported
    nothing is embedded -/
theorem each_package_embedded_once :
    ∃ seen : List Nat, seen.Nodup ∧
      (o.define = true → (wiring s).comps = seen.filterMap fun slot => (g.pkg? slot).map (·.bytesId)) ∧
      (o.define = false → (wiring s).comps = []) := by
  have h := congrArg Wiring.comps (wiring_encode_partial wf ht hagg hok he)
  simp only [core, specWiringWith] at h
  have ok := fold_seenOk g agg.canonical o.define (others g order) { terms := importTerms g agg.canonical }
    ⟨by simp, fun _ => rfl, fun _ => rfl⟩
  exact ⟨_, ok.nodup, fun hd => by rw [h]; exact ok.comps hd, fun hd => by rw [h]; exact ok.nocomps hd⟩

/-- `export_binds_designated`: every entry `(name, node)` of the export map that is not the
    defining name of a definition is an export item of the skeleton binding `name`, with the
    node's kind, to the node's designated item -/
theorem export_binds_designated (name : Str) (id : Nat) (hmem : (name, id) ∈ g.exports) (n : Node)
    (hn : g.node? id = some n) (hnd : ¬ (n.isDefinition = true ∧ n.exportName = some name)) :
    (name, n.ty.kind, designated g agg.canonical o.define (others g order) id) ∈ (wiring s).exports := by
  have h := congrArg Wiring.exports (wiring_encode_partial wf ht hagg hok he)
  simp only [core, specWiringWith] at h
  rw [h]
  apply List.mem_append_right
  simp only [specExports, List.mem_filterMap]
  exact ⟨(name, id), hmem, by simp [specExport1, hn, hnd, designated, specState]⟩

/-- `names_map_to_realising_index`: every named node is named, in the map of its kind, at the
    index of its designated item -/
theorem names_map_to_realising_index (n : Node) (hn : n ∈ g.nodes) (nm : Str) (hname : n.name = some nm) :
    (n.ty.kind, designated g agg.canonical o.define (others g order) n.id, nm) ∈ (wiring s).names := by
  have h := congrArg Wiring.names (wiring_encode_partial wf ht hagg hok he)
  simp only [core, specWiringWith] at h
  rw [h]
  simp only [specNames, List.mem_flatMap, List.mem_filterMap]
  refine ⟨n.ty.kind, by cases n.ty.kind <;> simp, n, hn, by simp [specName1, hname, designated, specState]⟩

/-- `alias_reads_designated`: every alias item of the skeleton reads the designated export of the
    designated instance of an alias node: instance = the designated term of the node's source
    (`bad` only if the source was not emitted before the alias, which `toposort_sound` excludes
    for sources that are live nodes) -/
theorem alias_reads_designated (a : Term × Kind × Str) (ha : a ∈ (wiring s).aliases) :
    ∃ id n src, g.node? id = some n ∧ n.kind = .alias ∧ n.aliasSource = some (src, a.2.2) ∧ a.2.1 = n.ty.kind ∧
      (a.1 = designated g agg.canonical o.define (others g order) src ∨ a.1 = .bad) := by
  have h := congrArg Wiring.aliases (wiring_encode_partial wf ht hagg hok he)
  simp only [core, specWiringWith] at h
  rw [h] at ha
  have ok := fold_readsOk g agg.canonical o.define (others g order) { terms := importTerms g agg.canonical }
    ⟨by simp, by simp⟩
  obtain ⟨id, n, src, h1, h2, h3, h4, h5⟩ := ok.aliases a ha
  refine ⟨id, n, src, h1, h2, h3, h4, ?_⟩
  rcases h5 with h5 | h5
  · left
    simp [designated, specState, SpecSt.term]
    have : natGet (List.foldl (specNode g agg.canonical o.define) { terms := importTerms g agg.canonical } (others g order)).terms src = some a.1 := h5
    simp [natGet] at this
    obtain ⟨x, hx⟩ := this
    simp [hx]
  · exact Or.inr h5

/-- `arg_is_designated_item`: every argument of every instantiate item is the designated item:
    for the name of an argument edge the designated term of the edge's source node (an explicit
    import, a named export of a specific instance, …), otherwise the implicit import of that name
    under its canonical name -/
theorem arg_is_designated_item (i : InstW) (hi : i ∈ (wiring s).insts) (a : Str × Kind × Term) (ha : a ∈ i.args) :
    (∃ id n src, g.node? id = some n ∧ (a.1, src) ∈ n.args ∧ a.2.1 = kindOf g src ∧
      (a.2.2 = designated g agg.canonical o.define (others g order) src ∨ a.2.2 = .bad)) ∨
    a.2.2 = .imp (agg.canonical a.1) := by
  have h := congrArg Wiring.insts (wiring_encode_partial wf ht hagg hok he)
  simp only [core, specWiringWith] at h
  rw [h] at hi
  have ok := fold_readsOk g agg.canonical o.define (others g order) { terms := importTerms g agg.canonical }
    ⟨by simp, by simp⟩
  rcases ok.args i hi a ha with ⟨id, n, src, h1, h2, h3, h5⟩ | h'
  · left
    refine ⟨id, n, src, h1, h2, h3, ?_⟩
    rcases h5 with h5 | h5
    · left
      have : natGet (List.foldl (specNode g agg.canonical o.define) { terms := importTerms g agg.canonical } (others g order)).terms src = some a.2.2 := h5
      simp [designated, specState, SpecSt.term]
      simp [natGet] at this
      obtain ⟨x, hx⟩ := this
      simp [hx]
    · exact Or.inr h5
  · exact Or.inr h'

end

/-- `toposort_sound`: a successful toposort lists every live node exactly once, and every node
    after all the sources of its incoming edges (argument sources, alias source, type
    dependencies) -/
theorem toposort_sound {g : GraphVal} {order : List Nat} (ht : toposort g = .ok order) :
    order.Nodup ∧ (∀ n ∈ g.ids, n ∈ order) ∧
      ∀ pre n post, order = pre ++ n :: post → ∀ p ∈ g.preds n, p = n ∨ p ∈ pre :=
  ⟨(toposort_complete ht).1, (toposort_complete ht).2, toposort_preds_before ht⟩

end Wac.Props.C02

namespace Wac.Props.C02
open Wac Wac.Spec

/-! ### a concrete composition meeting every hypothesis (non-vacuity)

  packages `a` (imports `f`, `x:y/i@1.0.0`) and `b` (imports `g`); nodes: 0 = import `f`,
  1 = instantiate `a` with `f` ← node 0 (the interface import stays implicit), 2 = alias of
  export `out` of node 1, 3 = instantiate `b` with `g` ← node 2, 4 = a second instantiation of
  `a` with `f` ← node 2; node 3 is exported under two names, nodes 1 and 2 are named. -/

def exPkgA : PkgVal :=
  { slot := 0, name := ['t', ':', 'a'], version := some ['1', '.', '0', '.', '0'], bytesId := 0,
    imports := [{ name := ['f'], ty := { kind := .func } },
                { name := ['x', ':', 'y', '/', 'i', '@', '1', '.', '0', '.', '0'], ty := { kind := .instance, iface := some ['x', ':', 'y', '/', 'i', '@', '1', '.', '0', '.', '0'] } }] }
def exPkgB : PkgVal :=
  { slot := 1, name := ['t', ':', 'b'], version := none, bytesId := 1,
    imports := [{ name := ['g'], ty := { kind := .func } }] }

def exGraph : GraphVal :=
  { pkgs := [exPkgA, exPkgB],
    nodes := [
      { id := 0, kind := .import ['f'], ty := { kind := .func }, succ := [1] },
      { id := 1, kind := .instantiation 0 [0], ty := { kind := .instance }, name := some ['f', 'i', 'r', 's', 't'],
        inc := [(.arg 0 ['f'], 0)], succ := [2] },
      { id := 2, kind := .alias, ty := { kind := .func }, name := some ['o', 'u', 't'],
        inc := [(.alias ['o', 'u', 't'], 1)], succ := [4, 3] },
      { id := 3, kind := .instantiation 1 [0], ty := { kind := .instance }, inc := [(.arg 0 ['g'], 2)] },
      { id := 4, kind := .instantiation 0 [0], ty := { kind := .instance }, inc := [(.arg 0 ['f'], 2)] }],
    exports := [(['e', '1'], 3), (['e', '2'], 3)] }

def exOrder : List Nat := [0, 1, 2, 3, 4]
def exAgg : Agg :=
  { imports := [(['x', ':', 'y', '/', 'i', '@', '1', '.', '0', '.', '0'], { kind := .instance, iface := some ['x', ':', 'y', '/', 'i', '@', '1', '.', '0', '.', '0'] }), (['f'], { kind := .func })],
    ifaces := [['x', ':', 'y', '/', 'i', '@', '1', '.', '0', '.', '0']] }

theorem exGraph_wf : WF exGraph := wfCheck_sound (by decide)
theorem exGraph_toposort : toposort exGraph = .ok exOrder := by decide
theorem exGraph_agg : aggOf exGraph (importsOf exGraph exOrder) = some exAgg := by decide
theorem exGraph_aggOk : AggHyp exGraph exAgg := aggHyp_of_aggOk (aggOkCheck_sound (by decide))

def exSkel : Skeleton :=
  match encode exGraph { define := true } with
  | .ok s => s
  | _ => []

theorem exGraph_encode : encode exGraph { define := true } = .ok exSkel := by rfl

/-- the hypotheses of `wiring_encode_partial` are met by `exGraph`, and its conclusion is not
    trivial: two instantiations of one package and one of another, the implicit interface
    import shared by both instantiations of `a`, a node exported under two names -/
example :
    core (wiring exSkel) = core (specWiringWith exGraph exAgg.canonical true (others exGraph exOrder)) ∧
    (wiring exSkel).insts.length = 3 ∧ (wiring exSkel).comps = [0, 1] ∧
    ((wiring exSkel).insts.map fun i => i.args.map (·.2.2)) =
      [[.imp ['f'], .imp ['x', ':', 'y', '/', 'i', '@', '1', '.', '0', '.', '0']],
       [.aliasOf (.inst 0) ['o', 'u', 't']],
       [.aliasOf (.inst 0) ['o', 'u', 't'], .imp ['x', ':', 'y', '/', 'i', '@', '1', '.', '0', '.', '0']]] ∧
    (wiring exSkel).exports = [(['e', '1'], .instance, .inst 1), (['e', '2'], .instance, .inst 1)] :=
  ⟨wiring_encode_partial exGraph_wf exGraph_toposort exGraph_agg exGraph_aggOk exGraph_encode,
   by decide, by decide, by decide, by decide⟩

/-! ### the pinned behaviour that contradicts the property: a definition renamed by `export()`

  `define_type("d", T); export(node, "e")`: the export map lists `d ↦ node` and `e ↦ node`
  (`get_export` answers both), `Node.export = "e"`.  The encoder exports the type under `e`
  only.  `WF.defNames` excludes this shape from `wiring_encode_partial`; without it the equation
  is false: -/

def exRenamed : GraphVal :=
  { pkgs := [],
    nodes := [{ id := 0, kind := .definition, ty := { kind := .type }, exportName := some ['e'] }],
    exports := [(['d'], 0), (['e'], 0)] }

def exRenamedSkel : Skeleton :=
  match encode exRenamed {} with
  | .ok s => s
  | _ => []

theorem exRenamed_encode : encode exRenamed {} = .ok exRenamedSkel := by rfl

/-- known finding `enc-definition-renamed-by-export`: the designated export `d` is missing -/
theorem wiring_encode_counterexample :
    ¬ (core (wiring exRenamedSkel) = core (specWiringWith exRenamed (fun n => n) true [0])) ∧
    (wiring exRenamedSkel).exports.map (·.1) = [['e']] ∧
    (specWiringWith exRenamed (fun n => n) true [0]).exports.map (·.1) = [['e'], ['d']] := by
  refine ⟨by decide, by decide, by decide⟩

end Wac.Props.C02
