import WacModel.HashSites
import WacProofs.Lemmas.HashSites
/-
  C16 — composition is reproducible.

  A Lean function is deterministic, so the theorems are about the only thing that can make
  the Rust code nondeterministic on this path: iteration over hash-ordered containers.
  `Generated/HashSites.lean` lists every such iteration in the current source
  (tools/translate_hashsites.py); `sites_covered` checks that each of them is one of the sites
  modelled in WacModel/HashSites.lean with the iteration order `ρ` as an explicit argument, and
  one theorem per site shows that the observable result does not depend on `ρ` (any two
  permutations of the entries give the same result).  A new hash iteration in the source, or
  one of the two repaired ones coming back, makes `sites_covered` false.

  The multi-process byte comparison (harness/src/bin/c16.rs) ties this to the real code.
-/
namespace Wac.Props.C16
open Wac Wac.Graph Wac.HashSites

/-- every hash-ordered iteration found in the source is a modelled site -/
theorem sites_covered : ∀ s ∈ Generated.hashSites, s ∈ modelledSites := by decide

/-- the scan found no use of clocks, randomness, threads, the environment or pointer values
    in the scanned files -/
theorem no_other_nondeterminism : Generated.otherNondeterminism = [] := by decide

/-- the scan read the files the property anchors -/
theorem anchored_files_scanned :
    "crates/wac-graph/src/graph.rs" ∈ Generated.scannedFiles ∧
    "crates/wac-graph/src/encoding.rs" ∈ Generated.scannedFiles ∧
    "crates/wac-types/src/aggregator.rs" ∈ Generated.scannedFiles := by decide

/-! ### site 1: `unregister_package`, `self.imports.retain(..)` -/

/-- the retained entries are the same set, and (import names being unique) every later lookup
    in the map gives the same answer, whatever the iteration order -/
theorem site_unregister_imports_retain_insensitive {κ : Type} [DecidableEq κ]
    (ρ ρ' : List (κ × Nat) → List (κ × Nat)) (m : List (κ × Nat)) (keep : κ × Nat → Bool)
    (hρ : (ρ m).Perm m) (hρ' : (ρ' m).Perm m) (nd : (m.map (·.1)).Nodup) :
    (retainWith ρ m keep).Perm (retainWith ρ' m keep) ∧
    ∀ k, alGet (retainWith ρ m keep) k = alGet (retainWith ρ' m keep) k := by
  have hp : (retainWith ρ m keep).Perm (retainWith ρ' m keep) :=
    (hρ.trans hρ'.symm).filter keep
  refine ⟨hp, fun k => alGet_of_perm hp ?_ k⟩
  have h1 : ((ρ m).map (·.1)).Nodup := ((hρ.map (·.1)).nodup_iff).mpr nd
  exact (List.Sublist.map _ List.filter_sublist).nodup h1

example : retainWith List.reverse [(1, 10), (2, 20), (3, 30)] (fun e => e.2 != 20) ≠
    retainWith id [(1, 10), (2, 20), (3, 30)] (fun e => e.2 != 20) := by decide

/-! ### site 2: `encode_imports`, `for (name, node) in explicit_imports` -/

/-- the node → encoded-index map built by the loop answers every lookup the same way for
    every iteration order (each explicit import is its own node) -/
theorem site_encode_imports_explicit_insensitive
    (ρ ρ' : List (Str × Nat) → List (Str × Nat)) (explicit : List (Str × Nat)) (encoded : Str → Nat)
    (init : List (Nat × Nat)) (hρ : (ρ explicit).Perm explicit) (hρ' : (ρ' explicit).Perm explicit)
    (nd : (explicit.map (·.2)).Nodup) (n : Nat) :
    alGet (populateNodeIndexes ρ explicit encoded init) n =
    alGet (populateNodeIndexes ρ' explicit encoded init) n := by
  have key : ∀ (l : List (Str × Nat)), l.Perm explicit →
      alGet (l.foldl (fun acc e => alInsert acc e.2 (encoded e.1)) init) n =
      match explicit.find? (fun e => e.2 = n) with
      | some e => some (encoded e.1)
      | none => alGet init n := by
    intro l hl
    have ndl : (l.map (·.2)).Nodup := ((hl.map (·.2)).nodup_iff).mpr nd
    have h1 := alGet_foldl_insert (fun e : Str × Nat => (e.2, encoded e.1)) l init n ndl
    simp only at h1
    rw [h1]
    -- with distinct node ids `find?` picks the same entry in both lists
    cases hf : l.find? (fun e => decide (e.2 = n)) with
    | none =>
      have : explicit.find? (fun e => decide (e.2 = n)) = none := by
        rw [List.find?_eq_none] at hf ⊢
        intro e he; exact hf e (hl.mem_iff.mpr he)
      rw [this]
    | some e =>
      have he := List.mem_of_find?_eq_some hf
      have hp := List.find?_some hf
      simp only [decide_eq_true_eq] at hp
      cases hf' : explicit.find? (fun e => decide (e.2 = n)) with
      | none =>
        rw [List.find?_eq_none] at hf'
        exact absurd (by simpa using hp) (by simpa using hf' e (hl.mem_iff.mp he))
      | some e' =>
        have he' := List.mem_of_find?_eq_some hf'
        have hp' := List.find?_some hf'
        simp only [decide_eq_true_eq] at hp'
        -- same node id, distinct ids ⇒ same entry
        have : e = e' := eq_of_nodup_map_snd nd (hl.mem_iff.mp he) he' (by rw [hp, hp'])
        rw [this]
  unfold populateNodeIndexes
  rw [key _ hρ, key _ hρ']

/-! ### site 3: `find_semver_compatible_interface`, `for (name, id) in &self.interfaces` -/

/-- all names registered on one semver track denote the same interface (what
    `remap_interface` maintains: a name is entered with a fresh id only when no entry is on
    its track, otherwise with the id found through the track) -/
def TrackInv (interfaces : List (Str × Nat)) : Prop :=
  ∀ e₁ ∈ interfaces, ∀ e₂ ∈ interfaces, sameTrack e₁.1 e₂.1 = true → e₁.2 = e₂.2

instance (l : List (Str × Nat)) : Decidable (TrackInv l) := by unfold TrackInv; infer_instance

/-- two names on the track of a third are on one track -/
theorem sameTrack_of_common {a b q : Str} (ha : sameTrack a q = true) (hb : sameTrack b q = true) :
    sameTrack a b = true := by
  unfold sameTrack at *
  cases hka : altKey a with
  | none => simp [hka] at ha
  | some ka =>
    cases hkb : altKey b with
    | none => simp [hkb] at hb
    | some kb =>
      cases hkq : altKey q with
      | none => simp [hka, hkq] at ha
      | some kq =>
        simp only [hka, hkb, hkq, beq_iff_eq] at ha hb ⊢
        rw [ha, hb]

theorem site_find_semver_compatible_interface_insensitive
    (ρ ρ' : List (Str × Nat) → List (Str × Nat)) (interfaces : List (Str × Nat)) (name : Str)
    (hρ : (ρ interfaces).Perm interfaces) (hρ' : (ρ' interfaces).Perm interfaces)
    (inv : TrackInv interfaces) :
    findSemverCompatibleInterface ρ interfaces name = findSemverCompatibleInterface ρ' interfaces name := by
  unfold findSemverCompatibleInterface
  cases h : (ρ interfaces).find? (fun e => sameTrack e.1 name) with
  | none =>
    have : (ρ' interfaces).find? (fun e => sameTrack e.1 name) = none := by
      rw [List.find?_eq_none] at h ⊢
      intro e he
      exact h e (hρ.mem_iff.mpr (hρ'.mem_iff.mp he))
    rw [this]
  | some e =>
    have he := hρ.mem_iff.mp (List.mem_of_find?_eq_some h)
    have hp := List.find?_some h
    cases h' : (ρ' interfaces).find? (fun e => sameTrack e.1 name) with
    | none =>
      rw [List.find?_eq_none] at h'
      exact absurd hp (h' e (hρ'.mem_iff.mpr he))
    | some e' =>
      have he' := hρ'.mem_iff.mp (List.mem_of_find?_eq_some h')
      have hp' := List.find?_some h'
      simp only [Option.map_some, Option.some.injEq]
      exact inv e he e' he' (sameTrack_of_common hp hp')

/-- `remap_interface` keeps `TrackInv`: a name is inserted with the id found on its track, or
    with a fresh id when nothing is on its track -/
theorem trackInv_insert (interfaces : List (Str × Nat)) (name : Str) (id : Nat)
    (inv : TrackInv interfaces)
    (h : ∀ e ∈ interfaces, (sameTrack e.1 name = true ∨ sameTrack name e.1 = true) → e.2 = id) :
    TrackInv ((name, id) :: interfaces) := by
  intro e₁ h₁ e₂ h₂ t
  rcases List.mem_cons.mp h₁ with rfl | h₁ <;> rcases List.mem_cons.mp h₂ with rfl | h₂
  · rfl
  · exact (h e₂ h₂ (Or.inr t)).symm
  · exact h e₁ h₁ (Or.inl t)
  · exact inv e₁ h₁ e₂ h₂ t

example : TrackInv [("a:b/c@0.2.1".toList, 7), ("a:b/c@0.2.0".toList, 7), ("a:b/d@1.0.0".toList, 8)] := by
  decide

/-! ### site 4: `aggregate`, `for redirect in self.name_redirects.values_mut()` -/

theorem site_name_redirects_update_insensitive
    (ρ ρ' : List (Str × Str) → List (Str × Str)) (redirects : List (Str × Str)) (old new : Str)
    (hρ : (ρ redirects).Perm redirects) (hρ' : (ρ' redirects).Perm redirects)
    (nd : (redirects.map (·.1)).Nodup) :
    (updateRedirects ρ redirects old new).Perm (updateRedirects ρ' redirects old new) ∧
    ∀ k, alGet (updateRedirects ρ redirects old new) k = alGet (updateRedirects ρ' redirects old new) k := by
  have hp : (updateRedirects ρ redirects old new).Perm (updateRedirects ρ' redirects old new) :=
    (hρ.trans hρ'.symm).map _
  refine ⟨hp, fun k => alGet_of_perm hp ?_ k⟩
  have h1 : ((ρ redirects).map (·.1)).Nodup := ((hρ.map (·.1)).nodup_iff).mpr nd
  have : (updateRedirects ρ redirects old new).map (·.1) = (ρ redirects).map (·.1) := by
    unfold updateRedirects
    rw [List.map_map]
    apply List.map_congr_left
    intro e _
    simp only [Function.comp]
    split <;> rfl
  rw [this]; exact h1

/-! ### the repaired site: `define_type` iterating the `defined` map (DESIGN §10 row 5) -/

/-- the small universe of Props/C06 (types 2 → 1 → 0) -/
def ctxW : Ctx where
  kindExports _ := none
  sub a b := a == b
  tyVisits ty := if ty = 0 then [0] else if ty = 1 then [1, 0] else [2, 0]
  tyIsResource _ := false
  tyKind ty := 10 + ty
  validExtern s := !s.isEmpty
  validExport s := !s.isEmpty

/-- the pinned code iterated a `HashMap` here: two iteration orders of the same map give two
    different adjacency orders (which the topological sort, hence the bytes, follow) -/
theorem define_type_order_sensitive_counterexample :
    let g := (run ctxW {} [.defineType ['c'] 2, .defineType ['b'] 1]).1
    (defineTypeWith List.reverse ctxW g ['a'] 0).1.edges ≠ (defineTypeWith id ctxW g ['a'] 0).1.edges ∧
    (defineTypeWith List.reverse ctxW g ['a'] 0).1.edges.Perm (defineTypeWith id ctxW g ['a'] 0).1.edges := by
  decide

/-- after the repair the map is insertion ordered: `define_type` is the function of the
    history alone that the model's `defineType` is (no order argument) -/
theorem define_type_deterministic (ctx : Ctx) (g : Graph) (name : Str) (ty : Ty) :
    defineType ctx g name ty = defineTypeWith id ctx g name ty := rfl

/-- cloning: the model has no hidden state, `encode (clone g)` and `encode g` are the same
    function applied to equal arguments; for every query `q` of the state -/
theorem clone_observably_equal {α : Type} (q : Graph → α) (g : Graph) : q (id g) = q g := rfl

/-! ### site 5: `resolve_imports`, `instantiations.iter().filter(..).map(..).min()` -/

/-- the node reported as the first one of an import-merge conflict (the least node index among the
    instantiations on the track) is the same for every iteration order -/
theorem site_resolve_imports_first_insensitive
    (ρ ρ' : List (Str × Nat) → List (Str × Nat)) (insts : List (Str × Nat)) (onTrack : Str → Bool)
    (dflt : Nat) (hρ : (ρ insts).Perm insts) (hρ' : (ρ' insts).Perm insts) :
    firstOnTrack ρ insts onTrack dflt = firstOnTrack ρ' insts onTrack dflt := by
  have hp : (((ρ insts).filter (fun e => onTrack e.1)).map (·.2)).Perm
      (((ρ' insts).filter (fun e => onTrack e.1)).map (·.2)) :=
    ((hρ.trans hρ'.symm).filter _).map _
  unfold firstOnTrack
  generalize ((ρ insts).filter (fun e => onTrack e.1)).map (·.2) = a at hp
  generalize ((ρ' insts).filter (fun e => onTrack e.1)).map (·.2) = b at hp
  cases a with
  | nil => have := hp.symm.eq_nil; subst this; rfl
  | cons x xs =>
    cases b with
    | nil => exact absurd hp.eq_nil (by simp)
    | cons y ys =>
      simp only
      obtain ⟨m1, l1⟩ := minOf_spec x xs
      obtain ⟨m2, l2⟩ := minOf_spec y ys
      exact Nat.le_antisymm (l1 _ (hp.mem_iff.mpr m2)) (l2 _ (hp.mem_iff.mp m1))

example : firstOnTrack List.reverse [("a".toList, 5), ("b".toList, 2), ("c".toList, 9)] (fun _ => true) 0 = 2 := by decide

end Wac.Props.C16
